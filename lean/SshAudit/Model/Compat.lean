/-
  The `(gen) compatibility:` and `(gen) software:` lines of the standard report.

  Mirrored branch by branch from `/repo/src/ssh_audit/ssh_audit.py` (`output_compatibility(out, algs,
  client_audit, for_server)` and the part of `output()` that decides whether the two lines are printed),
  `algorithms.py` (`Algorithms.ssh2`, `get_ssh_timeframe`), `timeframe.py` and `software.py`
  (`Software.display`, `__str__`).  Everything below the line formats is shared with the existing model:
  `Version.sshTimeframe` / `tfUpdate` / `collectVersions` / `slotStep` (the time frame), `Version.compareVersion`
  (the `X+ (some functionality from Y)` branch), `Version.display` / `Version.parse` (the software text),
  `Output.generalItems` (the `# general` section), `Ssh1Report.compatParts` (the same loop with
  `for_server = True`, used by the SSH-1 report — `Props/C14Compat.parts_server_eq_ssh1` proves the two equal).

  What `output()` does (and the model therefore does as well):
  * `output_compatibility(out, algs, client_audit)` is called with the default `for_server = True`;
    a client audit (`client_host is not None`) prints no compatibility line at all;
  * the time frame is taken over `Algorithms.values`: for an SSH-2 peer the four lists `kex`, `key`,
    `server.encryption`, `server.mac`, looked up by the *advertised* name (no `gss-…` normalisation here);
  * only `OpenSSH` and `Dropbear SSH` are ever printed, in this order (libssh entries enter the time frame and
    are never shown); a product is skipped when it is not in the time frame or has no lower bound;
  * the line is printed when at least one product is left;
  * `(gen) software:` is `str(Software.parse(banner))` = `display(True)`, printed whenever the banner is recognised —
    also in a client audit; the recommendations title uses `display(False)`.

  Core Lean only.
-/
import SshAudit.Model.Ssh1Report
namespace SshAudit
namespace Compat
open Report (s kexC keyC encC macC)
open Version

/-- the `(alg_type, alg_list)` pairs of `Algorithms.ssh2`: kex, key, `server.encryption`, `server.mac` -/
def items2 (peer : Report.Peer) : List (Str × List Str) :=
  [(kexC, peer.kex), (keyC, peer.key), (encC, peer.encS), (macC, peer.macS)]

/-- `algs.get_ssh_timeframe(for_server)` with a `bool` argument (what `output_compatibility` passes) -/
def timeframe (db : DB) (items : List (Str × List Str)) (forServer : Bool) : Timeframe :=
  sshTimeframe [] db items (some forServer)

/-- one round of `for ssh_prod in [Product.OpenSSH, Product.DropbearSSH]`: the text appended to `comp_text`
    (`none`: `continue`) -/
def partOf (tf : Timeframe) (forServer : Bool) (prod : Str) : Option Str :=
  if tfContains tf prod = false then none else
  match tfGetFrom tf prod forServer with
  | none => none
  | some vfrom =>
    match tfGetTill tf prod forServer with
    | none => some (prod ++ s " " ++ vfrom ++ s "+")
    | some vtill =>
      if vfrom = vtill then some (prod ++ s " " ++ vfrom)
      else if compareVersion ⟨none, prod, vfrom, none, none⟩ vtill > 0 then
        some (prod ++ s " " ++ vfrom ++ s "+ (some functionality from " ++ vtill ++ s ")")
      else some (prod ++ s " " ++ vfrom ++ s "-" ++ vtill)

/-- the products `output_compatibility` asks about, in its order -/
def shownProducts : List Str := [pOpenSSH, pDropbear]

/-- `comp_text` -/
def partsFor (tf : Timeframe) (forServer : Bool) : List Str := shownProducts.filterMap (partOf tf forServer)

/-- the text after `(gen) compatibility: ` (`none`: nothing is printed) for
    `output_compatibility(out, algs, client_audit, for_server)` -/
def compatText (db : DB) (items : List (Str × List Str)) (clientAudit forServer : Bool) : Option Str :=
  if clientAudit then none
  else
    let parts := partsFor (timeframe db items forServer) forServer
    if parts.length > 0 then some (Text.join (s ", ") parts) else none

/-- the call `out.good('(gen) compatibility: ' + ', '.join(comp_text))` -/
def compatItems (t : Option Str) : List Output.Item :=
  match t with
  | some c => [{ meth := .good, text := s "(gen) compatibility: " ++ c }]
  | none => []

/-- the text of the line as the report shows it -/
def compatLine (db : DB) (items : List (Str × List Str)) (clientAudit forServer : Bool) : Option Str :=
  (compatText db items clientAudit forServer).map (s "(gen) compatibility: " ++ ·)

/-! ### the software line -/

/-- `Software.parse(banner)` (`software = None` without a banner) -/
def softwareOf (b : Option Banner.Banner) : Option Software :=
  match b with
  | some b => parse b.software b.comments
  | none => none

/-- `str(software)` = `software.display()` = `display(True)` -/
def softwareText (b : Option Banner.Banner) : Option Str := (softwareOf b).map (fun sw => display sw true)

/-- the text of the `(gen) software:` line -/
def softwareLine (b : Option Banner.Banner) : Option Str := (softwareText b).map (s "(gen) software: " ++ ·)

/-! ### how `output()` fills the `# general` section of an SSH-2 audit -/

/-- the banner as the `# general` section shows it (`sshv == 2`: flagged as SSH-1 only by its own protocol number) -/
def bannerInfo (b : Banner.Banner) : Output.BannerInfo :=
  { text := Banner.render b, ssh1 := decide (b.protocol.1 = 1), validAscii := b.validAscii, software := softwareText (some b) }

/-- `output(out, aconf, banner, header, client_host, kex=kex)`: the banner, software and compatibility inputs of the
    presentation model, derived from the database, the peer's lists, the parsed banner and the role instead of being given -/
def fill (db : DB) (peer : Report.Peer) (banner : Option Banner.Banner) (clientHost : Option Str) (inp : Output.Input) : Output.Input :=
  { inp with
    clientIP := clientHost,
    banner := banner.map bannerInfo,
    swDisplay := (softwareOf banner).map (fun sw => display sw false),
    compat := compatText db (items2 peer) clientHost.isSome true }

end Compat
end SshAudit
