import SshAudit.Driver.WireOps
import SshAudit.Model.Session
namespace SshAudit.Driver
open SshAudit SshAudit.Session

def decHandshake : String → Option Handshake
  | "connectFailed" => some .connectFailed | "noBanner" => some .noBanner | "readError" => some .readError
  | "badFraming" => some .badFraming | "wrongPacketType" => some .wrongPacketType | "parseFailed" => some .parseFailed
  | "ok" => some .ok | _ => none

def decMode : String → Option Mode
  | "standard" => some .standard | "policy" => some .policy | "makePolicy" => some .makePolicy | _ => none

/-- line-protocol operations of the Session model -/
def sessionOp (op : String) (args : List String) : Option J :=
  match op, args with
  | "audit.end", [h, m, multi, st, passed] => do
    let h ← decHandshake h; let m ← decMode m; let multi ← decBool multi; let st ← decNat st; let passed ← decBool passed
    let e := auditEnd { mode := m, multiTarget := multi } h { reportStatus := st, policyPassed := passed }
    pure (jok (.obj [("status", .nat e.status), ("algReport", .bool e.algReport), ("viaSysExit", .bool e.viaSysExit)]))
  | _, _ => none

end SshAudit.Driver
