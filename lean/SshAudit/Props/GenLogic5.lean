/-
  Regenerated logic against the hand-written model, fifth unit (round 15): the SSH-2 multiple-precision integer reader (C10).

  `Gen.Logic.parse_mpint` is `ReadBuf._parse_mpint` and `Gen.Logic.mpint2_pad_fmt` the choice of padding byte and first-word format in
  `ReadBuf.read_mpint2`, as `harness/translate_logic.py` reads them from the source on every run (`struct.unpack` of one field is
  `Py.unpack1`, the `for i in range(0, len(v), 4)` loop a fold that can raise).  `read_mpint2_eq_model` says that together they compute the
  two's-complement value of the byte string — `Wire.signedBE`, the function the round-trip theorems of C10 are about — for every non-empty
  byte string.  The second half of the file does the same for the writer, `WriteBuf._create_mpint`.  (The defect D01 lived here: every 32-bit word was unpacked as signed.)
-/
import SshAudit.Gen.Logic5
import SshAudit.Lemmas.Py
import SshAudit.Model.Wire
import SshAudit.Lemmas.Wire
import SshAudit.Props.C10
set_option linter.unusedSimpArgs false
namespace SshAudit.GenLogic
open SshAudit

/-! ### `(r << 32) | t` is `r * 2^32 + t` for a 32-bit `t` -/

/-- a number whose low 32 bits are all ones, xor-ed with its own and with a 32-bit `t`, loses exactly `t` -/
theorem xor_and_low (h t : Nat) (ht : t < 4294967296) :
    (4294967296 * h + 4294967295) ^^^ ((4294967296 * h + 4294967295) &&& t) = 4294967296 * h + (4294967295 - t) := by
  have p32 : (4294967296 : Nat) = 2 ^ 32 := by decide
  have ht' : t < 2 ^ 32 := by omega
  have hones : (4294967295 : Nat) = 2 ^ 32 - 1 := by decide
  have hlo : 4294967295 - t = 2 ^ 32 - (t + 1) := by omega
  have hlo' : 2 ^ 32 - (t + 1) < 2 ^ 32 := by omega
  have hones' : 2 ^ 32 - 1 < 2 ^ 32 := by omega
  rw [hlo, hones, p32]
  apply Nat.eq_of_testBit_eq
  intro j
  rw [Nat.testBit_xor, Nat.testBit_and, Nat.testBit_two_pow_mul_add h hones', Nat.testBit_two_pow_mul_add h hlo']
  by_cases hj : j < 32
  · simp only [hj, if_true, Nat.testBit_two_pow_sub_one, decide_true, Bool.true_and, Nat.testBit_two_pow_sub_succ ht']
    cases t.testBit j <;> rfl
  · have : t.testBit j = false := Nat.testBit_lt_two_pow (Nat.lt_of_lt_of_le ht' (Nat.pow_le_pow_right (by decide) (by omega)))
    simp [hj, this]

theorem bor_negSucc_natCast (k t : Nat) : Py.bor (Int.negSucc k) (t : Int) = Int.negSucc (k ^^^ (k &&& t)) := rfl

theorem negSucc_mul_pow (m : Nat) : (Int.negSucc m) * 4294967296 = Int.negSucc (4294967296 * m + 4294967295) := by
  rw [Int.negSucc_eq, Int.negSucc_eq]
  omega

/-- `(r << 32) | t` for any integer `r` and a 32-bit `t` -/
theorem bor_shl (r : Int) (t : Nat) (ht : t < 4294967296) : Py.bor (r <<< (32 : Nat)) (t : Int) = r * 4294967296 + t := by
  have p32 : (2 : Int) ^ 32 = 4294967296 := by decide
  rw [Int.shiftLeft_eq, p32]
  cases r with
  | ofNat m =>
    have e : (Int.ofNat m) * 4294967296 = ((m * 4294967296 : Nat) : Int) := by simp
    rw [e, Py.bor_natCast]
    have q32 : (4294967296 : Nat) = 2 ^ 32 := by decide
    have := Nat.shiftLeft_add_eq_or_of_lt (i := 32) (by omega : t < 2 ^ 32) m
    rw [Nat.shiftLeft_eq, ← q32] at this
    rw [← this]
    simp
  | negSucc m =>
    rw [negSucc_mul_pow, bor_negSucc_natCast, xor_and_low m t ht, Int.negSucc_eq, Int.negSucc_eq]
    omega

/-! ### the loop over 32-bit words -/

/-- one pass of `for i in range(0, len(v), 4)` -/
def wordStep (f : Str) (v : Bytes) (r : Int) (i : Int) : Option Int :=
  (Py.unpack1 (if (i == 0) then f else ['>', 'I']) (Py.slice v i (i + 4))).bind fun t => some (Py.bor (r <<< (32 : Nat)) t)

/-- the same loop on the bytes that are left, four at a time -/
def wordsFold (f : Str) : Bool → Int → Bytes → Option Int
  | _, r, [] => some r
  | first, r, a :: b :: c :: d :: rest =>
    (Py.unpack1 (if first then f else ['>', 'I']) [a, b, c, d]).bind fun t => wordsFold f false (Py.bor (r <<< (32 : Nat)) t) rest
  | _, _, _ => none

theorem range3_words (j m : Nat) :
    Py.range3 (4 * (j : Int)) (4 * ((j + m : Nat) : Int)) 4 = (List.range m).map (fun (i : Nat) => 4 * (j : Int) + 4 * (i : Int)) := by
  unfold Py.range3
  have h1 : ¬ ((4 : Int) ≤ 0) := by omega
  have h2 : ((4 * ((j + m : Nat) : Int) - 4 * (j : Int) + 4 - 1) / 4).toNat = m := by omega
  simp only [h1, if_false, h2]

theorem words_loop (f : Str) (v : Bytes) (m : Nat) : ∀ (j : Nat) (r : Int), v.length = 4 * (j + m) →
    Py.foldlOpt (wordStep f v) r ((List.range m).map (fun (i : Nat) => 4 * (j : Int) + 4 * (i : Int))) =
      wordsFold f (j == 0) r (v.drop (4 * j)) := by
  induction m with
  | zero =>
    intro j r hl
    have : v.drop (4 * j) = [] := List.drop_eq_nil_of_le (by omega)
    simp [this, wordsFold]
  | succ m ih =>
    intro j r hl
    rw [List.range_succ_eq_map, List.map_cons, List.map_map, Py.foldlOpt_cons]
    -- the four bytes at offset 4j
    obtain ⟨a, b, c, d, rest, hdrop⟩ : ∃ a b c d rest, v.drop (4 * j) = a :: b :: c :: d :: rest := by
      have hlen : (v.drop (4 * j)).length = 4 * (m + 1) := by simp; omega
      match hv : v.drop (4 * j), hlen with
      | a :: b :: c :: d :: rest, _ => exact ⟨a, b, c, d, rest, rfl⟩
      | [], h => simp at h
      | [_], h => simp at h; omega
      | [_, _], h => simp at h; omega
      | [_, _, _], h => simp at h; omega
    have hslice : Py.slice v (4 * (j : Int) + 4 * ((0 : Nat) : Int)) (4 * (j : Int) + 4 * ((0 : Nat) : Int) + 4) = [a, b, c, d] := by
      rw [Py.slice_of_nonneg (by omega) (by omega)]
      have e1 : (4 * (j : Int) + 4 * ((0 : Nat) : Int)).toNat = 4 * j := by omega
      have e2 : (4 * (j : Int) + 4 * ((0 : Nat) : Int) + 4).toNat - 4 * j = 4 := by omega
      rw [e1, e2, hdrop]
      rfl
    have hzero : ((4 * (j : Int) + 4 * ((0 : Nat) : Int)) == 0) = (j == 0) := by
      cases j with
      | zero => rfl
      | succ n => simp; omega
    have hrest : v.drop (4 * (j + 1)) = rest := by
      have : v.drop (4 * (j + 1)) = (v.drop (4 * j)).drop 4 := by
        rw [List.drop_drop]
        have : 4 * (j + 1) = 4 * j + 4 := by omega
        rw [this]
      rw [this, hdrop]; rfl
    have hfun : ((fun (i : Nat) => 4 * (j : Int) + 4 * (i : Int)) ∘ Nat.succ) = fun (i : Nat) => 4 * ((j + 1 : Nat) : Int) + 4 * (i : Int) := by
      funext i
      simp only [Function.comp]
      omega
    rw [hfun, hdrop]
    simp only [wordStep, hslice, hzero, wordsFold]
    cases hu : Py.unpack1 (if (j == 0) = true then f else ['>', 'I']) [a, b, c, d] with
    | none => simp
    | some t =>
      simp only [Option.bind_some]
      have := ih (j + 1) (Py.bor (r <<< (32 : Nat)) t) (by omega)
      have hne : ((j + 1) == 0) = false := by simp
      rw [hne, hrest] at this
      exact this

/-! ### the value the loop computes -/

theorem beNat_append (a b : Bytes) : Py.beNat (a ++ b) = Py.beNat a * 256 ^ b.length + Py.beNat b := by
  unfold Py.beNat
  rw [List.foldl_append]
  generalize List.foldl (fun a x => a * 256 + x.toNat) 0 a = s0
  induction b generalizing s0 with
  | nil => simp
  | cons x xs ih =>
    simp only [List.foldl_cons, List.length_cons]
    rw [ih]
    have h2 : List.foldl (fun a (x : UInt8) => a * 256 + x.toNat) (0 * 256 + x.toNat) xs
        = (0 * 256 + x.toNat) * 256 ^ xs.length + List.foldl (fun a (x : UInt8) => a * 256 + x.toNat) 0 xs := ih _
    rw [h2, Nat.pow_succ]
    simp only [Nat.zero_mul, Nat.zero_add]
    rw [Nat.add_mul, Nat.mul_assoc, Nat.mul_comm 256 (256 ^ xs.length), Nat.add_assoc]

theorem foldl_be_lt (b : Bytes) : ∀ s0 : Nat, List.foldl (fun a (x : UInt8) => a * 256 + x.toNat) s0 b < (s0 + 1) * 256 ^ b.length := by
  induction b with
  | nil => intro s0; simp
  | cons x xs ih =>
    intro s0
    simp only [List.foldl_cons, List.length_cons, Nat.pow_succ]
    have hx : x.toNat < 256 := x.toNat_lt
    calc List.foldl (fun a (x : UInt8) => a * 256 + x.toNat) (s0 * 256 + x.toNat) xs
        < (s0 * 256 + x.toNat + 1) * 256 ^ xs.length := ih _
      _ ≤ ((s0 + 1) * 256) * 256 ^ xs.length := Nat.mul_le_mul_right _ (by omega)
      _ = (s0 + 1) * (256 ^ xs.length * 256) := by rw [Nat.mul_assoc, Nat.mul_comm 256]

theorem beNat_lt (b : Bytes) : Py.beNat b < 256 ^ b.length := by
  have := foldl_be_lt b 0
  simpa [Py.beNat] using this

theorem pow256_4 (m : Nat) : 256 ^ (4 * m) = 4294967296 ^ m := by
  rw [Nat.pow_mul]

theorem unpack_unsigned (a b c d : UInt8) : Py.unpack1 ['>', 'I'] [a, b, c, d] = some (Py.beNat [a, b, c, d] : Int) := by
  simp [Py.unpack1]

theorem word_lt (a b c d : UInt8) : Py.beNat [a, b, c, d] < 4294967296 := by
  have := beNat_lt [a, b, c, d]
  simpa using this

/-- after the first word every word is unsigned: the loop appends the big-endian value of what is left -/
theorem wordsFold_unsigned (f : Str) (m : Nat) : ∀ (w : Bytes) (r : Int), w.length = 4 * m →
    wordsFold f false r w = some (r * (4294967296 : Int) ^ m + (Py.beNat w : Int)) := by
  induction m with
  | zero =>
    intro w r hl
    have : w = [] := List.eq_nil_of_length_eq_zero (by omega)
    subst this
    simp [wordsFold, Py.beNat]
  | succ m ih =>
    intro w r hl
    match w, hl with
    | a :: b :: c :: d :: rest, hl =>
      have hr : rest.length = 4 * m := by simp at hl; omega
      simp only [wordsFold, Bool.false_eq_true, if_false, unpack_unsigned, Option.bind_some]
      rw [bor_shl r _ (word_lt a b c d), ih rest _ hr]
      have happ : Py.beNat (a :: b :: c :: d :: rest) = Py.beNat [a, b, c, d] * 4294967296 ^ m + Py.beNat rest := by
        have := beNat_append [a, b, c, d] rest
        rw [hr, pow256_4] at this
        exact this
      have happ' : (Py.beNat (a :: b :: c :: d :: rest) : Int) = (Py.beNat [a, b, c, d] : Int) * (4294967296 : Int) ^ m + (Py.beNat rest : Int) := by
        rw [happ, Int.natCast_add, Int.natCast_mul, Int.natCast_pow]
        rfl
      rw [happ']
      congr 1
      rw [Int.add_mul, Int.pow_succ, Int.mul_assoc, Int.mul_comm (4294967296 : Int) ((4294967296 : Int) ^ m), Int.add_assoc]
    | [], hl => simp at hl
    | [_], hl => simp at hl; omega
    | [_, _], hl => simp at hl; omega
    | [_, _, _], hl => simp at hl; omega

theorem bor_zero_shl (t : Int) : Py.bor ((0 : Int) <<< (32 : Nat)) t = t := by
  rw [Int.shiftLeft_eq, Int.zero_mul]
  cases t with
  | ofNat n => show ((0 ||| n : Nat) : Int) = _; simp
  | negSucc n => show Int.negSucc (n ^^^ (n &&& 0)) = _; simp

theorem top_bit (x : Nat) : (Py.band (x : Int) 128 != 0) = decide (128 ≤ x % 256) := by
  rw [Py.band_lit_r]
  have h : x &&& 128 = if x.testBit 7 then 128 else 0 := by
    apply Nat.eq_of_testBit_eq
    intro i
    rw [Nat.testBit_and]
    have e128 : (128 : Nat) = 2 ^ 7 := by decide
    by_cases hi : i = 7
    · subst hi
      cases hx : x.testBit 7 <;> simp [e128, Nat.testBit_two_pow_self]
    · have : (128 : Nat).testBit i = false := by rw [e128, Nat.testBit_two_pow]; simp; omega
      cases hx : x.testBit 7 <;> simp [this]
  rw [h, Nat.testBit_eq_decide_div_mod_eq]
  by_cases h2 : 128 ≤ x % 256
  · have : x / 2 ^ 7 % 2 = 1 := by omega
    simp [this, h2]
  · have : ¬ (x / 2 ^ 7 % 2 = 1) := by omega
    simp [this, h2]

theorem beNat_natsOf (v : Bytes) : (Wire.ofBE (Wire.natsOf v)) = Py.beNat v := by
  unfold Wire.ofBE Wire.natsOf Py.beNat
  rw [List.foldl_map]

theorem beNat_zeros (p : Nat) : Py.beNat (List.replicate p (0 : UInt8)) = 0 := by
  induction p with
  | zero => rfl
  | succ p ih =>
    rw [List.replicate_succ]
    have := beNat_append [0] (List.replicate p (0 : UInt8))
    simp only [List.singleton_append] at this
    rw [this, ih]
    simp [Py.beNat]

theorem beNat_ones (p : Nat) : Py.beNat (List.replicate p (255 : UInt8)) + 1 = 256 ^ p := by
  induction p with
  | zero => rfl
  | succ p ih =>
    rw [List.replicate_succ]
    have := beNat_append [255] (List.replicate p (255 : UInt8))
    simp only [List.singleton_append, List.length_replicate] at this
    rw [this, Nat.pow_succ]
    have h255 : Py.beNat [(255 : UInt8)] = 255 := by decide
    rw [h255]
    omega

/-! ### `_parse_mpint` is the loop over the padded string -/

/-- `pad * (4 - len(v) % 4) + v` when the length is not a multiple of four -/
def padded (v : Bytes) (padb : UInt8) : Bytes :=
  if v.length % 4 != 0 then List.replicate (4 - v.length % 4) padb ++ v else v

theorem padded_len (v : Bytes) (padb : UInt8) : (padded v padb).length % 4 = 0 := by
  unfold padded
  by_cases h : v.length % 4 = 0
  · simp [h]
  · simp [h]; omega

theorem parse_mpint_eq_words (v : Bytes) (padb : UInt8) (f : Str) :
    Gen.Logic.parse_mpint v [padb] f = wordsFold f true 0 (padded v padb) := by
  have hv2 : (if (Int.ofNat v.length % 4 != 0) = true then Py.repeatB [padb] (4 - Int.ofNat v.length % 4) ++ v else v) = padded v padb := by
    unfold padded Py.repeatB
    have hc : (Int.ofNat v.length % 4 != 0) = (v.length % 4 != 0) := by
      rw [Bool.eq_iff_iff]
      simp only [bne_iff_ne, ne_eq, Int.ofNat_eq_natCast]
      omega
    have hk : (4 - Int.ofNat v.length % 4).toNat = 4 - v.length % 4 := by simp only [Int.ofNat_eq_natCast]; omega
    rw [hc, hk, List.flatten_replicate_singleton]
  simp only [Gen.Logic.parse_mpint, hv2]
  generalize hw : padded v padb = w
  have hlen : w.length % 4 = 0 := by rw [← hw]; exact padded_len v padb
  obtain ⟨m, hm⟩ : ∃ m, w.length = 4 * m := ⟨w.length / 4, by omega⟩
  have hr : Py.range3 0 (Int.ofNat w.length) 4 = (List.range m).map (fun (i : Nat) => 4 * ((0 : Nat) : Int) + 4 * (i : Int)) := by
    have := range3_words 0 m
    simp only [Nat.zero_add] at this
    rw [← this, hm]
    simp
  rw [hr]
  have := words_loop f w m 0 0 (by omega)
  simp only [Nat.mul_zero, List.drop_zero, beq_self_eq_true] at this
  rw [← this]
  show (Py.foldlOpt (wordStep f w) 0 _).bind (fun r => some r) = _
  cases Py.foldlOpt (wordStep f w) 0 (List.map (fun (i : Nat) => 4 * ((0 : Nat) : Int) + 4 * (i : Int)) (List.range m)) <;> rfl

/-! ### `read_mpint2`: the two's-complement value -/

theorem mpint2_pad_fmt_eq (x : UInt8) (xs : Bytes) :
    Gen.Logic.mpint2_pad_fmt (x :: xs) = some (if 128 ≤ x.toNat then ([255], ['>', 'i']) else ([0], ['>', 'I'])) := by
  have hs : Py.slice (x :: xs) 0 1 = [x] := by
    rw [Py.slice_of_nonneg (by omega) (by omega)]; rfl
  have hx : x.toNat % 256 = x.toNat := Nat.mod_eq_of_lt x.toNat_lt
  simp only [Gen.Logic.mpint2_pad_fmt, hs, Py.ordB, Option.bind_some, Int.ofNat_eq_natCast, top_bit, hx]
  by_cases h : 128 ≤ x.toNat <;> simp [h]

theorem wordsFold_first_irrelevant (first : Bool) (r : Int) (w : Bytes) :
    wordsFold ['>', 'I'] first r w = wordsFold ['>', 'I'] false r w := by
  match w with
  | [] => simp [wordsFold]
  | [_] => simp [wordsFold]
  | [_, _] => simp [wordsFold]
  | [_, _, _] => simp [wordsFold]
  | a :: b :: c :: d :: rest => cases first <;> simp [wordsFold]

/-- a non-negative number: zero padding, every word unsigned -/
theorem parse_unsigned (v : Bytes) : Gen.Logic.parse_mpint v [0] ['>', 'I'] = some (Py.beNat v : Int) := by
  rw [parse_mpint_eq_words, wordsFold_first_irrelevant]
  obtain ⟨m, hm⟩ : ∃ m, (padded v 0).length = 4 * m := ⟨(padded v 0).length / 4, by have := padded_len v 0; omega⟩
  rw [wordsFold_unsigned _ m _ _ hm, Int.zero_mul, Int.zero_add]
  congr 2
  unfold padded
  split
  · rw [beNat_append, beNat_zeros]; simp
  · rfl

theorem word_ge (a b c d : UInt8) (ha : 128 ≤ a.toNat) : 2147483648 ≤ Py.beNat [a, b, c, d] := by
  have := beNat_append [a] [b, c, d]
  simp only [List.singleton_append, List.length_cons, List.length_nil] at this
  rw [this]
  have h1 : Py.beNat [a] = a.toNat := by simp [Py.beNat]
  rw [h1]
  have : (256 : Nat) ^ (0 + 1 + 1 + 1) = 16777216 := by decide
  omega

theorem unpack_signed_neg (a b c d : UInt8) (ha : 128 ≤ a.toNat) :
    Py.unpack1 ['>', 'i'] [a, b, c, d] = some ((Py.beNat [a, b, c, d] : Int) - 4294967296) := by
  have h := word_ge a b c d ha
  have e31 : (2 : Nat) ^ 31 = 2147483648 := by decide
  have : ¬ (Py.beNat [a, b, c, d] < 2 ^ 31) := by omega
  have e32 : (2 : Int) ^ 32 = 4294967296 := by decide
  simp [Py.unpack1, this, e32]

/-- a negative number (top bit of the first byte set): `ff` padding, the first word signed -/
theorem parse_signed (x : UInt8) (xs : Bytes) (hx : 128 ≤ x.toNat) :
    Gen.Logic.parse_mpint (x :: xs) [255] ['>', 'i'] = some ((Py.beNat (x :: xs) : Int) - (256 : Int) ^ (xs.length + 1)) := by
  rw [parse_mpint_eq_words]
  -- the padded string: p bytes ff, then the string; p + length is a positive multiple of four
  obtain ⟨p, hp⟩ : ∃ p, padded (x :: xs) 255 = List.replicate p (255 : UInt8) ++ (x :: xs) := by
    unfold padded
    split
    · exact ⟨_, rfl⟩
    · exact ⟨0, rfl⟩
  have hlen := padded_len (x :: xs) 255
  rw [hp] at hlen ⊢
  -- its first four bytes
  obtain ⟨a, b, c, d, rest, hw, ha⟩ : ∃ a b c d rest, List.replicate p (255 : UInt8) ++ (x :: xs) = a :: b :: c :: d :: rest ∧ 128 ≤ a.toNat := by
    have hl : 4 ≤ (List.replicate p (255 : UInt8) ++ (x :: xs)).length := by
      simp only [List.length_append, List.length_replicate, List.length_cons] at hlen ⊢; omega
    match hq : List.replicate p (255 : UInt8) ++ (x :: xs), hl with
    | a :: b :: c :: d :: rest, _ =>
      refine ⟨a, b, c, d, rest, rfl, ?_⟩
      cases p with
      | zero => simp at hq; rw [← hq.1]; exact hx
      | succ p => rw [List.replicate_succ] at hq; simp at hq; rw [← hq.1]; decide
    | [], h => simp at h
    | [_], h => simp at h
    | [_, _], h => simp at h
    | [_, _, _], h => simp at h
  obtain ⟨m, hm⟩ : ∃ m, rest.length = 4 * m := by
    refine ⟨rest.length / 4, ?_⟩
    have : (a :: b :: c :: d :: rest).length % 4 = 0 := by rw [← hw]; exact hlen
    simp only [List.length_cons] at this
    omega
  rw [hw]
  simp only [wordsFold, if_true, unpack_signed_neg a b c d ha, Option.bind_some, bor_zero_shl]
  rw [wordsFold_unsigned _ m _ _ hm]
  congr 1
  -- arithmetic: value of the padded string minus 256^(its length) = value of the string minus 256^(its length)
  have hA : Py.beNat (a :: b :: c :: d :: rest) = Py.beNat [a, b, c, d] * 4294967296 ^ m + Py.beNat rest := by
    have := beNat_append [a, b, c, d] rest
    rw [hm, pow256_4] at this
    exact this
  have hB : Py.beNat (List.replicate p (255 : UInt8) ++ (x :: xs)) = Py.beNat (List.replicate p (255 : UInt8)) * 256 ^ (xs.length + 1) + Py.beNat (x :: xs) := by
    rw [beNat_append]; rfl
  have hC := beNat_ones p
  have hL : p + (xs.length + 1) = 4 * (m + 1) := by
    have : (List.replicate p (255 : UInt8) ++ (x :: xs)).length = (a :: b :: c :: d :: rest).length := by rw [hw]
    simp only [List.length_append, List.length_replicate, List.length_cons] at this
    omega
  have hP : (256 : Nat) ^ p * 256 ^ (xs.length + 1) = 4294967296 ^ (m + 1) := by
    rw [← Nat.pow_add, hL, pow256_4]
  rw [hw] at hB
  -- everything in Nat, then cast
  have key : Py.beNat [a, b, c, d] * 4294967296 ^ m + Py.beNat rest + 256 ^ (xs.length + 1) = Py.beNat (x :: xs) + 4294967296 ^ (m + 1) := by
    rw [← hA, hB, ← hP]
    have : Py.beNat (List.replicate p (255 : UInt8)) * 256 ^ (xs.length + 1) + 256 ^ (xs.length + 1) = 256 ^ p * 256 ^ (xs.length + 1) := by
      rw [← hC, Nat.add_mul, Nat.one_mul]
    omega
  have keyZ : ((Py.beNat [a, b, c, d] : Int) * (4294967296 : Int) ^ m + (Py.beNat rest : Int)) + (256 : Int) ^ (xs.length + 1)
      = (Py.beNat (x :: xs) : Int) + (4294967296 : Int) ^ (m + 1) := by
    have := congrArg (fun n : Nat => (n : Int)) key
    simp only [Int.natCast_add, Int.natCast_mul, Int.natCast_pow] at this
    exact this
  rw [Int.sub_mul, Int.pow_succ] at *
  omega

/-- the choice of padding byte and first-word format in `read_mpint2` follows the top bit of the first byte -/
theorem mpint2_pad_fmt_eq_model (x : UInt8) (xs : Bytes) :
    Gen.Logic.mpint2_pad_fmt (x :: xs) = some (if 128 ≤ x.toNat then ([255], ['>', 'i']) else ([0], ['>', 'I'])) :=
  mpint2_pad_fmt_eq x xs

theorem signedBE_cons (b : Nat) (r : List Nat) :
    Wire.signedBE (b :: r) = if 128 ≤ b then (Wire.ofBE (b :: r) : Int) - (256 : Int) ^ (r.length + 1) else (Wire.ofBE (b :: r) : Int) := rfl

/-- `read_mpint2` on a non-empty string: the regenerated `_parse_mpint`, called with the regenerated choice of padding and format, computes
    `Wire.signedBE` — the two's-complement value the round-trip theorems of C10 are about — and never raises -/
theorem parse_mpint_eq_model (v : Bytes) (hv : v ≠ []) :
    ((Gen.Logic.mpint2_pad_fmt v).bind fun pf => Gen.Logic.parse_mpint v pf.1 pf.2) = some (Wire.signedBE (Wire.natsOf v)) := by
  match v, hv with
  | x :: xs, _ =>
    rw [mpint2_pad_fmt_eq]
    have hnat : Wire.natsOf (x :: xs) = x.toNat :: Wire.natsOf xs := rfl
    have hval : Wire.ofBE (x.toNat :: Wire.natsOf xs) = Py.beNat (x :: xs) := by rw [← hnat]; exact beNat_natsOf _
    have hlen : (Wire.natsOf xs).length = xs.length := by unfold Wire.natsOf; exact List.length_map _
    rw [hnat, signedBE_cons, hval, hlen]
    by_cases h : 128 ≤ x.toNat
    · simp only [h, if_true, Option.bind_some]
      exact parse_signed x xs h
    · simp only [h, if_false, Option.bind_some]
      exact parse_unsigned (x :: xs)

example : ((Gen.Logic.mpint2_pad_fmt [0xfe, 0x80, 0, 0, 0]).bind fun pf => Gen.Logic.parse_mpint [0xfe, 0x80, 0, 0, 0] pf.1 pf.2) = some (-0x180000000) := by
  decide

/-- the regenerated reader inverts the model's writer: for every non-zero integer, what `_create_mpint` (model `Wire.createMpint`, tied by
    correspondence) writes is read back as that integer by the code of `read_mpint2` / `_parse_mpint` as it stands in the source today -/
theorem regenerated_reader_inverts_writer (n : Int) (hn : n ≠ 0) :
    ((Gen.Logic.mpint2_pad_fmt (Wire.bytesOf (Wire.createMpint n))).bind fun pf =>
        Gen.Logic.parse_mpint (Wire.bytesOf (Wire.createMpint n)) pf.1 pf.2) = some n := by
  have hne : Wire.bytesOf (Wire.createMpint n) ≠ [] := by
    intro h
    have h0 : Wire.createMpint n = [] := by
      unfold Wire.bytesOf at h
      exact List.map_eq_nil_iff.mp h
    have := C10.createMpint_signed n
    rw [h0] at this
    exact hn (by simpa [Wire.signedBE] using this.symm)
  rw [parse_mpint_eq_model _ hne, Wire.natsOf_bytesOf _ (C10.createMpint_lt n), C10.createMpint_signed]

/-! ## the writer: `WriteBuf._create_mpint` (round 17)

  `Gen.Logic.create_mpint` is the body of `_create_mpint` from `length = …` to the final `if`, as the translator reads it from the source (the
  64-bit word loop with `v2[ql - i - 1] = n & 0xffffffffffffffff; n >>= 64` is a fold over `(v2, n)`, `struct.pack('>{}Q'.format(ql), *v2)` is
  `Py.packQ`, `[-length:]`, `lstrip`, `startswith` the `Py` primitives of those names).  `create_mpint_eq_model`: for `bits = n.bit_length()`
  — what `_bitlength` returns, outside the translated block — it computes `Wire.createMpint` (signed) / `Wire.createMpintI` (unsigned), the
  functions the round-trip theorems of C10 are about.  `regenerated_roundtrip` composes the two regenerated definitions. -/

/-- the low `L` base-256 digits of an integer in two's complement, most significant first -/
def toBEi (n : Int) : Nat → List Nat
  | 0 => []
  | L+1 => toBEi (n / 256) L ++ [(n % 256).toNat]

theorem toBEi_length (n : Int) (L : Nat) : (toBEi n L).length = L := by
  induction L generalizing n with
  | zero => rfl
  | succ L ih => simp [toBEi, ih]

theorem emod_mul_ediv (n C : Int) (hC : 0 < C) : n % (256 * C) / 256 = n / 256 % C := by
  have h1 := Int.mul_ediv_add_emod n 256
  have h2 := Int.mul_ediv_add_emod (n/256) C
  have hr0 := Int.emod_nonneg n (by decide : (256:Int) ≠ 0)
  have hr1 := Int.emod_lt_of_pos n (by decide : (0:Int) < 256)
  have hs0 := Int.emod_nonneg (n/256) (Int.ne_of_gt hC)
  have hs1 := Int.emod_lt_of_pos (n/256) hC
  have key : n % (256 * C) = 256 * (n / 256 % C) + n % 256 := by
    have hb : 0 < 256 * C := by omega
    have := (Int.ediv_emod_unique (a := n) (b := 256 * C) (r := 256 * (n / 256 % C) + n % 256) (q := n / 256 / C) hb).mpr
      ⟨by grind, by omega, by omega⟩
    exact this.2
  rw [key]; omega

theorem toBEi_eq (n : Int) (L : Nat) : toBEi n L = Wire.toBE ((n % (256 : Int) ^ L).toNat) L := by
  induction L generalizing n with
  | zero => rfl
  | succ L ih =>
    have hC : (0 : Int) < 256 ^ L := Int.pow_pos (by decide)
    have hp : (256 : Int) ^ (L + 1) = 256 * 256 ^ L := by rw [Int.pow_succ, Int.mul_comm]
    have h1 := emod_mul_ediv n _ hC
    have h2 : n % (256 * 256 ^ L) % 256 = n % 256 := Int.emod_emod_of_dvd n (Int.dvd_mul_right _ _)
    have h0 := Int.emod_nonneg n (Int.ne_of_gt (by omega : (0:Int) < 256 * 256 ^ L))
    have h3 := Int.emod_nonneg (n/256) (Int.ne_of_gt hC)
    simp only [toBEi, Wire.toBE, ih, hp]
    congr 2
    · congr 1; omega
    · omega

theorem toBEi_add (n : Int) (a b : Nat) : toBEi n (a + b) = toBEi (n / (256 : Int) ^ b) a ++ toBEi n b := by
  induction b generalizing n with
  | zero => simp [toBEi]
  | succ b ih =>
    have hp : (256 : Int) ^ (b + 1) = 256 * 256 ^ b := by rw [Int.pow_succ, Int.mul_comm]
    rw [← Nat.add_assoc]
    simp only [toBEi, ih, hp, List.append_assoc]
    rw [Int.ediv_ediv_of_nonneg (by decide)]

theorem toBEi_drop (n : Int) (k l : Nat) : (toBEi n (k + l)).drop k = toBEi n l := by
  rw [toBEi_add]
  exact List.drop_left' (toBEi_length (n / (256 : Int) ^ l) k)

/-- the low `k` base-2^64 digits of an integer in two's complement, most significant first: what the loop of `_create_mpint` leaves in `v2` -/
def wordsBE (n : Int) : Nat → List Int
  | 0 => []
  | k+1 => wordsBE (n / 18446744073709551616) k ++ [n % 18446744073709551616]

theorem wordsBE_length (n : Int) (k : Nat) : (wordsBE n k).length = k := by
  induction k generalizing n with
  | zero => rfl
  | succ k ih => simp [wordsBE, ih]

theorem wordsBE_range (n : Int) (k : Nat) : ∀ x ∈ wordsBE n k, 0 ≤ x ∧ x < 18446744073709551616 := by
  induction k generalizing n with
  | zero => intro x hx; cases hx
  | succ k ih =>
    intro x hx
    simp only [wordsBE, List.mem_append, List.mem_singleton] at hx
    rcases hx with hx | hx
    · exact ih _ x hx
    · subst hx; omega

theorem beBytes_eq (m L : Nat) : Py.beBytes m L = Wire.bytesOf (Wire.toBE m L) := by
  induction L generalizing m with
  | zero => rfl
  | succ L ih => simp [Py.beBytes, Wire.toBE, Wire.bytesOf, ih]

theorem pow8 : (256 : Int) ^ 8 = 18446744073709551616 := by decide

theorem flatMap_words (n : Int) (k : Nat) :
    (wordsBE n k).flatMap (fun x => Py.beBytes x.toNat 8) = Wire.bytesOf (toBEi n (8 * k)) := by
  induction k generalizing n with
  | zero => rfl
  | succ k ih =>
    have h8 : 8 * (k + 1) = 8 * k + 8 := by omega
    rw [h8, toBEi_add, pow8]
    simp only [wordsBE, List.flatMap_append, List.flatMap_cons, List.flatMap_nil, List.append_nil]
    have hw : Wire.toBE (n % 18446744073709551616).toNat 8 = toBEi n 8 := by
      rw [toBEi_eq, pow8]
    rw [ih, beBytes_eq, hw]
    simp [Wire.bytesOf]

theorem xor_mask (r : Nat) (hr : r < 18446744073709551616) : 18446744073709551615 ^^^ r = 18446744073709551615 - r := by
  have h := BitVec.toNat_not (x := BitVec.ofNat 64 r)
  rw [BitVec.not_def, BitVec.toNat_xor, BitVec.toNat_allOnes, BitVec.toNat_ofNat] at h
  have h2 : r % 2 ^ 64 = r := Nat.mod_eq_of_lt (by simpa using hr)
  rw [h2] at h
  simpa using h

theorem and_mask (m : Nat) : m &&& 18446744073709551615 = m % 18446744073709551616 := by
  have := Nat.and_two_pow_sub_one_eq_mod m 64
  simpa using this

theorem band_mask (x : Int) : Py.band x 18446744073709551615 = x % 18446744073709551616 := by
  cases x with
  | ofNat m =>
    have h : Py.band (Int.ofNat m) (Int.ofNat 18446744073709551615) = Int.ofNat (m &&& 18446744073709551615) := rfl
    show Py.band (Int.ofNat m) (Int.ofNat 18446744073709551615) = _
    rw [h, and_mask]
    simp only [Int.ofNat_eq_natCast]; omega
  | negSucc m =>
    have h : Py.band (Int.negSucc m) (Int.ofNat 18446744073709551615) = Int.ofNat (18446744073709551615 ^^^ (18446744073709551615 &&& m)) := rfl
    show Py.band (Int.negSucc m) (Int.ofNat 18446744073709551615) = _
    rw [h, Nat.and_comm, and_mask, xor_mask _ (Nat.mod_lt _ (by decide))]
    simp only [Int.ofNat_eq_natCast, Int.negSucc_eq]; omega


theorem foldlOpt_append {α β} (f : β → α → Option β) (b : β) (xs ys : List α) :
    Py.foldlOpt f b (xs ++ ys) = (Py.foldlOpt f b xs).bind (fun b' => Py.foldlOpt f b' ys) := by
  induction xs generalizing b with
  | nil => rfl
  | cons x xs ih =>
    simp only [List.cons_append, Py.foldlOpt_cons]
    cases f b x with
    | none => rfl
    | some b' => simp only [Option.bind_some, ih]

theorem setAt_replicate (k : Nat) (W : List Int) (x : Int) :
    Py.setAt? (List.replicate (k + 1) (0 : Int) ++ W) k x = some (List.replicate k 0 ++ x :: W) := by
  induction k with
  | zero => rfl
  | succ k ih =>
    show Py.setAt? ((0 : Int) :: (List.replicate (k + 1) (0 : Int) ++ W)) (k + 1) x = _
    simp only [Py.setAt?, ih]
    rfl

/-- the most significant of `k + 1` words first -/
theorem wordsBE_cons (n : Int) (k : Nat) :
    wordsBE n (k + 1) = (n / (18446744073709551616 : Int) ^ k % 18446744073709551616) :: wordsBE n k := by
  induction k generalizing n with
  | zero => simp [wordsBE]
  | succ k ih =>
    have hp : (18446744073709551616 : Int) ^ (k + 1) = 18446744073709551616 * 18446744073709551616 ^ k := by rw [Int.pow_succ, Int.mul_comm]
    rw [wordsBE, ih, hp, Int.ediv_ediv_of_nonneg (by decide)]
    rfl

/-- one pass of the loop of `_create_mpint` -/
def cmStep (ql : Int) (acc_ : List Int × Int) (i : Int) : Option (List Int × Int) :=
  (Py.setItem acc_.1 ((ql - i) - (1 : Int)) (Py.band acc_.2 (18446744073709551615 : Int))).bind fun v2_2 => some (v2_2, acc_.2 >>> (64 : Nat))

theorem cm_loop (Q : Nat) (n : Int) (i : Nat) (hi : i ≤ Q) :
    Py.foldlOpt (cmStep (Q : Int)) (List.replicate Q (0 : Int), n) ((List.range i).map Int.ofNat)
      = some (List.replicate (Q - i) (0 : Int) ++ wordsBE n i, n / (18446744073709551616 : Int) ^ i) := by
  induction i with
  | zero => simp [wordsBE]
  | succ i ih =>
    rw [List.range_succ, List.map_append, foldlOpt_append, ih (by omega)]
    simp only [Option.bind_some, List.map_cons, List.map_nil, Py.foldlOpt_cons, Py.foldlOpt_nil, cmStep]
    have hidx : ((Q : Int) - Int.ofNat i - 1) = ((Q - (i + 1) : Nat) : Int) := by simp only [Int.ofNat_eq_natCast]; omega
    have hrep : List.replicate (Q - i) (0 : Int) = List.replicate ((Q - (i + 1)) + 1) 0 := by congr 1; omega
    rw [hidx, hrep]
    simp only [Py.setItem, Int.natCast_nonneg, if_true, Int.toNat_natCast, setAt_replicate, Option.bind_some, band_mask, wordsBE_cons]
    have hp : (18446744073709551616 : Int) ^ (i + 1) = 18446744073709551616 ^ i * 18446744073709551616 := Int.pow_succ _ _
    rw [Int.shiftRight_eq_div_pow, hp, ← Int.ediv_ediv_of_nonneg (Int.le_of_lt (Int.pow_pos (by decide)))]
    rfl

theorem ofNat_eq_iff (a : Nat) (c : Nat) (ha : a < 256) (hc : c < 256) : (UInt8.ofNat a == UInt8.ofNat c) = decide (a = c) := by
  by_cases h : a = c
  · subst h; simp
  · simp only [h, decide_false, beq_eq_false_iff_ne, ne_eq]
    intro he
    have := congrArg UInt8.toNat he
    simp only [UInt8.toNat_ofNat'] at this
    omega

theorem lstrip_bytesOf (L : List Nat) (h : ∀ d ∈ L, d < 256) :
    Py.lstripB (Wire.bytesOf L) ([0] : Bytes) = Wire.bytesOf (L.dropWhile (· = 0)) := by
  induction L with
  | nil => rfl
  | cons a L ih =>
    have ha : a < 256 := h a (List.mem_cons_self)
    have hL : ∀ d ∈ L, d < 256 := fun d hd => h d (List.mem_cons_of_mem _ hd)
    have ih' := ih hL
    unfold Py.lstripB at ih' ⊢
    have hc : (([0] : Bytes).contains (UInt8.ofNat a)) = decide (a = 0) := by
      have := ofNat_eq_iff a 0 ha (by decide)
      have h0 : (UInt8.ofNat a == (0 : UInt8)) = decide (a = 0) := this
      simp only [List.contains, List.elem, h0]
      cases decide (a = 0) <;> rfl
    simp only [Wire.bytesOf, List.map_cons, List.dropWhile_cons, hc]
    by_cases h0 : a = 0
    · simp only [h0, decide_true, if_true]; exact ih'
    · simp only [h0, decide_false]; rfl

theorem stripFF_bytesOf (L : List Nat) (h : ∀ d ∈ L, d < 256) :
    (if Py.startsWithB (Wire.bytesOf L) ([255, 128] : Bytes) then Py.sliceFrom (Wire.bytesOf L) (1 : Int) else Wire.bytesOf L)
      = Wire.bytesOf (Wire.stripFF L) := by
  match L, h with
  | [], _ => rfl
  | [a], _ => simp [Py.startsWithB, Wire.bytesOf, Wire.stripFF, List.isPrefixOf]
  | a :: b :: rest, h =>
    have ha : a < 256 := h a (by simp)
    have hb : b < 256 := h b (by simp)
    have e1 := ofNat_eq_iff 255 a (by decide) ha
    have e2 := ofNat_eq_iff 128 b (by decide) hb
    have hs : Py.startsWithB (Wire.bytesOf (a :: b :: rest)) ([255, 128] : Bytes) = (decide (255 = a) && decide (128 = b)) := by
      show List.isPrefixOf [UInt8.ofNat 255, UInt8.ofNat 128] (UInt8.ofNat a :: UInt8.ofNat b :: Wire.bytesOf rest) = _
      simp only [List.isPrefixOf, e1, e2, Bool.and_true]
    rw [hs]
    by_cases h1 : 255 = a
    · by_cases h2 : 128 = b
      · subst h1; subst h2
        simp [Wire.stripFF, Py.sliceFrom, Py.normIdx, Wire.bytesOf]
      · subst h1
        have : Wire.stripFF (255 :: b :: rest) = 255 :: b :: rest := by
          unfold Wire.stripFF; split
          · rename_i heq; simp at heq; omega
          · rfl
        simp [h2, this]
    · have : Wire.stripFF (a :: b :: rest) = a :: b :: rest := by
        unfold Wire.stripFF; split
        · rename_i heq; simp at heq; omega
        · rfl
      simp [h1, this]

/-! ### `_create_mpint` as regenerated from the source is the model's writer -/

theorem create_mpint_eq_model (n : Int) (signed : Bool) :
    Gen.Logic.create_mpint n signed (Wire.bitLen n.natAbs : Int)
      = some (Wire.bytesOf (if signed then Wire.createMpint n else Wire.createMpintI n)) := by
  let len : Nat := Wire.bitLen n.natAbs / 8 + (if n = 0 then 0 else 1)
  let Q : Nat := (len + 7) / 8
  have hlen : ((Wire.bitLen n.natAbs : Int) / (8 : Int) + (if (n != (0 : Int)) then (1 : Int) else (0 : Int))) = (len : Int) := by
    by_cases h0 : n = 0
    · simp [len, h0]
    · simp only [len, h0, bne_iff_ne, ne_eq, not_false_eq_true, if_true, if_false]; omega
  have hql : (((len : Int) + (7 : Int)) / (8 : Int)) = (Q : Int) := by simp only [Q]; omega
  unfold Gen.Logic.create_mpint
  simp only [hlen, hql]
  have hloop : Py.foldlOpt (fun (acc_ : (List Int) × Int) (i : Int) =>
      Option.bind (Py.setItem acc_.1 (((Q : Int) - i) - (1 : Int)) (Py.band acc_.2 (18446744073709551615 : Int))) fun v2_2 =>
      some ((v2_2, acc_.2 >>> (64 : Nat)))) ((Py.replicate (Q : Int) (0 : Int), n)) (Py.range (Q : Int))
      = some (wordsBE n Q, n / (18446744073709551616 : Int) ^ Q) := by
    have := cm_loop Q n Q (Nat.le_refl _)
    simp only [Nat.sub_self, List.replicate_zero, List.nil_append] at this
    simp only [Py.replicate, Py.range, Int.toNat_natCast]
    exact this
  rw [hloop]
  simp only [Option.bind_some]
  have hpack : Py.packQ ((['>'] : Str) ++ (Py.fmtD (Q : Int)) ++ (['Q'] : Str)) (wordsBE n Q) = some (Wire.bytesOf (toBEi n (8 * Q))) := by
    unfold Py.packQ
    rw [if_pos ⟨by rw [wordsBE_length]; rfl, wordsBE_range n Q⟩, flatMap_words]
  rw [hpack]
  simp only [Option.bind_some]
  have hslice : Py.sliceFrom (Wire.bytesOf (toBEi n (8 * Q))) (-(len : Int)) = Wire.bytesOf (toBEi n len) := by
    unfold Py.sliceFrom Py.normIdx Wire.bytesOf
    rw [List.length_map, toBEi_length, ← List.map_drop]
    by_cases hz : len = 0
    · have hQ : Q = 0 := by simp only [Q]; omega
      simp [hz, hQ, toBEi]
    · have hneg : (-(len : Int)) < 0 := by omega
      rw [if_pos hneg]
      have hk : (((8 * Q : Nat) : Int) + -(len : Int)).toNat = 8 * Q - len := by omega
      have hsum : 8 * Q = (8 * Q - len) + len := by simp only [Q]; omega
      rw [hk]
      obtain ⟨k, hk2⟩ : ∃ k, 8 * Q = k + len := ⟨8 * Q - len, hsum⟩
      rw [hk2, Nat.add_sub_cancel, toBEi_drop]
  rw [hslice, toBEi_eq]
  have hd := Wire.toBE_lt ((n % (256 : Int) ^ len).toNat) len
  cases signed with
  | true =>
    simp only [Bool.not_true, Bool.false_eq_true, if_false, if_true]
    rw [stripFF_bytesOf _ hd]
    rfl
  | false =>
    simp only [Bool.not_false, if_true, Bool.false_eq_true, if_false]
    rw [lstrip_bytesOf _ hd]
    rfl

/-- writer and reader as they stand in the source today, composed: every non-zero integer written by `_create_mpint` (signed) is read back by
    `read_mpint2` / `_parse_mpint` — no hand-written model between the two regenerated definitions -/
theorem regenerated_roundtrip (n : Int) (hn : n ≠ 0) :
    ((Gen.Logic.create_mpint n true (Wire.bitLen n.natAbs : Int)).bind fun d =>
      (Gen.Logic.mpint2_pad_fmt d).bind fun pf => Gen.Logic.parse_mpint d pf.1 pf.2) = some n := by
  rw [create_mpint_eq_model]
  exact regenerated_reader_inverts_writer n hn

example : Gen.Logic.create_mpint (-129) true 8 = some [255, 127] ∧ Gen.Logic.create_mpint (-128) true 8 = some [128]
    ∧ Gen.Logic.create_mpint 128 true 8 = some [0, 128] ∧ Gen.Logic.create_mpint 128 false 8 = some [128]
    ∧ Gen.Logic.create_mpint 0 true 0 = some [] ∧ Gen.Logic.create_mpint 18446744073709551616 true 65 = some [1, 0, 0, 0, 0, 0, 0, 0, 0] := by
  decide

/-! ### SSH-1: the regenerated unsigned writer, the length `read_mpint1` computes, and the regenerated reader -/

theorem createMpintI_nat (n : Nat) : Wire.createMpintI (n : Int) = Wire.createMpintU n := by
  unfold Wire.createMpintI Wire.createMpintU
  simp only [Int.natAbs_natCast]
  have hz : ((n : Int) = 0) = (n = 0) := by simp
  simp only [hz]
  have hm : ∀ len, ((n : Int) % (256:Int)^len).toNat = n % 256^len := by
    intro len
    have : ((256:Int)^len) = ((256^len : Nat) : Int) := by simp
    rw [this, ← Int.natCast_emod, Int.toNat_natCast]
  rw [hm]
  have hlt : n < 256 ^ (Wire.bitLen n / 8 + if n = 0 then 0 else 1) := by
    by_cases h0 : n = 0
    · subst h0; exact Nat.pow_pos (by decide)
    · simp only [h0, if_false]
      have h1 := Wire.lt_two_pow_bitLen n
      have h2 : (2:Nat) ^ Wire.bitLen n ≤ 2 ^ (8 * (Wire.bitLen n / 8 + 1)) := Nat.pow_le_pow_right (by decide) (by omega)
      rw [Nat.pow_mul, show (2:Nat) ^ 8 = 256 by decide] at h2
      omega
  rw [Nat.mod_eq_of_lt hlt]

/-- `read_mpint1` asks for exactly as many bytes as the writer emitted after the 16-bit header -/
theorem mpint1_nbytes_eq_model (n : Nat) :
    Gen.Logic.mpint1_nbytes (Wire.bitLen n : Int) = ((Wire.bytesOf (Wire.createMpintU n)).length : Int) := by
  unfold Gen.Logic.mpint1_nbytes
  rw [C10.createMpintU_eq]
  simp only [Wire.bytesOf, List.length_map, Wire.minBE_length]
  omega

/-- SSH-1 writer and reader as they stand in the source, composed: every natural number comes back -/
theorem regenerated_roundtrip_ssh1 (n : Nat) :
    ((Gen.Logic.create_mpint (n : Int) false (Wire.bitLen n : Int)).bind fun d => Gen.Logic.parse_mpint d [0] ['>', 'I']) = some (n : Int) := by
  have h := create_mpint_eq_model (n : Int) false
  simp only [Int.natAbs_natCast, Bool.false_eq_true, if_false] at h
  rw [h, Option.bind_some, parse_unsigned, createMpintI_nat, C10.createMpintU_eq, ← beNat_natsOf,
    Wire.natsOf_bytesOf _ (Wire.minBE_lt n), Wire.ofBE_minBE]

end SshAudit.GenLogic
