"""C08 — One bad target never costs the others their results.

Theorems: SshAudit.Props.C08 (every outcome of a worker — returned, raised, sys.exit — yields exactly one
result; the rank lookup cannot fail; the run's status is the highest-ranked status among the targets and
does not depend on completion order; framing of stdout in text and JSON mode; the ranked list is the
translator-regenerated one from main()).
Tie: target lists of length 2–5 mixing healthy archetypes with every failure archetype (unresolvable,
refused, silent, early close, close after banner, bad block size, bad length, truncated KEXINIT, wrong
packet type, probe-phase garbage) in every position, threads 1–3, text / JSON, through the real main();
block count, per-block content, exit status and framing compared with the model's `multi.main`.
Oracle: one block per target; every healthy target's report is present and equals its single-target run;
exit status = highest-ranked single-target status; with -j the whole of stdout is one JSON array.
"""
import itertools
import json

from common import Coverage, tstr
from props import multi_common as mc
import fakenet as fn

ID = 'C08'
MODULE = 'SshAudit.Props.C08'
NAMESPACE = 'SshAudit.C08'
THEOREMS = ['ranked_order', 'containment', 'rank_total', 'rank_eq_rk', 'rankStep_doc', 'rankFold_spec', 'foldl_max_ge', 'rank_fold_max', 'rank_fold_perm',
            'text_blocks', 'json_array', 'one_block_per_target']
# functions / statement blocks of the code whose Lean definitions are regenerated from the source on every run (harness/translate_logic.py);
# `GenLogic.<name>_eq_model` (lean/SshAudit/Props/GenLogic*.lean) ties each to the hand-written model function the theorems above are about
GEN_LOGIC = ['rank_step']

TECHNIQUE = 'Lean 4 theorems (fold = maximum by rank, permutation invariance, totality of the rank lookup over the worker\'s possible statuses) + end-to-end fault-mix correspondence through main() -T'
LEVEL_TEXT = ('The worker\'s result function is total over everything a scan can do, the rank fold is proved to return the highest-ranked status independent of completion order, and the stdout framing is stated exactly. '
              'Mixed healthy/failing target lists are run through the real thread pool and compared with single-target runs and with the model\'s framing and exit status.')
LEVEL_NOTE = ('PARTIAL for scheduling (real thread pool exercised, not modelled). D04 (sys.exit in a worker aborted the run) was repaired in /repo. JSON mode with an erroring target prints raw error text inside the array '
              '(not one JSON array): recorded known finding D05. The bad-block-size / bad-length messages are written by the packet reader directly to stdout before the target\'s block (the block itself is then empty): observation.')

RANK = [0, 2, 3, 1, -1]
DIRECT_LINES = {'[exception] invalid ssh packet (block size)', '[exception] invalid ssh packet (length)', '[exception] packet checksum CRC32 mismatch.'}


def run(ctx):
    r = ctx.rng
    cov = Coverage('one evaluation = one multi-target run of the real main(); non-trivial = distinct (target list, threads, format); lists of 2-5 targets mixing 4 healthy archetypes with 10 failure archetypes '
                   '(+ unresolvable host) in every position, threads 1-3, text and -j')
    failures, mismatches = [], []
    lines, expect = [], []

    def fail(kind, inp, observed, expected):
        failures.append({'sig': {'kind': kind}, 'input': inp, 'observed': observed, 'expected': expected, 'how': 'harness/props/C08.py: real main() -T over fakenet'})
    healthy = {k: v for k, v in mc.arch_servers().items() if k in ('A', 'C', 'G', 'H')}
    bad = mc.fail_servers()
    servers = dict(healthy)
    servers.update(bad)
    servers['unresolvable'] = None
    bad_names = sorted(bad) + ['unresolvable']
    single = {}

    def single_ref(n, ip, extra):
        key = (n, ip, tuple(extra))
        if key not in single:
            single[key] = mc.run_single(n, servers, ip, extra, unresolvable=(n == 'unresolvable'))
        return single[key]
    lists = []
    for h in healthy:
        for b in bad_names:
            lists.append([b, h])
            lists.append([h, b])
    if ctx.tier != 'thorough':
        lists = r.sample(lists, 36)
    for _ in range(ctx.scale(25, 600)):
        n = r.choice([3, 4, 5])
        lists.append([r.choice(list(healthy) + bad_names) for _ in range(n)])
    lists += [['badblock', 'G'], ['G', 'badblock'], ['badlength', 'A', 'refused'], ['unresolvable', 'unresolvable'], ['probegarbage', 'C']]
    for lst in lists:
        for threads in ((1, 2, 3) if ctx.tier == 'thorough' else (r.choice([1, 2, 3]),)):
            for extra in ([], ['-j']):
                unres = [n for n in lst if n == 'unresolvable']
                code, out, hosts, net = mc.run_targets(lst, servers, threads=threads, extra=extra, unresolvable=('unresolvable',))
                inp = {'targets': lst, 'threads': threads, 'args': extra}
                cov.add((tuple(lst), threads, tuple(extra)), True, tags=['json' if extra else 'text', 'threads-%d' % threads] + ['fault:' + n for n in set(lst) if n in bad_names],
                        sample={'targets': lst, 'threads': threads, 'args': extra, 'exit': code, 'stdout_head': out[:200]} if len(cov.samples) < 4 else None)
                singles = [single_ref(n, ip if n != 'unresolvable' else ip, extra) for n, ip in zip(lst, [mc.ip_of(i) for i in range(len(lst))])]
                want_code = 0
                for sc, _ in singles:
                    sc = sc if sc in RANK else -1
                    if RANK.index(sc) > RANK.index(want_code):
                        want_code = sc
                if code != want_code:
                    fail('exit_status_not_highest_ranked', inp, {'exit': code, 'single_target_statuses': [s[0] for s in singles]}, want_code)
                any_error = any(sc not in (0, 2, 3) for sc, _ in singles)
                # the packet reader writes framing errors straight to stdout (known finding D34): take those lines out before cutting blocks
                direct = [l for l in out.split('\n') if l in DIRECT_LINES]
                if extra:
                    for m_ in DIRECT_LINES:
                        if m_ + '\n' in out and m_ not in direct:
                            direct.append(m_)
                        out = out.replace(m_ + '\n', '')
                if direct:
                    fail('framing_error_printed_outside_block', inp, direct[:3], 'the error is part of that target\'s own block')
                    kept, skip_blank = [], False
                    for l in out.split('\n'):
                        if l in DIRECT_LINES:
                            continue
                        kept.append(l)
                    out = '\n'.join(kept)
                if not extra:
                    blocks = mc.split_text_blocks(out)
                    # the packet reader prints framing errors directly: strip those lines before counting
                    if len(blocks) != len(lst):
                        fail('block_count', inp, {'blocks': len(blocks), 'stdout': out[:400]}, len(lst))
                    by = {}
                    for b in blocks:
                        by.setdefault(mc.block_target(b), mc.normalise_block(b))
                    for (n, ip), (sc, sout) in zip(zip(lst, [mc.ip_of(i) for i in range(len(lst))]), singles):
                        if n in healthy:
                            if by.get(ip) != mc.normalise_block(sout):
                                fail('healthy_target_lost_or_changed', dict(inp, target=n), (by.get(ip) or '<no block>')[:300], mc.normalise_block(sout)[:300])
                    # framing correspondence: the model rebuilds stdout from the blocks and the exit status from the single-target statuses
                    outs = []
                    body = out[:-1] if out.endswith('\n') else out
                    for b in (out.split('\n' + mc.DASHES + '\n\n')):
                        outs.append(b)
                    toks = []
                    for i, b in enumerate(outs):
                        txt = b[:-1] if (i == len(outs) - 1 and b.endswith('\n')) else b
                        sc = singles[i][0] if i < len(singles) else 0
                        toks.append('r:%d:%s' % (sc if sc in RANK else -1, tstr(txt)))
                    if len(outs) == len(lst) and not direct:
                        lines.append('multi.main 0 ' + ','.join(toks))
                        expect.append(({'stdout': out, 'exit': code}, inp))
                else:
                    try:
                        arr = json.loads(out)
                        ok = isinstance(arr, list) and len(arr) == len(lst)
                    except Exception:
                        arr, ok = None, False
                    if not ok:
                        kind = 'json_array_broken_by_error_target' if any_error else 'json_array_broken'
                        fail(kind, inp, out[:300], 'one JSON array with %d elements' % len(lst))
                    else:
                        for (n, ip), (sc, sout) in zip(zip(lst, [mc.ip_of(i) for i in range(len(lst))]), singles):
                            if n in healthy:
                                got = [e for e in arr if isinstance(e, dict) and e.get('target') == '%s:22' % ip]
                                if not got or got[0] != json.loads(sout):
                                    fail('healthy_target_lost_or_changed', dict(inp, target=n), got[:1], 'the single-target JSON')
    rate_fleet_stage(ctx, fail, cov)
    same_host_ports_stage(ctx, fail, cov, healthy, bad, servers)
    odd_lines_stage(ctx, fail, cov, healthy, servers)
    model = ctx.driver(lines) if ctx.driver_ok else []
    for line, m, (want, inp) in zip(lines, model, expect):
        if m.get('ok') != want:
            mismatches.append({'stream': 'multi.main', 'op': line[:200], 'model': {k: str(v)[:200] for k, v in (m.get('ok') or {}).items()}, 'impl': {k: str(v)[:200] for k, v in want.items()}, 'case': inp})
    fn.reset_dbs()
    return {'failures': failures, 'mismatches': mismatches, 'coverage': cov, 'corr_cases': len(model),
            'assumptions': ['PARTIAL: completion order is whatever the real thread pool produces; rank_fold_perm covers all orders',
                            'the per-target status used for the expected exit status is that of a single-target run of the same fake server'],
            'observations': ['framing errors (bad block size / bad length) are printed by the packet reader straight to stdout, ahead of the (then empty) block of that target']}

RATE_NOTE = '(nfo) Potentially insufficient connection throttling detected'


def _run_ports(specs, table, threads, extra):
    import os
    import tempfile
    fd, path = tempfile.mkstemp(prefix='verif_targets_')
    os.write(fd, ('\n'.join(specs) + '\n').encode())
    os.close(fd)
    try:
        return fn.run_main(['-n', '--skip-rate-test', '-T', path, '--threads', str(threads)] + list(extra), fn.FakeNet(table))
    finally:
        os.unlink(path)


_PORT_SINGLES = {}


def same_host_ports_case(names, ports, ip, servers, threads, extra, fail, healthy):
    """one host, several ports, a different service on each (a healthy one beside refusing / broken ones): every listed endpoint yields its own
    block — the healthy ones the report a single-target run of that endpoint gives, the others an error — and the status is the highest ranked"""
    specs = [ip if p == 22 else '%s:%d' % (ip, p) for p in ports]
    table = {(ip, p): mc.fresh_copy(servers[n]) for n, p in zip(names, ports)}
    code, out = _run_ports(specs, table, threads, extra)
    inp = {'same_host_ports': True, 'targets': names, 'ports': ports, 'ip': ip, 'threads': threads, 'args': list(extra)}
    # the references are single-target invocations in processes of their own (nothing a multi-target run left behind can reach them)
    keys = [(n, spec, tuple(extra)) for n, spec in zip(names, specs)]
    missing = [k_ for k_ in keys if k_ not in _PORT_SINGLES]
    if missing:
        _PORT_SINGLES.update(mc.isolated_singles(missing))
    singles = [_PORT_SINGLES[k_] for k_ in keys]
    want = 0
    for sc, _ in singles:
        sc = sc if sc in RANK else -1
        if RANK.index(sc) > RANK.index(want):
            want = sc
    if code != want:
        fail('exit_status_not_highest_ranked', inp, {'exit': code, 'single_target_statuses': [s_[0] for s_ in singles]}, want)
    for m_ in DIRECT_LINES:
        out = out.replace(m_ + '\n', '')
    if not extra:
        blocks = mc.split_text_blocks(out)
        if len(blocks) != len(names):
            fail('block_count', inp, {'blocks': len(blocks), 'stdout': out[:400]}, len(names))
        norm = [mc.normalise_block(b) for b in blocks]
        for n, p, (sc, sout) in zip(names, ports, singles):
            if n in healthy and mc.normalise_block(sout) not in norm:
                fail('healthy_target_lost_or_changed', dict(inp, target='%s:%d' % (n, p)), [b[:200] for b in norm], mc.normalise_block(sout)[:300])
        for n, p, (sc, sout) in zip(names, ports, singles):
            if n not in healthy and mc.normalise_block(sout) not in norm:
                fail('error_target_block_lost_or_changed', dict(inp, target='%s:%d' % (n, p)), [b_[:200] for b_ in norm], mc.normalise_block(sout)[:300])
    else:
        try:
            arr = json.loads(out)
        except Exception:
            return    # an error target breaks the array (known finding D05-multi): judged by the main stage
        for n, p, (sc, sout) in zip(names, ports, singles):
            if n in healthy:
                got = [e for e in arr if isinstance(e, dict) and e.get('target') == '%s:%d' % (ip, p)]
                try:
                    ref = json.loads(sout)
                except Exception:
                    ref = None
                if not got or got[0] != ref:
                    fail('healthy_target_lost_or_changed', dict(inp, target='%s:%d' % (n, p)), got[:1], 'the single-target JSON')


def same_host_ports_stage(ctx, fail, cov, healthy, bad, servers):
    r = ctx.rng
    plain_bad = [b for b in sorted(bad) if b in ('refused', 'earlyclose', 'closeafterbanner', 'trunckex', 'wrongtype', 'silent')]
    cases = [(['A', 'refused'], [2222, 22]), (['refused', 'A'], [22, 2222]), (['earlyclose', 'G', 'refused'], [22, 2222, 2022])]
    for _ in range(ctx.scale(4, 40)):
        n = r.choice([2, 3, 4])
        names = [r.choice(sorted(healthy)), r.choice(plain_bad)] + [r.choice(sorted(healthy) + plain_bad) for _ in range(n - 2)]
        r.shuffle(names)
        cases.append((names, r.sample([22, 2222, 2022, 8022, 22022], n)))
    for k, (names, ports) in enumerate(cases):
        threads = r.choice([1, 2, 3])
        for extra in ([], ['-j']):
            cov.add(('same-host-ports', tuple(names), tuple(ports), threads, tuple(extra)), True, tags=['same-host-ports'])
            same_host_ports_case(names, ports, '10.8.7.1', servers, threads, extra, fail, healthy)


def odd_lines_stage(ctx, fail, cov, healthy, servers):
    """lines of a targets file that name nothing connectable (a trailing comment, a blank or tab inside the name, a control character):
    each is one target with an error block of its own; the healthy targets beside it keep their reports and the status is the
    highest ranked (seed C08-11: a validation error raised in the worker before its try block ended the whole run)"""
    import os
    import tempfile
    r = ctx.rng
    odd = ['db01.invalid # decommissioned', 'web 07.invalid', 'gw.invalid\t2222', 'host\x07bell.invalid', 'a b c', 'name.invalid;rm', '::::', '[not-closed', 'x' * 300 + '.invalid']
    hs = sorted(healthy)
    for k in range(ctx.scale(6, 40)):
        o = odd[k % len(odd)]
        names = [r.choice(hs), r.choice(hs)]
        pos = r.randrange(3)
        ips = [mc.ip_of(i) for i in range(2)]
        lines = list(ips)
        lines.insert(pos, o)
        table = {ip: mc.fresh_copy(servers[n]) for ip, n in zip(ips, names)}
        for extra in ([], ['-j']):
            threads = r.choice([1, 2, 3])
            fd, path = tempfile.mkstemp(prefix='verif_targets_')
            os.write(fd, ('\n'.join(lines) + '\n').encode())
            os.close(fd)
            try:
                code, out = fn.run_main(['-n', '--skip-rate-test', '-T', path, '--threads', str(threads)] + extra, fn.FakeNet(table))
            finally:
                os.unlink(path)
            inp = {'odd_line': o, 'targets': names, 'position': pos, 'threads': threads, 'args': extra}
            cov.add(('odd-line', o, pos, threads, tuple(extra)), True, tags=['odd-target-line'])
            if code not in (1, -1) or 'Traceback' in out:
                fail('odd_target_line_ends_the_run', inp, {'exit': code, 'stdout': out[:500]}, 'exit 1 (a connection error for that line), a block per target')
                continue
            if not extra:
                blocks = mc.split_text_blocks(out)
                reports = sum(1 for b in blocks if '(gen) banner:' in b)
                if len(blocks) != 3 or reports != 2:
                    fail('odd_target_line_costs_a_result', inp, {'blocks': len(blocks), 'reports': reports, 'stdout': out[:500]}, '3 blocks, 2 of them reports')
            else:
                for ip in ips:
                    if '"target": "%s:22"' % ip not in out:
                        fail('odd_target_line_costs_a_result', inp, {'missing_json_element_for': ip, 'stdout': out[:300]}, 'a JSON element per healthy target')


def _strip_rate(text):
    return '\n'.join(l for l in text.split('\n') if not l.startswith(RATE_NOTE))


def judge_fleet(inp, r, fail):
    """one isolated multi-target run with the connection-rate check enabled (seed C08-7: a socket-level error inside one target's rate check must
    not cost the other targets their results)"""
    lst, threads, extra = inp['targets'], inp['threads'], inp['args']
    if r.get('hang'):
        fail('run_does_not_terminate', inp, {'stdout_so_far': (r['partial'].get('out') or r.get('stdout_tail') or '')[-400:]}, 'the run ends with one result block per target')
        return
    code, out, singles = r['code'], r['out'], r['singles']
    want_code = 0
    for sc, _ in singles:
        sc = sc if sc in RANK else -1
        if RANK.index(sc) > RANK.index(want_code):
            want_code = sc
    if code != want_code:
        fail('exit_status_not_highest_ranked', inp, {'exit': code, 'single_target_statuses': [s_[0] for s_ in singles]}, want_code)
    if extra:
        if all(sc in (0, 2, 3) for sc, _ in singles):
            try:
                arr = json.loads(out)
                ok = isinstance(arr, list) and len(arr) == len(lst)
            except Exception:
                ok = False
            if not ok:
                fail('json_array_broken', inp, out[:300], 'one JSON array with %d elements' % len(lst))
        return
    blocks = mc.split_text_blocks(out)
    if len(blocks) != len(lst):
        fail('block_count', inp, {'blocks': len(blocks), 'stdout': out[:400]}, len(lst))
        return
    by = {}
    for b in blocks:
        by.setdefault(mc.block_target(b), mc.normalise_block(b))
    for i, (n, (sc, sout)) in enumerate(zip(lst, singles)):
        if sc in (0, 2, 3):
            got, want = by.get(mc.ip_of(i)), mc.normalise_block(sout)
            if threads > 1 and got is not None:
                got, want = _strip_rate(got), _strip_rate(want)     # the shared scripted clock makes the measured rate schedule-dependent
            if got != want:
                fail('healthy_target_lost_or_changed', dict(inp, target=n), (got or '<no block>')[:300], want[:300])


def rate_fleet_cases(ctx):
    r = ctx.rng
    healthy = ['rateok', 'A', 'G', 'H']
    faults = ['rateunreach', 'ratenetdown', 'ratereset', 'raterefused', 'ratenobufs', 'probeunreach', 'hsunreach', 'refused', 'silent']
    cases = [(['rateunreach', 'rateok'], 1, []), (['rateok', 'rateunreach', 'A'], 1, []), (['ratenetdown', 'rateok', 'G'], 2, []), (['rateunreach', 'rateunreach', 'rateok'], 1, []),
             (['rateok', 'rateok'], 1, ['-j']), (['raterefused', 'rateok', 'ratenobufs', 'H'], 1, [])]
    for _ in range(ctx.scale(10, 200)):
        n = r.choice([2, 3, 4])
        lst = [r.choice(faults) if r.random() < 0.5 else r.choice(healthy) for _ in range(n)]
        cases.append((lst, r.choice([1, 1, 2, 3]), r.choice([[], [], ['-j']])))
    return cases


def rate_fleet_stage(ctx, fail, cov):
    cases = rate_fleet_cases(ctx)
    res = mc.isolated_fleets([(lst, th, ex, True) for lst, th, ex in cases])
    for (lst, th, ex), r in zip(cases, res):
        inp = {'stage': 'rate-fleet', 'targets': lst, 'threads': th, 'args': ex}
        cov.add(('rate-fleet', tuple(lst), th, tuple(ex)), True, tags=['rate-check-enabled', 'threads-%d' % th] + ['fault:' + n for n in set(lst)])
        judge_fleet(inp, r, fail)


def _replay_ports(inp):
    healthy = {k: v for k, v in mc.arch_servers().items() if k in ('A', 'C', 'G', 'H')}
    servers = dict(healthy)
    servers.update(mc.fail_servers())
    got = []
    same_host_ports_case(inp['targets'], inp['ports'], inp['ip'], servers, inp['threads'], inp['args'], lambda k, i, o, e: got.append((k, o, e)), healthy)
    for g in got:
        print(json.dumps(g, default=str)[:800])
    print('PROPERTY FAILS' if got else 'every endpoint of the host has its own result')
    return 1 if got else 0


def replay(obj):
    f = obj.get('failure', obj)
    inp = f['input']
    if inp.get('same_host_ports'):
        return _replay_ports(inp)
    if inp.get('stage') == 'rate-fleet':
        fails = []
        r = mc.isolated_fleets([(inp['targets'], inp['threads'], inp['args'], True)])[0]
        judge_fleet({k: v for k, v in inp.items() if k != 'target'}, r, lambda kind, i_, o_, e_: fails.append((kind, o_, e_)))
        print('multi-target run with the rate check enabled:', 'does not terminate' if r.get('hang') else 'exit %s' % r.get('code'))
        for k_, o_, e_ in fails:
            print('FAILS', k_, 'observed', str(o_)[:400], 'expected', str(e_)[:200])
        return 1 if fails else 0
    healthy = {k: v for k, v in mc.arch_servers().items() if k in ('A', 'C', 'G', 'H')}
    servers = dict(healthy)
    servers.update(mc.fail_servers())
    servers['unresolvable'] = None
    code, out, hosts, net = mc.run_targets(inp['targets'], servers, threads=inp['threads'], extra=inp['args'], unresolvable=('unresolvable',))
    print('exit', code)
    print(out[:1500])
    if inp['args']:
        try:
            arr = json.loads(out)
            ok = isinstance(arr, list) and len(arr) == len(inp['targets'])
        except Exception:
            ok = False
        print('one JSON array with one element per target:', ok)
        return 0 if ok else 1
    n = len(mc.split_text_blocks(out))
    print('%d blocks for %d targets' % (n, len(inp['targets'])))
    return 0 if n == len(inp['targets']) else 1
