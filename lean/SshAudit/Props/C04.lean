/-
  C04 — Terrapin (CVE-2023-48795) exposure is flagged exactly per the published rule.

  `Report.postProcess` is `post_process_findings`; `pp.db` is the database the report is then
  rendered from.  `V` below is the published rule: ChaCha20-Poly1305 ciphers, plus — only when a
  CBC cipher *and* an EtM MAC are both offered — all CBC ciphers and all EtM MACs.
-/
import SshAudit.Lemmas.Report
namespace SshAudit.C04
open SshAudit SshAudit.Report

theorem marker_eq (db : DB) (peer : Peer) (client : Bool) (bsw : Option Str) (rn : Str) :
    (postProcess db peer client bsw rn).marker = markerFor peer client := rfl

/-- **Exactly the rule's algorithms are marked when the role's marker is absent; none when it is present.** -/
theorem terrapin_exact (db : DB) (peer : Peer) (client : Bool) (bsw : Option Str) (rn : Str) :
    (postProcess db peer client bsw rn).vulnerable =
      if markerFor peer client then [] else (Venc peer client).map (encC, ·) ++ (Vmac peer client).map (macC, ·) := rfl

/-- only ciphers and MACs are ever marked — never a key exchange or host-key algorithm -/
theorem only_enc_mac (db : DB) (peer : Peer) (client : Bool) (bsw : Option Str) (rn : Str) :
    ∀ cn ∈ (postProcess db peer client bsw rn).vulnerable, cn.1 = encC ∨ cn.1 = macC := by
  intro cn h
  rw [terrapin_exact] at h
  split at h
  · cases h
  · simp only [List.mem_append, List.mem_map] at h
    rcases h with ⟨_, _, rfl⟩ | ⟨_, _, rfl⟩
    · exact Or.inl rfl
    · exact Or.inr rfl

/-- the marker of the *other* role is ignored -/
theorem other_role_marker_ignored (peer : Peer) :
    (peer.kex.contains strictC = false → markerFor peer true = false) ∧ (peer.kex.contains strictS = false → markerFor peer false = false) := by
  constructor <;> intro h <;> simp only [markerFor, h] <;> simp

/-- membership in the rule: a cipher is in V iff it is offered and (ChaCha, or CBC while some EtM MAC is offered) -/
theorem mem_Venc (peer : Peer) (client : Bool) (n : Str) :
    n ∈ Venc peer client ↔ n ∈ ciphersOf peer client ∧ (isChacha n = true ∨ (isCbc n = true ∧ ∃ m ∈ macsOf peer client, isEtm m = true)) := by
  unfold Venc both
  constructor
  · intro h
    rw [List.mem_append] at h
    rcases h with h | h
    · rw [List.mem_filter] at h; exact ⟨h.1, Or.inl h.2⟩
    · split at h
      · next hb =>
        rw [List.mem_filter] at h
        refine ⟨h.1, Or.inr ⟨h.2, ?_⟩⟩
        simp only [Bool.and_eq_true, Bool.not_eq_true', List.isEmpty_eq_false_iff] at hb
        obtain ⟨m, hm⟩ := List.exists_mem_of_ne_nil _ hb.2
        rw [List.mem_filter] at hm
        exact ⟨m, hm.1, hm.2⟩
      · cases h
  · rintro ⟨hin, hc | ⟨hcbc, m, hm, hetm⟩⟩
    · exact List.mem_append_left _ (List.mem_filter.mpr ⟨hin, hc⟩)
    · apply List.mem_append_right
      have hb : (!((ciphersOf peer client).filter isCbc).isEmpty && !((macsOf peer client).filter isEtm).isEmpty) = true := by
        simp only [Bool.and_eq_true, Bool.not_eq_true', List.isEmpty_eq_false_iff]
        exact ⟨List.ne_nil_of_mem (List.mem_filter.mpr ⟨hin, hcbc⟩), List.ne_nil_of_mem (List.mem_filter.mpr ⟨hm, hetm⟩)⟩
      rw [if_pos hb]
      exact List.mem_filter.mpr ⟨hin, hcbc⟩

theorem mem_Vmac (peer : Peer) (client : Bool) (n : Str) :
    n ∈ Vmac peer client ↔ n ∈ macsOf peer client ∧ isEtm n = true ∧ ∃ c ∈ ciphersOf peer client, isCbc c = true := by
  unfold Vmac both
  constructor
  · intro h
    split at h
    · next hb =>
      rw [List.mem_filter] at h
      simp only [Bool.and_eq_true, Bool.not_eq_true', List.isEmpty_eq_false_iff] at hb
      obtain ⟨c, hc⟩ := List.exists_mem_of_ne_nil _ hb.1
      rw [List.mem_filter] at hc
      exact ⟨h.1, h.2, c, hc.1, hc.2⟩
    · cases h
  · rintro ⟨hin, hetm, c, hc, hcbc⟩
    have hb : (!((ciphersOf peer client).filter isCbc).isEmpty && !((macsOf peer client).filter isEtm).isEmpty) = true := by
      simp only [Bool.and_eq_true, Bool.not_eq_true', List.isEmpty_eq_false_iff]
      exact ⟨List.ne_nil_of_mem (List.mem_filter.mpr ⟨hc, hcbc⟩), List.ne_nil_of_mem (List.mem_filter.mpr ⟨hin, hetm⟩)⟩
    rw [if_pos hb]
    exact List.mem_filter.mpr ⟨hin, hetm⟩

/-- **With the marker the advisory note names exactly V (ChaCha, then CBC, then EtM) and exists iff V is non-empty; without it there is none.** -/
theorem advisory_note (db : DB) (peer : Peer) (client : Bool) (bsw : Option Str) :
    (postProcess db peer client bsw []).notes =
      if markerFor peer client = true ∧ Venc peer client ++ Vmac peer client ≠ [] then [advisory (Venc peer client ++ Vmac peer client)] else [] := by
  simp only [postProcess, List.length_nil, gt_iff_lt, Nat.lt_irrefl, if_false, List.append_nil]
  cases hm : markerFor peer client
  · simp
  · simp only [if_true, true_and]
    cases hv : Venc peer client ++ Vmac peer client with
    | nil => simp
    | cons x xs => simp

/-! ### the marks reach the database the report is rendered from, and nothing else does -/

def terrapinIn (db : DB) (cat n : Str) : Bool :=
  match DBm.lookup db cat n with
  | some e => (DBm.slot e 2).contains (some terrapinText)
  | none => false

theorem slot2_appendAt (d : List (List (Option Str))) :
    ((appendAt 2 3 terrapinText d).getD 2 []).contains (some terrapinText) = true := by
  unfold appendAt
  simp only [List.getD_eq_getElem?_getD, List.getElem?_mapIdx]
  have hlen : 2 < (d ++ List.replicate (3 - d.length) []).length := by simp; omega
  rw [List.getElem?_eq_getElem hlen]
  simp

theorem slot2_appendAt_other (d : List (List (Option Str))) (t : Str) (i k : Nat) (hi : i ≠ 2) :
    ((appendAt i k t d).getD 2 []).contains (some terrapinText) = (d.getD 2 []).contains (some terrapinText) := by
  unfold appendAt
  simp only [List.getD_eq_getElem?_getD, List.getElem?_mapIdx]
  have h2 : (2 : Nat) ≠ i := fun h => hi h.symm
  by_cases hlen : 2 < d.length
  · rw [List.getElem?_append_left hlen]
    simp [List.getElem?_eq_getElem hlen, h2]
  · rw [List.getElem?_append_right (by omega)]
    have : d[2]? = none := List.getElem?_eq_none_iff.mpr (by omega)
    rw [this]
    by_cases hr : 2 - d.length < (List.replicate (k - d.length) ([] : List (Option Str))).length
    · rw [List.getElem?_eq_getElem hr]; simp [h2]
    · rw [List.getElem?_eq_none_iff.mpr (by omega)]; rfl

/-- adding the warning to one entry makes it present there and changes no other entry's warnings -/
theorem terrapinIn_addTerrapin (db : DB) (cat name c n : Str) :
    terrapinIn (addTerrapin db cat name) c n =
      (terrapinIn db c n || (decide (c = cat ∧ n = name) && (DBm.lookup db c n).isSome)) := by
  unfold terrapinIn addTerrapin
  rw [lookup_updateEntry]
  by_cases h : c = cat ∧ n = name
  · rw [if_pos h]
    cases hl : DBm.lookup db c n with
    | none => simp
    | some e =>
      simp only [Option.map_some, h, and_self, decide_true, Option.isSome_some, Bool.and_self, Bool.or_true]
      exact slot2_appendAt e.desc
  · rw [if_neg h]; simp [h]

theorem terrapinIn_foldl (cat : Str) (names : List Str) (db : DB) (c n : Str) :
    terrapinIn (names.foldl (fun d x => addTerrapin d cat x) db) c n =
      (terrapinIn db c n || (decide (c = cat ∧ n ∈ names) && (DBm.lookup db c n).isSome)) := by
  induction names generalizing db with
  | nil => simp
  | cons x xs ih =>
    rw [List.foldl_cons, ih, terrapinIn_addTerrapin]
    have hsome : (DBm.lookup (addTerrapin db cat x) c n).isSome = (DBm.lookup db c n).isSome := by
      unfold addTerrapin; rw [lookup_updateEntry]; split <;> simp
    rw [hsome]
    by_cases h1 : c = cat <;> by_cases h2 : n = x <;> by_cases h3 : n ∈ xs <;> cases (DBm.lookup db c n).isSome <;> simp [h1, h2, h3]

theorem isSome_addTerrapin (d : DB) (cat x c n : Str) : (DBm.lookup (addTerrapin d cat x) c n).isSome = (DBm.lookup d c n).isSome := by
  unfold addTerrapin; rw [lookup_updateEntry]; split <;> simp

theorem isSome_foldl (cat : Str) (names : List Str) (d : DB) (c n : Str) :
    (DBm.lookup (names.foldl (fun d x => addTerrapin d cat x) d) c n).isSome = (DBm.lookup d c n).isSome := by
  induction names generalizing d with
  | nil => rfl
  | cons x xs ih => rw [List.foldl_cons, ih, isSome_addTerrapin]

/-- the OpenSSH-2048 note touches the info slot of one key exchange: Terrapin marks and the key set are unaffected -/
theorem fallback_frame (db : DB) (peer : Peer) (bsw : Option Str) (c n : Str) :
    terrapinIn (dbAfterFallback db peer bsw) c n = terrapinIn db c n ∧
    (DBm.lookup (dbAfterFallback db peer bsw) c n).isSome = (DBm.lookup db c n).isSome := by
  unfold dbAfterFallback
  by_cases hf : fallbackApplies peer bsw = true
  · rw [if_pos hf]
    unfold terrapinIn
    rw [lookup_updateEntry]
    by_cases hcn : c = kexC ∧ n = gexSha256
    · rw [if_pos hcn]
      cases hl : DBm.lookup db c n with
      | none => exact ⟨rfl, rfl⟩
      | some e =>
        refine ⟨?_, rfl⟩
        exact slot2_appendAt_other e.desc openssh2048Text 3 4 (by decide)
    · rw [if_neg hcn]; exact ⟨rfl, rfl⟩
  · rw [if_neg hf]; exact ⟨rfl, rfl⟩

/-- **Rendered report, role's marker absent: a database-known cipher/MAC entry carries the Terrapin
    warning iff its name is in V** (the master table carrying none), and no key-exchange or
    host-key entry ever gains it. -/
theorem terrapin_in_report (db : DB) (peer : Peer) (client : Bool) (bsw : Option Str) (rn : Str) (hm : markerFor peer client = false)
    (hfresh : ∀ c n, terrapinIn db c n = false) (c n : Str) :
    terrapinIn (postProcess db peer client bsw rn).db c n =
      ((decide (c = encC ∧ n ∈ Venc peer client) || decide (c = macC ∧ n ∈ Vmac peer client)) && (DBm.lookup db c n).isSome) := by
  have hdb : (postProcess db peer client bsw rn).db = dbAfterTerrapin (dbAfterFallback db peer bsw) peer client := rfl
  rw [hdb]
  unfold dbAfterTerrapin
  rw [hm]
  simp only [Bool.false_eq_true, if_false]
  rw [terrapinIn_foldl, terrapinIn_foldl, isSome_foldl, (fallback_frame db peer bsw c n).1, (fallback_frame db peer bsw c n).2, hfresh c n]
  cases (DBm.lookup db c n).isSome <;> simp

/-- **Role's marker present: the report's database carries no Terrapin mark at all.** -/
theorem marker_silences (db : DB) (peer : Peer) (client : Bool) (bsw : Option Str) (rn : Str) (hm : markerFor peer client = true)
    (hfresh : ∀ c n, terrapinIn db c n = false) (c n : Str) :
    terrapinIn (postProcess db peer client bsw rn).db c n = false ∧ (postProcess db peer client bsw rn).vulnerable = [] := by
  have hdb : (postProcess db peer client bsw rn).db = dbAfterTerrapin (dbAfterFallback db peer bsw) peer client := rfl
  rw [hdb, terrapin_exact]
  unfold dbAfterTerrapin
  rw [hm]
  simp only [if_true, and_true]
  rw [(fallback_frame db peer bsw c n).1, hfresh c n]

/-! ### suppressed algorithms are never recommended -/

/-- every database name of ChaCha / CBC / EtM shape the peer does not offer is on the suppress list -/
theorem suppressed_if_disabled (db : DB) (peer : Peer) (client : Bool) (bsw : Option Str) (rn : Str) (n : Str) :
    (n ∈ DBm.keys (postProcess db peer client bsw rn).db encC ∧ isChacha n = true ∧ n ∉ ciphersOf peer client → n ∈ (postProcess db peer client bsw rn).suppress) ∧
    (n ∈ DBm.keys (postProcess db peer client bsw rn).db encC ∧ isCbc n = true ∧ n ∉ ciphersOf peer client → n ∈ (postProcess db peer client bsw rn).suppress) ∧
    (n ∈ DBm.keys (postProcess db peer client bsw rn).db macC ∧ isEtm n = true ∧ n ∉ macsOf peer client → n ∈ (postProcess db peer client bsw rn).suppress) := by
  refine ⟨?_, ?_, ?_⟩
  · rintro ⟨hk, hs, hn⟩
    simp only [postProcess, List.mem_append, List.mem_filter, Bool.and_eq_true, Bool.not_eq_true']
    refine Or.inl (Or.inl (Or.inr ⟨hk, hs, ?_⟩))
    simpa [List.mem_filter] using fun h => absurd h hn
  · rintro ⟨hk, hs, hn⟩
    simp only [postProcess, List.mem_append, List.mem_filter, Bool.and_eq_true, Bool.not_eq_true']
    refine Or.inl (Or.inr ⟨hk, hs, ?_⟩)
    simpa [List.mem_filter] using fun h => absurd h hn
  · rintro ⟨hk, hs, hn⟩
    simp only [postProcess, List.mem_append, List.mem_filter, Bool.and_eq_true, Bool.not_eq_true']
    refine Or.inr ⟨hk, hs, ?_⟩
    simpa [List.mem_filter] using fun h => absurd h hn

/-- nothing on the suppress list is ever recommended (for addition or otherwise) -/
theorem suppressed_not_recommended (db : DB) (sw : Option Version.Software) (peer : Peer) (suppress : List Str) :
    ∀ r ∈ recommendations db sw peer suppress, r.name ∉ suppress := by
  intro r hr
  unfold recommendations at hr
  cases sw with
  | none => cases hr
  | some sw =>
    simp only [List.mem_flatMap] at hr
    obtain ⟨⟨c, adv⟩, _, hr⟩ := hr
    simp only [List.mem_append, List.mem_filter, Bool.and_eq_true, Bool.not_eq_true', decide_eq_true_eq] at hr
    rcases hr with (⟨_, _, h⟩ | ⟨_, _, h⟩) | ⟨_, _, h⟩ <;> simpa using h

-- non-vacuity
def peerEx : Peer := { kex := [s "curve25519-sha256"], key := [], encC := [], encS := [s "chacha20-poly1305@openssh.com", s "aes128-cbc", s "aes256-ctr"],
                       macC := [], macS := [s "hmac-sha2-256-etm@openssh.com", s "hmac-sha2-256"], compS := [] }
example : Venc peerEx false = [s "chacha20-poly1305@openssh.com", s "aes128-cbc"] ∧ Vmac peerEx false = [s "hmac-sha2-256-etm@openssh.com"] := by decide +kernel
example : markerFor { peerEx with kex := [strictC] } false = false ∧ markerFor { peerEx with kex := [strictS] } false = true := by decide +kernel

end SshAudit.C04
