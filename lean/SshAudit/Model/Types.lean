/-
  Core types shared by the generated tables (`SshAudit.Gen.*`) and the hand-written
  model (`SshAudit.Model.*`).  Import-free (core Lean only) so that the driver links.
-/
namespace SshAudit

/-- Text is a list of characters (Python `str`); only ASCII is interpreted. -/
abbrev Str := List Char
/-- Bytes (Python `bytes`). -/
abbrev Bytes := List UInt8

/-- One entry of a rating database: `name ↦ alg_desc`, where `alg_desc` is, literally as
    in `ssh2_kexdb.py`, a list of 1–4 lists: versions, failures, warnings, infos.
    `none` mirrors a Python `None` inside such a list. -/
structure Entry where
  name : Str
  desc : List (List (Option Str))
deriving Repr, DecidableEq

/-- A rating database: category ↦ entries, in insertion order (Python ≥ 3.7 dicts). -/
abbrev DB := List (Str × List Entry)

/-- One record of `HostKeyTest.HOST_KEY_TYPES`. -/
structure HostKeyType where
  name : Str
  cert : Bool
  variableKeyLen : Bool
deriving Repr, DecidableEq

/-- Size requirements of one host-key type in a built-in policy. -/
structure HostKeySize where
  keyType : Str
  hostkeySize : Nat
  caKeyType : Str      -- "" when absent
  caKeySize : Nat      -- 0 when absent
deriving Repr, DecidableEq

/-- A built-in policy exactly as `BUILTIN_POLICIES` lists it. -/
structure BuiltinPolicy where
  name : Str
  version : Str
  banner : Option Str
  compressions : Option (List Str)
  hostKeys : Option (List Str)
  optionalHostKeys : Option (List Str)
  kex : Option (List Str)
  ciphers : Option (List Str)
  macs : Option (List Str)
  hostkeySizes : Option (List HostKeySize)
  dhModulusSizes : Option (List (Str × Nat))
  serverPolicy : Bool
deriving Repr, DecidableEq

end SshAudit
