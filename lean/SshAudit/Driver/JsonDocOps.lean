import SshAudit.Driver.WireOps
namespace SshAudit.Driver

/-- stub: filled in by the builder of this extension -/
def jsonDocOp (_op : String) (_args : List String) : Option J := none

end SshAudit.Driver
