/- GF(2)-linearity of the CRC bit step and the table/bit-serial equivalence (C10).  Core Lean only. -/
import SshAudit.Model.Wire
namespace SshAudit.Wire

theorem xor_mod_two (a b : Nat) : (a ^^^ b) % 2 = (a % 2 + b % 2) % 2 := by
  have ha := Nat.mod_two_eq_zero_or_one a
  have hb := Nat.mod_two_eq_zero_or_one b
  have h : ((a ^^^ b) % 2 = 1) ↔ ((a % 2 = 1) ≠ (b % 2 = 1)) := by
    simp only [Nat.mod_two_eq_one_iff_testBit_zero, Nat.testBit_xor]
    cases a.testBit 0 <;> cases b.testBit 0 <;> simp
  have hab := Nat.mod_two_eq_zero_or_one (a ^^^ b)
  rcases ha with ha | ha <;> rcases hb with hb | hb <;> rcases hab with hab | hab <;>
    simp [ha, hb, hab] at h ⊢

theorem xor_cancel (x y p : Nat) : (x ^^^ p) ^^^ (y ^^^ p) = x ^^^ y := by
  have : (x ^^^ p) ^^^ (y ^^^ p) = (x ^^^ y) ^^^ (p ^^^ p) := by ac_rfl
  rw [this, Nat.xor_self, Nat.xor_zero]

theorem step_xor (a b : Nat) : crcBitStep (a ^^^ b) = crcBitStep a ^^^ crcBitStep b := by
  unfold crcBitStep
  rw [Nat.shiftRight_xor_distrib, xor_mod_two]
  have ha := Nat.mod_two_eq_zero_or_one a
  have hb := Nat.mod_two_eq_zero_or_one b
  rcases ha with ha | ha <;> rcases hb with hb | hb <;> simp only [ha, hb]
  · simp
  · simp; ac_rfl
  · simp; ac_rfl
  · simp [xor_cancel]

theorem stepN_xor (n a b : Nat) : crcBitStepN n (a ^^^ b) = crcBitStepN n a ^^^ crcBitStepN n b := by
  induction n generalizing a b with
  | zero => rfl
  | succ n ih => simp only [crcBitStepN, step_xor, ih]

theorem stepN_shift (k y : Nat) (h : y % 2 ^ k = 0) : crcBitStepN k y = y >>> k := by
  induction k generalizing y with
  | zero => simp [crcBitStepN]
  | succ k ih =>
    obtain ⟨c, hc⟩ := Nat.dvd_of_mod_eq_zero h
    have hy : y = 2 * (2 ^ k * c) := by rw [hc, Nat.pow_succ]; ac_rfl
    have h2 : y % 2 = 0 := by omega
    have hs : crcBitStep y = y >>> 1 := by simp [crcBitStep, h2]
    have h3 : (y >>> 1) % 2 ^ k = 0 := by
      rw [Nat.shiftRight_eq_div_pow, Nat.pow_one, hy, Nat.mul_div_cancel_left _ (by decide : 0 < 2)]
      exact Nat.mul_mod_right _ _
    rw [crcBitStepN, hs, ih _ h3, ← Nat.shiftRight_add, Nat.add_comm]

theorem split8 (x : Nat) : x = ((x >>> 8) <<< 8) ^^^ (x % 256) := by
  apply Nat.eq_of_testBit_eq
  intro i
  rw [Nat.testBit_xor, Nat.testBit_shiftLeft, Nat.testBit_shiftRight,
      show (256 : Nat) = 2 ^ 8 by rfl, Nat.testBit_mod_two_pow]
  by_cases hi : 8 ≤ i
  · have : ¬ i < 8 := by omega
    simp [hi, this, Nat.add_sub_cancel' hi]
  · have : i < 8 := by omega
    simp [hi, this]

/-- the table-driven update equals eight bit steps -/
theorem byte_update (c b : Nat) (hb : b < 256) :
    crcBitStepN 8 (c ^^^ b) = (c >>> 8) ^^^ crcBitStepN 8 ((c ^^^ b) % 256) := by
  have hx := split8 (c ^^^ b)
  have hhi : (c ^^^ b) >>> 8 = c >>> 8 := by
    rw [Nat.shiftRight_xor_distrib]
    have : b >>> 8 = 0 := by rw [Nat.shiftRight_eq_div_pow]; exact Nat.div_eq_of_lt hb
    rw [this, Nat.xor_zero]
  conv => lhs; rw [hx]
  rw [stepN_xor, hhi, stepN_shift 8 ((c >>> 8) <<< 8)]
  · rw [Nat.shiftLeft_shiftRight]
  · rw [Nat.shiftLeft_eq]; exact Nat.mul_mod_left _ _

/-- every table entry is eight bit steps of its index (all 256 entries, kernel-evaluated) -/
theorem table_eq_steps : ∀ i, i < 256 → crcTable.getD i 0 = crcBitStepN 8 i := by decide +kernel

theorem index_eq (c b : Nat) (hb : b < 256) : b ^^^ (c % 256) = (c ^^^ b) % 256 := by
  rw [show (256 : Nat) = 2 ^ 8 by rfl, Nat.xor_mod_two_pow, Nat.mod_eq_of_lt (show b < 2 ^ 8 from hb), Nat.xor_comm]

end SshAudit.Wire
