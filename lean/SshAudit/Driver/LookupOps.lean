import SshAudit.Driver.WireOps
import SshAudit.Driver.ReportOps
import SshAudit.Driver.OutputOps
import SshAudit.Model.Lookup
import SshAudit.Gen.KexDB
namespace SshAudit.Driver
open SshAudit

/-- the set order observed on the implementation, per category; used only if it is a permutation of the model's own set (otherwise database order,
    and the comparison of the text fails) -/
def orderOf (given : List (Str × List Str)) : Lookup.SetOrder := fun c l =>
  match given.find? (·.1 = c) with
  | some (_, g) => if g.isPerm l then g else l
  | none => l

def decOrders : List String → Option (List (Str × List Str))
  | [k, h, m, e] => do
    let k ← decStrs k; let h ← decStrs h; let m ← decStrs m; let e ← decStrs e
    pure [(Report.kexC, k), (Report.keyC, h), (Report.macC, m), (Report.encC, e)]
  | _ => none

def jsugg (g : Lookup.Suggestion) : J := .arr [.str g.unknown, .str g.cat, .str g.name]

def lookupData (o : Lookup.SetOrder) (names : List Str) : List (String × J) :=
  let db := Gen.ssh2db
  [("requested", J.ofStrs names), ("pad", .nat (Lookup.padding names)),
   ("found", .obj (Lookup.algTypes.map fun ct => (String.ofList ct.1, J.ofStrs (Lookup.found db names ct.1)))),
   ("sections", .arr ((Lookup.sections o db names).map fun sc => .obj [("cat", .str sc.cat), ("title", .str sc.title), ("lines", .arr (sc.lines.map jline))])),
   ("notFound", J.ofStrs (Lookup.notFound db names)),
   ("similar", .arr ((Lookup.similar db names).map jsugg)),
   ("status", .nat (Lookup.status o db names))]

/-- `mvdbnj:L` — manual, verbose, debug, batch, noColors, json as 0/1, then the level number -/
def decMainArgs (tok : String) (lk : Option Str) : Option Lookup.MainArgs :=
  match tok.splitOn ":" with
  | [flags, lv] => do
    let lv ← decNat lv
    match flags.toList with
    | [m, v, d, b, n, j] => do
      let f (ch : Char) : Option Bool := if ch = '1' then some true else if ch = '0' then some false else none
      let m ← f m; let v ← f v; let d ← f d; let b ← f b; let n ← f n; let j ← f j
      pure { manual := m, verbose := v, debug := d, batch := b, level := lv, noColors := n, json := j, lookup := lk }
    | _ => none
  | _ => none

/-- `lookup.run <cfg> <arg> <order kex> <order key> <order mac> <order enc>`: `algorithm_lookup` on the generated SSH-2 database.
    `lookup.main <mvdbnj:L> <arg|~> <orders…>`: `main()` up to `sys.exit`.
    `lookup.similar <unknown> <name>`: the similarity rule on one pair. -/
def lookupOp (op : String) (args : List String) : Option J :=
  match op with
  | "lookup.run" =>
    match args with
    | c :: a :: ords => do
      let cfg ← decCfg c; let arg ← decStr a; let given ← decOrders ords
      let o := orderOf given
      pure (match Lookup.run cfg o Gen.ssh2db arg with
        | .ok r => jok (.obj ([("entries", J.ofStrs r.entries), ("retval", .nat r.status),
                              ("closed", J.ofStrs (Lookup.closed cfg o Gen.ssh2db (Lookup.requested arg)))] ++ lookupData o (Lookup.requested arg)))
        | .error e => jerr e)
    | _ => none
  | "lookup.main" =>
    match args with
    | f :: a :: ords => do
      let lk ← decOptStr a; let ma ← decMainArgs f lk; let given ← decOrders ords
      pure (match Lookup.main ma (orderOf given) Gen.ssh2db with
        | .manual => jok (.obj [("kind", .str "manual".toList)])
        | .other => jok (.obj [("kind", .str "other".toList)])
        | .lookup so ex => jok (.obj [("kind", .str "lookup".toList), ("stdout", .str (Output.outText so)), ("exit", .nat ex)])
        | .crash e => jerr e)
    | _ => none
  | "lookup.similar" =>
    match args with
    | [u, k] => do let u ← decStr u; let k ← decStr k; pure (jok (.bool (Lookup.similarTo u k)))
    | _ => none
  | _ => none

end SshAudit.Driver
