import SshAudit.Driver.Json
import SshAudit.Gen.KexDB
import SshAudit.Gen.Policies
import SshAudit.Gen.Tables
namespace SshAudit.Driver
open SshAudit SshAudit.Gen

def jdb (db : DB) : J :=
  .arr (db.map fun (c, es) => .arr [.str c, .arr (es.map fun e =>
    .arr [.str e.name, .arr (e.desc.map fun l => .arr (l.map (J.ofOpt .str)))])])

def jpolicy (p : BuiltinPolicy) : J :=
  .arr [.str p.name, .str p.version, J.ofOpt .str p.banner, J.ofOpt J.ofStrs p.compressions, J.ofOpt J.ofStrs p.hostKeys,
        J.ofOpt J.ofStrs p.optionalHostKeys, J.ofOpt J.ofStrs p.kex, J.ofOpt J.ofStrs p.ciphers, J.ofOpt J.ofStrs p.macs,
        J.ofOpt (fun hs => .arr (hs.map fun h => .arr [.str h.keyType, .nat h.hostkeySize, .str h.caKeyType, .nat h.caKeySize])) p.hostkeySizes,
        J.ofOpt (fun ds => .arr (ds.map fun d => .arr [.str d.1, .nat d.2])) p.dhModulusSizes,
        .bool p.serverPolicy]

/-- Re-serialises the Lean-side tables; harness/check.py compares this with the live Python
    modules (translation validation of translate.py on every run). -/
def dumpTables : J := .obj [
  ("dheat_alg_modulus_sizes", .arr (dheatAlgModulusSizes.map fun d => .arr [.str d.1, .nat d.2])),
  ("dheat_alg_priority", J.ofStrs dheatAlgPriority),
  ("dheat_gex_algs", J.ofStrs dheatGexAlgs),
  ("dheat_tested_algs", J.ofStrs dheatTestedAlgs),
  ("fail_unknown", .str failUnknown),
  ("gex_algs", J.ofStrs gexAlgs),
  ("host_key_types", .arr (hostKeyTypes.map fun h => .arr [.str h.name, .bool h.cert, .bool h.variableKeyLen])),
  ("kex_to_dhgroup_keys", J.ofStrs kexToDhgroupKeys),
  ("policies", .arr (builtinPolicies.map jpolicy)),
  ("ranked_return_codes", .arr (rankedReturnCodes.map .num)),
  ("rsa_family", J.ofStrs rsaFamily),
  ("ssh1_auths", J.ofStrs ssh1Auths),
  ("ssh1_ciphers", J.ofStrs ssh1Ciphers),
  ("ssh1db", jdb ssh1db),
  ("ssh2db", jdb ssh2db)]

end SshAudit.Driver
