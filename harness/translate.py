#!/venv/bin/python
"""Translator: /repo/src (module- and class-level tables)  ->  lean/SshAudit/Gen/*.lean

Run on every check.  The generated files are data only (rating databases, built-in
policies, probe tables, DHEat tables, protocol constants); all *logic* is hand-written
in lean/SshAudit/Model and tied to the code by the correspondence harness.

The tables are read from the live modules in a fresh interpreter (this process imports
nothing of the repo before `load()`), so whatever Python computes at import time is what
Lean sees.  Generated files are rewritten only when their content changes, so an
unchanged tree costs a no-op `lake build`.

The translator is validated on every run by `tables_roundtrip` in check.py: the Lean
driver re-serialises its tables and the result is compared with the live modules.
"""
import ast
import hashlib
import json
import os
import sys

REPO = os.environ.get('VERIF_REPO', '/repo')
HERE = os.path.dirname(os.path.abspath(__file__))
GEN = os.path.join(HERE, '..', 'lean', 'SshAudit', 'Gen')


def load():
    src = os.path.join(REPO, 'src')
    if src not in sys.path:
        sys.path.insert(0, src)
    from ssh_audit.ssh2_kexdb import SSH2_KexDB
    from ssh_audit.ssh1_kexdb import SSH1_KexDB
    from ssh_audit.builtin_policies import BUILTIN_POLICIES
    from ssh_audit.hostkeytest import HostKeyTest
    from ssh_audit.dheat import DHEat
    from ssh_audit.ssh1 import SSH1
    from ssh_audit import exitcodes
    from ssh_audit.protocol import Protocol
    from ssh_audit.product import Product
    from ssh_audit.globals import SSH_HEADER
    t = {}
    t['ssh2db'] = {cat: {n: d for n, d in ents.items()} for cat, ents in SSH2_KexDB.MASTER_DB.items()}
    t['ssh1db'] = {cat: {n: d for n, d in ents.items()} for cat, ents in SSH1_KexDB.MASTER_DB.items()}
    t['fail_unknown'] = SSH2_KexDB.FAIL_UNKNOWN
    t['policies'] = BUILTIN_POLICIES
    t['host_key_types'] = HostKeyTest.HOST_KEY_TYPES
    t['rsa_family'] = list(HostKeyTest.RSA_FAMILY)
    t['two2k_warning'] = HostKeyTest.TWO2K_MODULUS_WARNING
    t['small_ecc_warning'] = HostKeyTest.SMALL_ECC_MODULUS_WARNING
    t['dheat_gex_algs'] = list(DHEat.gex_algs)
    t['dheat_alg_priority'] = list(DHEat.alg_priority)
    t['dheat_alg_modulus_sizes'] = dict(DHEat.alg_modulus_sizes)
    t['dheat_tested_algs'] = list(DHEat.tested_algs)
    t['ssh1_ciphers'] = list(SSH1.CIPHERS)
    t['ssh1_auths'] = list(SSH1.AUTHS)
    t['exitcodes'] = {k: getattr(exitcodes, k) for k in ('GOOD', 'WARNING', 'FAILURE', 'CONNECTION_ERROR', 'UNKNOWN_ERROR')}
    t['protocol'] = {k: getattr(Protocol, k) for k in dir(Protocol) if k.isupper()}
    t['products'] = {k: getattr(Product, k) for k in ('OpenSSH', 'DropbearSSH', 'LibSSH', 'TinySSH', 'PuTTY')}
    t['ssh_header'] = SSH_HEADER
    # literals that live inside function bodies (ast, no execution)
    t.update(ast_literals())
    return t


def _func(tree, *path):
    node = tree
    for name in path:
        for ch in ast.walk(node):
            if isinstance(ch, (ast.FunctionDef, ast.ClassDef)) and ch.name == name and ch is not node:
                node = ch
                break
        else:
            raise KeyError(path)
    return node


def _assigned_anywhere(tree, name):
    """the values assigned to the plain name `name` anywhere in the file (module level, class level, inside any function)"""
    vals = []
    for n in ast.walk(tree):
        if isinstance(n, ast.Assign) and len(n.targets) == 1 and getattr(n.targets[0], 'id', None) == name:
            vals.append(n.value)
        elif isinstance(n, ast.AnnAssign) and getattr(n.target, 'id', None) == name and n.value is not None:
            vals.append(n.value)
    return vals


def ast_literals():
    """Tables that live inside function bodies (or wherever a refactoring moved them): a live class / module attribute of that name is used when
    there is one, otherwise the assignment(s) to that name anywhere in the file (they must agree).  A table that cannot be found is reported
    under 'missing' (the properties that rest on it are then not shown to hold; the others are not touched)."""
    out = {'missing': []}
    p = os.path.join(REPO, 'src', 'ssh_audit')

    def keys_of(fname, name, live_owner):
        live = getattr(live_owner, name, None) if live_owner is not None else None
        if isinstance(live, dict):
            return list(live.keys())
        found = []
        for v in _assigned_anywhere(ast.parse(open(os.path.join(p, fname)).read()), name):
            if isinstance(v, ast.Dict) and all(isinstance(k, ast.Constant) and isinstance(k.value, str) for k in v.keys):
                found.append([k.value for k in v.keys])
        if found and all(f == found[0] for f in found):
            return found[0]
        return None
    from ssh_audit.hostkeytest import HostKeyTest
    from ssh_audit.gextest import GEXTest
    from ssh_audit.ssh_socket import SSH_Socket
    import ssh_audit.ssh_audit as sa
    from ssh_audit import exitcodes
    for key, fname, name, owner in (('kex_to_dhgroup_keys', 'hostkeytest.py', 'KEX_TO_DHGROUP', HostKeyTest), ('gex_algs', 'gextest.py', 'GEX_ALGS', GEXTest)):
        v = keys_of(fname, name, owner)
        if v is None:
            out['missing'].append(key)
            v = []
        out[key] = v
    # ranked_return_codes: a list of exitcodes.NAME (in main(), or wherever it was moved to); a live module-level list of the values also serves
    rr = None
    live = getattr(sa, 'ranked_return_codes', getattr(sa, 'RANKED_RETURN_CODES', getattr(exitcodes, 'RANKED_RETURN_CODES', None)))
    names_by_value = {getattr(exitcodes, k): k for k in ('GOOD', 'WARNING', 'FAILURE', 'CONNECTION_ERROR', 'UNKNOWN_ERROR')}
    if isinstance(live, (list, tuple)) and all(x in names_by_value for x in live):
        rr = [names_by_value[x] for x in live]
    else:
        found = []
        for fname in ('ssh_audit.py', 'exitcodes.py'):
            for nm in ('ranked_return_codes', 'RANKED_RETURN_CODES'):
                for v in _assigned_anywhere(ast.parse(open(os.path.join(p, fname)).read()), nm):
                    if isinstance(v, (ast.List, ast.Tuple)) and all(isinstance(e, (ast.Attribute, ast.Name)) for e in v.elts):
                        found.append([e.attr if isinstance(e, ast.Attribute) else e.id for e in v.elts])
        if found and all(f == found[0] for f in found):
            rr = found[0]
    if rr is None:
        out['missing'].append('ranked_return_codes')
        rr = []
    out['ranked_return_codes'] = rr
    # the default lists of send_kexinit: the defaults of the live function (whatever the shape of the source)
    import inspect
    try:
        sig = inspect.signature(SSH_Socket.send_kexinit)
        out['default_kexinit'] = {nm: list(prm.default) for nm, prm in sig.parameters.items() if nm != 'self' and isinstance(prm.default, (list, tuple))}
        if not out['default_kexinit']:
            raise ValueError
    except Exception:
        out['missing'].append('default_kexinit')
        out['default_kexinit'] = {}
    return out


# ---------------------------------------------------------------- Lean emission

def lchar(c):
    o = ord(c)
    if c == "'":
        return "'\\''"
    if c == '\\':
        return "'\\\\'"
    if c == '\n':
        return "'\\n'"
    if 32 <= o < 127:
        return "'%s'" % c
    return "(Char.ofNat %d)" % o


def lstr(s):
    return '[' + ','.join(lchar(c) for c in s) + ']'


def lopt(v, f):
    return 'none' if v is None else '(some %s)' % f(v)


def llist(xs, f):
    return '[' + ', '.join(f(x) for x in xs) + ']'


class Notes:
    """Long note strings become named constants so the tables stay small."""
    def __init__(self):
        self.names = {}
        self.defs = []

    def ref(self, s):
        if len(s) < 24:
            return lstr(s)
        if s not in self.names:
            nm = 'note_%s' % hashlib.sha1(s.encode()).hexdigest()[:10]
            self.names[s] = nm
            self.defs.append('def %s : Str := %s' % (nm, lstr(s)))
        return self.names[s]


def emit_db(name, db, notes):
    lines = ['def %s : DB := [' % name]
    cats = []
    for cat, ents in db.items():
        es = []
        for n, desc in ents.items():
            d = llist(desc, lambda lst: llist(lst, lambda v: lopt(v, notes.ref)))
            es.append('    { name := %s, desc := %s }' % (lstr(n), d))
        cats.append('  (%s, [\n%s\n  ])' % (lstr(cat), ',\n'.join(es)))
    lines.append(',\n'.join(cats))
    lines.append(']')
    return '\n'.join(lines)


def emit_policy(name, p):
    def sizes(hs):
        items = []
        for kt, d in hs.items():
            items.append('{ keyType := %s, hostkeySize := %d, caKeyType := %s, caKeySize := %d }' % (
                lstr(kt), d['hostkey_size'], lstr(d.get('ca_key_type', '')), d.get('ca_key_size', 0)))
        return '[' + ', '.join(items) + ']'
    def dh(d):
        return '[' + ', '.join('(%s, %d)' % (lstr(k), v) for k, v in d.items()) + ']'
    ol = lambda v: lopt(v, lambda xs: llist(xs, lstr))
    return ('  { name := %s, version := %s, banner := %s,\n    compressions := %s,\n    hostKeys := %s,\n    optionalHostKeys := %s,\n'
            '    kex := %s,\n    ciphers := %s,\n    macs := %s,\n    hostkeySizes := %s,\n    dhModulusSizes := %s,\n    serverPolicy := %s }') % (
        lstr(name), lstr(str(p['version'])), lopt(p['banner'], lstr), ol(p['compressions']), ol(p['host_keys']),
        ol(p['optional_host_keys']), ol(p['kex']), ol(p['ciphers']), ol(p['macs']),
        lopt(p['hostkey_sizes'], sizes), lopt(p['dh_modulus_sizes'], dh), 'true' if p['server_policy'] else 'false')


HEADER = '''/- GENERATED by harness/translate.py from %s — do not edit.  Regenerated on every check. -/
import SshAudit.Model.Types
namespace SshAudit.Gen
open SshAudit
'''


def generate(t):
    files = {}
    notes = Notes()
    db2 = emit_db('ssh2db', t['ssh2db'], notes)
    db1 = emit_db('ssh1db', t['ssh1db'], notes)
    files['KexDB.lean'] = HEADER % 'ssh2_kexdb.py, ssh1_kexdb.py' + '\n'.join(notes.defs) + '\n\n' + db2 + '\n\n' + db1 + \
        '\n\ndef failUnknown : Str := %s\n' % lstr(t['fail_unknown']) + '\nend SshAudit.Gen\n'
    pol = ['def builtinPolicies : List BuiltinPolicy := [']
    pol.append(',\n'.join(emit_policy(n, p) for n, p in t['policies'].items()))
    pol.append(']')
    files['Policies.lean'] = HEADER % 'builtin_policies.py' + '\n'.join(pol) + '\n\nend SshAudit.Gen\n'
    tb = []
    tb.append('def hostKeyTypes : List HostKeyType := [\n' + ',\n'.join(
        '  { name := %s, cert := %s, variableKeyLen := %s }' % (lstr(n), str(d['cert']).lower(), str(d['variable_key_len']).lower())
        for n, d in t['host_key_types'].items()) + '\n]')
    tb.append('def rsaFamily : List Str := ' + llist(t['rsa_family'], lstr))
    tb.append('def two2kWarning : Str := ' + lstr(t['two2k_warning']))
    tb.append('def smallEccWarning : Str := ' + lstr(t['small_ecc_warning']))
    tb.append('def kexToDhgroupKeys : List Str := ' + llist(t['kex_to_dhgroup_keys'], lstr))
    tb.append('def gexAlgs : List Str := ' + llist(t['gex_algs'], lstr))
    tb.append('def dheatGexAlgs : List Str := ' + llist(t['dheat_gex_algs'], lstr))
    tb.append('def dheatAlgPriority : List Str := ' + llist(t['dheat_alg_priority'], lstr))
    tb.append('def dheatAlgModulusSizes : List (Str × Nat) := [' + ', '.join('(%s, %d)' % (lstr(k), v) for k, v in t['dheat_alg_modulus_sizes'].items()) + ']')
    tb.append('def dheatTestedAlgs : List Str := ' + llist(t['dheat_tested_algs'], lstr))
    tb.append('def ssh1Ciphers : List Str := ' + llist(t['ssh1_ciphers'], lstr))
    tb.append('def ssh1Auths : List Str := ' + llist(t['ssh1_auths'], lstr))
    for k, v in t['exitcodes'].items():
        tb.append('def exit_%s : Int := %d' % (k, v))
    tb.append('def rankedReturnCodes : List Int := [' + ', '.join('exit_%s' % k for k in t['ranked_return_codes']) + ']')
    for k, v in t['protocol'].items():
        tb.append('def proto_%s : Nat := %d' % (k, v))
    for k, v in t['products'].items():
        tb.append('def product_%s : Str := %s' % (k, lstr(v)))
    tb.append('def sshHeader : Str := ' + lstr(t['ssh_header']))
    for k, v in t['default_kexinit'].items():
        tb.append('def defaultKexinit_%s : List Str := %s' % (k, llist(v, lstr)))
    files['Tables.lean'] = HEADER % 'hostkeytest.py, gextest.py, dheat.py, ssh1.py, exitcodes.py, protocol.py, product.py, ssh_socket.py, ssh_audit.py' + '\n'.join(tb) + '\n\nend SshAudit.Gen\n'
    return files


def canonical(t):
    """Canonical JSON of the tables, the form the Lean driver's `dump-tables` must reproduce."""
    def db(d):
        return [[cat, [[n, [[v for v in lst] for lst in desc]] for n, desc in ents.items()]] for cat, ents in d.items()]
    pol = []
    for n, p in t['policies'].items():
        hs = None
        if p['hostkey_sizes'] is not None:
            hs = [[k, v['hostkey_size'], v.get('ca_key_type', ''), v.get('ca_key_size', 0)] for k, v in p['hostkey_sizes'].items()]
        dh = None
        if p['dh_modulus_sizes'] is not None:
            dh = [[k, v] for k, v in p['dh_modulus_sizes'].items()]
        pol.append([n, str(p['version']), p['banner'], p['compressions'], p['host_keys'], p['optional_host_keys'], p['kex'],
                    p['ciphers'], p['macs'], hs, dh, bool(p['server_policy'])])
    return {
        'ssh2db': db(t['ssh2db']), 'ssh1db': db(t['ssh1db']), 'fail_unknown': t['fail_unknown'], 'policies': pol,
        'host_key_types': [[n, d['cert'], d['variable_key_len']] for n, d in t['host_key_types'].items()],
        'rsa_family': t['rsa_family'], 'kex_to_dhgroup_keys': t['kex_to_dhgroup_keys'], 'gex_algs': t['gex_algs'],
        'dheat_gex_algs': t['dheat_gex_algs'], 'dheat_alg_priority': t['dheat_alg_priority'],
        'dheat_alg_modulus_sizes': [[k, v] for k, v in t['dheat_alg_modulus_sizes'].items()],
        'dheat_tested_algs': t['dheat_tested_algs'], 'ssh1_ciphers': t['ssh1_ciphers'], 'ssh1_auths': t['ssh1_auths'],
        'ranked_return_codes': [t['exitcodes'][k] for k in t['ranked_return_codes']],
    }


def write_if_changed(path, content):
    try:
        if open(path).read() == content:
            return False
    except FileNotFoundError:
        pass
    with open(path, 'w') as f:
        f.write(content)
    return True


def main():
    t = load()
    files = generate(t)
    os.makedirs(GEN, exist_ok=True)
    changed = [n for n, c in files.items() if write_if_changed(os.path.join(GEN, n), c)]
    write_if_changed(os.path.join(GEN, 'tables.json'), json.dumps(canonical(t), sort_keys=True))
    print(json.dumps({'generated': sorted(files), 'changed': changed, 'missing': t.get('missing', [])}))


if __name__ == '__main__':
    main()
