/-
  C15 (extension) — the JSON document of a standard audit: `json.dumps(build_struct(…), indent=…, sort_keys=True)`.

  Model: `SshAudit.JsonDoc` (`Model/JsonDoc.lean`): the value type `Val`, `dumps` (CPython's `json.dumps` with `sort_keys=True`,
  `ensure_ascii=True`, in the compact `-j` and the `indent=4` `-jj` layout), `doc` / `docElse` (the tree `build_struct` builds), read
  back by `PolicyFile.Json.loads` (the modelled `json.loads`).

  (1) for every value and both layouts `loads (dumps v) = toJV (sortKeys v)`: one well-formed document, the compact and the indented
      form parse to the same value, that value is `v` with the items of every dict in ascending key order; the parse tree lists the
      members as written — with repeated keys (which a Python dict cannot hold, `Val.NoDup`) Python's own reading would keep the last
      value (`dup_keys_python`), without them it changes nothing (`python_value`).
  (2) the text: compact form = printable ASCII only, hence one line; indented form = printable ASCII and `\n`; `dumps` is injective up
      to key order and does not depend on the insertion order of a dict; sorting is idempotent.
  (3) the document of an SSH-2 audit: distinct keys everywhere; the algorithm lists name exactly the advertised names in order; the
      notes of an entry are `Report.jsonNotes` (so `C03.json_eq_text_fail_warn` / `C15.json_info_perm_text` speak about the document);
      the names the text report prints are the document's non-blank ones; `keysize` agrees with the size the text shows; the text
      printed depends on no option but the indentation; stdout is the document and a newline.
-/
import SshAudit.Lemmas.JsonDoc
import SshAudit.Props.C15
namespace SshAudit.C15JsonDoc
open SshAudit SshAudit.JsonDoc SshAudit.PolicyFile.Json

/-! ### (1) `json.loads ∘ json.dumps` -/

/-- **every value, every white-space layout: the text is one JSON document and reads back as the value with its keys sorted** -/
theorem loads_dumps (fm : Fmt) (hfm : fm.Ws) (v : Val) : loads (dumps fm v) = .ok (toJV (sortKeys v)) :=
  loads_render fm hfm (sortKeys v)

/-- `-j`: `json.loads(json.dumps(v, sort_keys=True))` -/
theorem loads_compact (v : Val) : loads (dumpsCompact v) = .ok (toJV (sortKeys v)) := loads_dumps compact compact_ws v

/-- `-jj`: `json.loads(json.dumps(v, indent=4, sort_keys=True))` -/
theorem loads_indented (v : Val) : loads (dumpsIndented v) = .ok (toJV (sortKeys v)) := loads_dumps indent4 indent4_ws v

/-- **the compact and the indented form parse to the same value** -/
theorem compact_indented_same_value (v : Val) :
    loads (dumpsCompact v) = loads (dumpsIndented v) ∧ ∃ j, loads (dumpsCompact v) = .ok j := by
  rw [loads_compact, loads_indented]; exact ⟨rfl, _, rfl⟩

/-- the parsed value is `v` with the same items in every dict … -/
theorem sorted_items_perm (kvs : List (Str × Val)) : (sortKV kvs).Perm kvs := sortKV_perm kvs

/-- … in ascending key order at every level (strictly: a Python dict holds a key once) -/
theorem sorted_keys_ascending (v : Val) (h : v.NoDup) : KeysAscending (sortKeys v) := sortKeys_ascending v h

/-- top level, spelled out -/
theorem sorted_keys_top (kvs : List (Str × Val)) (h : (kvs.map (·.1)).Nodup) :
    ∃ l, sortKeys (.obj kvs) = .obj l ∧ l.Pairwise (fun a b => Text.ltStr a.1 b.1 = true) ∧ (l.map (·.1)).Perm (kvs.map (·.1)) := by
  refine ⟨sortKV (sortKeysM kvs), by simp [sortKeys], ?_, ?_⟩
  · apply sortKV_strict
    rw [sortKeysM_eq, List.map_map]
    have e : kvs.map ((fun x : Str × Val => x.1) ∘ fun kv => (kv.1, sortKeys kv.2)) = kvs.map (·.1) := List.map_congr_left (fun _ _ => rfl)
    rw [e]; exact h
  · refine (sortKV_keys_perm _).trans ?_
    rw [sortKeysM_eq, List.map_map]
    have e : kvs.map ((fun x : Str × Val => x.1) ∘ fun kv => (kv.1, sortKeys kv.2)) = kvs.map (·.1) := List.map_congr_left (fun _ _ => rfl)
    rw [e]

/-- distinct keys stay distinct -/
theorem sorted_noDup (v : Val) (h : v.NoDup) : (sortKeys v).NoDup := sortKeys_noDup v h

/-- **no repeated key (every Python value): Python's reading of the parse tree (`dict`: one value per key) is the tree itself** -/
theorem python_value (v : Val) (h : v.NoDup) : pyNorm (toJV (sortKeys v)) = toJV (sortKeys v) :=
  pyNorm_toJV _ (sortKeys_noDup v h)

/-- with a repeated key (not a Python dict) both items are written, in insertion order, and Python's `json.loads` would keep the last -/
theorem dup_keys_written : dumpsCompact (.obj [(['a'], .int 1), (['a'], .int 2)]) = Report.s "{\"a\": 1, \"a\": 2}" := by decide +kernel

theorem dup_keys_python :
    pyNorm (toJV (sortKeys (.obj [(['a'], .int 1), (['a'], .int 2)]))) = .obj [(['a'], .int 2)] ∧
    toJV (sortKeys (.obj [(['a'], .int 1), (['a'], .int 2)])) = .obj [(['a'], .int 1), (['a'], .int 2)] := by
  constructor <;> simp [sortKeys, sortKeysM, sortKV, insertKV, toJV, toJVm, pyNorm, pyNormM, dictOf, dictSet, Text.ltStr]

/-- **sorting is idempotent**: writing the parsed value again gives the same text -/
theorem dumps_sorted (fm : Fmt) (v : Val) : dumps fm (sortKeys v) = dumps fm v := by
  unfold dumps; rw [sortKeys_idem]

/-- **the insertion order of a dict does not show**: the same items in another order give the same text (hash seeds, code paths
    that fill `res[...]` in another order) -/
theorem insertion_order_irrelevant (fm : Fmt) (kvs kvs' : List (Str × Val)) (hp : kvs.Perm kvs') (hnd : (kvs.map (·.1)).Nodup) :
    dumps fm (.obj kvs) = dumps fm (.obj kvs') := by
  unfold dumps
  simp only [sortKeys, sortKeysM_eq]
  rw [sortKV_perm_eq _ _ (hp.map _)]
  rw [List.map_map]
  have e : kvs.map ((fun x : Str × Val => x.1) ∘ fun kv => (kv.1, sortKeys kv.2)) = kvs.map (·.1) := List.map_congr_left (fun _ _ => rfl)
  rw [e]; exact hnd

/-! ### (2) the text -/

/-- **the compact form is printable ASCII only**: no raw newline, no control character, no non-ASCII character -/
theorem compact_printable (v : Val) : ∀ c ∈ dumpsCompact v, 0x20 ≤ c.toNat ∧ c.toNat < 0x7f := by
  have hfm : compact.Chars Printable := by
    intro n
    refine ⟨?_, ?_, ?_⟩ <;> intro c hc <;> simp only [compact, List.mem_cons, List.not_mem_nil, or_false] at hc
    subst hc; decide
  exact render_chars compact Printable (fun _ h => h) hfm (sortKeys v) 0

/-- **`-j` prints one line** -/
theorem compact_single_line (v : Val) : '\n' ∉ dumpsCompact v ∧ '\r' ∉ dumpsCompact v := by
  constructor <;> intro h <;> have := compact_printable v _ h <;> revert this <;> decide

/-- the indented form: printable ASCII, line feeds, nothing else -/
theorem indented_chars (v : Val) : ∀ c ∈ dumpsIndented v, (0x20 ≤ c.toNat ∧ c.toNat < 0x7f) ∨ c = '\n' := by
  have hnl : ∀ n, ∀ c ∈ nl n, Printable c ∨ c = '\n' := by
    intro n c hc
    simp only [nl, List.mem_cons, List.mem_replicate] at hc
    rcases hc with h | ⟨_, h⟩ <;> subst h
    · exact Or.inr rfl
    · exact Or.inl (by decide)
  have hfm : indent4.Chars (fun c => Printable c ∨ c = '\n') := fun n => ⟨hnl n, hnl n, hnl (n - 1)⟩
  exact render_chars indent4 (fun c => Printable c ∨ c = '\n') (fun _ h => Or.inl h) hfm (sortKeys v) 0

/-- **every character of either form is ASCII** (`ensure_ascii=True`) -/
theorem ascii_only (indent : Bool) (v : Val) : ∀ c ∈ docText indent v, c.toNat < 128 := by
  intro c hc
  unfold docText at hc
  cases indent
  · have := compact_printable v c hc; omega
  · rcases indented_chars v c hc with h | h
    · omega
    · subst h; decide

/-- a line feed of the indented form is never inside a string: string contents are printable ASCII in both forms -/
theorem string_body_printable (t : Str) : ∀ c ∈ dumpStr t, 0x20 ≤ c.toNat ∧ c.toNat < 0x7f := printable_dumpStr t

/-- **`dumps` is injective up to the order of keys** … -/
theorem dumps_injective (fm : Fmt) (hfm : fm.Ws) (v w : Val) (h : dumps fm v = dumps fm w) : sortKeys v = sortKeys w := by
  have hv := loads_dumps fm hfm v
  have hw := loads_dumps fm hfm w
  rw [h, hw] at hv
  exact (toJV_inj _ _ (by injection hv)).symm

/-- … and injective outright on key-sorted values -/
theorem dumps_injective_sorted (fm : Fmt) (hfm : fm.Ws) (v w : Val) (hv : sortKeys v = v) (hw : sortKeys w = w)
    (h : dumps fm v = dumps fm w) : v = w := by
  rw [← hv, ← hw]; exact dumps_injective fm hfm v w h

/-- the two forms of one value differ only in white space: they determine each other -/
theorem compact_determines_indented (v w : Val) (h : dumpsCompact v = dumpsCompact w) : dumpsIndented v = dumpsIndented w := by
  have := dumps_injective compact compact_ws v w h
  unfold dumpsIndented dumps; rw [this]

/-! ### (3) the document `build_struct` builds -/

/-- **`build_struct`'s value never holds a key twice** (SSH-2 peer; else-branch) — the hypothesis of `python_value` holds for it -/
theorem doc_noDup (rf : List Str) (fu : Str) (db : DB) (peer : Report.Peer) (recs : List Report.Rec) (notes : List Str) (m : Meta) :
    (doc rf fu db peer recs notes m).NoDup := noDup_doc rf fu db peer recs notes m

theorem docElse_noDup (d : Ssh1Report.Doc) (h : d.clientIp = none ∨ d.target = none) : (docElse d).NoDup := noDup_docElse d h

/-- … in particular the document of every SSH-1 audit the report model describes -/
theorem docElse_ssh1_noDup (t : Ssh1Report.Tables) (h : Ssh1Report.Hashes) (db1 db2 : DB) (x : Ssh1Report.Input) :
    (docElse (Ssh1Report.doc t h db1 db2 x)).NoDup := by
  apply noDup_docElse
  unfold Ssh1Report.doc
  cases x.clientHost <;> simp

/-- the eleven keys of the document of an SSH-2 audit -/
theorem doc_keys (rf : List Str) (fu : Str) (db : DB) (peer : Report.Peer) (recs : List Report.Rec) (notes : List Str) (m : Meta) :
    (doc rf fu db peer recs notes m).keys =
      [Report.s "banner", if m.clientHost.isSome then Report.s "client_ip" else Report.s "target", Report.s "compression",
       Report.kexC, Report.keyC, Report.encC, Report.macC, Report.s "fingerprints", Report.s "cves", Report.s "recommendations",
       Report.s "additional_notes"] := by
  unfold doc whoVal tailItems Val.keys
  cases m.clientHost <;> rfl

/-- **the document of a standard audit reads back**, in both forms, to the same value -/
theorem doc_round_trip (indent : Bool) (rf : List Str) (fu : Str) (db : DB) (peer : Report.Peer) (recs : List Report.Rec) (notes : List Str) (m : Meta) :
    loads (docText indent (doc rf fu db peer recs notes m)) = .ok (toJV (sortKeys (doc rf fu db peer recs notes m))) := by
  unfold docText; cases indent
  · exact loads_compact _
  · exact loads_indented _

/-- the four algorithm lists of the document -/
theorem doc_get_lists (rf : List Str) (fu : Str) (db : DB) (peer : Report.Peer) (recs : List Report.Rec) (notes : List Str) (m : Meta) :
    (doc rf fu db peer recs notes m).get Report.kexC = some (algList db fu Report.kexC peer.kex (kexExtra peer.dhSizes)) ∧
    (doc rf fu db peer recs notes m).get Report.keyC = some (algList db fu Report.keyC peer.key (keyExtra rf peer.hostKeys)) ∧
    (doc rf fu db peer recs notes m).get Report.encC = some (algList db fu Report.encC peer.encS (fun _ => [])) ∧
    (doc rf fu db peer recs notes m).get Report.macC = some (algList db fu Report.macC peer.macS (fun _ => [])) := by
  unfold doc whoVal
  cases m.clientHost <;> refine ⟨?_, ?_, ?_, ?_⟩ <;> rfl

/-- **an algorithm list names exactly the advertised names, in order, once per occurrence** -/
theorem algList_names (db : DB) (fu cat : Str) (names : List Str) (extra : Str → List (Str × Val)) :
    (algList db fu cat names extra).items.map entryName = names.map some := by
  simp only [algList, Val.items, List.map_map]
  apply List.map_congr_left
  intro n _
  rfl

/-- **the notes of an entry are `fetch_notes` of its name** -/
theorem algEntry_notes (db : DB) (fu cat name : Str) (extra : List (Str × Val)) :
    (algEntry db fu cat name extra).get kNotes = some (notesVal (Report.jsonNotes db fu cat name)) := rfl

theorem notesAt_levels (db : DB) (fu cat name : Str) (extra : List (Str × Val)) :
    notesAt (algEntry db fu cat name extra) kFail = ((Report.jsonNotes db fu cat name).fail.getD []).filterMap id ∧
    notesAt (algEntry db fu cat name extra) kWarn = ((Report.jsonNotes db fu cat name).warn.getD []).filterMap id ∧
    notesAt (algEntry db fu cat name extra) kInfo = ((Report.jsonNotes db fu cat name).info.getD []).filterMap id := by
  unfold notesAt; rw [algEntry_notes]
  obtain ⟨f, w, i⟩ := Report.jsonNotes db fu cat name
  have k1 : (kFail = kWarn) = False := by decide
  have k2 : (kFail = kInfo) = False := by decide
  have k3 : (kWarn = kInfo) = False := by decide
  have k4 : (kWarn = kFail) = False := by decide
  have k5 : (kInfo = kFail) = False := by decide
  have k6 : (kInfo = kWarn) = False := by decide
  cases f <;> cases w <;> cases i <;>
    simp [notesVal, Val.get, items_noteList, k1, k2, k3, k4, k5, k6]

/-- **JSON findings = text findings for a name the database knows**, read from the document: the failure and warning texts of the entry are
    exactly the text report's (`C03.textsAt`), the informational ones the same up to order (the "available since" text comes last in JSON) -/
theorem entry_notes_eq_text (db : DB) (fu cat n : Str) (extra : List (Str × Val)) (e : Entry)
    (hl : DBm.lookup db cat (Report.gssNormalize cat n) = some e) :
    notesAt (algEntry db fu cat n extra) kFail = C03.textsAt e .fail ∧
    notesAt (algEntry db fu cat n extra) kWarn = C03.textsAt e .warn ∧
    (notesAt (algEntry db fu cat n extra) kInfo).Perm (((Report.rawTexts e).filter (·.level = .info)).map (·.text)) := by
  obtain ⟨h1, h2, h3⟩ := notesAt_levels db fu cat n extra
  obtain ⟨j1, j2⟩ := C03.json_eq_text_fail_warn db fu cat n e hl
  rw [h1, h2, h3, j1, j2]
  exact ⟨rfl, rfl, C15.json_info_perm_text db fu cat n e hl⟩

/-- an unknown name carries exactly the failure note of unknown algorithms, and nothing else -/
theorem entry_notes_unknown (db : DB) (fu cat n : Str) (extra : List (Str × Val)) (hu : DBm.lookup db cat (Report.gssNormalize cat n) = none) :
    notesAt (algEntry db fu cat n extra) kFail = [fu] ∧ notesAt (algEntry db fu cat n extra) kWarn = [] ∧
    notesAt (algEntry db fu cat n extra) kInfo = [] := by
  obtain ⟨h1, h2, h3⟩ := notesAt_levels db fu cat n extra
  rw [h1, h2, h3, C03.unknown_flagged_json db fu cat n hu]
  exact ⟨rfl, rfl, rfl⟩

theorem docNames_algList (d : Val) (cat : Str) (db : DB) (fu : Str) (names : List Str) (extra : Str → List (Str × Val))
    (h : d.get cat = some (algList db fu cat names extra)) : docNames d cat = names := by
  unfold docNames; rw [h]
  simp only [algList, Val.items, List.filterMap_map]
  clear h
  induction names with
  | nil => rfl
  | cons n r ih => simp only [List.filterMap_cons, Function.comp]; rw [ih]; rfl

/-- **the document lists every advertised name (blank ones too); the names the text report prints are the non-blank ones, in the same order**
    — for the audit the report model describes (`Report.report`), all four categories -/
theorem doc_names_eq_report (rf : List Str) (fu : Str) (db0 : DB) (peer : Report.Peer) (client : Bool) (bsw : Option Str)
    (sw : Option Version.Software) (rate : Str) (m : Meta) :
    let d := docOfAudit rf fu db0 peer client bsw sw rate m
    let r := Report.report rf db0 peer client bsw sw rate
    docNames d Report.kexC = peer.kex ∧ docNames d Report.keyC = peer.key ∧ docNames d Report.encC = peer.encS ∧ docNames d Report.macC = peer.macS ∧
    r.kex.map (·.name) = (docNames d Report.kexC).filter (Report.printed Report.kexC) ∧
    r.key.map (·.name) = (docNames d Report.keyC).filter (Report.printed Report.keyC) ∧
    r.enc.map (·.name) = (docNames d Report.encC).filter (Report.printed Report.encC) ∧
    r.mac.map (·.name) = (docNames d Report.macC).filter (Report.printed Report.macC) := by
  intro d r
  obtain ⟨g1, g2, g3, g4⟩ := doc_get_lists rf fu (Report.postProcess db0 peer client bsw rate).db peer r.recs r.notes m
  have n1 : docNames d Report.kexC = peer.kex := docNames_algList d _ _ _ _ _ g1
  have n2 : docNames d Report.keyC = peer.key := docNames_algList d _ _ _ _ _ g2
  have n3 : docNames d Report.encC = peer.encS := docNames_algList d _ _ _ _ _ g3
  have n4 : docNames d Report.macC = peer.macS := docNames_algList d _ _ _ _ _ g4
  rw [n1, n2, n3, n4]
  exact ⟨rfl, rfl, rfl, rfl, Report.algLines_names _ _ _ _ _ _, Report.algLines_names _ _ _ _ _ _, Report.algLines_names _ _ _ _ _ _,
    Report.algLines_names _ _ _ _ _ _⟩

/-- the entry of the `i`-th advertised name is built from that name alone (and the size maps): nothing else of the audit enters it -/
theorem doc_entry_local (rf : List Str) (fu : Str) (db : DB) (peer : Report.Peer) (recs : List Report.Rec) (notes : List Str) (m : Meta) :
    docEntries (doc rf fu db peer recs notes m) Report.kexC = peer.kex.map (fun n => algEntry db fu Report.kexC n (kexExtra peer.dhSizes n)) ∧
    docEntries (doc rf fu db peer recs notes m) Report.keyC = peer.key.map (fun n => algEntry db fu Report.keyC n (keyExtra rf peer.hostKeys n)) ∧
    docEntries (doc rf fu db peer recs notes m) Report.encC = peer.encS.map (fun n => algEntry db fu Report.encC n []) ∧
    docEntries (doc rf fu db peer recs notes m) Report.macC = peer.macS.map (fun n => algEntry db fu Report.macC n []) := by
  obtain ⟨g1, g2, g3, g4⟩ := doc_get_lists rf fu db peer recs notes m
  unfold docEntries
  rw [g1, g2, g3, g4]
  exact ⟨rfl, rfl, rfl, rfl⟩

/-- **`keysize` of a key exchange is the modulus size the text report shows in its `(N-bit)` suffix**, present exactly when the text has one -/
theorem kex_keysize_eq_shown (rf : List Str) (db : DB) (fu n : Str) (hk : List (Str × Report.HostKeyInfo)) (dh : List (Str × Nat)) :
    (∀ k, dh.find? (·.1 = n) = some (n, k) →
      (algEntry db fu Report.kexC n (kexExtra dh n)).get kKeysize = some (.int k) ∧
      Report.shownName rf Report.kexC n hk dh = n ++ Report.s " (" ++ Text.natToStr k ++ Report.s "-bit)") ∧
    (dh.find? (·.1 = n) = none →
      (algEntry db fu Report.kexC n (kexExtra dh n)).get kKeysize = none ∧ Report.shownName rf Report.kexC n hk dh = n) := by
  constructor
  · intro k h
    unfold kexExtra Report.shownName
    rw [h]
    exact ⟨rfl, by simp⟩
  · intro h
    unfold kexExtra Report.shownName
    rw [h]
    exact ⟨rfl, by simp⟩

/-- **the size fields of a host-key entry**: `keysize` for the RSA family and the `ssh-rsa-cert-v0…` types, the CA type and size exactly when a
    CA size was measured — the same conditions under which the text report shows `(N-bit)` / `(N-bit cert/M-bit T CA)` -/
theorem key_size_fields (rf : List Str) (db : DB) (fu n : Str) (hk : List (Str × Report.HostKeyInfo)) (info : Report.HostKeyInfo)
    (h : hk.find? (·.1 = n) = some (n, info)) :
    (algEntry db fu Report.keyC n (keyExtra rf hk n)).get kKeysize
      = (if rf.contains n || Text.startsWith n (Report.s "ssh-rsa-cert-v0") then some (.int info.size) else none) ∧
    (algEntry db fu Report.keyC n (keyExtra rf hk n)).get kCasize = (if info.caSize > 0 then some (.int info.caSize) else none) ∧
    (algEntry db fu Report.keyC n (keyExtra rf hk n)).get kCaAlgorithm = (if info.caSize > 0 then some (.str info.caType) else none) := by
  unfold keyExtra
  rw [h]
  by_cases h1 : (rf.contains n || Text.startsWith n (Report.s "ssh-rsa-cert-v0")) = true <;> by_cases h2 : info.caSize > 0 <;>
    simp only [h1, h2, if_true, if_false] <;> refine ⟨?_, ?_, ?_⟩ <;> rfl

/-- a host-key type the scan did not measure carries no size field -/
theorem key_no_size_fields (rf : List Str) (db : DB) (fu n : Str) (hk : List (Str × Report.HostKeyInfo)) (h : hk.find? (·.1 = n) = none) :
    (algEntry db fu Report.keyC n (keyExtra rf hk n)).keys = [kAlgorithm, kNotes] := by
  unfold keyExtra; rw [h]; rfl

/-- the other top-level items are the report's data, unchanged -/
theorem doc_get_rest (rf : List Str) (fu : Str) (db : DB) (peer : Report.Peer) (recs : List Report.Rec) (notes : List Str) (m : Meta) :
    (doc rf fu db peer recs notes m).get (Report.s "additional_notes") = some (strs notes) ∧
    (doc rf fu db peer recs notes m).get (Report.s "recommendations") = some (recsVal recs) ∧
    (doc rf fu db peer recs notes m).get (Report.s "compression") = some (strs peer.compS) ∧
    (doc rf fu db peer recs notes m).get (Report.s "cves") = some (.arr []) ∧
    (doc rf fu db peer recs notes m).get (Report.s "banner") = some (bannerVal m.banner) := by
  unfold doc whoVal tailItems
  cases m.clientHost <;> refine ⟨?_, ?_, ?_, ?_, ?_⟩ <;> rfl

/-- **`recommendations[level][action][category]` is the list of the report's recommendations of that level, action and category, in the
    report's order**; the key is absent when there is none -/
theorem recs_listed (recs : List Report.Rec) (l : Nat) (hl : l ∈ [2, 1, 0]) (a : Report.Action) (c : Str)
    (hc : c ∈ [Report.kexC, Report.keyC, Report.encC, Report.macC]) :
    (((recsVal recs).get (recLevelName l)).bind (·.get (actionName a))).bind (·.get c)
      = (let sel := recs.filter (fun r => Report.recLevel r = l ∧ r.action = a ∧ r.cat = c)
         if sel.isEmpty then none else some (.arr (sel.map recEntry))) := by
  have e3 : ((recs.filter (fun r => Report.recLevel r = l)).filter (fun r => r.action = a)).filter (fun r => r.cat = c)
      = recs.filter (fun r => Report.recLevel r = l ∧ r.action = a ∧ r.cat = c) := by
    simp only [List.filter_filter]
    apply List.filter_congr
    intro r _
    by_cases h1 : Report.recLevel r = l <;> by_cases h2 : r.action = a <;> by_cases h3 : r.cat = c <;> simp [h1, h2, h3]
  unfold recsVal
  rw [groups_get [2, 1, 0] recLevelName _ _ (by decide) l hl]
  by_cases h1 : (recs.filter (fun r => Report.recLevel r = l)).isEmpty = true
  · have : (recs.filter (fun r => Report.recLevel r = l ∧ r.action = a ∧ r.cat = c)).isEmpty = true := by
      rw [← e3]; simp only [List.isEmpty_iff] at h1 ⊢; rw [h1]; rfl
    simp only [h1, if_true, Option.bind_none, this]
  · simp only [h1, Bool.false_eq_true, if_false, Option.bind_some]
    rw [groups_get [Report.Action.del, .add, .chg] actionName _ _ (by decide) a (by cases a <;> simp)]
    by_cases h2 : ((recs.filter (fun r => Report.recLevel r = l)).filter (fun r => r.action = a)).isEmpty = true
    · have : (recs.filter (fun r => Report.recLevel r = l ∧ r.action = a ∧ r.cat = c)).isEmpty = true := by
        rw [← e3]; simp only [List.isEmpty_iff] at h2 ⊢; rw [h2]; rfl
      simp only [h2, if_true, Option.bind_none, this]
    · simp only [h2, Bool.false_eq_true, if_false, Option.bind_some]
      have := groups_get [Report.kexC, Report.keyC, Report.encC, Report.macC] id
        (fun c => ((recs.filter (fun r => Report.recLevel r = l)).filter (fun r => r.action = a)).filter (fun r => r.cat = c))
        (fun _ rc => Val.arr (rc.map recEntry)) (by decide) c hc
      simp only [id] at this
      rw [this, e3]

/-- the else-branch (SSH-1 peer / no peer): bare name lists (`null` without a public-key message), no per-algorithm notes -/
theorem docElse_lists (d : Ssh1Report.Doc) :
    (docElse d).get Report.keyC = some (strs d.key) ∧ (docElse d).get Report.encC = some (optStrs d.enc) ∧
    (docElse d).get Report.autC = some (optStrs d.aut) := by
  unfold docElse
  cases d.clientIp <;> cases d.target <;> refine ⟨?_, ?_, ?_⟩ <;> rfl

/-! ### (4) what is printed -/

/-- **the text handed to the buffer is a function of the document value and the indentation flag only** -/
theorem printed_text (cfg : Output.Cfg) (inp : Output.Input) (v : Val) :
    Output.jsonDoc cfg (withDoc inp v) = docText cfg.jsonIndent v := by
  unfold Output.jsonDoc withDoc docText; rfl

theorem printed_option_free (cfg cfg' : Output.Cfg) (hi : cfg.jsonIndent = cfg'.jsonIndent) (inp inp' : Output.Input) (v : Val) :
    Output.jsonDoc cfg (withDoc inp v) = Output.jsonDoc cfg' (withDoc inp' v) := by
  rw [printed_text, printed_text, hi]

/-- **stdout of a completed `-j` / `-jj` audit is the document and one line feed**, for every other option (no `-d`), and that text is one
    well-formed document whose value does not depend on the form -/
theorem stdout_is_document (cfg : Output.Cfg) (hj : cfg.json = true) (hd : cfg.debug = false) (vmsgs : List Str) (inp : Output.Input) (v : Val) :
    Output.outText (Output.stdoutOf cfg vmsgs (withDoc inp v)) = docText cfg.jsonIndent v ++ ['\n'] ∧
    loads (docText cfg.jsonIndent v) = .ok (toJV (sortKeys v)) := by
  refine ⟨?_, ?_⟩
  · rw [(C15.json_stdout_single cfg hj hd vmsgs (withDoc inp v)).2.2, printed_text]
  · unfold docText; cases cfg.jsonIndent
    · exact loads_compact v
    · exact loads_indented v

/-! ### non-vacuity -/

example : dumpsCompact (.obj [(['b'], .arr [.int 1, .int (-2), .null, .bool true, .arr [], .obj []]), (['a'], .str ['x', '"', '\\', '\n', 'é'])])
    = Report.s "{\"a\": \"x\\\"\\\\\\n\\u00e9\", \"b\": [1, -2, null, true, [], {}]}" := by decide +kernel
example : dumpsIndented (.obj [(['b'], .arr [.int 1]), (['a'], .obj [])]) = Report.s "{\n    \"a\": {},\n    \"b\": [\n        1\n    ]\n}" := by decide +kernel
example : dumpsCompact (.str [Char.ofNat 0x1F600, Char.ofNat 0x7f, Char.ofNat 0]) = Report.s "\"\\ud83d\\ude00\\u007f\\u0000\"" := by decide +kernel
example : (match loads (Report.s "{} {}") with | .error .invalid => true | _ => false) = true := by decide +kernel
example : (match loads (Report.s "{\"a\": 1") with | .error .invalid => true | _ => false) = true := by decide +kernel
example : (match loads (Report.s "{\"a\": [1, \"x\"]}") with | .ok (.obj [(_, .arr [.int 1, .str _])]) => true | _ => false) = true := by decide +kernel
example : (Val.obj [(['a'], .int 1), (['b'], .int 2)]).NoDup := by simp [Val.NoDup, NoDupM]
example : ¬ (Val.obj [(['a'], .int 1), (['a'], .int 2)]).NoDup := by simp [Val.NoDup, NoDupM]
example : compact.Ws ∧ indent4.Ws := ⟨compact_ws, indent4_ws⟩

end SshAudit.C15JsonDoc
