/-
  Wire codecs: `readbuf.py`, `writebuf.py`, `ssh1_crc32.py`, `SSH_Socket.send_packet/read_packet`
  (over a complete buffer), `ssh2_kex.py` parse/write, `ssh1_publickeymessage.py` parse/write.

  Python → Lean conventions (DESIGN §3): bytes are `List UInt8`; a reader is "the bytes that are
  left"; `BytesIO.read(n)` clamps (`List.take`); `struct.unpack` on a short slice raises
  `struct.error` (`Exn.struct`); integers are unbounded.  Import-free.
-/
import SshAudit.Model.Text
namespace SshAudit

/-- The exceptions the modelled code can raise (exceptions are data). -/
inductive Exn where
  | struct | value | unicode | type | key | index | kexdh | sysExit (code : Int)
deriving Repr, DecidableEq

instance {ε α : Type} [DecidableEq ε] [DecidableEq α] : DecidableEq (Except ε α) := fun a b =>
  match a, b with
  | .ok x, .ok y => if h : x = y then isTrue (by rw [h]) else isFalse (by intro h'; cases h'; exact h rfl)
  | .error x, .error y => if h : x = y then isTrue (by rw [h]) else isFalse (by intro h'; cases h'; exact h rfl)
  | .ok _, .error _ => isFalse (by intro h; cases h)
  | .error _, .ok _ => isFalse (by intro h; cases h)

namespace Wire

/-! ### base-256 digits -/

/-- the low `L` base-256 digits of `m`, most significant first -/
def toBE (m : Nat) : Nat → List Nat
  | 0 => []
  | L+1 => toBE (m / 256) L ++ [m % 256]

/-- big-endian value of a digit list -/
def ofBE (ds : List Nat) : Nat := ds.foldl (fun a b => a * 256 + b) 0

def bytesOf (ds : List Nat) : Bytes := ds.map UInt8.ofNat
def natsOf (bs : Bytes) : List Nat := bs.map UInt8.toNat

/-- `int.bit_length()` of a natural number -/
def bitLen (m : Nat) : Nat := if m = 0 then 0 else Nat.log2 m + 1

/-! ### ReadBuf -/


/-- `read(n)`: clamps -/
def read (n : Nat) (bs : Bytes) : Bytes × Bytes := (bs.take n, bs.drop n)

/-- `read_byte`: `struct.unpack('B', read(1))` -/
def readByte : Bytes → Except Exn (Nat × Bytes)
  | [] => .error .struct
  | b :: r => .ok (b.toNat, r)

def readBool (bs : Bytes) : Except Exn (Bool × Bytes) := do
  let (b, r) ← readByte bs
  pure (b != 0, r)

/-- `read_int`: `struct.unpack('>I', read(4))` -/
def readInt (bs : Bytes) : Except Exn (Nat × Bytes) :=
  if bs.length < 4 then .error .struct else .ok (ofBE (natsOf (bs.take 4)), bs.drop 4)

/-- `read_string`: length-prefixed, the body read clamps -/
def readString (bs : Bytes) : Except Exn (Bytes × Bytes) := do
  let (n, r) ← readInt bs
  pure (r.take n, r.drop n)

def comma : UInt8 := 0x2c

/-- byte-level `split(',')` (the UTF-8 decoder is applied per piece by the harness: `,` is
    ASCII and never part of a multi-byte sequence) -/
def splitComma : Bytes → List Bytes
  | [] => [[]]
  | x :: xs =>
    if x = comma then [] :: splitComma xs
    else match splitComma xs with
      | [] => [[x]]
      | p :: ps => (x :: p) :: ps

def joinComma : List Bytes → Bytes
  | [] => []
  | [p] => p
  | p :: ps => p ++ [comma] ++ joinComma ps

/-- `read_list` -/
def readList (bs : Bytes) : Except Exn (List Bytes × Bytes) := do
  let (s, r) ← readString bs
  pure (splitComma s, r)

/-- two's-complement value of a byte string (what `read_mpint2` computes after the D01 repair:
    words are folded unsigned except that the sign comes from the first byte) -/
def signedBE (ds : List Nat) : Int :=
  match ds with
  | [] => 0
  | b :: _ => if 128 ≤ b then (ofBE ds : Int) - (256 : Int) ^ ds.length else (ofBE ds : Int)

/-- `read_mpint2` -/
def readMpint2 (bs : Bytes) : Except Exn (Int × Bytes) := do
  let (v, r) ← readString bs
  pure (signedBE (natsOf v), r)

/-- `read_mpint1`: 16-bit bit count, then `(bits+7)//8` bytes, unsigned -/
def readMpint1 (bs : Bytes) : Except Exn (Nat × Bytes) :=
  if bs.length < 2 then .error .struct else
    let bits := ofBE (natsOf (bs.take 2))
    let n := (bits + 7) / 8
    let r := bs.drop 2
    .ok (ofBE (natsOf (r.take n)), r.drop n)

/-! ### WriteBuf -/

abbrev W := Except Exn Bytes

def writeByte (v : Nat) : W := if v < 256 then .ok [UInt8.ofNat v] else .error .struct
def writeBool (b : Bool) : Bytes := [if b then 1 else 0]
/-- `write_int`: `struct.pack('>I', v)` raises for `v ≥ 2^32` -/
def writeInt (v : Nat) : W := if v < 2 ^ 32 then .ok (bytesOf (toBE v 4)) else .error .struct
def writeString (s : Bytes) : W := do
  let h ← writeInt s.length
  pure (h ++ s)
def writeList (names : List Bytes) : W := writeString (joinComma names)

/-- `_create_mpint(n)` (signed): the low `length` bytes of the two's complement of `n` with
    `length = bit_length // 8 + (1 if n else 0)`, minus a leading `ff` in front of `80`. -/
def stripFF : List Nat → List Nat
  | 255 :: 128 :: rest => 128 :: rest
  | l => l

def createMpint (n : Int) : List Nat :=
  let bits := bitLen n.natAbs
  let len := bits / 8 + (if n = 0 then 0 else 1)
  stripFF (toBE (n % (256 : Int) ^ len).toNat len)

def writeMpint2 (n : Int) : W := writeString (bytesOf (createMpint n))

/-- `_create_mpint(n, signed=False, bits)` for `n ≥ 0`: leading zero bytes stripped -/
def createMpintU (n : Nat) : List Nat :=
  let bits := bitLen n
  let len := bits / 8 + (if n = 0 then 0 else 1)
  (toBE n len).dropWhile (· = 0)

/-- `write_mpint1` (`struct.pack('>H', bits)` raises for `bits ≥ 2^16`) -/
def writeMpint1 (n : Nat) : W :=
  let bits := bitLen n
  if bits < 2 ^ 16 then .ok (bytesOf (toBE bits 2) ++ bytesOf (createMpintU n)) else .error .struct

/-- `_create_mpint(n, False, bits)` for an arbitrary integer (Python accepts negatives here) -/
def createMpintI (n : Int) : List Nat :=
  let bits := bitLen n.natAbs
  let len := bits / 8 + (if n = 0 then 0 else 1)
  (toBE (n % (256 : Int) ^ len).toNat len).dropWhile (· = 0)

/-- `write_mpint1` as the code has it (any integer) -/
def writeMpint1Z (n : Int) : W :=
  let bits := bitLen n.natAbs
  if bits < 2 ^ 16 then .ok (bytesOf (toBE bits 2) ++ bytesOf (createMpintI n)) else .error .struct

/-! ### SSH-2 binary packet framing (`send_packet` / `read_packet(sshv=2)`) -/

/-- padding length chosen by `send_packet` -/
def padLen (payloadLen : Nat) : Nat :=
  let p := (8 - (payloadLen + 5) % 8) % 8
  if p < 4 then p + 8 else p

/-- `send_packet` -/
def frame (payload : Bytes) : W := do
  let pad := padLen payload.length
  let h ← writeInt (payload.length + pad + 1)
  pure (h ++ [UInt8.ofNat pad] ++ payload ++ List.replicate pad 0)

/-- `read_packet(2)` on a buffer that already holds everything the peer will send
    (`ensure_read` failing = `none` result: the `-1` return of the code).
    Returns (packet type, payload without type byte, rest).  Mirrors the code after the D16
    repair: a length field that makes the payload shorter than one byte is rejected like a
    bad block size (`sysExit 1`). -/
def readPacket (bs : Bytes) : Except Exn (Option (Nat × Bytes × Bytes)) :=
  if bs.length < 4 then .ok none else
  let plen := ofBE (natsOf (bs.take 4))
  let r1 := bs.drop 4
  match r1 with
  | [] => .ok none
  | padB :: r2 =>
    let pad := padB.toNat
    if (plen + 4) % 8 ≠ 0 ∨ plen < pad + 2 then .error (.sysExit 1) else
    let payLen := plen - pad - 1
    if r2.length < payLen then .ok none else
    let payload := r2.take payLen
    let r3 := r2.drop payLen
    match payload with
    | [] => .error .type
    | t :: body =>
      if r3.length < pad then .ok none else .ok (some (t.toNat, body, r3.drop pad))

/-- `read_packet` called again and again on one connection whose data has all arrived (however it was segmented): the packets
    read until the data runs out or a framing exit ends it (`fuel` ≥ number of packets; every packet consumes ≥ 5 bytes) -/
def readPackets : Nat → Bytes → List (Nat × Bytes) × Option Exn
  | 0, _ => ([], none)
  | fuel + 1, bs =>
    match readPacket bs with
    | .error e => ([], some e)
    | .ok none => ([], none)
    | .ok (some (t, body, rest)) => let r := readPackets fuel rest; ((t, body) :: r.1, r.2)

/-- an independently written RFC 4253 §6 decoder (spec side): uint32 packet_length, byte
    padding_length, payload, ≥ 4 bytes of padding, total a multiple of 8, nothing left over -/
def rfcDecode (bs : Bytes) : Option Bytes :=
  match bs with
  | a :: b :: c :: d :: p :: rest =>
    let plen := ((a.toNat * 256 + b.toNat) * 256 + c.toNat) * 256 + d.toNat
    let pad := p.toNat
    if bs.length % 8 = 0 ∧ 4 ≤ pad ∧ pad + 1 ≤ plen ∧ rest.length = plen - 1 then some (rest.take (plen - 1 - pad)) else none
  | _ => none

/-! ### CRC-32 of SSH-1 (`ssh1_crc32.py`) -/

def crcPoly : Nat := 0xedb88320

/-- one pass of the table-initialisation loop body -/
def tableStep (st : Nat × Nat) : Nat × Nat :=
  let (crc, n) := st
  let x := (crc ^^^ n) % 2
  ((crc >>> 1) ^^^ (x * crcPoly), n >>> 1)

def tableEntry (i : Nat) : Nat := (tableStep (tableStep (tableStep (tableStep (tableStep (tableStep (tableStep (tableStep (0, i))))))))).1

def crcTable : List Nat := (List.range 256).map tableEntry

/-- `SSH1_CRC32.calc` -/
def crcCalc (v : Bytes) : Nat :=
  v.foldl (fun crc b => (crc >>> 8) ^^^ crcTable.getD (b.toNat ^^^ (crc % 256)) 0) 0

/-- spec: bit-serial reflected CRC-32, polynomial 0xEDB88320, zero initial value, no final xor -/
def crcBitStep (x : Nat) : Nat := (x >>> 1) ^^^ (if x % 2 = 1 then crcPoly else 0)
def crcBitStepN : Nat → Nat → Nat
  | 0, x => x
  | n+1, x => crcBitStepN n (crcBitStep x)
def crcSpec (v : Bytes) : Nat := v.foldl (fun crc b => crcBitStepN 8 (crc ^^^ b.toNat)) 0

/-! ### SSH-1 packets (protocol 1.5): length, 1–8 bytes of padding, type + data, CRC-32 over padding + type + data -/

/-- `8 - packet_length % 8` -/
def padLen1 (plen : Nat) : Nat := 8 - plen % 8

/-- a protocol-1.5 packet, written down from the protocol description (spec side; the tool never sends one):
    `pad` must be `padLen1 (data.length + 5)` bytes long -/
def frame1 (t : UInt8) (data pad : Bytes) : Bytes :=
  bytesOf (toBE (data.length + 5) 4) ++ pad ++ (t :: data) ++ bytesOf (toBE (crcCalc (pad ++ (t :: data))) 4)

/-- `SSH_Socket.read_packet(1)` on a buffer that already holds `bs` (`none`: more data would be awaited) -/
def readPacket1 (bs : Bytes) : Except Exn (Option (Nat × Bytes × Bytes)) :=
  if bs.length < 4 then .ok none else
  let plen := ofBE (natsOf (bs.take 4))
  let r1 := bs.drop 4
  let padL := padLen1 plen
  if r1.length < padL then .ok none else
  let pad := r1.take padL
  let r2 := r1.drop padL
  if (padL + plen) % 8 ≠ 0 ∨ plen < 5 then .error (.sysExit 1) else
  if r2.length < plen then .ok none else
  let payload := r2.take (plen - 4)
  let r3 := r2.drop (plen - 4)
  let crc := ofBE (natsOf (r3.take 4))
  match payload with
  | [] => .error .type
  | t :: body => if crc ≠ crcCalc (pad ++ payload) then .error (.sysExit 1) else .ok (some (t.toNat, body, r3.drop 4))

/-! ### KEXINIT (`ssh2_kex.py`) -/

structure Kex where
  cookie : Bytes
  kex : List Bytes
  key : List Bytes
  encC : List Bytes
  encS : List Bytes
  macC : List Bytes
  macS : List Bytes
  compC : List Bytes
  compS : List Bytes
  langC : List Bytes
  langS : List Bytes
  follows : Bool
  unused : Nat
deriving Repr, DecidableEq

/-- `SSH2_Kex.parse` -/
def kexParse (bs : Bytes) : Except Exn Kex := do
  let (cookie, r) := read 16 bs
  let (kex, r) ← readList r
  let (key, r) ← readList r
  let (encC, r) ← readList r
  let (encS, r) ← readList r
  let (macC, r) ← readList r
  let (macS, r) ← readList r
  let (compC, r) ← readList r
  let (compS, r) ← readList r
  let (langC, r) ← readList r
  let (langS, r) ← readList r
  let (follows, r) ← readBool r
  let (unused, _) ← readInt r
  pure { cookie, kex, key, encC, encS, macC, macS, compC, compS, langC, langS, follows, unused }

/-- `SSH2_Kex.write` -/
def kexWrite (k : Kex) : W := do
  let a ← writeList k.kex
  let b ← writeList k.key
  let c ← writeList k.encC
  let d ← writeList k.encS
  let e ← writeList k.macC
  let f ← writeList k.macS
  let g ← writeList k.compC
  let h ← writeList k.compS
  let i ← writeList k.langC
  let j ← writeList k.langS
  let u ← writeInt k.unused
  pure (k.cookie ++ a ++ b ++ c ++ d ++ e ++ f ++ g ++ h ++ i ++ j ++ writeBool k.follows ++ u)

/-! ### SSH-1 public-key message (`ssh1_publickeymessage.py`) -/

structure Pkm where
  cookie : Bytes
  skBits : Nat
  skE : Nat
  skN : Nat
  hkBits : Nat
  hkE : Nat
  hkN : Nat
  pflags : Nat
  cmask : Nat
  amask : Nat
deriving Repr, DecidableEq

def pkmParse (bs : Bytes) : Except Exn Pkm := do
  let (cookie, r) := read 8 bs
  let (skBits, r) ← readInt r
  let (skE, r) ← readMpint1 r
  let (skN, r) ← readMpint1 r
  let (hkBits, r) ← readInt r
  let (hkE, r) ← readMpint1 r
  let (hkN, r) ← readMpint1 r
  let (pflags, r) ← readInt r
  let (cmask, r) ← readInt r
  let (amask, _) ← readInt r
  pure { cookie, skBits, skE, skN, hkBits, hkE, hkN, pflags, cmask, amask }

def pkmWrite (p : Pkm) : W := do
  let a ← writeInt p.skBits
  let b ← writeMpint1 p.skE
  let c ← writeMpint1 p.skN
  let d ← writeInt p.hkBits
  let e ← writeMpint1 p.hkE
  let f ← writeMpint1 p.hkN
  let g ← writeInt p.pflags
  let h ← writeInt p.cmask
  let i ← writeInt p.amask
  pure (p.cookie ++ a ++ b ++ c ++ d ++ e ++ f ++ g ++ h ++ i)

end Wire
end SshAudit
