/-
  Regenerated logic against the hand-written model, sixth unit (round 17): the KEXINIT writer (C10).

  `Gen.Logic.kex_write` is `SSH2_Kex.write` as `harness/translate_logic.py` reads it from the source on every run: a procedure of thirteen calls of
  the `WriteBuf` methods `write`, `write_list`, `write_bool`, `write_int` (external: parameters over an abstract buffer state), in the order of
  the source, each with the attribute of the message it is handed (`self.cookie`, `self.kex_algorithms`, …, `self.client.mac`, `self.server.mac`,
  …, `self.follows`, `self.__unused`; the properties of `SSH2_Kex` / `SSH2_KexParty` are read as plain attributes).  `kex_write_eq_model`
  instantiates the four methods with the model's writers (`Wire.writeList` after an arbitrary encoding `enc` of a name, `Wire.writeBool`,
  `Wire.writeInt`; an exception is the error state, which every later call leaves as it is) and says that the procedure then produces exactly
  `Wire.kexWrite` of the message — the function the KEXINIT round-trip theorems of C10 (`kex_rt`, `kex_reencode`) are about.  Two fields swapped, one written twice or one
  left out in the source, and the theorem no longer checks.
-/
import SshAudit.Gen.Logic6
import SshAudit.Model.Wire
namespace SshAudit.GenLogic
open SshAudit

/-- `wbuf.write(b)` on the model's buffer state -/
def xWrite (st : Wire.W) (b : Bytes) : Wire.W := do let acc ← st; pure (acc ++ b)
/-- `wbuf.write_list(names)` -/
def xWriteList (enc : Str → Bytes) (st : Wire.W) (names : List Str) : Wire.W := do
  let acc ← st; let x ← Wire.writeList (names.map enc); pure (acc ++ x)
/-- `wbuf.write_bool(v)` -/
def xWriteBool (st : Wire.W) (v : Bool) : Wire.W := do let acc ← st; pure (acc ++ Wire.writeBool v)
/-- `wbuf.write_int(v)` (`struct.pack('>I', v)` raises for a negative value too) -/
def xWriteInt (st : Wire.W) (v : Int) : Wire.W := do
  let acc ← st; let x ← (if 0 ≤ v then Wire.writeInt v.toNat else .error .struct); pure (acc ++ x)

theorem kex_write_eq_model (enc : Str → Bytes) (cookie : Bytes) (kex key encC encS macC macS compC compS langC langS : List Str)
    (follows : Bool) (unused : Nat) :
    (Gen.Logic.kex_write xWrite (xWriteList enc) xWriteBool xWriteInt (.ok []) cookie kex key encC encS macC macS compC compS langC langS
        follows (unused : Int)).2
      = Wire.kexWrite { cookie := cookie, kex := kex.map enc, key := key.map enc, encC := encC.map enc, encS := encS.map enc,
                        macC := macC.map enc, macS := macS.map enc, compC := compC.map enc, compS := compS.map enc,
                        langC := langC.map enc, langS := langS.map enc, follows := follows, unused := unused } := by
  unfold Gen.Logic.kex_write Wire.kexWrite
  simp only [xWrite, xWriteList, xWriteBool, xWriteInt, Int.natCast_nonneg, if_true, Int.toNat_natCast]
  generalize Wire.writeList (kex.map enc) = w1
  generalize Wire.writeList (key.map enc) = w2
  generalize Wire.writeList (encC.map enc) = w3
  generalize Wire.writeList (encS.map enc) = w4
  generalize Wire.writeList (macC.map enc) = w5
  generalize Wire.writeList (macS.map enc) = w6
  generalize Wire.writeList (compC.map enc) = w7
  generalize Wire.writeList (compS.map enc) = w8
  generalize Wire.writeList (langC.map enc) = w9
  generalize Wire.writeList (langS.map enc) = w10
  generalize Wire.writeInt unused = w11
  rcases w1 with e | a1
  · rfl
  rcases w2 with e | a2
  · rfl
  rcases w3 with e | a3
  · rfl
  rcases w4 with e | a4
  · rfl
  rcases w5 with e | a5
  · rfl
  rcases w6 with e | a6
  · rfl
  rcases w7 with e | a7
  · rfl
  rcases w8 with e | a8
  · rfl
  rcases w9 with e | a9
  · rfl
  rcases w10 with e | a10
  · rfl
  rcases w11 with e | a11
  · rfl
  rfl

/-- the hypotheses are met by a real message: the default KEXINIT-like lists, written through the regenerated procedure -/
example : (Gen.Logic.kex_write xWrite (xWriteList (fun s => s.map (fun c => UInt8.ofNat c.toNat))) xWriteBool xWriteInt (.ok [])
      [1, 2] ["a".toList, "bc".toList] [] [] [] [] [] [] [] [] [] true 7).2
    = .ok [1, 2, 0, 0, 0, 4, 97, 44, 98, 99, 0, 0, 0, 0, 0, 0, 0, 0, 0, 0, 0, 0, 0, 0, 0, 0, 0, 0, 0, 0, 0, 0, 0, 0, 0, 0, 0, 0, 0, 0, 0, 0, 0, 0, 0, 0, 1, 0, 0, 0, 7] := by
  decide

end SshAudit.GenLogic
