"""C15 — Output options change presentation only, never findings or verdict.

Theorems: SshAudit.Props.C15 (the buffer machine of outputbuffer.py run on the call sequence of
output() equals a closed form; raising the level only deletes lines (sub-list, and exactly the
filter image section by section); the findings shown and their filter level are functions of the
report alone under batch / verbose / colour / level; colour escapes strip to the plain output; JSON
mode leaves exactly one buffer entry — the document — at every level, and stdout of a completed
JSON audit is that document for every option set without -d; negations with witnesses for the
remaining known deviations D32-empty (empty report written as a blank line) and D05 (error path)).
Tie: (1) random operation sequences on the real OutputBuffer vs. the model machine; (2) the real
output() on generated peers over the full 72-point option grid vs. the model's render (entry by
entry), its closed form and its finding/method pairs; (3) the real main() over scripted peers vs.
the model's stdout; (4) sortStr / stripAnsi vs. sorted() / an independent regular expression.
Oracle: the property itself on the real code, independent of the model — records re-parsed from the
captured text of every option set, sub-sequence test between levels, JSON notes vs. text notes for
database names, exit codes; runtime part (testing): subprocess runs under PYTHONHASHSEED 0/1/2/random.
"""
import base64
import hashlib
import io
import ipaddress
import itertools
import json
import os
import re
import subprocess
import sys
import tempfile

from common import Coverage, tstr, tstrs, toptstr, tbool, REPO, HERE
from props import report_common as rc
from props import peergen as pg
import fakenet as fn

ID = 'C15'
MODULE = 'SshAudit.Props.C15'
NAMESPACE = 'SshAudit.C15'
THEOREMS = ['output_runs_clean', 'render_eq_closed', 'stdout_eq', 'status_cfg_free', 'sections_level_free', 'level_filter_section', 'section_at_info',
            'level_filter', 'render_at_info', 'level_only_deletes', 'level_lines_pass', 'level_keeps_passing', 'stdout_nonblank_only_deletes',
            'stdout_only_deletes', 'd32_repaired', 'empty_report_blank_line', 'stdout_all_lines_false', 'algPairs_key', 'findings_cfg_free', 'batch_same_findings',
            'colour_same_findings', 'verbose_same_findings', 'finding_level', 'algLines_ordered', 'report_lines_ordered', 'finding_text',
            'colour_strip_section', 'colour_strip', 'colour_strip_exact', 'json_once', 'json_every_level', 'json_option_free', 'json_stdout_single',
            'json_verbose_repaired', 'json_error_path', 'json_error_not_single', 'json_info_perm_text']
EXTENSIONS = ['props.ext.C15_jsondoc']
# functions / statement blocks of the code whose Lean definitions are regenerated from the source on every run (harness/translate_logic.py);
# `GenLogic.<name>_eq_model` (lean/SshAudit/Props/GenLogic*.lean) ties each to the hand-written model function the theorems above are about
GEN_LOGIC = ['get_level', 'print_filtered', 'append_line']

TECHNIQUE = ('Lean 4 theorems about an executable model of OutputBuffer (state machine: level filter, always_print, sections, sort, line_ended, colours, v()/write) run on the call sequence of output() '
             '(closed form by induction; level filter via uniqueness of sorted permutations; colour strip; JSON mode) + correspondence on the full 72-point option grid through the real output() and main() '
             '+ independent oracle on the captured text + subprocess runs under four hash seeds (testing)')
LEVEL_TEXT = ('Proved for every option set and every report: output() never trips the buffer and leaves a closed form; raising the minimum level only deletes lines (sub-list), section by section exactly the '
              'lines whose method passes the level, headers only of sections that keep an item; the findings shown and their filter level depend on the report (and on verbose only through the line form), '
              'not on batch/colour/level/JSON; colour escapes strip to the plain lines; JSON mode leaves exactly one entry, the document, at every level, and stdout of a completed JSON audit is exactly that document '
              'for every option set without -d; on stdout (verbose messages included) raising the level only deletes lines whenever the level-L report is non-empty. The remaining deviations are proved '
              'as negations with witnesses (D32-empty: an empty report is written as one blank line; D05: error text after the JSON document). The model is compared with the real output() on generated peers over all 72 option sets, '
              'with the real OutputBuffer on random call sequences and with the real main() over scripted peers.'
              " Extension (Props/C15JsonDoc, 44 theorems): an exact model of json.dumps (compact and indent=4, sort_keys, ensure_ascii) and of the value tree build_struct makes — for every value both forms parse back to the same key-sorted value, the compact form is one printable-ASCII line, dumps is injective, the document's names / notes / size fields are those of the report model; main() -j / -jj stdout is compared byte for byte.")
LEVEL_NOTE = ('Trusted: Lean kernel, harness, fakenet. The report data (notes, status, recommendations) is the C01-C04/C13 model and takes no output option; the JSON document is an opaque input of the '
              'presentation model (its notes: C03.json_eq_text_fail_warn and json_info_perm_text). The finding carried by a printed line is tied to its text by finding_text (shape of the line), '
              'the decoding of real text back into records is done by the oracle, not proved. Colour strip assumes texts without ESC characters and gives a permutation for the sorted recommendation '
              'section (coloured lines are sorted with their escape prefix). SSH-1 public-key audits are not modelled (SSH-1.99 banners are). '
              'RUNTIME PART = TESTING, NOT PROOF: byte-identical stdout and exit code across repeated subprocess runs of /repo/ssh-audit.py (via runpy over fakenet) under PYTHONHASHSEED 0, 1, 2, random, '
              'and compact vs. indented JSON parsing to the same value, are checked on a few dozen (quick) / a few hundred (thorough) runs.')

LEVELS = ('info', 'warn', 'fail')
ANSI_RX = re.compile('\x1b\\[0(;[0-9][0-9])?m')
GRID = [dict(batch=b, verbose=v, colors=c, level=l, json=j) for b in (False, True) for v in (False, True) for c in (False, True)
        for l in LEVELS for j in (0, 1, 2)]


def cfg_token(o, debug=False):
    return '%s%s%s%s%s%s:%d' % (tbool(o['batch']), tbool(o['verbose']), tbool(debug), tbool(o['colors']), tbool(o['json'] > 0), tbool(o['json'] > 1),
                                LEVELS.index(o['level']))


# ---------------------------------------------------------------- running the real output()

def real_output(peer, o, client=False, banner_line='SSH-2.0-OpenSSH_8.0', rate_notes='', header=(), print_target=False, host='h', port=22, has_kex=True):
    """The real output() on a recording OutputBuffer configured like audit() does; returns (retval, buffer entries, records, banner)."""
    from ssh_audit import ssh_audit as sa
    from ssh_audit.auditconf import AuditConf
    from ssh_audit.banner import Banner
    fn.reset_dbs()
    out = rc.recording_buffer()
    out.batch, out.verbose, out.level, out.use_colors = o['batch'], o['verbose'], o['level'], o['colors']
    aconf = AuditConf(host, port)
    aconf.batch, aconf.verbose, aconf.level, aconf.colors = o['batch'], o['verbose'], o['level'], o['colors']
    aconf.json, aconf.json_print_indent = o['json'] > 0, o['json'] > 1
    banner = Banner.parse(banner_line) if banner_line is not None else None
    kex = rc.mk_kex(peer) if has_kex else None
    ret = sa.output(out, aconf, banner, list(header), client_host=('10.1.1.1' if client else None), kex=kex, print_target=print_target, dh_rate_test_notes=rate_notes)
    out.flush_section()
    return ret, list(out.buffer), list(out.records), banner


def fingerprints_of(host_keys):
    """(type, SHA256:…, MD5:…) triples the report walks — computed with hashlib/base64 only."""
    from ssh_audit.hostkeytest import HostKeyTest
    fps = {}
    for t, v in host_keys.items():
        if v is None:
            continue
        raw = v['raw_hostkey_bytes'] if 'raw_hostkey_bytes' in v else v.get('raw', b'blob-' + t.encode())
        if t in HostKeyTest.RSA_FAMILY:
            t = 'ssh-rsa'
        if '-cert-' in t:
            continue
        h = hashlib.md5(raw).hexdigest()
        fps[t] = ('SHA256:' + base64.b64encode(hashlib.sha256(raw).digest()).decode().rstrip('='), 'MD5:' + ':'.join(h[i:i + 2] for i in range(0, 32, 2)))
    return [(t,) + fps[t] for t in sorted(fps)]


def target_text(host, port):
    if port == 22:
        return host
    try:
        if ipaddress.ip_address(host).version == 6:
            return '[%s]:%d' % (host, port)
    except ValueError:
        pass
    return '%s:%d' % (host, port)


def compat_text(peer, client):
    """the text of the (gen) compatibility line, from the real output_compatibility (data input of the presentation layer)"""
    from ssh_audit import ssh_audit as sa
    from ssh_audit.algorithms import Algorithms
    fn.reset_dbs()
    b = rc.recording_buffer()
    sa.output_compatibility(b, Algorithms(None, rc.mk_kex(peer)), client)
    for _, s, _, _ in b.records:
        if s.startswith('(gen) compatibility: '):
            return s[len('(gen) compatibility: '):]
    return None


def run_line(o, peer, banner, client=False, rate_notes='', header=(), print_target=False, host='h', port=22, has_kex=True, docs=('', ''), vmsgs=(), err=None,
             compat=None, debug=False):
    """driver line `output.run …` for one option set and one peer (banner: parsed Banner or None)"""
    from ssh_audit.software import Software
    from ssh_audit.product import Product
    sw = Software.parse(banner) if banner is not None else None
    fps = fingerprints_of(peer['host_keys']) if has_kex else []
    toks = [cfg_token(o, debug), tbool(has_kex), toptstr(target_text(host, port) if print_target else None), toptstr('10.1.1.1' if client else None),
            toptstr('\n'.join(header) if len(header) > 0 else None), toptstr(str(banner) if banner is not None else None),
            tbool(banner is not None and banner.protocol[0] == 1), tbool(banner.valid_ascii if banner is not None else True),
            toptstr(str(sw) if sw is not None else None), toptstr(sw.display(False) if sw is not None else None), toptstr(compat),
            ('_' if not fps else ';'.join('%s:%s:%s' % (tstr(a), tstr(b), tstr(c)) for a, b, c in fps)),
            tbool(client and sw is not None and sw.product == Product.PuTTY), tstr(docs[0]), tstr(docs[1]), tstrs(list(vmsgs)), toptstr(err)]
    return 'output.run ' + ' '.join(toks) + ' ' + rc.report_line(peer, client, banner, rate_notes)[len('report '):]


# ---------------------------------------------------------------- independent re-reading of captured text (oracle side)

SEV = {'info': 0, 'warn': 1, 'fail': 2}
COLOUR_LEVEL = {'31': 2, '33': 1, '32': 0, '36': 'head'}


def strip_ansi(t):
    return ANSI_RX.sub('', t)


def findings_of_entries(entries):
    """[(cat, shown, severity, text)] in order, re-parsed from plain buffer lines; the placeholder note of a line with nothing to say is dropped"""
    recs = rc.parse_alg_records([(None, strip_ansi(e), None, None) for e in entries], verbose=True)
    out = []
    for c in rc.CATS:
        for shown, notes, _ in recs[c]:
            for lvl, text in notes:
                out.append((c, shown.rstrip(' '), lvl, text))      # column padding is presentation
    return out


def line_level(line):
    m = re.match('\x1b\\[0;([0-9][0-9])m', line)
    return COLOUR_LEVEL.get(m.group(1), 0) if m else 0


def is_always(line):
    return strip_ansi(line).startswith(('(gen) target: ', '(gen) client IP: '))


def spec_filter(info_entries, lv, batch):
    """What the documentation promises for `-l`: the info-level report minus every line below the level (always-print lines stay);
    a section header stays iff one of its lines stays.  Works on coloured output (the colour tells the level)."""
    if lv == 0:
        return list(info_entries)
    if batch:
        return [l for l in info_entries if (line_level(l) != 'head' and line_level(l) >= lv and l != '') or is_always(l)]
    out, i, n = [], 0, len(info_entries)
    while i < n:
        l = info_entries[i]
        if line_level(l) == 'head':
            j = i + 1
            body = []
            while j < n and info_entries[j] != '':
                body.append(info_entries[j])
                j += 1
            kept = [b for b in body if (line_level(b) != 'head' and line_level(b) >= lv) or is_always(b)]
            if kept:
                out.append(l)
                out.extend(kept)
            i = j + 1
        else:
            if l != '' and line_level(l) >= lv:
                out.append(l)
            i += 1
    return out


def is_subsequence(a, b):
    it = iter(b)
    return all(any(x == y for y in it) for x in a)


def norm_rec_order(lines):
    """sort every maximal run of (rec) lines (coloured lines are sorted with their escape prefix: the order inside that block is presentation)"""
    out, run = [], []
    for l in lines:
        if l.startswith('(rec) '):
            run.append(l)
        else:
            out.extend(sorted(run))
            run = []
            out.append(l)
    out.extend(sorted(run))
    return out


def json_findings(doc, cat):
    """[(algorithm, [(lvl, text)…])] from the JSON document, blank names skipped (the text report skips them)"""
    out = []
    for e in doc.get(cat, []):
        if not e['algorithm'].strip():
            continue
        notes = []
        for lvl in ('fail', 'warn', 'info'):
            for t in e['notes'].get(lvl, []) or []:
                if t is not None:
                    notes.append((lvl, t))
        out.append((e['algorithm'], notes))
    return out


def db_knows(cat, name):
    db = pg.master()[cat]
    if cat == 'kex' and name.startswith('gss-'):
        name = name[:name.rindex('-')] + '-*'
    return name in db


def okey(o):
    return (o['batch'], o['verbose'], o['colors'], o['level'], o['json'])


def oracle_peer(results, peer, desc):
    """The property on one peer, from the captured buffers of all 72 option sets.  results: {okey: (ret, entries)}.  Returns failure dicts."""
    fails = []

    def fail(kind, o, observed, expected, **extra):
        sig = {'kind': kind}
        sig.update(extra)
        fails.append({'sig': sig, 'input': {'what': 'output()', 'desc': desc, 'options': o}, 'observed': observed, 'expected': expected,
                      'how': 'harness/props/C15.py oracle_peer on the real output()'})
    base_o = dict(batch=False, verbose=False, colors=False, level='info', json=0)
    base_ret, base_entries = results[okey(base_o)]
    base_find = findings_of_entries(base_entries)
    base_real = [f for f in base_find if not (f[2] == 'info' and f[3] == '')]
    for o in GRID:
        ret, entries = results[okey(o)]
        # (a) verdict
        if ret != base_ret:
            fail('status_depends_on_options', o, ret, base_ret)
        lv = LEVELS.index(o['level'])
        if o['json']:
            # (e) JSON: exactly one entry, at every level, well-formed
            if len(entries) != 1:
                fail('json_not_single_entry', o, [e[:80] for e in entries[:4]], 'one buffer entry: the document')
                continue
            try:
                doc = json.loads(entries[0])
            except ValueError as e:
                fail('json_not_wellformed', o, str(e), 'a JSON document')
                continue
            ref = results[okey(dict(batch=False, verbose=False, colors=False, level='info', json=o['json']))][1]
            if entries != ref:
                fail('json_depends_on_options', o, entries[0][:200], ref[0][:200] if ref else None)
            continue
        # (b) findings at this level = the report's findings of at least that severity
        got = [f for f in findings_of_entries(entries) if not (f[2] == 'info' and f[3] == '')]
        want = [f for f in base_real if SEV.get(f[2], 0) >= lv]
        if got != want:
            d = [x for x in got if x not in want][:3], [x for x in want if x not in got][:3]
            fail('findings_depend_on_options', o, {'extra': d[0], 'missing': d[1], 'n': len(got)}, {'n': len(want)})
        # names without any note must still be listed at level info
        if lv == 0:
            names = [(f[0], f[1]) for f in findings_of_entries(entries)]
            names0 = [(f[0], f[1]) for f in base_find]
            if sorted(set(names)) != sorted(set(names0)):
                fail('names_depend_on_options', o, sorted(set(names) ^ set(names0))[:4], 'same algorithm lines')
        # (c) level: only deletes, and deletes exactly what is below the level
        info_entries = results[okey(dict(o, level='info'))][1]
        if not is_subsequence(entries, info_entries):
            extra = [e for e in entries if e not in info_entries][:3]
            fail('level_adds_or_alters_line', o, {'lines_not_in_info_output': extra}, 'a sub-sequence of the info-level output')
        elif o['colors']:
            want_lines = spec_filter(info_entries, lv, o['batch'])
            if entries != want_lines:
                d1 = [e for e in entries if e not in want_lines][:3]
                d2 = [e for e in want_lines if e not in entries][:3]
                fail('level_filter_wrong_lines', o, {'unexpected': d1, 'missing': d2}, 'info-level output minus the lines below the level')
        # (d) colour strip
        if o['colors']:
            plain = results[okey(dict(o, colors=False))][1]
            stripped = [strip_ansi(e) for e in entries]
            if norm_rec_order(stripped) != norm_rec_order(plain):
                d1 = [e for e in stripped if e not in plain][:3]
                fail('colour_changes_text', o, {'lines_only_in_coloured': d1, 'n': len(stripped)}, {'n': len(plain)})
    # (e') JSON content: compact == indented as values; notes of database names == text notes; verdict
    rc_, ec = results[okey(dict(base_o, json=1))]
    ri, ei = results[okey(dict(base_o, json=2))]
    try:
        dc, di = json.loads(ec[0]), json.loads(ei[0])
    except Exception:
        dc = di = None
    if dc is not None:
        if dc != di:
            fail('json_compact_vs_indented', dict(base_o, json=2), 'documents differ as values', 'equal values')
        recs = rc.parse_alg_records([(None, e, None, None) for e in base_entries], verbose=False)
        for c in rc.CATS:
            text_side = [(shown.rstrip(' '), [(a, b) for a, b in notes if not (a == 'info' and b == '')]) for shown, notes, _ in recs[c]]
            json_side = json_findings(dc, c)
            if len(text_side) != len(json_side):
                fail('json_names_differ', dict(base_o, json=1), {'cat': c, 'json': len(json_side), 'text': len(text_side)}, 'same names')
                continue
            for (shown, tn), (name, jn) in zip(text_side, json_side):
                if not db_knows(c, name):
                    continue
                if sorted(tn) != sorted(jn):
                    fail('json_findings_differ_from_text', dict(base_o, json=1), {'cat': c, 'name': name, 'json': sorted(jn)[:4], 'text': sorted(tn)[:4]}, 'same notes for a database name')
    return fails


# ---------------------------------------------------------------- generators

def severity_classes():
    db = pg.master()
    out = {}
    for c in rc.CATS:
        cl = {'fail': [], 'warn': [], 'clean': []}
        for n, d in db[c].items():
            if n.endswith('-*'):
                continue
            f = len(d) > 1 and any(d[1])
            w = len(d) > 2 and any(d[2])
            cl['fail' if f else ('warn' if w else 'clean')].append(n)
        out[c] = cl
    return out


def special_peers(r):
    """peers covering every severity mix: per category all-clean / all-warn / all-fail / mixed, plus unknown, gss, sized and duplicate names"""
    cl = severity_classes()
    peers = []

    def pick(c, k, n=2):
        pool = cl[c][k] or cl[c]['warn'] or cl[c]['fail']
        return [r.choice(pool) for _ in range(n)]
    for mix in (('clean',) * 4, ('warn',) * 4, ('fail',) * 4, ('fail', 'clean', 'warn', 'clean'), ('clean', 'warn', 'clean', 'fail'), ('warn', 'fail', 'fail', 'warn')):
        lists = [pick(c, k) for c, k in zip(rc.CATS, mix)]
        peers.append((rc.mk_peer(*lists), 'mix-' + '/'.join(mix)))
    p = rc.mk_peer(['curve25519-sha256', pg.unknown_name(r, 'plain'), pg.gss_name(r)], ['ssh-ed25519', 'rsa-sha2-512', 'ssh-rsa-cert-v01@openssh.com', 'ssh-rsa'],
                   ['chacha20-poly1305@openssh.com', 'aes128-cbc', pg.unknown_name(r, 'at')], ['hmac-sha2-256-etm@openssh.com', 'hmac-md5', 'hmac-md5'],
                   comp=['none', 'zlib@openssh.com'],
                   host_keys={'rsa-sha2-512': {'hostkey_size': 2048, 'ca_key_type': '', 'ca_key_size': 0}, 'ssh-rsa': {'hostkey_size': 4096, 'ca_key_type': '', 'ca_key_size': 0},
                              'ssh-rsa-cert-v01@openssh.com': {'hostkey_size': 3072, 'ca_key_type': 'ssh-rsa', 'ca_key_size': 4096}, 'ssh-ed25519': {'hostkey_size': 256, 'ca_key_type': '', 'ca_key_size': 0}},
                   dh={})
    peers.append((p, 'unknown+gss+sizes+dup'))
    p2 = rc.mk_peer(['diffie-hellman-group-exchange-sha256', 'diffie-hellman-group1-sha1', 'kex-strict-s-v00@openssh.com'], ['ecdsa-sha2-nistp256', 'ssh-dss'],
                    ['aes256-gcm@openssh.com', '3des-cbc'], ['hmac-sha1', 'umac-128-etm@openssh.com'],
                    host_keys={'ecdsa-sha2-nistp256': {'hostkey_size': 256, 'ca_key_type': '', 'ca_key_size': 0}, 'ssh-dss': {'hostkey_size': 1024, 'ca_key_type': '', 'ca_key_size': 0}},
                    dh={'diffie-hellman-group-exchange-sha256': 2048})
    peers.append((p2, 'gex2048+strict+weak-fingerprints'))
    return peers


VARIANTS = [
    dict(),
    dict(client=True, banner_line='SSH-2.0-PuTTY_Release_0.78'),
    dict(banner_line='SSH-1.99-OpenSSH_3.9p1'),
    dict(header=['Welcome', 'to the machine'], print_target=True, host='10.0.0.9', port=2222),
    dict(print_target=True, host='fe80::1', port=222, banner_line='SSH-2.0-dropbear_2022.83'),
    dict(banner_line=None),
    dict(rate_notes='Potentially insufficient connection throttling detected, resulting in possible vulnerability to the DHEat DoS attack (CVE-2002-20001).'),
    dict(banner_line='SSH-2.0-FooServer_1.0', client=True),
]


# ---------------------------------------------------------------- the real OutputBuffer on random call sequences

def gen_ops(r):
    alpha = ['', 'a', 'b', 'Zz', '(rec) -x', '(rec) +y', 'x\ny', '\x1b[0;31mq\x1b[0m', ' ', '# t', 'Result: ', 'Failed!']
    n = r.choice([1, 2, 3, 5, 8, 12, 20])
    ops = []
    for _ in range(n):
        k = r.random()
        t = r.choice(alpha)
        if k < 0.45:
            ops.append(('p', r.choice(['good', 'info', 'warn', 'fail']), t, r.random() < 0.8, r.random() < 0.15))
        elif k < 0.52:
            ops.append(('h', t, r.random() < 0.85))
        elif k < 0.58:
            ops.append(('s',))
        elif k < 0.66:
            ops.append(('e',))
        elif k < 0.74:
            ops.append(('x',))
        elif k < 0.79:
            ops.append(('f', r.random() < 0.5))
        elif k < 0.86:
            ops.append(('c', t, r.random() < 0.5))
        elif k < 0.90:
            ops.append(('w',))
        elif k < 0.92:
            ops.append(('r',))
        elif k < 0.97:
            ops.append(('v', t, r.random() < 0.7))
        else:
            ops.append(('d', t, r.random() < 0.7))
    return ops


def op_token(op):
    k = op[0]
    if k == 'p':
        return 'p:%s:%s:%s:%s' % (op[1], tstr(op[2]), tbool(op[3]), tbool(op[4]))
    if k == 'h':
        return 'h:%s:%s' % (tstr(op[1]), tbool(op[2]))
    if k in ('f',):
        return 'f:%s' % tbool(op[1])
    if k == 'c':
        return 'c:%s:%s' % (tstr(op[1]), tbool(op[2]))
    if k in ('v', 'd'):
        return '%s:%s:%s' % (k, tstr(op[1]), tbool(op[2]))
    return k


def real_ops(o, debug, ops):
    """run the call sequence on the real OutputBuffer; returns the state the driver's buf.exec reports"""
    from ssh_audit.outputbuffer import OutputBuffer
    out = OutputBuffer()
    out.batch, out.verbose, out.debug, out.level, out.use_colors = o['batch'], o['verbose'], debug, o['level'], o['colors']
    out.json = o['json'] > 0          # main() copies aconf.json to out.json
    cap = io.StringIO()
    old = sys.stdout
    sys.stdout = cap
    err = None
    try:
        for op in ops:
            k = op[0]
            if k == 'p':
                getattr(out, op[1])(op[2], line_ended=op[3], always_print=op[4])
            elif k == 'h':
                out.head(op[1], line_ended=op[2])
            elif k == 's':
                out.sep()
            elif k == 'e':
                out.__enter__()
            elif k == 'x':
                out.__exit__()
            elif k == 'f':
                out.flush_section(sort_section=op[1])
            elif k == 'c':
                if not out.is_section_empty() and not (o['json'] > 0):
                    out.head(op[1])
                    out.flush_section(sort_section=op[2])
                    out.sep()
            elif k == 'w':
                out.write()
            elif k == 'r':
                out.reset()
            elif k == 'v':
                out.v(op[1], write_now=op[2])
            elif k == 'd':
                out.d(op[1], write_now=op[2])
    except IndexError:
        err = 'index'
    finally:
        sys.stdout = old
    return {'buffer': list(out.buffer), 'sect': list(out.section), 'inSection': out.in_section, 'lineEnded': out.line_ended, 'stdout': cap.getvalue(), 'err': err}


# ---------------------------------------------------------------- main() over scripted peers

SERVERS = {
    'mixed': dict(kex=('curve25519-sha256', 'diffie-hellman-group14-sha1'), key=('ssh-ed25519',), enc=('aes256-ctr', '3des-cbc'), mac=('hmac-sha2-256', 'hmac-md5')),
    'clean': dict(kex=('sntrup761x25519-sha512@openssh.com',), key=('ssh-ed25519',), enc=('aes256-gcm@openssh.com',), mac=('hmac-sha2-256-etm@openssh.com',)),
    'warnonly': dict(kex=('curve25519-sha256',), key=('ssh-ed25519',), enc=('aes256-ctr',), mac=('hmac-sha2-256',)),
    # names with characters that mean something to formatting code: % sequences, braces, backslashes (RFC 4251 allows every printable character but the comma)
    'percent': dict(kex=('curve25519-sha256', 'zz%s-kex@example.org', '100%'), key=('ssh-ed25519', 'key-%d{0}@example.org'), enc=('aes256-ctr', 'aes%(x)s-ctr', 'c\\n-cipher'),
                    mac=('hmac-sha2-256', 'mac-%-5d@example.org', '{}-mac')),
    'unknown': dict(kex=('curve25519-sha256', 'zz-newkex@example.org'), key=('ssh-ed25519',), enc=('aes256-ctr', 'zz-newcipher@example.org', 'yy-cipher2'),
                    mac=('hmac-sha2-512-etm@openssh.com', 'xx-mac@example.org'), banner=b'SSH-2.0-dropbear_2022.83'),
    # every place where a collection of names is joined into one line of text: the strict-KEX advisory (several ciphers and MACs), the RSA family, several unknown names
    'terrapin': dict(kex=('curve25519-sha256', 'kex-strict-s-v00@openssh.com', 'diffie-hellman-group14-sha256', 'zz-kex-a@example.org', 'zz-kex-b@example.org'),
                     key=('rsa-sha2-512', 'rsa-sha2-256', 'ssh-rsa', 'ssh-ed25519'),
                     enc=('chacha20-poly1305@openssh.com', 'aes128-cbc', 'aes256-cbc', '3des-cbc', 'aes256-ctr', 'zz-enc-a', 'zz-enc-b', 'zz-enc-c'),
                     mac=('hmac-sha2-256-etm@openssh.com', 'hmac-sha2-512-etm@openssh.com', 'umac-128-etm@openssh.com', 'hmac-sha1-etm@openssh.com', 'hmac-sha1'), banner=b'SSH-2.0-OpenSSH_8.9'),
}


def make_server(name, fault=None):
    kw = dict(SERVERS[name])
    if fault == 'no_kexinit':
        srv = fn.simple_server(**kw)
        srv.kexinit_payload = None
        return srv
    return fn.simple_server(**kw)


def peer_of_kex(kex):
    return {'kex': list(kex.kex_algorithms), 'key': list(kex.key_algorithms), 'encC': list(kex.client.encryption), 'encS': list(kex.server.encryption),
            'macC': list(kex.client.mac), 'macS': list(kex.server.mac), 'comp': list(kex.server.compression),
            'host_keys': {k: dict(v) for k, v in kex.host_keys().items() if v is not None}, 'dh': dict(kex.dh_modulus_sizes())}


EMPTY_PEER = {'kex': [], 'key': [], 'encC': [], 'encS': [], 'macC': [], 'macS': [], 'comp': [], 'host_keys': {}, 'dh': {}}


def run_main_captured(server_name, args, fault=None):
    """main() over fakenet with output() observed; returns (exit code, stdout, captured output() arguments or None, error text printed after output() or None)"""
    from ssh_audit import ssh_audit as sa
    cap = {}
    real_output_fn = sa.output
    real_cls = sa.OutputBuffer

    class Rec(real_cls):
        def fail(self, s, line_ended=True, write_now=False, always_print=False):
            if cap.get('after_output') and 'err' not in cap:
                cap['err'] = s
            return super().fail(s, line_ended=line_ended, write_now=write_now, always_print=always_print)

    def spy(out, aconf, banner, header, client_host=None, kex=None, pkm=None, print_target=False, dh_rate_test_notes=''):
        cap.update(banner=banner, header=list(header), client_host=client_host, kex=kex, print_target=print_target, rate=dh_rate_test_notes, host=aconf.host, port=aconf.port)
        ret = real_output_fn(out, aconf, banner, header, client_host=client_host, kex=kex, pkm=pkm, print_target=print_target, dh_rate_test_notes=dh_rate_test_notes)
        cap['after_output'] = True
        cap['ret'] = ret
        return ret
    sa.output = spy
    sa.OutputBuffer = Rec
    saved = os.environ.pop('NO_COLOR', None)
    try:
        srv = make_server(server_name, fault)
        code, text = fn.run_main(['--skip-rate-test'] + list(args) + ['10.0.0.5'], fn.FakeNet({'10.0.0.5': srv}))
    finally:
        sa.output = real_output_fn
        sa.OutputBuffer = real_cls
        if saved is not None:
            os.environ['NO_COLOR'] = saved
    return code, text, (cap if 'banner' in cap else None), cap.get('err')


def args_of(o):
    a = []
    if o['batch']:
        a.append('-b')
    if o['verbose']:
        a.append('-v')
    if not o['colors']:
        a.append('-n')
    if o['level'] != 'info':
        a += ['-l', o['level']]
    if o['json']:
        a.append('-j' if o['json'] == 1 else '-jj')
    return a


VMSG = 'Starting audit of 10.0.0.5:22...'


def oracle_main(runs, server_name, fault):
    """The property on stdout of the real main(): runs = {okey: (code, stdout)} for one scripted peer."""
    fails = []

    def fail(kind, o, observed, expected, **extra):
        sig = {'kind': kind}
        sig.update(extra)
        fails.append({'sig': sig, 'input': {'what': 'main()', 'server': server_name, 'fault': fault, 'args': args_of(o), 'options': o}, 'observed': observed, 'expected': expected,
                      'how': 'harness/props/C15.py oracle_main: real main() over an in-process scripted peer'})
    codes = {}
    for k, (code, text) in runs.items():
        codes.setdefault(code, []).append(k)
    if len(codes) != 1:
        minority = min(codes.items(), key=lambda kv: len(kv[1]))
        o = [g for g in GRID if okey(g) == minority[1][0]][0]
        fail('status_depends_on_options', o, {c: len(v) for c, v in codes.items()}, 'one exit status for all option sets')
    for o in GRID:
        if okey(o) not in runs:
            continue
        code, text = runs[okey(o)]
        lines = text.split('\n')[:-1] if text.endswith('\n') else text.split('\n')
        if o['json']:
            try:
                json.loads(text)
                ok = True
            except ValueError:
                ok = False
            if not ok:
                why = 'other'
                if fault is not None and text.lstrip().startswith('{'):
                    why = 'error_text_after_document'
                elif o['verbose'] and text.startswith(VMSG):
                    why = 'verbose_message_before_document'
                fail('json_not_single_document', o, {'stdout_head': text[:100], 'stdout_tail': text[-120:]}, 'stdout is one well-formed JSON document', why=why)
            continue
        ik = okey(dict(o, level='info'))
        if ik in runs and o['level'] != 'info':
            info_lines = runs[ik][1].split('\n')[:-1]
            if not is_subsequence(lines, info_lines):
                extra = [l for l in lines if l not in info_lines]
                if lines == ['']:
                    # nothing of the report reaches the level: the final write() prints the empty buffer (with or without -v)
                    fail('level_adds_blank_line_empty_report', o, {'stdout': text}, 'a sub-sequence of the info-level stdout (nothing left at this level: no output)')
                elif extra == [''] * len(extra) and o['verbose']:
                    fail('level_adds_blank_line_verbose', o, {'stdout_head': text[:80]}, 'a sub-sequence of the info-level stdout (no line the info-level output lacks)')
                else:
                    fail('level_adds_or_alters_line', o, {'lines_not_in_info_output': extra[:3]}, 'a sub-sequence of the info-level stdout')
            nb, nbi = [l for l in lines if l != ''], [l for l in info_lines if l != '']
            if not is_subsequence(nb, nbi):
                fail('level_adds_or_alters_line', o, {'nonblank_lines_not_in_info_output': [l for l in nb if l not in nbi][:3]}, 'non-blank lines: a sub-sequence of the info-level stdout')
    return fails


# ---------------------------------------------------------------- runtime part: subprocess runs under several hash seeds (testing, not proof)

BOOT = r'''
import json, runpy, sys
sys.path.insert(0, %(harness)r)
sys.path.insert(0, %(src)r)
import fakenet as fn
spec = json.loads(sys.argv[1])
srv = fn.simple_server(**{k: (v.encode() if k == 'banner' else tuple(v)) for k, v in spec['server'].items()})
if spec.get('fault') == 'no_kexinit':
    srv.kexinit_payload = None
sys.argv = ['ssh-audit.py'] + spec['args'] + ['10.0.0.5']
with fn.patched(fn.FakeNet({'10.0.0.5': srv})):
    runpy.run_path(%(script)r, run_name='__main__')
'''


def process_runs(jobs, par=8):
    """jobs: [(server_name, fault, args, seed)] -> [(exit code, stdout bytes)]"""
    d = tempfile.mkdtemp(prefix='verif_c15_')
    boot = os.path.join(d, 'boot.py')
    with open(boot, 'w') as f:
        f.write(BOOT % {'harness': HERE, 'src': os.path.join(REPO, 'src'), 'script': os.path.join(REPO, 'ssh-audit.py')})
    res = [None] * len(jobs)
    try:
        pending = list(enumerate(jobs))
        running = []
        while pending or running:
            while pending and len(running) < par:
                i, (sname, fault, args, seed) = pending.pop(0)
                env = dict(os.environ)
                env.pop('NO_COLOR', None)
                env['PYTHONHASHSEED'] = str(seed)
                env['PYTHONDONTWRITEBYTECODE'] = '1'
                spec = {'server': {k: (v.decode() if isinstance(v, bytes) else list(v)) for k, v in SERVERS[sname].items()}, 'fault': fault, 'args': ['--skip-rate-test'] + list(args)}
                p = subprocess.Popen([sys.executable, boot, json.dumps(spec)], stdout=subprocess.PIPE, stderr=subprocess.PIPE, env=env)
                running.append((i, p))
            i, p = running.pop(0)
            so, se = p.communicate(timeout=120)
            res[i] = (p.returncode, so, se[-300:])
    finally:
        os.unlink(boot)
        os.rmdir(d)
    return res


def oracle_process(ctx, cov):
    fails = []
    r = ctx.rng
    seeds = ['0', '1', '2', 'random']
    argsets = [['-n'], ['-n', '-j'], ['-n', '-jj'], [], ['-n', '-b', '-l', 'warn'], ['-n', '-v']]
    servers = ['mixed', 'unknown', 'terrapin'] if ctx.tier != 'thorough' else list(SERVERS)
    if ctx.tier != 'thorough':
        argsets = argsets[:3] + [r.choice(argsets[3:])]
    else:
        argsets = argsets + [args_of(o) for o in r.sample(GRID, 24)]
    jobs = []
    for sname in servers:
        for a in argsets:
            for sd in seeds + (['random'] if ctx.tier == 'thorough' else []):
                jobs.append((sname, None, a, sd))
    res = process_runs(jobs)
    groups = {}
    for (sname, fault, a, sd), (code, so, se) in zip(jobs, res):
        groups.setdefault((sname, tuple(a)), []).append((sd, code, so, se))
        cov.add(('proc', sname, tuple(a), sd, len(groups[(sname, tuple(a))])), True, tags=['process-run', 'hashseed-' + sd])
    for (sname, a), runs in groups.items():
        first = runs[0]
        if first[1] not in (0, 2, 3):
            raise RuntimeError('process tier: %s %s exited %s: %s %s' % (sname, a, first[1], first[2][-300:], first[3]))
        for sd, code, so, se in runs[1:]:
            if so != first[2] or code != first[1]:
                fails.append({'sig': {'kind': 'output_depends_on_hash_seed_or_run'}, 'input': {'what': 'process', 'server': sname, 'args': list(a), 'seeds': [first[0], sd]},
                              'observed': {'exit': [first[1], code], 'first_difference_at': next((i for i, (x, y) in enumerate(zip(so, first[2])) if x != y), min(len(so), len(first[2])))},
                              'expected': 'byte-identical stdout and equal exit status', 'how': 'subprocess runs of /repo/ssh-audit.py via runpy over fakenet with PYTHONHASHSEED set'})
                break
    for sname in servers:
        c, i = groups.get((sname, ('-n', '-j'))), groups.get((sname, ('-n', '-jj')))
        if c and i:
            try:
                same = json.loads(c[0][2]) == json.loads(i[0][2])
            except ValueError:
                same = False
            if not same:
                fails.append({'sig': {'kind': 'json_compact_vs_indented'}, 'input': {'what': 'process', 'server': sname, 'args': ['-n', '-j / -jj']}, 'observed': 'documents differ or do not parse',
                              'expected': 'equal values', 'how': 'subprocess runs'})
    return fails, len(jobs)


# ---------------------------------------------------------------- run

def grid_for(ctx, r):
    return GRID


def run(ctx):
    r = ctx.rng
    cov = Coverage('one evaluation = one rendering of a report by the real code under one option set (output() on a constructed peer, main() over a scripted peer, a subprocess run) or one call sequence on the real '
                   'OutputBuffer; non-trivial = distinct (peer, option set) pairs; option sets: the full grid batch x verbose x colour x level{info,warn,fail} x {text,-j,-jj} = 72; peers: every severity mix '
                   '(all-clean/all-warn/all-fail/mixed per category), unknown and gss names, sized host keys and moduli, duplicates, SSH-1.99 / PuTTY-client / unrecognised / missing banners, headers, print_target')
    failures, mismatches = [], []
    observations = ['D26: a policy run at -l warn prints the verdict without its "Result: " prefix (the prefix is an info-level line joined through line_ended=False); outside "findings" (modelled: see the examples in Props/C15.lean)',
                    'D31: an unknown algorithm is [warn] in the text report and "fail" in the JSON notes (C15 compares JSON and text only for names the database knows)',
                    'the coloured recommendation section is sorted with the escape prefix (critical, informational, warning), the plain one by sign (!, +, -): same lines, different order (colour_strip is a permutation there)']
    saved_nc = os.environ.pop('NO_COLOR', None)
    corr = 0
    try:
        # ---- (1) buffer machine
        lines, exp = [], []
        for _ in range(ctx.scale(1500, 20000)):
            o = dict(batch=r.random() < 0.3, verbose=r.random() < 0.5, colors=r.random() < 0.5, level=r.choice(LEVELS), json=r.choice([0, 0, 1]))
            debug = r.random() < 0.15
            ops = gen_ops(r)
            lines.append('buf.exec %s %s' % (cfg_token(o, debug), ';'.join(op_token(x) for x in ops) or '_'))
            exp.append((real_ops(o, debug, ops), o, debug, ops))
            cov.add(('ops', len(lines)), True, tags=['buffer-ops', 'ops-err' if exp[-1][0]['err'] else 'ops-ok'],
                    sample={'ops': [list(x) for x in ops[:6]], 'options': o, 'buffer': exp[-1][0]['buffer'][:4]} if len(lines) == 7 else None)
        if ctx.driver_ok:
            for line, m, (im, o, debug, ops) in zip(lines, ctx.driver(lines), exp):
                corr += 1
                k = m.get('ok')
                if k is None:
                    mismatches.append({'stream': 'buf.exec', 'op': line[:300], 'model': m, 'impl': im})
                    continue
                mm = {'buffer': k['buffer'], 'sect': k['sect'], 'inSection': k['inSection'], 'lineEnded': k['lineEnded'], 'stdout': ''.join('\n'.join(w) + '\n' for w in k['out']), 'err': k['err']}
                if im['err'] is not None:
                    ok = mm['err'] == im['err']       # after the exception the Python object is half-updated; only the exception itself is compared
                else:
                    ok = mm == im
                if not ok:
                    mismatches.append({'stream': 'buf.exec', 'op': line[:300], 'model': mm, 'impl': im, 'ops': [list(x) for x in ops]})
        # ---- (4) sort / strip
        lines, exp = [], []
        alpha = ['\x1b', '[', '0', ';', 'm', '3', '1', 'a', ' ', '(rec) ', '-', '+', '!']
        for _ in range(ctx.scale(300, 3000)):
            t = ''.join(r.choice(alpha) for _ in range(r.randint(0, 14)))
            if r.random() < 0.5:
                t = '\x1b[0;3%dm' % r.randint(0, 9) + t + '\x1b[0m'
            lines.append('out.strip ' + tstr(t))
            exp.append(strip_ansi(t))
            l = [''.join(r.choice(alpha[2:]) for _ in range(r.randint(0, 4))) for _ in range(r.randint(0, 7))]
            lines.append('out.sort ' + tstrs(l))
            exp.append(sorted(l))
        if ctx.driver_ok:
            for line, m, want in zip(lines, ctx.driver(lines), exp):
                corr += 1
                if m.get('ok') != want:
                    mismatches.append({'stream': line.split(' ')[0], 'op': line[:200], 'model': m.get('ok'), 'impl': want})
        # ---- (2) output() over the grid
        peers = [(p, d, {}) for p, d in special_peers(r)]
        for i in range(ctx.scale(6, 390)):
            v = dict(r.choice(VARIANTS)) if r.random() < 0.6 else {}
            if 'banner_line' not in v and r.random() < 0.5:
                v['banner_line'] = r.choice(pg.BANNERS)
            peers.append((pg.gen_peer(r, sizes=True, client_lists=True), 'gen-%d' % i, v))
        for i, v in enumerate(VARIANTS[1:]):
            peers[i % len(peers)] = (peers[i % len(peers)][0], peers[i % len(peers)][1] + '+variant', dict(v))
        chunk_lines, chunk_exp = [], []

        def flush_chunk():
            nonlocal corr
            if not ctx.driver_ok or not chunk_lines:
                del chunk_lines[:], chunk_exp[:]
                return
            for line, m, (ret, entries, records, o, desc) in zip(chunk_lines, ctx.driver(chunk_lines), chunk_exp):
                corr += 1
                k = m.get('ok')
                if k is None:
                    mismatches.append({'stream': 'output.run', 'op': line[:200], 'model': m, 'impl': None, 'case': desc})
                    continue
                if k['entries'] != entries or k['closed'] != entries or k['status'] != ret or k['err'] is not None:
                    d = next((i for i, (a, b) in enumerate(zip(k['entries'], entries)) if a != b), min(len(entries), len(k['entries'])))
                    mismatches.append({'stream': 'output.run', 'op': line[:120], 'case': desc, 'options': o, 'model': {'status': k['status'], 'err': k['err'], 'n': len(k['entries']), 'first_diff': k['entries'][d:d + 1], 'closed_eq': k['closed'] == k['entries']},
                                       'impl': {'status': ret, 'n': len(entries), 'first_diff': entries[d:d + 1]}})
                    continue
                # the finding / method pairs against the calls the real code made (recorded before the level filter)
                recs = rc.parse_alg_records(records, verbose=o['verbose'])
                impl_pairs = [[c, shown.rstrip(' '), lvl, text, meth] for c in rc.CATS for shown, notes, meths in recs[c] for (lvl, text), meth in zip(notes, meths)]
                model_pairs = [p[:5] for p in k['pairs']]
                if impl_pairs != model_pairs:
                    mismatches.append({'stream': 'output.pairs', 'op': line[:120], 'case': desc, 'options': o, 'model': [p for p in model_pairs if p not in impl_pairs][:3], 'impl': [p for p in impl_pairs if p not in model_pairs][:3]})
            del chunk_lines[:], chunk_exp[:]
        for pi, (peer, desc, v) in enumerate(peers):
            client = v.get('client', False)
            comp = compat_text(peer, client)
            results = {}
            rows = []
            for o in GRID:
                ret, entries, records, banner = real_output(peer, o, client=client, banner_line=v.get('banner_line', 'SSH-2.0-OpenSSH_8.0'), rate_notes=v.get('rate_notes', ''),
                                                            header=v.get('header', ()), print_target=v.get('print_target', False), host=v.get('host', 'h'), port=v.get('port', 22))
                results[okey(o)] = (ret, entries)
                rows.append((o, ret, entries, records, banner))
                cov.add((desc, pi, okey(o)), True, tags=['output()', 'json' if o['json'] else 'text', 'level-' + o['level'], 'status-%d' % ret],
                        sample={'peer': {k: peer[k][:3] for k in ('kex', 'key', 'encS', 'macS')}, 'variant': {k: str(x) for k, x in v.items()}, 'options': o, 'exit': ret, 'lines': len(entries)} if (pi % 7 == 0 and okey(o) == okey(GRID[40])) else None)
            for o, ret, entries, records, banner in rows:
                d = ('', '')
                if o['json'] and len(entries) == 1:
                    d = (entries[0], '') if o['json'] == 1 else ('', entries[0])
                chunk_lines.append(run_line(o, peer, banner, client=client, rate_notes=v.get('rate_notes', ''), header=v.get('header', ()), print_target=v.get('print_target', False),
                                            host=v.get('host', 'h'), port=v.get('port', 22), docs=d, compat=comp))
                chunk_exp.append((ret, entries, records, o, desc))
            for f in oracle_peer(results, peer, desc):
                f['input'].update(peer=peer, variant=v)
                failures.append(f)
            # repeated in-process runs are identical
            o = r.choice(GRID)
            again = real_output(peer, o, client=client, banner_line=v.get('banner_line', 'SSH-2.0-OpenSSH_8.0'), rate_notes=v.get('rate_notes', ''), header=v.get('header', ()),
                                print_target=v.get('print_target', False), host=v.get('host', 'h'), port=v.get('port', 22))
            if (again[0], again[1]) != results[okey(o)]:
                failures.append({'sig': {'kind': 'repeated_audit_differs'}, 'input': {'what': 'output()', 'peer': peer, 'variant': v, 'options': o, 'desc': desc}, 'observed': 'second run differs', 'expected': 'identical buffers',
                                 'how': 'harness/props/C15.py: output() twice on fresh databases'})
            if len(chunk_lines) >= 72 * 20:
                flush_chunk()
        flush_chunk()
        # ---- (3) main() over scripted peers: stdout with the verbose messages, the final write, the error path
        cases = [('mixed', None), ('warnonly', None), ('unknown', None), ('mixed', 'no_kexinit'), ('percent', None)]
        if ctx.tier == 'thorough':
            cases += [('clean', None), ('clean', 'no_kexinit')]
        lines, exp = [], []
        for sname, fault in cases:
            grid = GRID if (ctx.tier == 'thorough' or (sname, fault) in (('mixed', None), ('mixed', 'no_kexinit'))) else r.sample(GRID, 16)
            if sname == 'warnonly':     # nothing is left at -l fail: the report is empty
                grid = grid + [g for g in GRID if okey(g) in ((True, False, False, 'fail', 0), (True, False, False, 'info', 0)) and g not in grid]
            runs = {}
            docs = {}
            for o in grid:
                code, text, cap, err = run_main_captured(sname, args_of(o), fault)
                runs[okey(o)] = (code, text)
                cov.add(('main', sname, fault, okey(o)), True, tags=['main()', 'fault' if fault else 'complete', 'json' if o['json'] else 'text'],
                        sample={'server': sname, 'fault': fault, 'args': args_of(o), 'exit': code, 'stdout_head': text[:90]} if okey(o) == okey(GRID[5]) else None)
                if cap is None:
                    continue
                peer = peer_of_kex(cap['kex']) if cap['kex'] is not None else EMPTY_PEER
                if o['json']:
                    kq = (sname, fault, o['json'])
                    if kq not in docs:
                        q = dict(o, verbose=False, level='info')
                        c2, t2, _, _ = run_main_captured(sname, args_of(q), fault)
                        docs[kq] = t2.split('\n')[0] if o['json'] == 1 and fault else (t2[:t2.rindex('}') + 1] if '}' in t2 else t2)
                    d = (docs[kq], '') if o['json'] == 1 else ('', docs[kq])
                else:
                    d = ('', '')
                lines.append(run_line(o, peer, cap['banner'], client=False, rate_notes=cap['rate'], header=cap['header'], print_target=cap['print_target'], host=cap['host'], port=cap['port'],
                                      has_kex=cap['kex'] is not None, docs=d, vmsgs=[VMSG], err=err if fault else None,
                                      compat=compat_text(peer, False) if cap['kex'] is not None else None))
                exp.append((code, text, o, sname, fault))
            for f in oracle_main(runs, sname, fault):
                failures.append(f)
            # debug output (-d) is presentation too: same exit status, same report lines (seed C15-9: diagnostic text used as a format string)
            rep_lines = lambda t: [l for l in t.split('\n') if l[:1] in ('(', '#') or l.startswith(' ' * 10 + '`- ')]
            for dargs in (['-n', '-d'], ['-n', '-v', '-d'], ['-n', '-d', '-b']):
                code_d, text_d, _, _ = run_main_captured(sname, dargs, fault)
                cov.add(('main-debug', sname, fault, tuple(dargs)), True, tags=['main()', 'debug'])
                ref = run_main_captured(sname, [a for a in dargs if a != '-d'], fault)
                if code_d != ref[0] or rep_lines(text_d) != rep_lines(ref[1]):
                    failures.append({'sig': {'kind': 'debug_changes_status_or_findings'}, 'input': {'what': 'main()', 'server': sname, 'fault': fault, 'args': dargs},
                                     'observed': {'exit': code_d, 'report_lines_only_without_-d': [l for l in rep_lines(ref[1]) if l not in rep_lines(text_d)][:4], 'stdout_tail': text_d[-200:]},
                                     'expected': {'exit': ref[0], 'the same report lines': True}, 'how': 'harness/props/C15.py: real main() with and without -d'})
        if ctx.driver_ok:
            for line, m, (code, text, o, sname, fault) in zip(lines, ctx.driver(lines), exp):
                corr += 1
                k = m.get('ok')
                if k is None or k['stdout'] != text or (fault is None and k['status'] != code):
                    mismatches.append({'stream': 'main.stdout', 'case': [sname, fault], 'options': o, 'model': None if k is None else {'stdout': k['stdout'][:300], 'status': k['status']}, 'impl': {'stdout': text[:300], 'exit': code}})
        # ---- runtime part (testing): hash seeds, repeated runs, compact vs indented
        pf, nproc = oracle_process(ctx, cov)
        failures.extend(pf)
    finally:
        fn.reset_dbs()
        if saved_nc is not None:
            os.environ['NO_COLOR'] = saved_nc
    return {'failures': failures, 'mismatches': mismatches, 'coverage': cov, 'corr_cases': corr,
            'assumptions': ['findings are re-read from the captured text with the parser of report_common (names without " -- [" inside; generated names have none)',
                            'the level of a printed line is read from its colour in the coloured option sets; the uncoloured sets are tied to them by the strip comparison',
                            'colour output assumes a POSIX terminal table (COLORS on non-Windows); NO_COLOR is removed from the environment for the run',
                            'scripted peers in the main() tier use host keys and groups that add no size notes (the report content itself is C01-C04/C13 territory)'],
            'observations': observations,
            'trusted_extra': ['runtime part of C15 (hash seeds, repeated runs, compact vs. indented JSON) is testing on %d subprocess runs, not proof' % nproc]}


# ---------------------------------------------------------------- replay

def replay(obj):
    f = obj.get('failure', obj)
    inp = f.get('input', {})
    kind = f.get('sig', {}).get('kind')
    saved_nc = os.environ.pop('NO_COLOR', None)
    try:
        if inp.get('what') == 'output()' and 'peer' in inp:
            v = inp.get('variant', {})
            results = {}
            for o in GRID:
                ret, entries, _, _ = real_output(inp['peer'], o, client=v.get('client', False), banner_line=v.get('banner_line', 'SSH-2.0-OpenSSH_8.0'), rate_notes=v.get('rate_notes', ''),
                                                 header=v.get('header', ()), print_target=v.get('print_target', False), host=v.get('host', 'h'), port=v.get('port', 22))
                results[okey(o)] = (ret, entries)
            fs = [x for x in oracle_peer(results, inp['peer'], inp.get('desc', 'replay')) if x['sig'].get('kind') == kind] if kind != 'repeated_audit_differs' else []
            o = inp.get('options')
            if isinstance(o, dict):
                print('options %s -> exit %d, %d entries; first lines:' % (o, results[okey(o)][0], len(results[okey(o)][1])))
                for l in results[okey(o)][1][:12]:
                    print('   ' + repr(l)[:160])
            for x in fs[:3]:
                print('FAILS: %s observed=%s expected=%s options=%s' % (x['sig'], str(x['observed'])[:300], str(x['expected'])[:200], x['input']['options']))
            return 1 if fs else 0
        if inp.get('what') == 'main()':
            grid = GRID
            runs = {}
            for o in grid:
                code, text, _, _ = run_main_captured(inp['server'], args_of(o), inp.get('fault'))
                runs[okey(o)] = (code, text)
            fs = [x for x in oracle_main(runs, inp['server'], inp.get('fault')) if x['sig'] == f.get('sig')]
            o = inp.get('options')
            if isinstance(o, dict):
                print('args %s -> exit %s, stdout head %r' % (inp.get('args'), runs[okey(o)][0], runs[okey(o)][1][:200]))
            for x in fs[:3]:
                print('FAILS: %s observed=%s expected=%s args=%s' % (x['sig'], str(x['observed'])[:300], str(x['expected'])[:200], x['input']['args']))
            return 1 if fs else 0
        if inp.get('what') == 'process':
            seeds = inp.get('seeds', ['0', '1'])
            res = process_runs([(inp['server'], None, [a for a in inp['args'] if a != '--skip-rate-test' and ' / ' not in a], sd) for sd in seeds])
            for sd, (code, so, se) in zip(seeds, res):
                print('PYTHONHASHSEED=%s -> exit %s, %d bytes, sha1 %s' % (sd, code, len(so), hashlib.sha1(so).hexdigest()[:12]))
            return 1 if len({(c, so) for c, so, _ in res}) > 1 else 0
    finally:
        fn.reset_dbs()
        if saved_nc is not None:
            os.environ['NO_COLOR'] = saved_nc
    print(json.dumps(f, indent=1, default=str)[:2000])
    import sys
    from common import rerun_for_signature
    return rerun_for_signature(sys.modules[__name__], f)
