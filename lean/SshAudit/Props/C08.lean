/-
  C08 — One bad target never costs the others their results.

  Model: SshAudit.Model.Multi (`workerResult`, `rankFold`, `frameOutput`, `mainRun`), the ranked
  status list regenerated from `main()` by the translator (`Gen.rankedReturnCodes`).
-/
import SshAudit.Model.Multi
import SshAudit.Gen.Tables
namespace SshAudit.C08
open SshAudit SshAudit.Multi

/-- the ranking as the code has it: good < warning < failure < connection error < internal error -/
theorem ranked_order : Gen.rankedReturnCodes = [0, 2, 3, 1, -1] := by decide

/-- **Containment**: every target — whatever its scan did (returned, raised, `sys.exit`) — contributes exactly one
    result to the run -/
theorem containment (ranked : List Int) (json : Bool) (outcomes : List Outcome) :
    (outcomes.map workerResult).length = outcomes.length := by simp

/-- every status a worker can hand back is in the ranked list, so the rank lookup cannot fail -/
theorem rank_total (o : Outcome)
    (hret : ∀ st txt, o = .returned st txt → st ∈ [0, 1, 2, 3]) (hexit : ∀ c txt, o = .sysExit c txt → c ∈ [1, -1]) :
    (rank Gen.rankedReturnCodes (workerResult o).1).isSome = true := by
  rw [ranked_order]
  cases o with
  | returned st txt =>
    have := hret st txt rfl
    simp only [List.mem_cons, List.mem_nil_iff, or_false] at this
    rcases this with rfl | rfl | rfl | rfl <;> simp only [workerResult] <;> decide
  | raised m => simp only [workerResult]; decide
  | sysExit c txt =>
    have := hexit c txt rfl
    simp only [List.mem_cons, List.mem_nil_iff, or_false] at this
    rcases this with rfl | rfl <;> simp only [workerResult] <;> decide

/-! ### the rank fold returns the highest-ranked status, whatever the completion order -/

/-- rank of a status in `[0, 2, 3, 1, -1]` as a total function on the five documented values -/
def rk (x : Int) : Nat := if x = 0 then 0 else if x = 2 then 1 else if x = 3 then 2 else if x = 1 then 3 else 4

def Documented (x : Int) : Prop := x = 0 ∨ x = 2 ∨ x = 3 ∨ x = 1 ∨ x = -1

theorem rank_eq_rk (x : Int) (h : Documented x) : rank [0, 2, 3, 1, -1] x = some (rk x) := by
  rcases h with rfl | rfl | rfl | rfl | rfl <;> decide

theorem rankFold_cons (ranked : List Int) (ret w : Int) (ws : List Int) :
    rankFold ranked ret (w :: ws) = rankFold ranked (rankStep ranked ret w) ws := rfl

theorem rankStep_doc (acc w : Int) (ha : Documented acc) (hw : Documented w) :
    rankStep [0, 2, 3, 1, -1] acc w = (if rk w > rk acc then w else acc) := by
  unfold rankStep
  rw [rank_eq_rk w hw, rank_eq_rk acc ha]

theorem rankFold_spec (ret : Int) (rs : List Int) (hr : Documented ret) (hs : ∀ w ∈ rs, Documented w) :
    Documented (rankFold [0, 2, 3, 1, -1] ret rs) ∧
    rk (rankFold [0, 2, 3, 1, -1] ret rs) = (rs.map rk).foldl max (rk ret) := by
  induction rs generalizing ret with
  | nil => exact ⟨hr, rfl⟩
  | cons w ws ih =>
    have hw := hs w (by simp)
    have hws : ∀ x ∈ ws, Documented x := fun x hx => hs x (by simp [hx])
    rw [rankFold_cons, rankStep_doc ret w hr hw]
    simp only [List.map_cons, List.foldl_cons]
    by_cases hgt : rk w > rk ret
    · rw [if_pos hgt, show max (rk ret) (rk w) = rk w by omega]
      exact ih w hw hws
    · rw [if_neg hgt, show max (rk ret) (rk w) = rk ret by omega]
      exact ih ret hr hws

theorem foldl_max_ge (l : List Nat) (a : Nat) : a ≤ l.foldl max a ∧ ∀ x ∈ l, x ≤ l.foldl max a := by
  induction l generalizing a with
  | nil => simp
  | cons y ys ih =>
    simp only [List.foldl_cons]
    have := ih (max a y)
    refine ⟨by omega, ?_⟩
    intro x hx
    simp only [List.mem_cons] at hx
    rcases hx with rfl | hx
    · omega
    · exact this.2 x hx

/-- **The run's exit status is the highest-ranked status among the targets**: it is one of them (or 0 for an empty
    run) and no target's status outranks it. -/
theorem rank_fold_max (rs : List Int) (hs : ∀ w ∈ rs, Documented w) :
    (∀ w ∈ rs, rk w ≤ rk (rankFold Gen.rankedReturnCodes 0 rs)) ∧
    (rankFold Gen.rankedReturnCodes 0 rs = 0 ∨ rankFold Gen.rankedReturnCodes 0 rs ∈ rs) := by
  rw [ranked_order]
  obtain ⟨_, hk⟩ := rankFold_spec 0 rs (Or.inl rfl) hs
  constructor
  · intro w hw
    rw [hk]
    exact (foldl_max_ge (rs.map rk) (rk 0)).2 (rk w) (List.mem_map.mpr ⟨w, hw, rfl⟩)
  · -- the fold only ever returns the start value or an element
    have : ∀ (ret : Int) (l : List Int), rankFold [0, 2, 3, 1, -1] ret l = ret ∨ rankFold [0, 2, 3, 1, -1] ret l ∈ l := by
      intro ret l
      induction l generalizing ret with
      | nil => exact Or.inl rfl
      | cons w ws ih =>
        rw [rankFold_cons]
        have hacc' : rankStep [0, 2, 3, 1, -1] ret w = ret ∨ rankStep [0, 2, 3, 1, -1] ret w = w := by
          unfold rankStep; split
          · split <;> simp
          · simp
        rcases ih (rankStep [0, 2, 3, 1, -1] ret w) with h | h
        · rcases hacc' with e | e
          · left; rw [h, e]
          · right; rw [h, e]; simp
        · right; exact List.mem_cons_of_mem _ h
    exact this 0 rs

/-- …and it does not depend on the order in which the targets complete -/
theorem rank_fold_perm (rs rs' : List Int) (hp : rs.Perm rs') (hs : ∀ w ∈ rs, Documented w) :
    rankFold Gen.rankedReturnCodes 0 rs = rankFold Gen.rankedReturnCodes 0 rs' := by
  rw [ranked_order]
  have hs' : ∀ w ∈ rs', Documented w := fun w hw => hs w (hp.mem_iff.mpr hw)
  obtain ⟨hd1, hk1⟩ := rankFold_spec 0 rs (Or.inl rfl) hs
  obtain ⟨hd2, hk2⟩ := rankFold_spec 0 rs' (Or.inl rfl) hs'
  -- equal rank, and `rk` is injective on documented values
  have hmax : (rs.map rk).foldl max (rk 0) = (rs'.map rk).foldl max (rk 0) := by
    have hpm : (rs.map rk).Perm (rs'.map rk) := hp.map rk
    have := foldl_max_ge (rs.map rk) (rk 0)
    have := foldl_max_ge (rs'.map rk) (rk 0)
    -- both are the maximum of the same multiset together with rk 0
    have key : ∀ (l : List Nat) (a : Nat), l.foldl max a = a ∨ l.foldl max a ∈ l := by
      intro l a
      induction l generalizing a with
      | nil => exact Or.inl rfl
      | cons y ys ih =>
        simp only [List.foldl_cons]
        rcases ih (max a y) with h | h
        · by_cases hay : a ≤ y
          · right; rw [h]; simp; omega
          · left; rw [h]; omega
        · right; exact List.mem_cons_of_mem _ h
    have g1 := foldl_max_ge (rs.map rk) (rk 0)
    have g2 := foldl_max_ge (rs'.map rk) (rk 0)
    apply Nat.le_antisymm
    · rcases key (rs.map rk) (rk 0) with h | h
      · rw [h]; exact g2.1
      · exact g2.2 _ (hpm.mem_iff.mp h)
    · rcases key (rs'.map rk) (rk 0) with h | h
      · rw [h]; exact g1.1
      · exact g1.2 _ (hpm.mem_iff.mpr h)
  have hrk : rk (rankFold [0, 2, 3, 1, -1] 0 rs) = rk (rankFold [0, 2, 3, 1, -1] 0 rs') := by rw [hk1, hk2, hmax]
  rcases hd1 with h1 | h1 | h1 | h1 | h1 <;> rcases hd2 with h2 | h2 | h2 | h2 | h2 <;> rw [h1, h2] at hrk ⊢ <;> first | rfl | (simp [rk] at hrk)

/-! ### framing of stdout -/

/-- text mode: one block per target, separated by exactly one 80-dash rule -/
theorem text_blocks (outs : List Str) :
    frameOutput false outs = List.intercalate (dashes ++ ['\n', '\n']) (outs.map (· ++ ['\n'])) := rfl

/-- JSON mode: the whole of stdout is `[` + the per-target documents joined by `, ` + `]` and a newline -/
theorem json_array (outs : List Str) :
    frameOutput true outs = ['['] ++ List.intercalate [',', ' '] outs ++ [']', '\n'] := rfl

/-- the number of per-target blocks handed to the framing equals the number of targets, for every mix of outcomes -/
theorem one_block_per_target (ranked : List Int) (json : Bool) (outcomes : List Outcome) :
    ((outcomes.map workerResult).map (·.2)).length = outcomes.length := by simp

-- non-vacuity
example : rankFold Gen.rankedReturnCodes 0 [2, 1, 3, 0] = 1 ∧ rankFold Gen.rankedReturnCodes 0 [3, 2] = 3 ∧ rankFold Gen.rankedReturnCodes 0 [0, -1, 1] = -1 := by decide
example : workerResult (.sysExit 1 []) = (1, []) ∧ workerResult (.raised ['x']) = (-1, ['x']) := by decide

end SshAudit.C08
