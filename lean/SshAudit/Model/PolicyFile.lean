/-
  `policy.py`, the whole policy-file *text* path:

  * `parse`  — `Policy.__init__(policy_data=text)`, line by line: `text.split("\n")`, `line.strip()`, comment / blank
    lines, `line.split('=', 1)`, `key.strip()` / `val.strip()` (`step`), then the `if key not in [...]` check with the three
    legacy prefixes and the `if / elif` chain (`dispatch`; the branches that do more than one assignment are `dQuoted`,
    `dLegacyHostkey`, `dLegacyCakey`, `dHostKeySizes`, `dLegacyDh`, `dDhSizes`, `dFlags`): quoting / unescaping of `name` and
    `banner`, `version`, the six name-list directives, `host_key_sizes` / `dh_modulus_sizes` (JSON), the legacy
    `hostkey_size_*` / `cakey_size_*` / `dh_modulus_size_*` directives (including the local variable `hostkey_size` that a
    `cakey_size_*` line reads, and the count of deprecation warnings printed), `client policy`, the two sticky flags, every
    exception the parser raises (as data: `PFErr`, with the text the message carries), and the post-checks (`finish`: name and
    version are required).  `str.strip()` is `Text.stripU` (the white space of `str.isspace()`), `val.lower() == 'true'` is
    ASCII lowering (no non-ASCII character lowers to a letter of `true`).
  * `create` — `Policy.create(source, banner, kex, client_audit)`: the complete text `-M` writes, comment lines included
    (`createLines` joined by `\n`; `today` is a parameter: `date.today().strftime('%Y/%m/%d')`; `peer.bannerStr` is
    `str(banner)`; without a kex the lists print as `None`).  Neither the source nor the banner is escaped by the code.
    The long fixed comment lines are character-list constants (`cName`, …): the kernel evaluates `String.toList` on long
    literals very slowly.

  JSON.  `json.loads` is a *parameter* (`jl`) of `dispatch` / `step` / `parseWith`, and this file also contains a small exact
  model of it (`Json.loads`: objects, arrays, strings with every escape incl. `\uXXXX` and surrogate pairs, numbers, the
  literals incl. `NaN` / `Infinity`; strict mode: raw control characters rejected; duplicate keys: last value, first position,
  as `dict`), which is the instance `parse` uses, the driver runs, and `Props/C05File.lean` proves the round trip for.
  `Json.dumpStr` / `dumpDict` model `json.dumps` (default `ensure_ascii=True`, separators `', '` / `': '`) on exactly the two
  shapes `Policy.create` writes: `{name: {"hostkey_size": n[, "ca_key_type": s, "ca_key_size": n]}}` and `{name: n}`.
  The recursive functions take fuel (structural recursion, so that the kernel can run them); `loads` / `parseStr` supply enough.

  Limits of the model (answer `PFErr.outOfModel` / `JErr.outOfModel`; the harness does not compare such inputs):
  JSON values the structured record `Pol.Policy` cannot hold (sizes that are negative / floats / strings, a
  `host_key_sizes` entry without `hostkey_size`, a top-level array or string, lone UTF-16 surrogates); `int()` is modelled
  for ASCII digits (CPython also accepts other Unicode decimal digits).  Floats are recognised (so that the *syntax* is
  exact) but carry no value.

  Import-free apart from `Model.Policy` / `Model.Text`.
-/
import SshAudit.Model.Policy
namespace SshAudit
namespace PolicyFile
open Pol (s HKS Policy Peer)

/-! ## `json.loads` / `json.dumps` -/
namespace Json

inductive JV where
  | null | bool (b : Bool) | int (i : Int) | float | str (v : Str) | arr (xs : List JV) | obj (kvs : List (Str × JV))

inductive JErr where
  | invalid        -- json.JSONDecodeError
  | outOfModel     -- valid for Python, not representable here (lone surrogate), or fuel exhausted (never with `loads`)
deriving DecidableEq, Repr

/-- `dict.__setitem__` on an insertion-ordered dict: an existing key keeps its position -/
def dictSet {α} (d : List (Str × α)) (k : Str) (v : α) : List (Str × α) :=
  match d with
  | [] => [(k, v)]
  | kv :: rest => if kv.1 = k then (k, v) :: rest else kv :: dictSet rest k v

/-- building a dict from the pairs of a JSON object, in source order -/
def dictOf {α} (kvs : List (Str × α)) : List (Str × α) := kvs.foldl (fun d kv => dictSet d kv.1 kv.2) []

def isWs (c : Char) : Bool := c = ' ' || c = '\t' || c = '\n' || c = '\r'
def skipWs (t : Str) : Str := t.dropWhile isWs

def hexVal (c : Char) : Option Nat :=
  if '0' ≤ c ∧ c ≤ '9' then some (c.toNat - 48)
  else if 'a' ≤ c ∧ c ≤ 'f' then some (c.toNat - 87)
  else if 'A' ≤ c ∧ c ≤ 'F' then some (c.toNat - 55) else none

def hex4Val (a b c d : Char) : Option Nat :=
  match hexVal a, hexVal b, hexVal c, hexVal d with
  | some w, some x, some y, some z => some (((w * 16 + x) * 16 + y) * 16 + z)
  | _, _, _, _ => none

/-- the one-character escapes `\" \\ \/ \b \f \n \r \t` -/
def simpleEsc (e : Char) : Option Char :=
  if e = '"' then some '"' else if e = '\\' then some '\\' else if e = '/' then some '/'
  else if e = 'b' then some '\x08' else if e = 'f' then some '\x0c' else if e = 'n' then some '\n'
  else if e = 'r' then some '\r' else if e = 't' then some '\t' else none

def consChar (c : Char) : Except JErr (Str × Str) → Except JErr (Str × Str)
  | .ok (v, r) => .ok (c :: v, r)
  | .error e => .error e

/-- `scanstring` (strict): the text after the opening quote ↦ (decoded string, text after the closing quote).
    Fuel: one unit per decoded character and one for the closing quote (callers give the length of the text + 1). -/
def parseStrBody : Nat → Str → Except JErr (Str × Str)
  | 0, _ => .error .outOfModel
  | f + 1, t =>
    match t with
    | [] => .error .invalid
    | c :: rest =>
      if c = '"' then .ok ([], rest)
      else if c = '\\' then
        match rest with
        | [] => .error .invalid
        | e :: rest2 =>
          if e = 'u' then
            match rest2 with
            | h1 :: h2 :: h3 :: h4 :: rest3 =>
              match hex4Val h1 h2 h3 h4 with
              | none => .error .invalid
              | some n =>
                if 0xD800 ≤ n ∧ n ≤ 0xDBFF then
                  match rest3 with
                  | b :: u :: l1 :: l2 :: l3 :: l4 :: rest4 =>
                    if b = '\\' ∧ u = 'u' then
                      match hex4Val l1 l2 l3 l4 with
                      | some m =>
                        if 0xDC00 ≤ m ∧ m ≤ 0xDFFF then
                          consChar (Char.ofNat (0x10000 + (n - 0xD800) * 1024 + (m - 0xDC00))) (parseStrBody f rest4)
                        else .error .outOfModel
                      | none => .error .outOfModel
                    else .error .outOfModel
                  | _ => .error .outOfModel
                else if 0xDC00 ≤ n ∧ n ≤ 0xDFFF then .error .outOfModel
                else consChar (Char.ofNat n) (parseStrBody f rest3)
            | _ => .error .invalid
          else
            match simpleEsc e with
            | some ch => consChar ch (parseStrBody f rest2)
            | none => .error .invalid
      else if c.toNat < 0x20 then .error .invalid
      else consChar c (parseStrBody f rest)

/-- a string literal: the text after the opening quote -/
def parseStr (t : Str) : Except JErr (Str × Str) := parseStrBody (t.length + 1) t

def digitsVal (ds : Str) : Nat := ds.foldl (fun a c => 10 * a + (c.toNat - '0'.toNat)) 0

/-- `NUMBER_RE = (-?(?:0|[1-9]\d*))(\.\d+)?([eE][-+]?\d+)?` matched at the start of `t` (after an optional `-`, given as `neg`) -/
def parseNum (neg : Bool) (t : Str) : Except JErr (JV × Str) :=
  let ds := t.takeWhile Text.isDigit
  let r := t.dropWhile Text.isDigit
  match ds with
  | [] => .error .invalid
  | d0 :: more =>
    -- the integer part: a lone `0`, or all the digits
    let ip : Str := if d0 = '0' then [d0] else ds
    let r0 : Str := if d0 = '0' then more ++ r else r
    let fr : Bool × Str := match r0 with
      | p :: d :: r' => if p = '.' ∧ Text.isDigit d then (true, r'.dropWhile Text.isDigit) else (false, r0)
      | _ => (false, r0)
    let ex : Bool × Str := match fr.2 with
      | e :: r' =>
        if e = 'e' ∨ e = 'E' then
          let r'' : Str := match r' with
            | sg :: t' => if sg = '+' ∨ sg = '-' then t' else r'
            | [] => r'
          match r'' with
          | d :: t' => if Text.isDigit d then (true, t'.dropWhile Text.isDigit) else (false, fr.2)
          | [] => (false, fr.2)
        else (false, fr.2)
      | [] => (false, fr.2)
    if fr.1 || ex.1 then .ok (.float, ex.2)
    else .ok (.int (if neg then - (digitsVal ip : Int) else (digitsVal ip : Int)), r0)

mutual
/-- `scan_once` at a position that is not white space -/
def parseValue : Nat → Str → Except JErr (JV × Str)
  | 0, _ => .error .outOfModel
  | f + 1, t =>
    match t with
    | [] => .error .invalid
    | c :: rest =>
      if c = '"' then
        match parseStr rest with
        | .ok (v, r) => .ok (.str v, r)
        | .error e => .error e
      else if c = '{' then
        match skipWs rest with
        | [] => .error .invalid
        | c2 :: r2 => if c2 = '}' then .ok (.obj [], r2) else
          match parseMembers f (c2 :: r2) with
          | .ok (kvs, r) => .ok (.obj kvs, r)
          | .error e => .error e
      else if c = '[' then
        match skipWs rest with
        | [] => .error .invalid
        | c2 :: r2 => if c2 = ']' then .ok (.arr [], r2) else
          match parseElems f (c2 :: r2) with
          | .ok (xs, r) => .ok (.arr xs, r)
          | .error e => .error e
      else if (s "null").isPrefixOf t then .ok (.null, t.drop 4)
      else if (s "true").isPrefixOf t then .ok (.bool true, t.drop 4)
      else if (s "false").isPrefixOf t then .ok (.bool false, t.drop 5)
      else if (s "NaN").isPrefixOf t then .ok (.float, t.drop 3)
      else if (s "Infinity").isPrefixOf t then .ok (.float, t.drop 8)
      else if (s "-Infinity").isPrefixOf t then .ok (.float, t.drop 9)
      else if c = '-' then parseNum true rest
      else parseNum false t
/-- the members of an object, positioned at the opening quote of a key -/
def parseMembers : Nat → Str → Except JErr (List (Str × JV) × Str)
  | 0, _ => .error .outOfModel
  | f + 1, t =>
    match t with
    | [] => .error .invalid
    | q :: r => if q ≠ '"' then .error .invalid else
      match parseStr r with
      | .error e => .error e
      | .ok (k, r1) =>
        match skipWs r1 with
        | [] => .error .invalid
        | c :: r2 => if c ≠ ':' then .error .invalid else
          match parseValue f (skipWs r2) with
          | .error e => .error e
          | .ok (v, r3) =>
            match skipWs r3 with
            | [] => .error .invalid
            | d :: r4 =>
              if d = '}' then .ok ([(k, v)], r4)
              else if d = ',' then
                match parseMembers f (skipWs r4) with
                | .ok (kvs, r5) => .ok ((k, v) :: kvs, r5)
                | .error e => .error e
              else .error .invalid
/-- the elements of an array, positioned at the first character of an element -/
def parseElems : Nat → Str → Except JErr (List JV × Str)
  | 0, _ => .error .outOfModel
  | f + 1, t =>
    match parseValue f t with
    | .error e => .error e
    | .ok (v, r1) =>
      match skipWs r1 with
      | [] => .error .invalid
      | d :: r2 =>
        if d = ']' then .ok ([v], r2)
        else if d = ',' then
          match parseElems f (skipWs r2) with
          | .ok (xs, r3) => .ok (v :: xs, r3)
          | .error e => .error e
        else .error .invalid
end

/-- `json.loads(text)`: white space, one value, white space, end of text.  (Fuel: every recursive call but an array's first element
    follows a consumed character, so `2 * length + 2` is never exhausted.) -/
def loads (t : Str) : Except JErr JV :=
  match parseValue (2 * t.length + 2) (skipWs t) with
  | .error e => .error e
  | .ok (v, r) => if skipWs r = [] then .ok v else .error .invalid

/-! ### `json.dumps` on the shapes `Policy.create` writes -/

def hexDigit (k : Nat) : Char := ['0', '1', '2', '3', '4', '5', '6', '7', '8', '9', 'a', 'b', 'c', 'd', 'e', 'f'].getD (k % 16) '0'
def hex4 (n : Nat) : Str := [hexDigit (n / 4096), hexDigit (n / 256), hexDigit (n / 16), hexDigit n]

/-- `ESCAPE_ASCII`: what `json.dumps` (ensure_ascii) writes for one character -/
def escJ (c : Char) : Str :=
  if c = '"' then ['\\', '"'] else if c = '\\' then ['\\', '\\'] else if c = '\n' then ['\\', 'n']
  else if c = '\r' then ['\\', 'r'] else if c = '\t' then ['\\', 't'] else if c = '\x08' then ['\\', 'b']
  else if c = '\x0c' then ['\\', 'f']
  else if 0x20 ≤ c.toNat ∧ c.toNat < 0x7f then [c]
  else if c.toNat < 0x10000 then '\\' :: 'u' :: hex4 c.toNat
  else
    let v := c.toNat - 0x10000
    '\\' :: 'u' :: hex4 (0xD800 + v / 1024) ++ '\\' :: 'u' :: hex4 (0xDC00 + v % 1024)

def escBody : Str → Str
  | [] => []
  | c :: cs => escJ c ++ escBody cs

def dumpStr (v : Str) : Str := '"' :: (escBody v ++ ['"'])

def colonSep : Str := [':', ' ']
def commaSep : Str := [',', ' ']

/-- `json.dumps(d)` for a dict whose values are written by `f` -/
def dumpDict {α} (f : α → Str) (d : List (Str × α)) : Str :=
  '{' :: (Text.join commaSep (d.map fun kv => dumpStr kv.1 ++ colonSep ++ f kv.2) ++ ['}'])

def kHostkeySize : Str := s "hostkey_size"
def kCaKeyType : Str := s "ca_key_type"
def kCaKeySize : Str := s "ca_key_size"
def kRaw : Str := s "raw_hostkey_bytes"

/-- one trimmed host-key entry: `raw_hostkey_bytes` deleted; the CA fields deleted when either is empty -/
def dumpHKS (h : HKS) : Str :=
  if h.caType = [] ∨ h.caSize = 0 then
    '{' :: (dumpStr kHostkeySize ++ colonSep ++ Text.natToStr h.size ++ ['}'])
  else
    '{' :: (dumpStr kHostkeySize ++ colonSep ++ Text.natToStr h.size ++ commaSep ++ dumpStr kCaKeyType ++ colonSep ++ dumpStr h.caType
      ++ commaSep ++ dumpStr kCaKeySize ++ colonSep ++ Text.natToStr h.caSize ++ ['}'])

def dumpHostKeys (d : List (Str × HKS)) : Str := dumpDict dumpHKS d
def dumpDh (d : List (Str × Nat)) : Str := dumpDict Text.natToStr d

end Json

open Json (JV JErr)

/-! ## the parser: `Policy.__init__(policy_data=…)` -/

inductive PFErr where
  | noEq (line : Str)           -- ValueError("could not parse line: %s" % line)
  | badField (line : Str)       -- ValueError("invalid field found in policy: %s" % line)
  | unquoted (key val : Str)    -- ValueError('the value for the %s field must be enclosed in quotes: %s' % (key, val))
  | badInt (val : Str)          -- ValueError from int(val) in a legacy size directive
  | badJson                     -- json.JSONDecodeError (a ValueError) from json.loads
  | typeError                   -- TypeError from _normalize_hostkey_sizes on a value that is not a dict of dicts
  | unbound                     -- UnboundLocalError: a cakey_size_* line before any hostkey_size_* line
  | noName                      -- ValueError('The policy does not have a name field.')
  | noVersion                   -- ValueError('The policy does not have a version field.')
  | outOfModel                  -- accepted by the code, not representable in `Pol.Policy` (see file header)
deriving DecidableEq, Repr

/-- the fields of the `Policy` object the parser assigns, plus its local variable `hostkey_size` and the number of
    deprecation warnings printed so far -/
structure PState where
  name : Option Str := none
  version : Option Str := none
  pol : Policy := {}
  serverPolicy : Bool := true
  hostkeySizeVar : Option Nat := none
  warnings : Nat := 0
deriving DecidableEq, Repr

/-- a loaded policy -/
structure Rec where
  name : Str
  version : Str
  pol : Policy
  serverPolicy : Bool
  warnings : Nat
deriving DecidableEq, Repr

def allowedKeys : List Str :=
  [s "name", s "version", s "banner", s "compressions", s "host keys", s "optional host keys", s "key exchanges", s "ciphers", s "macs",
   s "client policy", s "host_key_sizes", s "dh_modulus_sizes", s "allow_algorithm_subset_and_reordering", s "allow_larger_keys"]

def pfxHostkey : Str := s "hostkey_size_"
def pfxCakey : Str := s "cakey_size_"
def pfxDh : Str := s "dh_modulus_size_"

def keyOk (key : Str) : Bool :=
  allowedKeys.contains key || Text.startsWith key pfxHostkey || Text.startsWith key pfxCakey || Text.startsWith key pfxDh

/-- `.replace('\\"', '"')` -/
def unescQuote : Str → Str
  | [] => []
  | [c] => [c]
  | c :: d :: rest => if c = '\\' ∧ d = '"' then '"' :: unescQuote rest else c :: unescQuote (d :: rest)

/-- `.replace('\\n', '\n')` -/
def unescNl : Str → Str
  | [] => []
  | [c] => [c]
  | c :: d :: rest => if c = '\\' ∧ d = 'n' then '\n' :: unescNl rest else c :: unescNl (d :: rest)

/-- `val[1:-1].replace("\\\"", "\"").replace("\\n", "\n")` -/
def unquote (val : Str) : Str := unescNl (unescQuote ((val.drop 1).dropLast))

/-- `[alg.strip() for alg in val.split(',')]` -/
def parseAlgs (val : Str) : List Str := (Text.splitOn ',' val).map Text.stripU

/-- is `ds` a run of ASCII digits with single underscores between digits (`int()`'s grammar after the sign)? -/
def validDigits : Str → Bool
  | [] => false
  | [c] => Text.isDigit c
  | c :: d :: rest =>
    if Text.isDigit c then (if d = '_' then validDigits rest else validDigits (d :: rest)) else false

/-- `int(val)` (base 10; ASCII digits): `none` = ValueError -/
def pyInt (val : Str) : Option Int :=
  let v := Text.stripU val
  let sd : Bool × Str := match v with
    | c :: r => if c = '-' then (true, r) else if c = '+' then (false, r) else (false, v)
    | [] => (false, v)
  if validDigits sd.2 then
    let n := Json.digitsVal (sd.2.filter (· ≠ '_'))
    some (if sd.1 then - (n : Int) else (n : Int))
  else none

def caTypeFor (hostkeyType : Str) : Str :=
  if [s "ssh-rsa-cert-v01@openssh.com", s "rsa-sha2-256-cert-v01@openssh.com", s "rsa-sha2-512-cert-v01@openssh.com"].contains hostkeyType
  then s "ssh-rsa" else s "ssh-ed25519"

/-! ### what the JSON values become -/

def natOf : JV → Option Nat
  | .int i => if 0 ≤ i then some i.toNat else none
  | _ => none

/-- `dh_modulus_sizes = json.loads(val)`: no check at load time; representable when a dict of non-negative ints (or null) -/
def dhOfJson : JV → Except PFErr (Option (List (Str × Nat)))
  | .null => .ok none
  | .obj kvs =>
    match (Json.dictOf kvs).mapM (fun kv => (natOf kv.2).map (fun n => (kv.1, n))) with
    | some d => .ok (some d)
    | none => .error .outOfModel
  | _ => .error .outOfModel

/-- what `_normalize_hostkey_sizes` does with one value of the dict: `none` = it goes through (a dict, or one of the exotic
    list/str values that contain all three key names), `some e` = the exception -/
def normValueErr : JV → Option PFErr
  | .obj _ => none
  | .str v => if Text.hasSub Json.kCaKeyType v && Text.hasSub Json.kCaKeySize v && Text.hasSub Json.kRaw v then some .outOfModel else some .typeError
  | .arr xs =>
    if xs.any (fun x => match x with | .str v => v = Json.kCaKeyType | _ => false)
       && xs.any (fun x => match x with | .str v => v = Json.kCaKeySize | _ => false)
       && xs.any (fun x => match x with | .str v => v = Json.kRaw | _ => false) then some .outOfModel else some .typeError
  | _ => some .typeError

/-- an inner dict, normalised: `ca_key_type` ↦ `''` and `ca_key_size` ↦ 0 when absent -/
def hksOfJson : JV → Option HKS
  | .obj kvs =>
    let d := Json.dictOf kvs
    match Pol.lookup d Json.kHostkeySize with
    | none => none
    | some sz =>
      match natOf sz with
      | none => none
      | some size =>
        let ct : Option Str := match Pol.lookup d Json.kCaKeyType with
          | none => some []
          | some (.str v) => some v
          | some _ => none
        let cs : Option Nat := match Pol.lookup d Json.kCaKeySize with
          | none => some 0
          | some v => natOf v
        match ct, cs with
        | some caType, some caSize => some { size, caType, caSize }
        | _, _ => none
  | _ => none

/-- `self._hostkey_sizes = json.loads(val); self._normalize_hostkey_sizes()` -/
def hksOfJsonTop : JV → Except PFErr (Option (List (Str × HKS)))
  | .null => .ok none
  | .obj kvs =>
    let d := Json.dictOf kvs
    let errs := d.filterMap (fun kv => normValueErr kv.2)
    if errs.contains .typeError then .error .typeError          -- the loop goes on past the exotic values, a TypeError ends it
    else if errs ≠ [] then .error .outOfModel
    else
      match d.mapM (fun kv => (hksOfJson kv.2).map (fun h => (kv.1, h))) with
      | some m => .ok (some m)
      | none => .error .outOfModel
  | .arr _ => .error .outOfModel
  | .str _ => .error .outOfModel
  | _ => .error .typeError       -- int / float / bool: not iterable

def kName : Str := s "name"
def kBanner : Str := s "banner"
def kVersion : Str := s "version"
def kCompressions : Str := s "compressions"
def kHostKeys : Str := s "host keys"
def kOptionalHostKeys : Str := s "optional host keys"
def kKex : Str := s "key exchanges"
def kCiphers : Str := s "ciphers"
def kMacs : Str := s "macs"
def kClient : Str := s "client policy"
def kHostKeySizes : Str := s "host_key_sizes"
def kDhSizes : Str := s "dh_modulus_sizes"
def kSubset : Str := s "allow_algorithm_subset_and_reordering"
def kLarger : Str := s "allow_larger_keys"
def vTrue : Str := s "true"

/-! The branches of the `if / elif` chain that do more than one assignment, one function each. -/

/-- `name` / `banner`: a blank value counts as `""`; the value must be quoted; quotes removed, `\"` and `\n` unescaped -/
def dQuoted (st : PState) (key val : Str) : Except PFErr PState :=
  let val2 : Str := if val.length < 2 then ['"', '"'] else val
  if val2.head? ≠ some '"' ∨ val2.getLast? ≠ some '"' then .error (.unquoted key val2)
  else if key = kName then .ok { st with name := some (unquote val2) }
  else .ok { st with pol := { st.pol with banner := some (unquote val2) } }

/-- `hostkey_size_<type> = n` (deprecated; the warning is printed first, then `int(val)`) -/
def dLegacyHostkey (st : PState) (key val : Str) : Except PFErr PState :=
  match pyInt val with
  | none => .error (.badInt val)
  | some i => if i < 0 then .error .outOfModel else
    let h : HKS := { size := i.toNat, caType := [], caSize := 0 }
    .ok { st with warnings := st.warnings + 1, hostkeySizeVar := some i.toNat,
                  pol := { st.pol with hostkeySizes := some (Json.dictSet (st.pol.hostkeySizes.getD []) (key.drop 13) h) } }

/-- `cakey_size_<type> = n` (deprecated): the entry takes the value the variable `hostkey_size` last got -/
def dLegacyCakey (st : PState) (key val : Str) : Except PFErr PState :=
  match pyInt val with
  | none => .error (.badInt val)
  | some i =>
    match st.hostkeySizeVar with
    | none => .error .unbound
    | some hsz => if i < 0 then .error .outOfModel else
      let t := key.drop 11
      let h : HKS := { size := hsz, caType := caTypeFor t, caSize := i.toNat }
      .ok { st with warnings := st.warnings + 1,
                    pol := { st.pol with hostkeySizes := some (Json.dictSet (st.pol.hostkeySizes.getD []) t h) } }

/-- `host_key_sizes = <json>` -/
def dHostKeySizes (jl : Str → Except JErr JV) (st : PState) (val : Str) : Except PFErr PState :=
  match jl val with
  | .error .invalid => .error .badJson
  | .error .outOfModel => .error .outOfModel
  | .ok j =>
    match hksOfJsonTop j with
    | .error e => .error e
    | .ok m => .ok { st with pol := { st.pol with hostkeySizes := m } }

/-- `dh_modulus_size_<kex> = n` (deprecated) -/
def dLegacyDh (st : PState) (key val : Str) : Except PFErr PState :=
  match pyInt val with
  | none => .error (.badInt val)
  | some i => if i < 0 then .error .outOfModel else
    .ok { st with warnings := st.warnings + 1,
                  pol := { st.pol with dhSizes := some (Json.dictSet (st.pol.dhSizes.getD []) (key.drop 16) i.toNat) } }

/-- `dh_modulus_sizes = <json>` -/
def dDhSizes (jl : Str → Except JErr JV) (st : PState) (val : Str) : Except PFErr PState :=
  match jl val with
  | .error .invalid => .error .badJson
  | .error .outOfModel => .error .outOfModel
  | .ok j =>
    match dhOfJson j with
    | .error e => .error e
    | .ok m => .ok { st with pol := { st.pol with dhSizes := m } }

/-- the last three `elif`s: a flag is only ever switched on (`… = false` changes nothing) -/
def dFlags (st : PState) (key val : Str) : PState :=
  if Text.startsWith key kClient && Text.lower val == vTrue then { st with serverPolicy := false }
  else if key == kSubset && Text.lower val == vTrue then { st with pol := { st.pol with allowSubset := true } }
  else if key == kLarger && Text.lower val == vTrue then { st with pol := { st.pol with allowLarger := true } }
  else st

/-- one directive: `key` and `val` are the stripped halves of `line` (the `if key not in [...]` check and the `if / elif` chain) -/
def dispatch (jl : Str → Except JErr JV) (st : PState) (line key val : Str) : Except PFErr PState :=
  if !keyOk key then .error (.badField line)
  else if key = kName ∨ key = kBanner then dQuoted st key val
  else if key = kVersion then .ok { st with version := some val }
  else if key = kCompressions then .ok { st with pol := { st.pol with compressions := some (parseAlgs val) } }
  else if key = kHostKeys then .ok { st with pol := { st.pol with hostKeys := some (parseAlgs val) } }
  else if key = kOptionalHostKeys then .ok { st with pol := { st.pol with optionalHostKeys := some (parseAlgs val) } }
  else if key = kKex then .ok { st with pol := { st.pol with kex := some (parseAlgs val) } }
  else if key = kCiphers then .ok { st with pol := { st.pol with ciphers := some (parseAlgs val) } }
  else if key = kMacs then .ok { st with pol := { st.pol with macs := some (parseAlgs val) } }
  else if Text.startsWith key pfxHostkey then dLegacyHostkey st key val
  else if Text.startsWith key pfxCakey then dLegacyCakey st key val
  else if key = kHostKeySizes then dHostKeySizes jl st val
  else if Text.startsWith key pfxDh then dLegacyDh st key val
  else if key = kDhSizes then dDhSizes jl st val
  else .ok (dFlags st key val)

/-- the body of the `for line in lines:` loop -/
def step (jl : Str → Except JErr JV) (st : PState) (raw : Str) : Except PFErr PState :=
  let line := Text.stripU raw
  if line.isEmpty || Text.startsWith line ['#'] then .ok st else
  match Pol.splitEq1 line with
  | none => .error (.noEq line)
  | some (k, v) => dispatch jl st line (Text.stripU k) (Text.stripU v)

/-- the loop; the first exception ends it -/
def parseLines (jl : Str → Except JErr JV) (st : PState) : List Str → Except PFErr PState
  | [] => .ok st
  | l :: ls =>
    match step jl st l with
    | .ok st' => parseLines jl st' ls
    | .error e => .error e

/-- the checks after the loop -/
def finish (st : PState) : Except PFErr Rec :=
  match st.name with
  | none => .error .noName
  | some name =>
    match st.version with
    | none => .error .noVersion
    | some version => .ok { name, version, pol := st.pol, serverPolicy := st.serverPolicy, warnings := st.warnings }

/-- `Policy(policy_data=text)` with `json.loads` given -/
def parseWith (jl : Str → Except JErr JV) (text : Str) : Except PFErr Rec :=
  match parseLines jl {} (Text.splitOn '\n' text) with
  | .ok st => finish st
  | .error e => .error e

/-- `Policy(policy_data=text)` -/
def parse (text : Str) : Except PFErr Rec := parseWith Json.loads text

/-! ## `Policy.create` -/

def eqSep : Str := [' ', '=', ' ']
def listSep : Str := [',', ' ']
def kv (key val : Str) : Str := key ++ eqSep ++ val
def pyNone : Str := s "None"

/-- `', '.join(names)`, or `None` printed by `%s` when there is no kex -/
def listVal (hasKex : Bool) (names : List Str) : Str := if hasKex then Text.join listSep names else pyNone

def nameVal (source today : Str) : Str := s "Custom Policy (based on " ++ source ++ s " on " ++ today ++ s ")"

/-! The fixed comment lines of the template (after the `#`), as character lists: the kernel evaluates `String.toList` on long literals
    very slowly.  The text of each is in its doc comment; the correspondence check compares the whole text with the real `Policy.create`. -/

/-- `# Set to true to signify this is a policy for clients, not servers.` -/
def cClient : Str :=
  [' ', 'S', 'e', 't', ' ', 't', 'o', ' ', 't', 'r', 'u', 'e', ' ', 't', 'o', ' ', 's', 'i', 'g', 'n', 'i', 'f', 'y', ' ', 't', 'h', 'i', 's', ' ',
   'i', 's', ' ', 'a', ' ', 'p', 'o', 'l', 'i', 'c', 'y', ' ', 'f', 'o', 'r', ' ', 'c', 'l', 'i', 'e', 'n', 't', 's', ',', ' ', 'n', 'o', 't', ' ',
   's', 'e', 'r', 'v', 'e', 'r', 's', '.']

/-- `# Dictionary containing all host key and size information.  Optionally contains the certificate authority's signature algorithm ('ca_key_type') and signature length ('ca_key_size'), if any.` -/
def cHostKeySizes : Str :=
  [' ', 'D', 'i', 'c', 't', 'i', 'o', 'n', 'a', 'r', 'y', ' ', 'c', 'o', 'n', 't', 'a', 'i', 'n', 'i', 'n', 'g', ' ', 'a', 'l', 'l', ' ', 'h', 'o',
   's', 't', ' ', 'k', 'e', 'y', ' ', 'a', 'n', 'd', ' ', 's', 'i', 'z', 'e', ' ', 'i', 'n', 'f', 'o', 'r', 'm', 'a', 't', 'i', 'o', 'n', '.', ' ',
   ' ', 'O', 'p', 't', 'i', 'o', 'n', 'a', 'l', 'l', 'y', ' ', 'c', 'o', 'n', 't', 'a', 'i', 'n', 's', ' ', 't', 'h', 'e', ' ', 'c', 'e', 'r', 't',
   'i', 'f', 'i', 'c', 'a', 't', 'e', ' ', 'a', 'u', 't', 'h', 'o', 'r', 'i', 't', 'y', '\'', 's', ' ', 's', 'i', 'g', 'n', 'a', 't', 'u', 'r', 'e',
   ' ', 'a', 'l', 'g', 'o', 'r', 'i', 't', 'h', 'm', ' ', '(', '\'', 'c', 'a', '_', 'k', 'e', 'y', '_', 't', 'y', 'p', 'e', '\'', ')', ' ', 'a', 'n',
   'd', ' ', 's', 'i', 'g', 'n', 'a', 't', 'u', 'r', 'e', ' ', 'l', 'e', 'n', 'g', 't', 'h', ' ', '(', '\'', 'c', 'a', '_', 'k', 'e', 'y', '_', 's',
   'i', 'z', 'e', '\'', ')', ',', ' ', 'i', 'f', ' ', 'a', 'n', 'y', '.']

/-- `# Group exchange DH modulus sizes.` -/
def cDhSizes : Str :=
  [' ', 'G', 'r', 'o', 'u', 'p', ' ', 'e', 'x', 'c', 'h', 'a', 'n', 'g', 'e', ' ', 'D', 'H', ' ', 'm', 'o', 'd', 'u', 'l', 'u', 's', ' ', 's', 'i',
   'z', 'e', 's', '.']

/-- `# The name of this policy (displayed in the output during scans).  Must be in quotes.` -/
def cName : Str :=
  [' ', 'T', 'h', 'e', ' ', 'n', 'a', 'm', 'e', ' ', 'o', 'f', ' ', 't', 'h', 'i', 's', ' ', 'p', 'o', 'l', 'i', 'c', 'y', ' ', '(', 'd', 'i', 's',
   'p', 'l', 'a', 'y', 'e', 'd', ' ', 'i', 'n', ' ', 't', 'h', 'e', ' ', 'o', 'u', 't', 'p', 'u', 't', ' ', 'd', 'u', 'r', 'i', 'n', 'g', ' ', 's',
   'c', 'a', 'n', 's', ')', '.', ' ', ' ', 'M', 'u', 's', 't', ' ', 'b', 'e', ' ', 'i', 'n', ' ', 'q', 'u', 'o', 't', 'e', 's', '.']

/-- `# The version of this policy (displayed in the output during scans).  Not parsed, and may be any value, including strings.` -/
def cVersion : Str :=
  [' ', 'T', 'h', 'e', ' ', 'v', 'e', 'r', 's', 'i', 'o', 'n', ' ', 'o', 'f', ' ', 't', 'h', 'i', 's', ' ', 'p', 'o', 'l', 'i', 'c', 'y', ' ', '(',
   'd', 'i', 's', 'p', 'l', 'a', 'y', 'e', 'd', ' ', 'i', 'n', ' ', 't', 'h', 'e', ' ', 'o', 'u', 't', 'p', 'u', 't', ' ', 'd', 'u', 'r', 'i', 'n',
   'g', ' ', 's', 'c', 'a', 'n', 's', ')', '.', ' ', ' ', 'N', 'o', 't', ' ', 'p', 'a', 'r', 's', 'e', 'd', ',', ' ', 'a', 'n', 'd', ' ', 'm', 'a',
   'y', ' ', 'b', 'e', ' ', 'a', 'n', 'y', ' ', 'v', 'a', 'l', 'u', 'e', ',', ' ', 'i', 'n', 'c', 'l', 'u', 'd', 'i', 'n', 'g', ' ', 's', 't', 'r',
   'i', 'n', 'g', 's', '.']

/-- `# When false, host keys, kex, ciphers, and MAC lists must match exactly.  When true, the target host may support a subset of the specified algorithms and/or algorithms may appear in a different order; this feature is useful for specifying a baseline and allowing some hosts the option to implement stricter controls.` -/
def cSubset : Str :=
  [' ', 'W', 'h', 'e', 'n', ' ', 'f', 'a', 'l', 's', 'e', ',', ' ', 'h', 'o', 's', 't', ' ', 'k', 'e', 'y', 's', ',', ' ', 'k', 'e', 'x', ',', ' ',
   'c', 'i', 'p', 'h', 'e', 'r', 's', ',', ' ', 'a', 'n', 'd', ' ', 'M', 'A', 'C', ' ', 'l', 'i', 's', 't', 's', ' ', 'm', 'u', 's', 't', ' ', 'm',
   'a', 't', 'c', 'h', ' ', 'e', 'x', 'a', 'c', 't', 'l', 'y', '.', ' ', ' ', 'W', 'h', 'e', 'n', ' ', 't', 'r', 'u', 'e', ',', ' ', 't', 'h', 'e',
   ' ', 't', 'a', 'r', 'g', 'e', 't', ' ', 'h', 'o', 's', 't', ' ', 'm', 'a', 'y', ' ', 's', 'u', 'p', 'p', 'o', 'r', 't', ' ', 'a', ' ', 's', 'u',
   'b', 's', 'e', 't', ' ', 'o', 'f', ' ', 't', 'h', 'e', ' ', 's', 'p', 'e', 'c', 'i', 'f', 'i', 'e', 'd', ' ', 'a', 'l', 'g', 'o', 'r', 'i', 't',
   'h', 'm', 's', ' ', 'a', 'n', 'd', '/', 'o', 'r', ' ', 'a', 'l', 'g', 'o', 'r', 'i', 't', 'h', 'm', 's', ' ', 'm', 'a', 'y', ' ', 'a', 'p', 'p',
   'e', 'a', 'r', ' ', 'i', 'n', ' ', 'a', ' ', 'd', 'i', 'f', 'f', 'e', 'r', 'e', 'n', 't', ' ', 'o', 'r', 'd', 'e', 'r', ';', ' ', 't', 'h', 'i',
   's', ' ', 'f', 'e', 'a', 't', 'u', 'r', 'e', ' ', 'i', 's', ' ', 'u', 's', 'e', 'f', 'u', 'l', ' ', 'f', 'o', 'r', ' ', 's', 'p', 'e', 'c', 'i',
   'f', 'y', 'i', 'n', 'g', ' ', 'a', ' ', 'b', 'a', 's', 'e', 'l', 'i', 'n', 'e', ' ', 'a', 'n', 'd', ' ', 'a', 'l', 'l', 'o', 'w', 'i', 'n', 'g',
   ' ', 's', 'o', 'm', 'e', ' ', 'h', 'o', 's', 't', 's', ' ', 't', 'h', 'e', ' ', 'o', 'p', 't', 'i', 'o', 'n', ' ', 't', 'o', ' ', 'i', 'm', 'p',
   'l', 'e', 'm', 'e', 'n', 't', ' ', 's', 't', 'r', 'i', 'c', 't', 'e', 'r', ' ', 'c', 'o', 'n', 't', 'r', 'o', 'l', 's', '.']

/-- `# When false, host keys, CA keys, and Diffie-Hellman key sizes must exactly match what's specified in this policy.  When true, target systems are allowed to have larger keys; this feature is useful for specifying a baseline and allowing some hosts the option to implement stricter controls.` -/
def cLarger : Str :=
  [' ', 'W', 'h', 'e', 'n', ' ', 'f', 'a', 'l', 's', 'e', ',', ' ', 'h', 'o', 's', 't', ' ', 'k', 'e', 'y', 's', ',', ' ', 'C', 'A', ' ', 'k', 'e',
   'y', 's', ',', ' ', 'a', 'n', 'd', ' ', 'D', 'i', 'f', 'f', 'i', 'e', '-', 'H', 'e', 'l', 'l', 'm', 'a', 'n', ' ', 'k', 'e', 'y', ' ', 's', 'i',
   'z', 'e', 's', ' ', 'm', 'u', 's', 't', ' ', 'e', 'x', 'a', 'c', 't', 'l', 'y', ' ', 'm', 'a', 't', 'c', 'h', ' ', 'w', 'h', 'a', 't', '\'', 's',
   ' ', 's', 'p', 'e', 'c', 'i', 'f', 'i', 'e', 'd', ' ', 'i', 'n', ' ', 't', 'h', 'i', 's', ' ', 'p', 'o', 'l', 'i', 'c', 'y', '.', ' ', ' ', 'W',
   'h', 'e', 'n', ' ', 't', 'r', 'u', 'e', ',', ' ', 't', 'a', 'r', 'g', 'e', 't', ' ', 's', 'y', 's', 't', 'e', 'm', 's', ' ', 'a', 'r', 'e', ' ',
   'a', 'l', 'l', 'o', 'w', 'e', 'd', ' ', 't', 'o', ' ', 'h', 'a', 'v', 'e', ' ', 'l', 'a', 'r', 'g', 'e', 'r', ' ', 'k', 'e', 'y', 's', ';', ' ',
   't', 'h', 'i', 's', ' ', 'f', 'e', 'a', 't', 'u', 'r', 'e', ' ', 'i', 's', ' ', 'u', 's', 'e', 'f', 'u', 'l', ' ', 'f', 'o', 'r', ' ', 's', 'p',
   'e', 'c', 'i', 'f', 'y', 'i', 'n', 'g', ' ', 'a', ' ', 'b', 'a', 's', 'e', 'l', 'i', 'n', 'e', ' ', 'a', 'n', 'd', ' ', 'a', 'l', 'l', 'o', 'w',
   'i', 'n', 'g', ' ', 's', 'o', 'm', 'e', ' ', 'h', 'o', 's', 't', 's', ' ', 't', 'h', 'e', ' ', 'o', 'p', 't', 'i', 'o', 'n', ' ', 't', 'o', ' ',
   'i', 'm', 'p', 'l', 'e', 'm', 'e', 'n', 't', ' ', 's', 't', 'r', 'i', 'c', 't', 'e', 'r', ' ', 'c', 'o', 'n', 't', 'r', 'o', 'l', 's', '.']

/-- `# The banner that must match exactly.  Commented out to ignore banners, since minor variability in the banner is sometimes normal.` -/
def cBanner : Str :=
  [' ', 'T', 'h', 'e', ' ', 'b', 'a', 'n', 'n', 'e', 'r', ' ', 't', 'h', 'a', 't', ' ', 'm', 'u', 's', 't', ' ', 'm', 'a', 't', 'c', 'h', ' ', 'e',
   'x', 'a', 'c', 't', 'l', 'y', '.', ' ', ' ', 'C', 'o', 'm', 'm', 'e', 'n', 't', 'e', 'd', ' ', 'o', 'u', 't', ' ', 't', 'o', ' ', 'i', 'g', 'n',
   'o', 'r', 'e', ' ', 'b', 'a', 'n', 'n', 'e', 'r', 's', ',', ' ', 's', 'i', 'n', 'c', 'e', ' ', 'm', 'i', 'n', 'o', 'r', ' ', 'v', 'a', 'r', 'i',
   'a', 'b', 'i', 'l', 'i', 't', 'y', ' ', 'i', 'n', ' ', 't', 'h', 'e', ' ', 'b', 'a', 'n', 'n', 'e', 'r', ' ', 'i', 's', ' ', 's', 'o', 'm', 'e',
   't', 'i', 'm', 'e', 's', ' ', 'n', 'o', 'r', 'm', 'a', 'l', '.']

/-- `# The compression options that must match exactly (order matters).  Commented out to ignore by default.` -/
def cCompressions : Str :=
  [' ', 'T', 'h', 'e', ' ', 'c', 'o', 'm', 'p', 'r', 'e', 's', 's', 'i', 'o', 'n', ' ', 'o', 'p', 't', 'i', 'o', 'n', 's', ' ', 't', 'h', 'a', 't',
   ' ', 'm', 'u', 's', 't', ' ', 'm', 'a', 't', 'c', 'h', ' ', 'e', 'x', 'a', 'c', 't', 'l', 'y', ' ', '(', 'o', 'r', 'd', 'e', 'r', ' ', 'm', 'a',
   't', 't', 'e', 'r', 's', ')', '.', ' ', ' ', 'C', 'o', 'm', 'm', 'e', 'n', 't', 'e', 'd', ' ', 'o', 'u', 't', ' ', 't', 'o', ' ', 'i', 'g', 'n',
   'o', 'r', 'e', ' ', 'b', 'y', ' ', 'd', 'e', 'f', 'a', 'u', 'l', 't', '.']

/-- `# The host key types that must match exactly (order matters).` -/
def cHostKeys : Str :=
  [' ', 'T', 'h', 'e', ' ', 'h', 'o', 's', 't', ' ', 'k', 'e', 'y', ' ', 't', 'y', 'p', 'e', 's', ' ', 't', 'h', 'a', 't', ' ', 'm', 'u', 's', 't',
   ' ', 'm', 'a', 't', 'c', 'h', ' ', 'e', 'x', 'a', 'c', 't', 'l', 'y', ' ', '(', 'o', 'r', 'd', 'e', 'r', ' ', 'm', 'a', 't', 't', 'e', 'r', 's',
   ')', '.']

/-- `# Host key types that may optionally appear.` -/
def cOptional : Str :=
  [' ', 'H', 'o', 's', 't', ' ', 'k', 'e', 'y', ' ', 't', 'y', 'p', 'e', 's', ' ', 't', 'h', 'a', 't', ' ', 'm', 'a', 'y', ' ', 'o', 'p', 't', 'i',
   'o', 'n', 'a', 'l', 'l', 'y', ' ', 'a', 'p', 'p', 'e', 'a', 'r', '.']

/-- `#optional host keys = ssh-ed25519-cert-v01@openssh.com,sk-ssh-ed25519@openssh.com,sk-ssh-ed25519-cert-v01@openssh.com,rsa-sha2-256-cert-v01@openssh.com,rsa-sha2-512-cert-v01@openssh.com` -/
def cOptionalExample : Str :=
  ['o', 'p', 't', 'i', 'o', 'n', 'a', 'l', ' ', 'h', 'o', 's', 't', ' ', 'k', 'e', 'y', 's', ' ', '=', ' ', 's', 's', 'h', '-', 'e', 'd', '2', '5',
   '5', '1', '9', '-', 'c', 'e', 'r', 't', '-', 'v', '0', '1', '@', 'o', 'p', 'e', 'n', 's', 's', 'h', '.', 'c', 'o', 'm', ',', 's', 'k', '-', 's',
   's', 'h', '-', 'e', 'd', '2', '5', '5', '1', '9', '@', 'o', 'p', 'e', 'n', 's', 's', 'h', '.', 'c', 'o', 'm', ',', 's', 'k', '-', 's', 's', 'h',
   '-', 'e', 'd', '2', '5', '5', '1', '9', '-', 'c', 'e', 'r', 't', '-', 'v', '0', '1', '@', 'o', 'p', 'e', 'n', 's', 's', 'h', '.', 'c', 'o', 'm',
   ',', 'r', 's', 'a', '-', 's', 'h', 'a', '2', '-', '2', '5', '6', '-', 'c', 'e', 'r', 't', '-', 'v', '0', '1', '@', 'o', 'p', 'e', 'n', 's', 's',
   'h', '.', 'c', 'o', 'm', ',', 'r', 's', 'a', '-', 's', 'h', 'a', '2', '-', '5', '1', '2', '-', 'c', 'e', 'r', 't', '-', 'v', '0', '1', '@', 'o',
   'p', 'e', 'n', 's', 's', 'h', '.', 'c', 'o', 'm']

/-- `# The key exchange algorithms that must match exactly (order matters).` -/
def cKex : Str :=
  [' ', 'T', 'h', 'e', ' ', 'k', 'e', 'y', ' ', 'e', 'x', 'c', 'h', 'a', 'n', 'g', 'e', ' ', 'a', 'l', 'g', 'o', 'r', 'i', 't', 'h', 'm', 's', ' ',
   't', 'h', 'a', 't', ' ', 'm', 'u', 's', 't', ' ', 'm', 'a', 't', 'c', 'h', ' ', 'e', 'x', 'a', 'c', 't', 'l', 'y', ' ', '(', 'o', 'r', 'd', 'e',
   'r', ' ', 'm', 'a', 't', 't', 'e', 'r', 's', ')', '.']

/-- `# The ciphers that must match exactly (order matters).` -/
def cCiphers : Str :=
  [' ', 'T', 'h', 'e', ' ', 'c', 'i', 'p', 'h', 'e', 'r', 's', ' ', 't', 'h', 'a', 't', ' ', 'm', 'u', 's', 't', ' ', 'm', 'a', 't', 'c', 'h', ' ',
   'e', 'x', 'a', 'c', 't', 'l', 'y', ' ', '(', 'o', 'r', 'd', 'e', 'r', ' ', 'm', 'a', 't', 't', 'e', 'r', 's', ')', '.']

/-- `# The MACs that must match exactly (order matters).` -/
def cMacs : Str :=
  [' ', 'T', 'h', 'e', ' ', 'M', 'A', 'C', 's', ' ', 't', 'h', 'a', 't', ' ', 'm', 'u', 's', 't', ' ', 'm', 'a', 't', 'c', 'h', ' ', 'e', 'x', 'a',
   'c', 't', 'l', 'y', ' ', '(', 'o', 'r', 'd', 'e', 'r', ' ', 'm', 'a', 't', 't', 'e', 'r', 's', ')', '.']

def clientChunk (clientAudit : Bool) : List Str :=
  if clientAudit then [[], '#' :: cClient, kv kClient vTrue] else []

def hostKeysChunk (peer : Peer) : List Str :=
  if peer.hasKex ∧ peer.hostKeys ≠ [] then
    [[], '#' :: cHostKeySizes,
     kv kHostKeySizes (Json.dumpHostKeys peer.hostKeys)]
  else []

def dhChunk (peer : Peer) : List Str :=
  if peer.hasKex ∧ peer.dhSizes ≠ [] then
    [[], '#' :: cDhSizes, kv kDhSizes (Json.dumpDh peer.dhSizes)]
  else []

/-- the lines of the text `Policy.create` returns (the text is these joined by `\n`).  `peer.bannerStr` is `str(banner)`. -/
def createLines (source today : Str) (peer : Peer) (clientAudit : Bool) : List Str :=
  [['#'],
   '#' :: (s " Custom policy based on " ++ source ++ s " (created on " ++ today ++ s ")"),
   ['#']]
  ++ clientChunk clientAudit ++
  [[],
   '#' :: cName,
   kv kName ('"' :: (nameVal source today ++ ['"'])),
   [],
   '#' :: cVersion,
   kv kVersion ['1'],
   [],
   '#' :: cSubset,
   kv kSubset (s "false"),
   [],
   '#' :: cLarger,
   kv kLarger (s "false"),
   [],
   '#' :: cBanner,
   '#' :: (s " banner = \"" ++ peer.bannerStr ++ ['"']),
   [],
   '#' :: cCompressions,
   '#' :: (s " compressions = " ++ listVal peer.hasKex peer.comp)]
  ++ hostKeysChunk peer ++ dhChunk peer ++
  [[],
   '#' :: cHostKeys,
   kv kHostKeys (listVal peer.hasKex peer.key),
   [],
   '#' :: cOptional,
   '#' :: cOptionalExample,
   [],
   '#' :: cKex,
   kv kKex (listVal peer.hasKex peer.kex),
   [],
   '#' :: cCiphers,
   kv kCiphers (listVal peer.hasKex peer.enc),
   [],
   '#' :: cMacs,
   kv kMacs (listVal peer.hasKex peer.mac),
   []]

/-- `Policy.create(source, banner, kex, client_audit)` on a day that prints as `today` -/
def create (source today : Str) (peer : Peer) (clientAudit : Bool) : Str :=
  Text.join ['\n'] (createLines source today peer clientAudit)

end PolicyFile
end SshAudit
