import SshAudit.Driver.Tables
import SshAudit.Driver.WireOps
namespace SshAudit.Driver

def badOp : J := .obj [("err", .str "bad-op".toList)]

def dispatch (op : String) (args : List String) : J :=
  if op = "dump-tables" then dumpTables else
  match wireOp op args with
  | some j => j
  | none => badOp

end SshAudit.Driver
