/-
  The JSON output path of a standard audit (`ssh_audit.py`):

  * `Val`                — the values `build_struct` builds: `None`, `bool`, `int`, `str`, `list`, `dict` with `str` keys
    (a `dict` is its item list in insertion order; Python dicts never hold one key twice: `Val.NoDup`).
  * `render` / `dumps`   — CPython's `json.dumps(v, indent=…, sort_keys=True)` (default `ensure_ascii=True`) on such a value, exactly:
    `null` / `true` / `false`, `int.__repr__`, strings through `PolicyFile.Json.dumpStr` (the escapes `\" \\ \n \r \t \b \f`,
    `\u00XX` for every other character outside `' '..'~'`, a surrogate pair for code points above U+FFFF), `[]` / `{}` for the empty
    containers, items of a dict ordered by key (code-point order, `sortKeys`; `sorted(dct.items())` at every level), and the white
    space of the two forms the tool prints (`Fmt`): `compact` = `indent=None` (separators `', '` / `': '`, `-j`), `indent4` =
    `indent=4` (separators `','` / `': '`, every item on its own line, `-jj`).
  * `toJV`               — the value as the parse tree `PolicyFile.Json.loads` (the modelled `json.loads`) answers.
  * `doc` / `docElse`    — the value tree `build_struct` builds for an SSH-2 peer (`kex is not None`) from the report model's data
    (`Report.Peer`, the post-processed database, `Report.Rec`s, the additional notes) and for the else-branch (SSH-1 peer, or no peer
    at all: the error path) from `Ssh1Report.Doc`.
  * `docText`            — the text `output()` hands to `out.info(..., always_print=True)`.

  Strings are `List Char`: Unicode scalar values.  Everything that reaches the document from the wire was decoded with
  `bytes.decode('utf-8', 'replace')` (name-lists, `ReadBuf.read_line`) or `decode('ascii')` (host-key / CA key types), so no lone
  surrogate can occur in it (an undecodable byte becomes U+FFFD).

  Inputs the document model takes as given (supplied by the harness from the real objects, compared byte for byte afterwards):
  the database as it is when `output()` is called (the scan may have appended size findings to it — `db` / `db0`), the parsed banner
  fields (`Banner.parse`, C16), and the fingerprint list `Meta.fps`: hashes are opaque, and the list is the one `build_struct` walks —
  every RSA-family entry of `kex.host_keys()` moved to `ssh-rsa` in insertion order, certificates skipped, types sorted (a scan stores
  one key for the whole family, so this is the list the text report shows too).  `build_struct` renames those entries *inside* the
  `SSH2_Kex` object; nothing reads them afterwards in a single audit.

  Core Lean only.
-/
import SshAudit.Model.PolicyFile
import SshAudit.Model.Output
import SshAudit.Model.Ssh1Report
namespace SshAudit
namespace JsonDoc
open Report (s)
open PolicyFile.Json (JV dumpStr)

/-! ## values -/

inductive Val where
  | null
  | bool (b : Bool)
  | int (i : Int)
  | str (v : Str)
  | arr (xs : List Val)
  | obj (kvs : List (Str × Val))

/-- the white space `json.dumps` writes: after the opening bracket of a non-empty container whose items are at nesting level `n`,
    after the comma between two such items, before the closing bracket -/
structure Fmt where
  opn : Nat → Str
  sep : Nat → Str
  cls : Nat → Str

/-- `'\n' + ' ' * (4 * n)` -/
def nl (n : Nat) : Str := '\n' :: List.replicate (4 * n) ' '

/-- `indent=None`: `item_separator = ', '` -/
def compact : Fmt := { opn := fun _ => [], sep := fun _ => [' '], cls := fun _ => [] }

/-- `indent=4`: `item_separator = ','`, `newline_indent = '\n' + '    ' * level` -/
def indent4 : Fmt := { opn := nl, sep := nl, cls := fun n => nl (n - 1) }

/-- `int.__repr__` -/
def dumpInt : Int → Str
  | .ofNat n => Text.natToStr n
  | .negSucc n => '-' :: Text.natToStr (n + 1)

def colon : Str := [':', ' ']

mutual
/-- `_iterencode(v, level)` without key sorting (`n` = nesting level of `v` itself) -/
def render (fm : Fmt) : Nat → Val → Str
  | _, .null => ['n', 'u', 'l', 'l']
  | _, .bool true => ['t', 'r', 'u', 'e']
  | _, .bool false => ['f', 'a', 'l', 's', 'e']
  | _, .int i => dumpInt i
  | _, .str v => dumpStr v
  | _, .arr [] => ['[', ']']
  | n, .arr (x :: r) => '[' :: (fm.opn (n + 1) ++ render fm (n + 1) x ++ renderElems fm (n + 1) r ++ fm.cls (n + 1) ++ [']'])
  | _, .obj [] => ['{', '}']
  | n, .obj ((k, v) :: r) =>
    '{' :: (fm.opn (n + 1) ++ dumpStr k ++ colon ++ render fm (n + 1) v ++ renderMems fm (n + 1) r ++ fm.cls (n + 1) ++ ['}'])
/-- the second and later items of a list: each after `,` and the separator white space -/
def renderElems (fm : Fmt) : Nat → List Val → Str
  | _, [] => []
  | n, x :: r => ',' :: (fm.sep n ++ render fm n x ++ renderElems fm n r)
/-- the second and later items of a dict -/
def renderMems (fm : Fmt) : Nat → List (Str × Val) → Str
  | _, [] => []
  | n, (k, v) :: r => ',' :: (fm.sep n ++ dumpStr k ++ colon ++ render fm n v ++ renderMems fm n r)
end

/-- insertion into a list ordered by key; among equal keys the inserted item comes first (a stable sort) -/
def insertKV (kv : Str × Val) : List (Str × Val) → List (Str × Val)
  | [] => [kv]
  | x :: r => if Text.ltStr x.1 kv.1 then x :: insertKV kv r else kv :: x :: r

/-- `sorted(dct.items())` on items with distinct keys: ascending code-point order of the keys -/
def sortKV : List (Str × Val) → List (Str × Val)
  | [] => []
  | kv :: r => insertKV kv (sortKV r)

mutual
/-- `sort_keys=True`, at every level -/
def sortKeys : Val → Val
  | .arr xs => .arr (sortKeysL xs)
  | .obj kvs => .obj (sortKV (sortKeysM kvs))
  | .null => .null
  | .bool b => .bool b
  | .int i => .int i
  | .str v => .str v
def sortKeysL : List Val → List Val
  | [] => []
  | x :: r => sortKeys x :: sortKeysL r
def sortKeysM : List (Str × Val) → List (Str × Val)
  | [] => []
  | (k, v) :: r => (k, sortKeys v) :: sortKeysM r
end

/-- `json.dumps(v, sort_keys=True)` with the white space of `fm` -/
def dumps (fm : Fmt) (v : Val) : Str := render fm 0 (sortKeys v)

/-- `json.dumps(v, indent=None, sort_keys=True)` -/
def dumpsCompact (v : Val) : Str := dumps compact v
/-- `json.dumps(v, indent=4, sort_keys=True)` -/
def dumpsIndented (v : Val) : Str := dumps indent4 v

mutual
/-- the value as the parse tree of the modelled `json.loads` -/
def toJV : Val → JV
  | .null => .null
  | .bool b => .bool b
  | .int i => .int i
  | .str v => .str v
  | .arr xs => .arr (toJVs xs)
  | .obj kvs => .obj (toJVm kvs)
def toJVs : List Val → List JV
  | [] => []
  | x :: r => toJV x :: toJVs r
def toJVm : List (Str × Val) → List (Str × JV)
  | [] => []
  | (k, v) :: r => (k, toJV v) :: toJVm r
end

mutual
/-- no dict anywhere in the value holds a key twice (what a Python value satisfies by construction) -/
def Val.NoDup : Val → Prop
  | .arr xs => NoDupL xs
  | .obj kvs => (kvs.map (·.1)).Nodup ∧ NoDupM kvs
  | _ => True
def NoDupL : List Val → Prop
  | [] => True
  | x :: r => x.NoDup ∧ NoDupL r
def NoDupM : List (Str × Val) → Prop
  | [] => True
  | (_, v) :: r => v.NoDup ∧ NoDupM r
end

/-! ### reading a value (used by the statements about the document) -/

/-- `d[k]` (`none`: not a dict, or no such key) -/
def Val.get (k : Str) : Val → Option Val
  | .obj kvs => (kvs.find? (·.1 = k)).map (·.2)
  | _ => none

/-- the items of a list (`[]` for anything else) -/
def Val.items : Val → List Val
  | .arr xs => xs
  | _ => []

/-- the keys of a dict in insertion order -/
def Val.keys : Val → List Str
  | .obj kvs => kvs.map (·.1)
  | _ => []

def Val.strOf : Val → Option Str
  | .str v => some v
  | _ => none

/-! ## `build_struct` -/

def strs (l : List Str) : Val := .arr (l.map .str)
def optStr : Option Str → Val
  | some t => .str t
  | none => .null
def optStrs : Option (List Str) → Val
  | some l => strs l
  | none => .null
/-- a note list of the database (`None` entries stay `null`) -/
def noteList (l : List (Option Str)) : Val := .arr (l.map optStr)

def kAlgorithm : Str := s "algorithm"
def kNotes : Str := s "notes"
def kKeysize : Str := s "keysize"
def kCaAlgorithm : Str := s "ca_algorithm"
def kCasize : Str := s "casize"
def kFail : Str := s "fail"
def kWarn : Str := s "warn"
def kInfo : Str := s "info"

/-- `fetch_notes`: only the levels that have something -/
def notesVal (n : Report.JNotes) : Val :=
  .obj ((match n.fail with | some l => [(kFail, noteList l)] | none => [])
     ++ (match n.warn with | some l => [(kWarn, noteList l)] | none => [])
     ++ (match n.info with | some l => [(kInfo, noteList l)] | none => []))

/-- the size fields of a `kex` entry: `if algorithm in dh_alg_sizes` -/
def kexExtra (dhSizes : List (Str × Nat)) (name : Str) : List (Str × Val) :=
  match dhSizes.find? (·.1 = name) with
  | some (_, n) => [(kKeysize, .int n)]
  | none => []

/-- the size fields of a `key` entry: `keysize` for the RSA family and `ssh-rsa-cert-v0…`, the CA fields when `ca_size > 0` -/
def keyExtra (rsaFamily : List Str) (hostKeys : List (Str × Report.HostKeyInfo)) (name : Str) : List (Str × Val) :=
  match hostKeys.find? (·.1 = name) with
  | some (_, hk) =>
    (if rsaFamily.contains name || Text.startsWith name (s "ssh-rsa-cert-v0") then [(kKeysize, .int hk.size)] else [])
    ++ (if hk.caSize > 0 then [(kCaAlgorithm, .str hk.caType), (kCasize, .int hk.caSize)] else [])
  | none => []

/-- one entry of `res['kex' | 'key' | 'enc' | 'mac']` -/
def algEntry (db : DB) (fu : Str) (cat name : Str) (extra : List (Str × Val)) : Val :=
  .obj ([(kAlgorithm, .str name), (kNotes, notesVal (Report.jsonNotes db fu cat name))] ++ extra)

/-- `res[cat]`: one entry per advertised name — every name of the list, blank ones included -/
def algList (db : DB) (fu : Str) (cat : Str) (names : List Str) (extra : Str → List (Str × Val)) : Val :=
  .arr (names.map fun n => algEntry db fu cat n (extra n))

/-- the two entries of one host-key type: `fp.sha256[7:]`, `fp.md5[4:]` -/
def fpEntries (f : Output.Fp) : List Val :=
  [.obj [(s "hostkey", .str f.ftype), (s "hash_alg", .str (s "SHA256")), (s "hash", .str (f.sha256.drop 7))],
   .obj [(s "hostkey", .str f.ftype), (s "hash_alg", .str (s "MD5")), (s "hash", .str (f.md5.drop 4))]]

def recLevelName (l : Nat) : Str := if l = 2 then s "critical" else if l = 1 then s "warning" else s "informational"
def actionName : Report.Action → Str
  | .del => s "del"
  | .add => s "add"
  | .chg => s "chg"

def recEntry (r : Report.Rec) : Val :=
  .obj [(s "name", .str r.name),
        (s "notes", .str (if r.action = .chg then s "increase modulus size to 3072 bits or larger" else []))]

/-- a dict from the groups that are not empty -/
def groups {α} (ks : List α) (name : α → Str) (sub : α → List Report.Rec) (val : α → List Report.Rec → Val) : Val :=
  .obj (ks.filterMap fun k => if (sub k).isEmpty then none else some (name k, val k (sub k)))

/-- `get_algorithm_recommendations`: `ret[level][action][alg_type]` = the list of `{name, notes}` in the order the recommendations
    are produced; a level / action / category appears only when it has an entry -/
def recsVal (recs : List Report.Rec) : Val :=
  groups [2, 1, 0] recLevelName (fun l => recs.filter (fun r => Report.recLevel r = l)) fun _ rl =>
    groups [Report.Action.del, .add, .chg] actionName (fun a => rl.filter (fun r => r.action = a)) fun _ ra =>
      groups [Report.kexC, Report.keyC, Report.encC, Report.macC] id (fun c => ra.filter (fun r => r.cat = c)) fun _ rc =>
        .arr (rc.map recEntry)

/-- the banner fields -/
structure BannerDoc where
  raw : Str                  -- `str(banner)`
  protocol : Str             -- `'.'.join(str(x) for x in banner.protocol)`
  software : Option Str
  comments : Option Str
deriving Repr, DecidableEq

def bannerVal : Option BannerDoc → Val
  | some b => .obj [(s "raw", .str b.raw), (s "protocol", .str b.protocol), (s "software", optStr b.software), (s "comments", optStr b.comments)]
  | none => .obj [(s "raw", .str []), (s "protocol", .null), (s "software", .null), (s "comments", .null)]

/-- `res['client_ip'] = client_host` or `res['target'] = target_host` -/
def whoVal (hostPort : Str) (clientHost : Option Str) : Str × Val :=
  match clientHost with
  | some c => (s "client_ip", .str c)
  | none => (s "target", .str hostPort)

/-- what `build_struct` reads besides the algorithm data -/
structure Meta where
  hostPort : Str                        -- `aconf.host + ":" + str(aconf.port)`
  clientHost : Option Str := none
  banner : Option BannerDoc := none
  fps : List Output.Fp := []            -- the non-certificate host keys by type (RSA family under `ssh-rsa`), sorted
deriving Repr

/-- the last three keys, the same in both branches -/
def tailItems (recs : List Report.Rec) (notes : List Str) : List (Str × Val) :=
  [(s "cves", .arr []), (s "recommendations", recsVal recs), (s "additional_notes", strs notes)]

/-- `build_struct(…, kex=kex, …)`: `db` is the database after `post_process_findings`, `recs` / `notes` the recommendations and
    additional notes of the report -/
def doc (rsaFamily : List Str) (fu : Str) (db : DB) (peer : Report.Peer) (recs : List Report.Rec) (notes : List Str) (m : Meta) : Val :=
  .obj ([(s "banner", bannerVal m.banner), whoVal m.hostPort m.clientHost,
         (s "compression", strs peer.compS),
         (Report.kexC, algList db fu Report.kexC peer.kex (kexExtra peer.dhSizes)),
         (Report.keyC, algList db fu Report.keyC peer.key (keyExtra rsaFamily peer.hostKeys)),
         (Report.encC, algList db fu Report.encC peer.encS (fun _ => [])),
         (Report.macC, algList db fu Report.macC peer.macS (fun _ => [])),
         (s "fingerprints", .arr (m.fps.flatMap fpEntries))]
        ++ tailItems recs notes)

/-- the document of a standard audit of an SSH-2 peer, from the same inputs as `Report.report` -/
def docOfAudit (rsaFamily : List Str) (fu : Str) (db0 : DB) (peer : Report.Peer) (clientAudit : Bool) (bannerSoftware : Option Str)
    (software : Option Version.Software) (rateNotes : Str) (m : Meta) : Val :=
  let r := Report.report rsaFamily db0 peer clientAudit bannerSoftware software rateNotes
  doc rsaFamily fu (Report.postProcess db0 peer clientAudit bannerSoftware rateNotes).db peer r.recs r.notes m

/-- the else-branch (`kex is None`): an SSH-1 peer, or no peer at all -/
def docElse (d : Ssh1Report.Doc) : Val :=
  .obj ([(s "banner", .obj [(s "raw", .str d.bannerRaw), (s "protocol", optStr d.bannerProtocol), (s "software", optStr d.bannerSoftware),
                            (s "comments", optStr d.bannerComments)])]
        ++ (match d.clientIp with | some c => [(s "client_ip", .str c)] | none => [])
        ++ (match d.target with | some t => [(s "target", .str t)] | none => [])
        ++ [(Report.keyC, strs d.key), (Report.encC, optStrs d.enc), (Report.autC, optStrs d.aut),
            (s "fingerprints", .arr [.obj [(s "type", .str d.fpType), (s "fp", optStr d.fp)]])]
        ++ tailItems d.recs d.notes)

/-! ### reading an algorithm entry back -/

/-- `entry["algorithm"]` -/
def entryName (entry : Val) : Option Str := (entry.get kAlgorithm).bind Val.strOf

/-- the texts of `entry["notes"][level]` (`null` items skipped; `[]` when the level is absent) -/
def notesAt (entry : Val) (level : Str) : List Str :=
  match (entry.get kNotes).bind (·.get level) with
  | some v => v.items.filterMap Val.strOf
  | none => []

/-- the names `d[cat]` lists, in order -/
def docNames (d : Val) (cat : Str) : List Str :=
  match d.get cat with
  | some l => l.items.filterMap entryName
  | none => []

/-- the entries of `d[cat]` -/
def docEntries (d : Val) (cat : Str) : List Val :=
  match d.get cat with
  | some l => l.items
  | none => []

/-- `json.dumps(build_struct(…), indent=4 if aconf.json_print_indent else None, sort_keys=True)` -/
def docText (indent : Bool) (v : Val) : Str := if indent then dumpsIndented v else dumpsCompact v

/-- the presentation input with the two document texts filled in -/
def withDoc (inp : Output.Input) (v : Val) : Output.Input :=
  { inp with jsonCompact := dumpsCompact v, jsonIndented := dumpsIndented v }

end JsonDoc
end SshAudit
