"""Shared adapters for the policy properties (C05, C06): token encoding of policies / peers for the
Lean driver, construction of the real Policy / SSH2_Kex objects, an independent transcription of
the README matching rules (the oracle's `satisfied`)."""
from common import tstr, tstrs, toptstr, toptstrs, tbool

STRICT_S = 'kex-strict-s-v00@openssh.com'
STRICT_C = 'kex-strict-c-v00@openssh.com'


def t_hks(d):
    if d is None:
        return '~'
    if not d:
        return '_'
    return ';'.join('%s:%d:%s:%d' % (tstr(k), v['hostkey_size'], tstr(v.get('ca_key_type', '')), v.get('ca_key_size', 0)) for k, v in d.items())


def t_dh(d):
    if d is None:
        return '~'
    if not d:
        return '_'
    return ';'.join('%s:%d' % (tstr(k), v) for k, v in d.items())


def policy_tokens(p):
    return ' '.join([toptstr(p.get('banner')), toptstrs(p.get('compressions')), toptstrs(p.get('host_keys')), toptstrs(p.get('optional_host_keys')),
                     toptstrs(p.get('kex')), toptstrs(p.get('ciphers')), toptstrs(p.get('macs')), t_hks(p.get('hostkey_sizes')), t_dh(p.get('dh_modulus_sizes')),
                     tbool(p.get('subset', False)), tbool(p.get('larger', False))])


def peer_tokens(q):
    return ' '.join([tstr(q['banner_str']), tbool(q.get('has_kex', True)), tstrs(q['comp']), tstrs(q['key']), tstrs(q['kex']), tstrs(q['enc']),
                     tstrs(q['mac']), t_hks(q['host_keys']), t_dh(q['dh'])])


class FakeBanner:
    def __init__(self, s):
        self.s = s

    def __str__(self):
        return self.s


def mk_policy(p):
    from ssh_audit.policy import Policy
    import copy
    pol = Policy(manual_load=True)
    pol._name = 'test'
    pol._version = '1'
    pol._banner = p.get('banner')
    pol._compressions = copy.deepcopy(p.get('compressions'))
    pol._host_keys = copy.deepcopy(p.get('host_keys'))
    pol._optional_host_keys = copy.deepcopy(p.get('optional_host_keys'))
    pol._kex = copy.deepcopy(p.get('kex'))
    pol._ciphers = copy.deepcopy(p.get('ciphers'))
    pol._macs = copy.deepcopy(p.get('macs'))
    pol._hostkey_sizes = copy.deepcopy(p.get('hostkey_sizes'))
    pol._dh_modulus_sizes = copy.deepcopy(p.get('dh_modulus_sizes'))
    pol._allow_algorithm_subset_and_reordering = p.get('subset', False)
    pol._allow_larger_keys = p.get('larger', False)
    # client policies are evaluated by the same rules (a third of the policies built here are, chosen by a hash of the policy so that a replay rebuilds the same one)
    import hashlib
    import json as _json
    pol._server_policy = p.get('server_policy', hashlib.sha1(_json.dumps(p, sort_keys=True, default=str).encode()).digest()[0] % 3 != 0)
    pol._normalize_hostkey_sizes()
    return pol


def mk_kex(q):
    from ssh_audit.ssh2_kex import SSH2_Kex
    from ssh_audit.ssh2_kexparty import SSH2_KexParty
    from ssh_audit.outputbuffer import OutputBuffer
    if not q.get('has_kex', True):
        return None
    party = SSH2_KexParty(list(q['enc']), list(q['mac']), list(q['comp']), [''])
    # the other direction of the same KEXINIT (client-to-server) carries different lists on purpose: policies are evaluated on the server-to-client lists,
    # for server and client policies alike, and must not look at these
    cparty = SSH2_KexParty(q.get('enc_c', ['c2s-only-cipher@example.org'] + list(reversed(q['enc']))[:2]), q.get('mac_c', ['c2s-only-mac@example.org'] + list(reversed(q['mac']))[:1]),
                           q.get('comp_c', ['zlib', 'c2s-only']), [''])
    kex = SSH2_Kex(OutputBuffer(), b'\0' * 16, list(q['kex']), list(q['key']), cparty, party, False, 0)
    for k, v in q['host_keys'].items():
        kex.set_host_key(k, b'blob', v['hostkey_size'], v.get('ca_key_type', ''), v.get('ca_key_size', 0))
    for k, v in q['dh'].items():
        kex.set_dh_modulus_size(k, v)
    return kex


def impl_evaluate(p, q, twice=False):
    pol = mk_policy(p)
    kex = mk_kex(q)
    b = FakeBanner(q['banner_str'])
    if twice:
        pol.evaluate(b, kex)
    passed, errs, err_str = pol.evaluate(b, kex)
    return {'passed': passed, 'errors': [dict(e) for e in errs]}, err_str


# ---------------------------------------------------------------- the documented rules, transcribed independently

def size_ok(larger, actual, expected):
    return actual >= expected if larger else actual == expected


def violated(p, q):
    """List of (field) of the violated conjuncts of the README matching rules, in evaluation order."""
    v = []
    sub, larger = p.get('subset', False), p.get('larger', False)
    if p.get('banner') is not None and q['banner_str'] != p['banner']:
        v.append('Banner')
    if not q.get('has_kex', True):
        return v
    if p.get('compressions') is not None and q['comp'] != p['compressions']:
        v.append('Compression')
    if p.get('host_keys') is not None:
        if sub:
            if any(x not in p['host_keys'] for x in q['key']):
                v.append('Host keys')
        else:
            opt = p.get('optional_host_keys')
            pruned = [x for x in q['key'] if opt is None or x not in opt]
            if pruned != p['host_keys']:
                v.append('Host keys')
    if p.get('hostkey_sizes') is not None:
        for t in sorted(p['hostkey_sizes']):
            e = p['hostkey_sizes'][t]
            if t in q['host_keys']:
                a = q['host_keys'][t]
                if not size_ok(larger, a['hostkey_size'], e['hostkey_size']):
                    v.append('Host key (%s) sizes' % t)
                if e.get('ca_key_type', '') != '' and e.get('ca_key_size', 0) > 0:
                    if a.get('ca_key_type', '') != e['ca_key_type']:
                        v.append('CA signature type')
                    elif not size_ok(larger, a.get('ca_key_size', 0), e['ca_key_size']):
                        v.append('CA signature size (%s)' % a.get('ca_key_type', ''))
    if p.get('kex') is not None:
        if sub:
            if any(x not in p['kex'] for x in q['kex']):
                v.append('Key exchanges')
            if (STRICT_S in p['kex'] and STRICT_S not in q['kex']) or (STRICT_C in p['kex'] and STRICT_C not in q['kex']):
                v.append('Key exchanges')
        elif q['kex'] != p['kex']:
            v.append('Key exchanges')
    for fld, pk, qk in (('Ciphers', 'ciphers', 'enc'), ('MACs', 'macs', 'mac')):
        if p.get(pk) is not None:
            if sub:
                if any(x not in p[pk] for x in q[qk]):
                    v.append(fld)
            elif q[qk] != p[pk]:
                v.append(fld)
    if p.get('dh_modulus_sizes') is not None:
        for t in sorted(p['dh_modulus_sizes']):
            if t in q['dh'] and not size_ok(larger, q['dh'][t], p['dh_modulus_sizes'][t]):
                v.append('Group exchange (%s) modulus sizes' % t)
    return v


def expected_actual_ok(p, q, e):
    """each error names its field with the policy's expected and the peer's actual value"""
    f = e['mismatched_field']
    tab = {'Host keys': ('host_keys', 'key'), 'Key exchanges': ('kex', 'kex'), 'Ciphers': ('ciphers', 'enc'), 'MACs': ('macs', 'mac'),
           'Compression': ('compressions', 'comp')}
    if f in tab:
        pk, qk = tab[f]
        return e['expected_required'] == p[pk] and e['actual'] == q[qk]
    if f == 'Banner':
        return e['expected_required'] == [p['banner']] and e['actual'] == [q['banner_str']]
    if f.startswith('Host key (') and f.endswith(') sizes'):
        t = f[len('Host key ('):-len(') sizes')]
        if t not in (p.get('hostkey_sizes') or {}) or t not in q['host_keys']:
            return False      # an error about a key type the policy does not list / the peer does not present
        return e['expected_required'] == [str(p['hostkey_sizes'][t]['hostkey_size'])] and e['actual'] == [str(q['host_keys'][t]['hostkey_size'])]
    if f.startswith('Group exchange (') and f.endswith(') modulus sizes'):
        t = f[len('Group exchange ('):-len(') modulus sizes')]
        if t not in (p.get('dh_modulus_sizes') or {}) or t not in q['dh']:
            return False      # an error about an algorithm the policy does not list / whose modulus was never measured (seed C06-8)
        return e['expected_required'] == [str(p['dh_modulus_sizes'][t])] and e['actual'] == [str(q['dh'][t])]
    if f == 'CA signature type' or f.startswith('CA signature size ('):
        return len(e['expected_required']) == 1 and len(e['actual']) == 1
    return False
