"""C05 extension — the whole policy-file *text* path (Policy.__init__ parser, Policy.create).

Theorems: SshAudit.Props.C05File (parse_create: parsing the text create writes gives exactly `policyOf peer` + name/version;
made_text_policy_passes / made_text_policy_drift_*: the C05 statements for the text path; rejected line shapes; comments and blank
lines; repeated directives; json round trip of the two size maps; strip/split lemmas).
Tie: `policyfile.create` / `policyfile.parse` (+ `policyfile.loads` / `dumpstr` / `pyint` / `unquote` for the pieces) compared
with the real Policy.create / Policy(policy_data=…) / json / int on (a) texts made by the real create from generated peers,
(b) hand-written policies exercising every directive, (c) mutated / malformed texts.
Oracle (independent of the model): (a) the made text loads, the loaded record is the peer's lists / sizes, and it passes on the
same peer with no errors; (b) by-hand expectations; (c) each malformed shape is rejected with the documented error and the
harmless rewrites (comments, blank lines, CRLF, white space around '=' and ',') do not change the loaded policy.
"""
import contextlib
import copy
import io
import json
from datetime import date

from common import Coverage, tstr, tbool
from props.policy_common import peer_tokens, mk_kex, FakeBanner

MODULE = 'SshAudit.Props.C05File'
NAMESPACE = 'SshAudit.C05File'
THEOREMS = [
    # str.strip / split / join
    'stripU_spec', 'stripU_decomp', 'stripU_idem', 'splitKV_general', 'splitOn_join_newline', 'parseAlgs_stripU', 'parseAlgs_join',
    # json.loads (json.dumps d) = d on the shapes create writes (strings: every Unicode scalar value)
    'parseStrBody_esc', 'parseStrBody_dumpStr', 'parseNum_natToStr', 'parseValue_dumpHKS', 'loads_dumpDict', 'loads_dumpHostKeys', 'loads_dumpDh',
    'dictOf_nodup', 'hksOfJsonTop_dump', 'dhOfJson_dump',
    # the parser on its line shapes
    'step_blank', 'step_comment', 'step_noEq', 'step_kv', 'step_unknown_key', 'step_unquoted', 'parseLines_skip_comment_or_blank',
    'parse_insert_comment_or_blank', 'last_list_directive_wins', 'last_name_wins', 'flags_sticky', 'parse_missing_name', 'parse_missing_version',
    # create -> parse
    'createLines_noNl', 'lines_of_create', 'parseLines_createLines', 'parse_create_with', 'parse_create', 'parse_create_client', 'madeName_plain',
    'made_text_policy_passes', 'made_text_policy_drift_kex', 'made_text_policy_drift_hostkeys', 'made_text_policy_drift_ciphers',
    'made_text_policy_drift_macs', 'made_text_policy_drift_sizes', 'realistic_peer_wf',
]

HOW = 'Policy.create / Policy(policy_data=…) / evaluate on the real code (harness/props/ext/C05_file.py)'
WARN_MARK = 'WARNING: this policy is using deprecated features'
USPACE = [0x09, 0x0a, 0x0b, 0x0c, 0x0d, 0x1c, 0x1d, 0x1e, 0x1f, 0x20, 0x85, 0xa0, 0x1680] + list(range(0x2000, 0x200b)) + [0x2028, 0x2029, 0x202f, 0x205f, 0x3000]


# ---------------------------------------------------------------- the real code, canonicalised

def policy_struct(pol):
    """the same projection as harness/props/C05.py:policy_struct"""
    hs = None
    if pol._hostkey_sizes is not None:
        hs = [[k, v['hostkey_size'], v.get('ca_key_type', ''), v.get('ca_key_size', 0)] for k, v in pol._hostkey_sizes.items()]
    dh = None if pol._dh_modulus_sizes is None else [[k, v] for k, v in pol._dh_modulus_sizes.items()]
    return {'banner': pol._banner, 'compressions': pol._compressions, 'host_keys': pol._host_keys, 'optional_host_keys': pol._optional_host_keys,
            'kex': pol._kex, 'ciphers': pol._ciphers, 'macs': pol._macs, 'hostkey_sizes': hs, 'dh_modulus_sizes': dh,
            'subset': pol._allow_algorithm_subset_and_reordering, 'larger': pol._allow_larger_keys}


def representable(st):
    """is the loaded record one the structured model can hold (sizes: non-negative ints, CA type: text)?"""
    def nat(x):
        return isinstance(x, int) and not isinstance(x, bool) and x >= 0
    for e in st['hostkey_sizes'] or []:
        if not (isinstance(e[0], str) and nat(e[1]) and isinstance(e[2], str) and nat(e[3])):
            return False
    for e in st['dh_modulus_sizes'] or []:
        if not (isinstance(e[0], str) and nat(e[1])):
            return False
    return True


def exn_enum(e):
    msg = str(e)
    if isinstance(e, json.JSONDecodeError):
        return {'err': 'json', 'detail': []}
    if isinstance(e, UnboundLocalError):
        return {'err': 'unbound', 'detail': []}
    if isinstance(e, ValueError):
        for pre, kind in (('could not parse line: ', 'noeq'), ('invalid field found in policy: ', 'badfield')):
            if msg.startswith(pre):
                return {'err': kind, 'detail': [msg[len(pre):]]}
        pre, mid = 'the value for the ', ' field must be enclosed in quotes: '
        if msg.startswith(pre) and mid in msg:
            k, v = msg[len(pre):].split(mid, 1)
            return {'err': 'unquoted', 'detail': [k, v]}
        if msg.startswith('invalid literal for int() with base 10: '):
            return {'err': 'badint', 'detail': [msg[len('invalid literal for int() with base 10: '):]]}
        if msg == 'The policy does not have a name field.':
            return {'err': 'noname', 'detail': []}
        if msg == 'The policy does not have a version field.':
            return {'err': 'noversion', 'detail': []}
        return {'err': 'value', 'detail': [msg]}
    if isinstance(e, TypeError):
        return {'err': 'type', 'detail': []}
    return {'err': 'other:' + type(e).__name__, 'detail': []}


def impl_parse(text):
    """Policy(policy_data=text) -> canonical record / error enum"""
    from ssh_audit.policy import Policy
    buf = io.StringIO()
    try:
        with contextlib.redirect_stdout(buf):
            pol = Policy(policy_data=text)
    except Exception as e:  # noqa
        return exn_enum(e), None
    try:
        st = policy_struct(pol)
        if not representable(st):
            raise TypeError('not representable')
    except Exception:  # noqa
        return {'err': 'out-of-model', 'detail': []}, pol
    return {'ok': {'name': pol._name, 'version': pol._version, 'server': pol._server_policy, 'warnings': buf.getvalue().count(WARN_MARK), 'policy': st}}, pol


def canon_model(m):
    """the model's answer in the shape of impl_parse (int() messages print the repr of the text)"""
    if m.get('err') == 'badint' and m.get('detail'):
        return {'err': 'badint', 'detail': [repr(m['detail'][0])]}
    return m


def today_str():
    return date.today().strftime('%Y/%m/%d')


def impl_create(q, source, client_audit):
    """(today, text) from the real Policy.create"""
    from ssh_audit.policy import Policy
    for _ in range(3):
        t0 = today_str()
        text = Policy.create(source, FakeBanner(q['banner_str']), mk_kex(q), client_audit)
        if today_str() == t0:
            return t0, text
    return t0, text


# ---------------------------------------------------------------- independent expectations

def in_quantifier(q):
    """the property's quantifier for the text path: non-empty lists of names without ',' / newline / leading or trailing white space"""
    if not q.get('has_kex', True):
        return False
    for k in ('key', 'kex', 'enc', 'mac'):
        if not q[k]:
            return False
        for n in q[k]:
            if ',' in n or '\n' in n or n != n.strip():
                return False
    return '\n' not in q['banner_str'] and all('\n' not in n for n in q['comp'])


def expected_made(q, source, today, client_audit):
    """what the loaded -M policy has to be, straight from the peer (README: the policy lists what the target offers)"""
    hs = None
    if q['host_keys']:
        hs = []
        for k, v in q['host_keys'].items():
            if v.get('ca_key_type', '') == '' or v.get('ca_key_size', 0) == 0:
                hs.append([k, v['hostkey_size'], '', 0])
            else:
                hs.append([k, v['hostkey_size'], v['ca_key_type'], v['ca_key_size']])
    dh = [[k, v] for k, v in q['dh'].items()] if q['dh'] else None
    return {'name': 'Custom Policy (based on %s on %s)' % (source, today), 'version': '1', 'server': not client_audit, 'warnings': 0,
            'policy': {'banner': None, 'compressions': None, 'host_keys': q['key'], 'optional_host_keys': None, 'kex': q['kex'], 'ciphers': q['enc'],
                       'macs': q['mac'], 'hostkey_sizes': hs, 'dh_modulus_sizes': dh, 'subset': False, 'larger': False}}


def check_roundtrip(q, source, client_audit):
    """the (a) oracle on one peer: list of (what, observed, expected)"""
    try:
        today, text = impl_create(q, source, client_audit)
    except Exception as e:  # noqa
        return [('create_raises', repr(e), 'Policy.create returns the policy text')], ''
    got, pol = impl_parse(text)
    bad = []
    if 'ok' not in got:
        return [('does_not_load', got, 'the -M output loads without error')], text
    want = expected_made(q, source, today, client_audit)
    for k in ('name', 'version', 'server', 'warnings'):
        if got['ok'][k] != want[k]:
            bad.append(('record_differs:' + k, got['ok'][k], want[k]))
    for k, v in want['policy'].items():
        if got['ok']['policy'][k] != v:
            bad.append(('record_differs:' + k, got['ok']['policy'][k], v))
    pol2 = copy.deepcopy(pol)
    passed, errs, _ = pol2.evaluate(FakeBanner(q['banner_str']), mk_kex(q))
    if not passed or errs:
        bad.append(('fails_on_own_peer', {'passed': passed, 'errors': [dict(e) for e in errs]}, 'passes with no errors'))
    return bad, text


def rec(name='x', version='1', server=True, warnings=0, **pol):
    p = {'banner': None, 'compressions': None, 'host_keys': None, 'optional_host_keys': None, 'kex': None, 'ciphers': None, 'macs': None,
         'hostkey_sizes': None, 'dh_modulus_sizes': None, 'subset': False, 'larger': False}
    p.update(pol)
    return {'ok': {'name': name, 'version': version, 'server': server, 'warnings': warnings, 'policy': p}}


def err(kind, *detail):
    return {'err': kind, 'detail': list(detail)}


NV = 'name = "x"\nversion = 1\n'

# (case name, text, what the documented format requires)
HAND = [
    ('minimal', 'name = "x"\nversion = 1', rec()),
    ('minimal-trailing-newline', NV, rec()),
    ('all-directives',
     '# a full policy\nname = "Full"\nversion = 3\nbanner = "SSH-2.0-OpenSSH_9.9"\ncompressions = none, zlib@openssh.com\n'
     'host keys = ssh-ed25519, rsa-sha2-512\noptional host keys = ssh-ed25519-cert-v01@openssh.com\nkey exchanges = curve25519-sha256, kex-strict-s-v00@openssh.com\n'
     'ciphers = chacha20-poly1305@openssh.com\nmacs = hmac-sha2-256-etm@openssh.com, umac-128-etm@openssh.com\n'
     'host_key_sizes = {"ssh-ed25519": {"hostkey_size": 256}, "rsa-sha2-512": {"hostkey_size": 3072, "ca_key_type": "ssh-rsa", "ca_key_size": 4096}}\n'
     'dh_modulus_sizes = {"diffie-hellman-group-exchange-sha256": 3072}\nclient policy = true\nallow_algorithm_subset_and_reordering = true\nallow_larger_keys = true\n',
     rec(name='Full', version='3', server=False, banner='SSH-2.0-OpenSSH_9.9', compressions=['none', 'zlib@openssh.com'], host_keys=['ssh-ed25519', 'rsa-sha2-512'],
         optional_host_keys=['ssh-ed25519-cert-v01@openssh.com'], kex=['curve25519-sha256', 'kex-strict-s-v00@openssh.com'], ciphers=['chacha20-poly1305@openssh.com'],
         macs=['hmac-sha2-256-etm@openssh.com', 'umac-128-etm@openssh.com'],
         hostkey_sizes=[['ssh-ed25519', 256, '', 0], ['rsa-sha2-512', 3072, 'ssh-rsa', 4096]], dh_modulus_sizes=[['diffie-hellman-group-exchange-sha256', 3072]],
         subset=True, larger=True)),
    ('legacy-sizes',
     NV + 'hostkey_size_rsa-sha2-512 = 3072\nhostkey_size_ssh-ed25519 = 256\ncakey_size_rsa-sha2-512-cert-v01@openssh.com = 4096\n'
     'cakey_size_ssh-ed25519-cert-v01@openssh.com = 256\ndh_modulus_size_diffie-hellman-group-exchange-sha256 = 2048\n',
     rec(warnings=5, hostkey_sizes=[['rsa-sha2-512', 3072, '', 0], ['ssh-ed25519', 256, '', 0], ['rsa-sha2-512-cert-v01@openssh.com', 256, 'ssh-rsa', 4096],
                                    ['ssh-ed25519-cert-v01@openssh.com', 256, 'ssh-ed25519', 256]],
         dh_modulus_sizes=[['diffie-hellman-group-exchange-sha256', 2048]])),
    ('legacy-int-forms', NV + 'hostkey_size_a = +1_024\ndh_modulus_size_g = 0002048\n', rec(warnings=2, hostkey_sizes=[['a', 1024, '', 0]], dh_modulus_sizes=[['g', 2048]])),
    ('legacy-after-json', NV + 'host_key_sizes = {"a": {"hostkey_size": 1}}\nhostkey_size_b = 2\nhostkey_size_a = 3\ndh_modulus_sizes = {"g": 1}\ndh_modulus_size_h = 2\n',
     rec(warnings=3, hostkey_sizes=[['a', 3, '', 0], ['b', 2, '', 0]], dh_modulus_sizes=[['g', 1], ['h', 2]])),
    ('json-replaces-legacy', NV + 'hostkey_size_b = 2\nhost_key_sizes = {"a": {"hostkey_size": 1}}\ndh_modulus_size_h = 2\ndh_modulus_sizes = {"g": 1}\n',
     rec(warnings=2, hostkey_sizes=[['a', 1, '', 0]], dh_modulus_sizes=[['g', 1]])),
    ('quotes-and-escapes', 'name = "a \\"quoted\\" name\\nsecond line"\nversion = 1\nbanner = "SSH-2.0-\\"x\\" \\\\n"\n',
     rec(name='a "quoted" name\nsecond line', banner='SSH-2.0-"x" \\\n')),
    ('inner-quotes-kept', 'name = "a"b"\nversion = 1\n', rec(name='a"b')),
    ('empty-quoted', 'name = ""\nversion = 1\nbanner = ""\n', rec(name='', banner='')),
    ('blank-values', 'name =\nversion =\nbanner = \n', rec(name='', version='', banner='')),
    ('one-char-value', 'name = "\nversion = 1\nbanner = x\n', rec(name='', banner='')),
    ('comments-blank-crlf', '\r\n# comment = 1\r\n   # indented comment\r\n\r\n \t \r\nname = "x"\r\n#name = "y"\r\nversion = 1\r\n\r\nhost keys = a, b\r\n', rec(host_keys=['a', 'b'])),
    ('repeated-directives', 'name = "first"\nversion = 1\nhost keys = a\nname = "second"\nhost keys = b, c\nversion = 2\nbanner = "p"\nbanner = "q"\n'
     'host_key_sizes = {"a": {"hostkey_size": 1}}\nhost_key_sizes = {"b": {"hostkey_size": 2}}\n',
     rec(name='second', version='2', host_keys=['b', 'c'], banner='q', hostkey_sizes=[['b', 2, '', 0]])),
    ('flags-sticky', NV + 'allow_larger_keys = true\nallow_larger_keys = false\nallow_algorithm_subset_and_reordering = true\nallow_algorithm_subset_and_reordering = no\n'
     'client policy = true\nclient policy = false\n', rec(server=False, subset=True, larger=True)),
    ('flags-case', NV + 'allow_larger_keys = TRUE\nallow_algorithm_subset_and_reordering = True\nclient policy = tRuE\n', rec(server=False, subset=True, larger=True)),
    ('flags-other-values', NV + 'allow_larger_keys = yes\nallow_algorithm_subset_and_reordering = 1\nclient policy = on\n', rec()),
    ('spaces-around-eq-and-comma', '  name   =    "x"   \n\tversion\t=\t1\t\nhost keys=a,b\nkey exchanges   =   a ,  b,c  ,d\nciphers =a\n', rec(host_keys=['a', 'b'], kex=['a', 'b', 'c', 'd'], ciphers=['a'])),
    ('eq-in-values', NV + 'key exchanges = gss-gex-sha1-toWM5Slw5Ew8Mqkay+al2g==, a=b, =\nversion = 2 = two\n', rec(version='2 = two', kex=['gss-gex-sha1-toWM5Slw5Ew8Mqkay+al2g==', 'a=b', '='])),
    ('empty-list-values', NV + 'macs =\nciphers = ,\nhost keys = a,,b\n', rec(macs=[''], ciphers=['', ''], host_keys=['a', '', 'b'])),
    ('json-forms', NV + 'host_key_sizes = { "a\\u0062" : {"hostkey_size":1 , "ca_key_type":"ssh-rsa","ca_key_size":2, "extra": [1, 2.5, null, true]} ,\t"ab": {"hostkey_size": 7}, "\\u00e9\\ud83d\\ude00": {"hostkey_size": 9} }\n'
     'dh_modulus_sizes = {"g": 1, "h": 2, "g": 3}\n', rec(hostkey_sizes=[['ab', 7, '', 0], ['é\U0001F600', 9, '', 0]], dh_modulus_sizes=[['g', 3], ['h', 2]])),
    ('json-null-and-empty', NV + 'host_key_sizes = {"a": {"hostkey_size": 1}}\nhost_key_sizes = null\ndh_modulus_sizes = {}\n', rec(dh_modulus_sizes=[])),
    ('json-empty-dict', NV + 'host_key_sizes = {}\n', rec(hostkey_sizes=[])),
    ('non-ascii', 'name = "Política 鍵"\nversion = ①\nhost keys = é-key, ключ\n', rec(name='Política 鍵', version='①', host_keys=['é-key', 'ключ'])),
    ('unicode-white-space', '\xa0name\u2003=\u3000"x"\u3000\nversion\x1f=\x1c1\x85\nhost keys = a\u2009,\xa0b\n', rec(host_keys=['a', 'b'])),
    # rejected shapes
    ('no-eq', NV + 'host keys a, b\n', err('noeq', 'host keys a, b')),
    ('no-eq-first', 'garbage\n' + NV, err('noeq', 'garbage')),
    ('unknown-key', NV + 'hostkeys = a\n', err('badfield', 'hostkeys = a')),
    ('unknown-key-case', 'Name = "x"\nversion = 1\n', err('badfield', 'Name = "x"')),
    ('unknown-key-empty', NV + '= a\n', err('badfield', '= a')),
    ('unknown-key-prefix-only', NV + 'hostkey_size = 1\n', err('badfield', 'hostkey_size = 1')),
    ('unquoted-name', 'name = My Policy\nversion = 1\n', err('unquoted', 'name', 'My Policy')),
    ('unquoted-banner-open', NV + 'banner = "SSH-2.0-x\n', err('unquoted', 'banner', '"SSH-2.0-x')),
    ('unquoted-banner-close', NV + 'banner = SSH-2.0-x"\n', err('unquoted', 'banner', 'SSH-2.0-x"')),
    ('missing-name', 'version = 1\nhost keys = a\n', err('noname')),
    ('missing-version', 'name = "x"\nhost keys = a\n', err('noversion')),
    ('missing-both', '# nothing\n\n', err('noname')),
    ('empty-text', '', err('noname')),
    ('commented-name', '# name = "x"\nversion = 1\n', err('noname')),
    ('legacy-bad-int', NV + 'hostkey_size_a = 30x72\n', err('badint', repr('30x72'))),
    ('legacy-bad-int-empty', NV + 'dh_modulus_size_a =\n', err('badint', repr(''))),
    ('legacy-bad-int-underscore', NV + 'cakey_size_a = 1__0\n', err('badint', repr('1__0'))),
    ('cakey-before-hostkey', NV + 'cakey_size_a = 256\n', err('unbound')),
    ('broken-json-hk', NV + 'host_key_sizes = {"a": {"hostkey_size": 1}\n', err('json')),
    ('broken-json-dh', NV + 'dh_modulus_sizes = {"a": }\n', err('json')),
    ('broken-json-quotes', NV + "dh_modulus_sizes = {'a': 1}\n", err('json')),
    ('broken-json-trailing-comma', NV + 'dh_modulus_sizes = {"a": 1,}\n', err('json')),
    ('broken-json-empty', NV + 'host_key_sizes =\n', err('json')),
    ('json-not-dict-of-dicts', NV + 'host_key_sizes = {"a": 3072}\n', err('type')),
    ('json-number', NV + 'host_key_sizes = 3072\n', err('type')),
    ('json-inner-string', NV + 'host_key_sizes = {"a": "3072"}\n', err('type')),
    ('json-inner-list', NV + 'host_key_sizes = {"a": {"hostkey_size": 1}, "b": ["hostkey_size", 1]}\n', err('type')),
    ('json-inner-null', NV + 'host_key_sizes = {"a": null}\n', err('type')),
    ('first-error-wins', 'bogus = 1\nname = x\n', err('badfield', 'bogus = 1')),
    ('line-error-before-missing-name', 'version = 1\nbanner = x y\n', err('unquoted', 'banner', 'x y')),
]


# ---------------------------------------------------------------- generators

def gen_file_peer(r, db):
    from props.C05 import gen_peer
    q = gen_peer(r, db)
    k = r.random()
    if k < 0.25:      # non-ASCII / JSON-escaped names, also as keys of the size maps
        pool = ['\xe9-kex@example.com', '\u043a\u043b\u044e\u0447', '\u9375@\u4f8b', 'k\U0001F600x', 'q"uote', 'back\\slash', 'a\tb', 'del\x7f', 'nul\x00x', '\xe9', '\\n', '\\"', 'x\ud7ff', '\ue000\uffff']
        for key in ('key', 'kex', 'enc', 'mac'):
            if r.random() < 0.6:
                q[key] = list(q[key])
                q[key][r.randrange(len(q[key]))] = r.choice(pool)
        for n in list(q['key'])[:2]:
            if n not in q['host_keys'] and r.random() < 0.7:
                q['host_keys'][n] = {'hostkey_size': r.choice([256, 3072, 0, 10 ** 12]), 'ca_key_type': r.choice(['', 'ssh-rsa', 'é"\\']), 'ca_key_size': r.choice([0, 4096])}
        for n in list(q['kex'])[:2]:
            if r.random() < 0.5:
                q['dh'][n] = r.choice([2048, 0, 1, 10 ** 9])
    if r.random() < 0.15:
        q['banner_str'] = r.choice(['SSH-2.0-OpenSSH_9.9p1 Ubuntu-3', 'SSH-1.99-x "y" = z', 'None', '', 'SSH-2.0-é', '# not a comment', 'SSH-2.0-a\\nb'])
    return q


def gen_outside_peer(r, db):
    """peers outside the quantifier (for the correspondence only): names with ',', white space, newlines; empty lists; no kex"""
    q = gen_file_peer(r, db)
    k = r.choice(['comma', 'space', 'newline', 'emptylist', 'nokex', 'uspace', 'banner-nl'])
    key = r.choice(['key', 'kex', 'enc', 'mac'])
    if k == 'comma':
        q[key] = q[key] + ['a,b']
    elif k == 'space':
        q[key] = [' lead'] + q[key] + ['trail ', 'in ner']
    elif k == 'newline':
        q[key] = q[key] + ['new\nline = 1', '\n']
    elif k == 'emptylist':
        q[key] = []
    elif k == 'nokex':
        q['has_kex'] = False
    elif k == 'uspace':
        q[key] = [' x', 'y '] + q[key]
    else:
        q['banner_str'] = 'SSH-2.0-x\nname = "injected"'
    return q, k


def gen_source(r):
    return r.choice(['target.example', '192.0.2.7', '[2001:db8::1]:2222', 'host-1.example.com', 'h', 'a b', 'café.example'])


def gen_odd_source(r):
    return r.choice(['a"b', 'a\\"b', 'x\\ny', 'x\\\\n', 'two\nlines', '', '"', '\\', ' = # ', 'q\\'])


def gen_json_text(r, depth=0):
    k = r.random()
    if depth > 2 or k < 0.35:
        return r.choice(['0', '1', '-1', '3072', '-0', '12345678901234567890', '1.5', '1e3', '-2.5E-2', 'true', 'false', 'null', '"x"', '""', '"a\\nb"', '"\\u00e9"', '"\\ud83d\\ude00"',
                         '"\\/\\b\\f\\r\\t\\\\\\""', '"é"', '"\x7f"', 'NaN', 'Infinity', '-Infinity', '01', '1.', '.5', '-', '+1', '"\\x"', '"\\u12"', '"\\u12G4"', '"\t"', '"unterminated',
                         'tru', 'nul', 'True', "'a'", '"\\uDC00"', '"\\ud83dx"', '"\\ud83d\\u0041"', '1e', '1e+', '0.0', '00', '-01', '0e0', '1E5', '9' * 30])
    ws = lambda: r.choice(['', '', ' ', '  ', '\t', '\n', '\r\n'])
    if k < 0.7:
        n = r.choice([0, 1, 2, 3])
        keys = [r.choice(['"a"', '"b"', '"a"', '"hostkey_size"', '"ca_key_type"', '"\\u0061"', '""', 'a', '1']) for _ in range(n)]
        body = ','.join(ws() + kk + ws() + ':' + ws() + gen_json_text(r, depth + 1) + ws() for kk in keys)
        return '{' + (body if n else ws()) + r.choice(['}', '}', '}', '', ',}', '} x'])
    n = r.choice([0, 1, 2, 3])
    body = ','.join(ws() + gen_json_text(r, depth + 1) + ws() for _ in range(n))
    return '[' + (body if n else ws()) + r.choice([']', ']', ']', '', ',]'])


def canon_json(v):
    if v is None or isinstance(v, bool):
        return v
    if isinstance(v, int):
        return v
    if isinstance(v, float):
        return 'float'
    if isinstance(v, str):
        return ['s', v]
    if isinstance(v, list):
        return ['a'] + [canon_json(x) for x in v]
    return ['o'] + [[k, canon_json(x)] for k, x in v.items()]


def directive_lines(text):
    """indices of the lines of `text` that are directives (not blank, not comments)"""
    out = []
    for i, l in enumerate(text.split('\n')):
        ls = l.strip()
        if ls and not ls.startswith('#'):
            out.append(i)
    return out


LIST_KEYS = ('compressions', 'host keys', 'optional host keys', 'key exchanges', 'ciphers', 'macs')
# the documented directives (README / policy files shipped with the tool)
DIRECTIVES = ('name', 'version', 'banner', 'client policy', 'host_key_sizes', 'dh_modulus_sizes', 'allow_algorithm_subset_and_reordering', 'allow_larger_keys') + LIST_KEYS
LEGACY_PREFIXES = ('hostkey_size_', 'cakey_size_', 'dh_modulus_size_')


def harmless_variant(r, text):
    """a rewrite the format defines as meaningless: returns (kind, new text)"""
    lines = text.split('\n')
    kind = r.choice(['comment', 'blank', 'crlf', 'pad-eq', 'pad-comma', 'pad-line'])
    if kind == 'comment':
        for _ in range(r.choice([1, 2, 5])):
            c = r.choice(['', ' ', '\t', '   ']) + '#' + r.choice(['', ' note', ' name = "other"', ' host keys = z', '=', '# #', ' version = 9', ' é "'])
            lines.insert(r.randint(0, len(lines)), c)
    elif kind == 'blank':
        for _ in range(r.choice([1, 2, 5])):
            lines.insert(r.randint(0, len(lines)), r.choice(['', ' ', '\t\t', ' \r', ' ', '\x0b\x0c']))
    elif kind == 'crlf':
        lines = [l + '\r' for l in lines]
    elif kind == 'pad-eq':
        for i in directive_lines(text):
            k, v = lines[i].split('=', 1)
            lines[i] = k + r.choice(['', ' ', '   ', '\t']) + '=' + r.choice(['', ' ', '   ', '\t']) + v
    elif kind == 'pad-comma':
        for i in directive_lines(text):
            k, v = lines[i].split('=', 1)
            if k.strip() in LIST_KEYS:
                lines[i] = k + '=' + ','.join(r.choice(['', ' ', '  ']) + p + r.choice(['', ' ', '\t']) for p in v.split(','))
    else:
        for i in directive_lines(text):
            lines[i] = r.choice(['', ' ', '\t', '  ']) + lines[i] + r.choice(['', ' ', '\t', ' \r'])
    return kind, '\n'.join(lines)


def malformed_variant(r, text):
    """one documented way of breaking a valid policy text: (kind, new text, the error the format requires) or None"""
    lines = text.split('\n')
    dl = directive_lines(text)
    if not dl:
        return None
    kind = r.choice(['drop-eq', 'unknown-key', 'unquote-name', 'unquote-name-end', 'break-json', 'drop-name', 'drop-version'])

    def key_of(i):
        return lines[i].split('=', 1)[0].strip()
    if kind == 'drop-eq':
        i = r.choice(dl)
        lines[i] = lines[i].replace('=', ' ')
        if not lines[i].strip() or lines[i].strip().startswith('#'):
            return None
        return kind, '\n'.join(lines), err('noeq', lines[i].strip())
    if kind == 'unknown-key':
        i = r.choice(dl)
        k, v = lines[i].split('=', 1)
        nk = r.choice(['x-' + k.strip(), k.strip().upper() if k.strip().upper() != k.strip() else 'y' + k.strip(), k.strip().replace(' ', '_') + '_', 'hostkey-size_' + k.strip()])
        if nk in DIRECTIVES or nk.startswith(LEGACY_PREFIXES):
            return None
        lines[i] = nk + ' =' + v
        return kind, '\n'.join(lines), err('badfield', lines[i].strip())
    if kind in ('unquote-name', 'unquote-name-end'):
        cand = [i for i in dl if key_of(i) in ('name', 'banner')]
        if not cand:
            return None
        i = cand[-1] if key_of(cand[-1]) == 'name' else r.choice(cand)
        k, v = lines[i].split('=', 1)
        v = v.strip()
        if len(v) < 3 or v[1] == '"' or v[-2] == '"':
            return None
        v2 = v[1:] if kind == 'unquote-name' else v[:-1]
        lines[i] = k + '= ' + v2
        # every earlier line is valid, so this is the first exception
        return kind, '\n'.join(lines), err('unquoted', k.strip(), v2)
    if kind == 'break-json':
        cand = [i for i in dl if key_of(i) in ('host_key_sizes', 'dh_modulus_sizes')]
        if not cand:
            return None
        i = r.choice(cand)
        ls = lines[i].rstrip()
        if not ls.endswith('}'):
            return None
        lines[i] = ls[:-1]
        return kind, '\n'.join(lines), err('json')
    target = 'name' if kind == 'drop-name' else 'version'
    keep = [l for j, l in enumerate(lines) if not (j in dl and key_of(j) == target)]
    if kind == 'drop-version' and not any(key_of(j) == 'name' for j in dl):
        return None
    return kind, '\n'.join(keep), err('noname' if kind == 'drop-name' else 'noversion')


# ---------------------------------------------------------------- run / replay

def run(ctx):
    from ssh_audit.ssh2_kexdb import SSH2_KexDB
    r = ctx.rng
    db = SSH2_KexDB.MASTER_DB
    cov = Coverage('policy-file text path: one evaluation = one text through the real Policy.create / Policy(policy_data=…) (and evaluate for made texts); non-trivial = distinct texts; '
                   '(a) -M texts of generated peers (database names, gss-…== names, non-ASCII and JSON-escaped names, empty name-lists, client policies), (b) %d hand-written policies over every directive, '
                   '(c) harmless rewrites (comments, blank lines, CRLF, white space) and documented malformations of (a) and (b); plus json.loads / json.dumps / int() / unquoting on their own' % len(HAND))
    failures, mismatches = [], []
    lines, expect = [], []

    def fail(sig, inp, observed, expected):
        failures.append({'sig': sig, 'input': inp, 'observed': observed, 'expected': expected, 'how': HOW})

    def ask_parse(text, stream):
        got, _ = impl_parse(text)
        lines.append('policyfile.parse %s' % tstr(text))
        expect.append((stream, got))
        return got

    valid_texts = []
    # ---- (a) texts made by the real create
    peers = []
    q = gen_file_peer(r, db)
    q['kex'] = ['gss-group14-sha256-toWM5Slw5Ew8Mqkay+al2g==', 'gss-gex-sha1-toWM5Slw5Ew8Mqkay+al2g==', 'curve25519-sha256']
    peers.append((q, 'target.example', False, ['corpus-D11']))
    q = gen_file_peer(r, db)
    q['enc'], q['mac'] = ['chacha20-poly1305@openssh.com'], ['']
    peers.append((q, 'target.example', True, ['corpus-empty-list']))
    for _ in range(ctx.scale(160, 4000)):
        peers.append((gen_file_peer(r, db), gen_source(r), r.random() < 0.25, ['generated']))
    for q, source, ca, tags in peers:
        try:
            today, text = impl_create(q, source, ca)
        except Exception as e:  # noqa
            fail({'kind': 'roundtrip', 'what': 'create_raises'}, {'peer': q, 'source': source, 'client_audit': ca}, repr(e), 'Policy.create returns the policy text')
            continue
        lines.append('policyfile.create %s %s %s %s' % (tstr(source), tstr(today), tbool(ca), peer_tokens(q)))
        expect.append(('create', {'ok': text}))
        ask_parse(text, 'parse-made')
        inq = in_quantifier(q)
        non_ascii = any(ord(c) > 126 or ord(c) < 32 or c in '"\\' for k in ('key', 'kex', 'enc', 'mac') for n in q[k] for c in n)
        cov.add(('made', text), True, tags=['made:' + t for t in tags] + (['made:client-policy'] if ca else []) + (['made:escaped-or-non-ascii-names'] if non_ascii else [])
                + (['made:size-maps'] if q['host_keys'] or q['dh'] else []) + ([] if inq else ['made:outside-quantifier']),
                sample={'source': source, 'directive_lines': [l for l in text.split('\n') if l and not l.startswith('#')][:12]} if len(cov.samples) < 1 else None)
        if inq:
            bad, _ = check_roundtrip(q, source, ca)
            for what, obs, want in bad:
                fail({'kind': 'roundtrip', 'what': what}, {'peer': q, 'source': source, 'client_audit': ca}, obs, want)
            if not bad:
                valid_texts.append(text)
    for _ in range(ctx.scale(60, 1500)):
        q, k = gen_outside_peer(r, db)
        source, ca = (gen_odd_source(r) if r.random() < 0.5 else gen_source(r)), r.random() < 0.3
        try:
            today, text = impl_create(q, source, ca)
        except Exception as e:  # noqa
            fail({'kind': 'roundtrip', 'what': 'create_raises'}, {'peer': q, 'source': source, 'client_audit': ca}, repr(e), 'Policy.create returns the policy text')
            continue
        lines.append('policyfile.create %s %s %s %s' % (tstr(source), tstr(today), tbool(ca), peer_tokens(q)))
        expect.append(('create', {'ok': text}))
        ask_parse(text, 'parse-made-outside')
        cov.add(('made-outside', text), True, tags=['outside-quantifier:' + k])
    # ---- (b) hand-written policies
    for name, text, want in HAND:
        got = ask_parse(text, 'parse-hand')
        cov.add(('hand', name), True, tags=['hand-written', 'hand:' + ('rejected' if 'err' in want else 'accepted')])
        if got != want:
            fail({'kind': 'hand', 'case': name}, {'case': name, 'text': text}, got, want)
        elif 'ok' in want:
            valid_texts.append(text)
    # ---- (c) rewrites and malformations
    for _ in range(ctx.scale(500, 12000)):
        base = r.choice(valid_texts)
        if r.random() < 0.5:
            kind, text = harmless_variant(r, base)
            got = ask_parse(text, 'parse-rewrite')
            ref, _ = impl_parse(base)
            cov.add(('rewrite', text), True, tags=['rewrite:' + kind])
            if got != ref:
                fail({'kind': 'rewrite_changes_policy', 'rewrite': kind}, {'base_text': base, 'text': text}, got, ref)
        else:
            m = malformed_variant(r, base)
            if m is None:
                continue
            kind, text, want = m
            got = ask_parse(text, 'parse-malformed')
            cov.add(('malformed', text), True, tags=['malformed:' + kind])
            if got != want:
                fail({'kind': 'malformed_not_rejected_as_documented', 'malformation': kind}, {'text': text, 'expected': want}, got, want)
    # ---- the pieces on their own (correspondence only)
    for _ in range(ctx.scale(400, 8000)):
        t = gen_json_text(r)
        try:
            want = {'ok': canon_json(json.loads(t))}
        except ValueError:
            want = {'err': 'json'}
        except RecursionError:
            continue
        lines.append('policyfile.loads %s' % tstr(t))
        expect.append(('loads', want))
    alphabet = ['a', 'Z', '0', ' ', '"', '\\', '/', '\n', '\r', '\t', '\x08', '\x0c', '\x00', '\x1f', '\x7f', '\x80', '\xe9', '\u2028', '\ud7ff', '\ue000', '\uffff', '\U00010000', '\U0001F600', '\U0010ffff', '~', '}']
    for _ in range(ctx.scale(150, 3000)):
        t = ''.join(r.choice(alphabet) for _ in range(r.choice([0, 1, 2, 5, 12])))
        lines.append('policyfile.dumpstr %s' % tstr(t))
        expect.append(('dumpstr', {'ok': json.dumps(t)}))
        lines.append('policyfile.loads %s' % tstr(json.dumps(t)))
        expect.append(('loads', {'ok': ['s', t]}))
        u = '"' + ''.join(r.choice(['a', '"', '\\', 'n', '\\"', '\\n', '\\\\', ' ']) for _ in range(r.choice([0, 1, 3, 8]))) + '"'
        lines.append('policyfile.unquote %s' % tstr(u))
        expect.append(('unquote', {'ok': u[1:-1].replace('\\"', '"').replace('\\n', '\n')}))
    for _ in range(ctx.scale(200, 4000)):
        t = ''.join(r.choice(['0', '1', '9', '5', '_', '-', '+', ' ', 'x', '.']) if r.random() < 0.3 else r.choice('0123456789') for _ in range(r.choice([0, 1, 2, 4, 9, 25])))
        try:
            want = {'ok': int(t)}
        except ValueError:
            want = {'err': 'badint'}
        lines.append('policyfile.pyint %s' % tstr(t))
        expect.append(('pyint', want))
    # ---- model vs implementation
    model = ctx.driver(lines) if ctx.driver_ok else []
    skipped = 0
    for line, m, (stream, want) in zip(lines, model, expect):
        m = canon_model(m)
        if m.get('err') == 'out-of-model' or want.get('err') == 'out-of-model':
            skipped += 1
            continue
        if m != want:
            mismatches.append({'stream': 'policyfile.' + stream, 'op': line[:600], 'model': m, 'impl': want})
    return {'failures': failures, 'mismatches': mismatches, 'coverage': cov, 'corr_cases': len(model) - skipped,
            'assumptions': ['text path: json.loads / json.dumps are modelled (Model/PolicyFile.lean, Json.loads / dumpStr / dumpDict) and tied to the CPython json module by correspondence; '
                            'int() is modelled for ASCII digits; str.strip() for the white space of str.isspace()',
                            'text path quantifier: non-empty name-lists whose names contain no comma, no newline and no leading / trailing white space; banner and source without newline'],
            'observations': ['text path: %d correspondence cases lie outside the structured model (sizes that are not non-negative ints, lone surrogates) and were not compared' % skipped] if skipped else []}


def replay(obj):
    f = obj.get('failure', obj)
    kind = f['sig'].get('kind')
    inp = f['input']
    if kind == 'roundtrip':
        bad, text = check_roundtrip(inp['peer'], inp['source'], inp['client_audit'])
        print('\n'.join(l for l in text.split('\n') if l and not l.startswith('#'))[:1500])
        for what, obs, want in bad:
            print('%s: observed %s; expected %s' % (what, json.dumps(obs, default=str)[:600], json.dumps(want, default=str)[:600]))
        bad = bool(bad)
    elif kind == 'hand':
        case = [c for c in HAND if c[0] == inp['case']]
        text, want = (case[0][1], case[0][2]) if case else (inp['text'], f['expected'])
        got, _ = impl_parse(text)
        print('observed %s\nexpected %s' % (json.dumps(got)[:1200], json.dumps(want)[:1200]))
        bad = got != want
    elif kind == 'rewrite_changes_policy':
        got, _ = impl_parse(inp['text'])
        ref, _ = impl_parse(inp['base_text'])
        print('rewritten text: %s\noriginal text:  %s' % (json.dumps(got)[:1200], json.dumps(ref)[:1200]))
        bad = got != ref
    elif kind == 'malformed_not_rejected_as_documented':
        got, _ = impl_parse(inp['text'])
        print('observed %s\nexpected %s' % (json.dumps(got)[:1200], json.dumps(inp['expected'])[:1200]))
        bad = got != inp['expected']
    else:
        print(json.dumps(f, indent=1, default=str)[:1500])
        return 0
    print('PROPERTY FAILS' if bad else 'property holds on this input')
    return 1 if bad else 0
