/-
  Identification strings: `banner.py` (`Banner.parse`, `Banner.__str__`), the ASCII filters of
  `utils.py`, `ReadBuf.read_line` and the header/banner loop of `SSH_Socket.get_banner`.

  Python → Lean conventions (DESIGN §3): text is `List Char`, bytes are `List UInt8`, `None` is
  `none`.  Core Lean only.

  How the regular expression is modelled.  `RX_BANNER` is
      ^(P(?:(?:-P)*))(-\s*([^\s]*)(?:\s+(.*))?)?$        with  P = SSH-\d\.\s*?\d+
  and it is only ever applied to the output of `to_print_ascii`, where every character is in
  32..126: there `\s` is exactly `' '`, `\d` is `0-9`, `.` is any character and `$` is the end
  (`isBlank`; `space_printable` in Props/C16 proves that Python's Unicode notion of whitespace
  and `' '` coincide on printable ASCII).  The backtracking engine is replaced by the
  deterministic recogniser it is equivalent to on such text:
    * `P` at a position is unambiguous except for the length of the final `\d+`
      (`matchProto` takes the longest; a shorter one leaves a digit in front, which neither
      `-` nor `$` accepts);
    * `(?:-P)*` is greedy (`matchMore`), and the engine gives repetitions back one at a time
      until what follows is empty or starts with `-` (`pick`, longest first);
    * the optional tail `-\s*([^\s]*)(?:\s+(.*))?` always runs to the end once a `-` is seen
      (`parseTail`).
  `re.findall(RX_PROTOCOL, group 1)` returns exactly the (major, minor) *strings* of the
  repetitions that make up group 1, so the recogniser returns those pairs directly.
  Assumption (recorded by the harness): `int()` of the minor digits is total, i.e. fewer than
  4300 digits (CPython's int-string limit; a line read by `get_banner` has ≤ 2048 bytes).
-/
import SshAudit.Model.Text
namespace SshAudit
namespace Banner

/-! ### utils.py: `_is_ascii`, `_to_ascii` and the four public filters -/

/-- the `char_filter` lambdas -/
def isAsciiCode (x : Nat) : Bool := decide (x ≤ 127)
def isPrintCode (x : Nat) : Bool := decide (x ≤ 126) && decide (32 ≤ x)

/-- `_is_ascii(v, char_filter)` -/
def isAsciiBy (f : Nat → Bool) (s : Str) : Bool := s.all (fun c => f c.toNat)

/-- what `_to_ascii` does with one character: keep, replace by `?` (63), or drop (`errors='ignore'`) -/
def filterChar (f : Nat → Bool) (ignore : Bool) (c : Char) : Option Char :=
  if f c.toNat then some c else if ignore then none else some '?'

/-- `_to_ascii(v, char_filter, errors)` -/
def toAsciiBy (f : Nat → Bool) (ignore : Bool) (s : Str) : Str := s.filterMap (filterChar f ignore)

def isPrint (c : Char) : Bool := isPrintCode c.toNat
/-- `Utils.is_print_ascii` -/
def isPrintAscii (s : Str) : Bool := isAsciiBy isPrintCode s
/-- `Utils.to_print_ascii(v)` (`errors='replace'`) -/
def toPrintAscii (s : Str) : Str := toAsciiBy isPrintCode false s
/-- `Utils.is_ascii` / `Utils.to_ascii(v)` -/
def isAscii (s : Str) : Bool := isAsciiBy isAsciiCode s
def toAscii (s : Str) : Str := toAsciiBy isAsciiCode false s

/-! ### the banner value -/

structure Banner where
  protocol : Nat × Nat
  software : Option Str
  comments : Option Str
  validAscii : Bool
deriving Repr, DecidableEq

/-- `Banner.__str__` -/
def render (b : Banner) : Str :=
  ['S', 'S', 'H', '-'] ++ Text.natToStr b.protocol.1 ++ ['.'] ++ Text.natToStr b.protocol.2
    ++ (match b.software with | some s => '-' :: s | none => [])
    ++ (match b.comments with | some c => if c.isEmpty then [] else ' ' :: c | none => [])

/-! ### `RX_BANNER` as a deterministic recogniser (on sanitised text) -/

/-- `\s` on printable ASCII -/
def isBlank (c : Char) : Bool := c == ' '

/-- one `(major, minor)` tuple of strings as `re.findall(RX_PROTOCOL, …)` returns it -/
abbrev Pair := Char × Str

/-- `SSH-\d\.\s*?\d+` at the head of the text, with the longest `\d+`:
    the two captured strings and what follows -/
def matchProto : Str → Option (Pair × Str)
  | 'S' :: 'S' :: 'H' :: '-' :: d :: '.' :: r =>
    if d.isDigit then
      let r1 := r.dropWhile isBlank
      let ds := r1.takeWhile Char.isDigit
      if ds.isEmpty then none else some ((d, ds), r1.dropWhile Char.isDigit)
    else none
  | _ => none

/-- greedy `(?:-P)*`: every repetition with the text that follows it (the fuel is the length
    of the text: each repetition consumes at least seven characters) -/
def matchMore : Nat → Str → List (Pair × Str)
  | 0, _ => []
  | n + 1, s =>
    match s with
    | '-' :: r =>
      match matchProto r with
      | some (p, r') => (p, r') :: matchMore n r'
      | none => []
    | _ => []

/-- can `(-…)?$` match here: at the end of the text, or at a `-` -/
def okRem : Str → Bool
  | [] => true
  | c :: _ => c == '-'

/-- backtracking over the repetitions, *last one first*: the longest run of repetitions after
    which the tail can match.  Result: the pairs of group 1 (in order) and the remainder. -/
def pick : List (Pair × Str) → Option (List Pair × Str)
  | [] => none
  | (p, r) :: earlier =>
    if okRem r then some ((((p, r) :: earlier).reverse).map Prod.fst, r) else pick earlier

/-- the four groups of a successful match (group 1 as its list of protocol pairs) -/
structure Groups where
  pairs : List Pair
  g2 : Option Str
  g3 : Option Str
  g4 : Option Str
deriving Repr, DecidableEq

/-- `(-\s*([^\s]*)(?:\s+(.*))?)?$` on a remainder that is empty or starts with `-` -/
def parseTail (pairs : List Pair) : Str → Groups
  | [] => { pairs, g2 := none, g3 := none, g4 := none }
  | c :: r =>
    let r1 := r.dropWhile isBlank
    let tok := r1.takeWhile (fun x => !isBlank x)
    match r1.dropWhile (fun x => !isBlank x) with
    | [] => { pairs, g2 := some (c :: r), g3 := some tok, g4 := none }
    | r2 => { pairs, g2 := some (c :: r), g3 := some tok, g4 := some (r2.dropWhile isBlank) }

/-- `RX_BANNER.match` -/
def rxBanner (s : Str) : Option Groups :=
  match matchProto s with
  | none => none
  | some (p, r) =>
    match pick (((p, r) :: matchMore r.length r).reverse) with
    | none => none
    | some (pairs, rem) => some (parseTail pairs rem)

/-! ### `Banner.parse` -/

/-- `a < b` on tuples of two strings (the first component is one character) -/
def ltPair (a b : Pair) : Bool :=
  if a.1 = b.1 then Text.ltStr a.2 b.2 else decide (a.1 < b.1)

/-- `min(...)`: the first minimal element -/
def minPair : Pair → List Pair → Pair
  | best, [] => best
  | best, q :: qs => minPair (if ltPair q best then q else best) qs

/-- `int(s)` on a digit string -/
def intOfDigits (ds : Str) : Nat := ds.foldl (fun a c => 10 * a + (c.toNat - '0'.toNat)) 0

/-- `s.rstrip()` / `s.strip()` on sanitised text -/
def rstrip : Str → Str
  | [] => []
  | c :: cs =>
    match rstrip cs with
    | [] => if isBlank c then [] else [c]
    | r => c :: r
def strip (s : Str) : Str := rstrip (s.dropWhile isBlank)

/-- `x or None` -/
def orNone (s : Str) : Option Str := if s.isEmpty then none else some s

/-- `re.sub(r'\s+', ' ', s)`: every maximal run of blanks becomes one blank -/
def collapse : Str → Str
  | [] => []
  | [c] => [if isBlank c then ' ' else c]
  | c :: c' :: cs =>
    if isBlank c then (if isBlank c' then collapse (c' :: cs) else ' ' :: collapse (c' :: cs))
    else c :: collapse (c' :: cs)

/-- `comments = (group(4) or '').strip() or None`, then the `re.sub` when not `None` -/
def normComments (g4 : Str) : Option Str := (orNone (strip g4)).map collapse

/-- the `software` lines of `parse` -/
def softwareOf (g2 g3 : Option Str) : Option Str :=
  match orNone (strip (g3.getD [])) with
  | some s => some s
  | none => if Text.startsWith (g2.getD []) ['-'] then some [] else none

def protocolOf (pairs : List Pair) : Nat × Nat :=
  match pairs with
  | [] => (0, 0)     -- unreachable: group 1 always holds at least one `P` (`min([])` would raise)
  | p :: ps =>
    let m := minPair p ps
    (m.1.toNat - '0'.toNat, intOfDigits m.2)

def ofGroups (g : Groups) (validAscii : Bool) : Banner :=
  { protocol := protocolOf g.pairs
    software := softwareOf g.g2 g.g3
    comments := normComments (g.g4.getD [])
    validAscii }

/-- `Banner.parse` -/
def parse (banner : Str) : Option Banner :=
  let validAscii := isPrintAscii banner
  match rxBanner (toPrintAscii banner) with
  | none => none
  | some g => some (ofGroups g validAscii)

/-! ### `ReadBuf.read_line`: `readline().rstrip().decode('utf-8', 'replace')` -/

/-- `bytes.isspace` -/
def isSpaceByte (b : UInt8) : Bool := b == 0x20 || (0x09 ≤ b && b ≤ 0x0d)

def rstripBytes : Bytes → Bytes
  | [] => []
  | c :: cs =>
    match rstripBytes cs with
    | [] => if isSpaceByte c then [] else [c]
    | r => c :: r

def isCont (b : UInt8) : Bool := 0x80 ≤ b && b ≤ 0xbf
def contBits (b : UInt8) : Nat := b.toNat % 64
def repl : Char := Char.ofNat 0xfffd

/-- one step of CPython's UTF-8 decoder with `errors='replace'` on non-empty input: the
    character produced and the number of bytes consumed (an ill-formed sequence is replaced, as
    a whole maximal prefix, by one U+FFFD) -/
def utf8Step : Bytes → Char × Nat
  | [] => (repl, 1)
  | b0 :: rest =>
    if b0 < 0x80 then (Char.ofNat b0.toNat, 1)
    else if b0 < 0xc2 then (repl, 1)
    else if b0 < 0xe0 then
      match rest with
      | [] => (repl, 1)
      | b1 :: _ => if isCont b1 then (Char.ofNat ((b0.toNat % 32) * 64 + contBits b1), 2) else (repl, 1)
    else if b0 < 0xf0 then
      match rest with
      | [] => (repl, 1)
      | b1 :: r1 =>
        if !isCont b1 || (if b1 < 0xa0 then b0 == 0xe0 else b0 == 0xed) then (repl, 1) else
        match r1 with
        | [] => (repl, 2)
        | b2 :: _ =>
          if isCont b2 then (Char.ofNat (((b0.toNat % 16) * 64 + contBits b1) * 64 + contBits b2), 3) else (repl, 2)
    else if b0 < 0xf5 then
      match rest with
      | [] => (repl, 1)
      | b1 :: r1 =>
        if !isCont b1 || (if b1 < 0x90 then b0 == 0xf0 else b0 == 0xf4) then (repl, 1) else
        match r1 with
        | [] => (repl, 2)
        | b2 :: r2 =>
          if !isCont b2 then (repl, 2) else
          match r2 with
          | [] => (repl, 3)
          | b3 :: _ =>
            if isCont b3 then (Char.ofNat ((((b0.toNat % 8) * 64 + contBits b1) * 64 + contBits b2) * 64 + contBits b3), 4)
            else (repl, 3)
    else (repl, 1)

def utf8Go : Nat → Bytes → Str
  | 0, _ => []
  | _ + 1, [] => []
  | n + 1, b :: bs =>
    let (c, k) := utf8Step (b :: bs)
    c :: utf8Go n ((b :: bs).drop k)

/-- `bytes.decode('utf-8', 'replace')` -/
def utf8Decode (bs : Bytes) : Str := utf8Go bs.length bs

/-- the successive results of `BytesIO.readline()` until the buffer is empty: each piece ends
    with LF except possibly the last -/
def splitLines : Bytes → List Bytes
  | [] => []
  | b :: bs =>
    if b = 0x0a then [b] :: splitLines bs
    else match splitLines bs with
      | [] => [[b]]
      | l :: ls => (b :: l) :: ls

/-- `read_line` applied to one `readline()` result -/
def lineText (raw : Bytes) : Str := utf8Decode (rstripBytes raw)

/-! ### `SSH_Socket.get_banner` -/

/-- `str.isspace` (Unicode), as used by `line.strip()` in `get_banner` -/
def isUSpace (c : Char) : Bool :=
  let n := c.toNat
  (0x09 ≤ n && n ≤ 0x0d) || (0x1c ≤ n && n ≤ 0x20) || n == 0x85 || n == 0xa0 || n == 0x1680
    || (0x2000 ≤ n && n ≤ 0x200a) || n == 0x2028 || n == 0x2029 || n == 0x202f || n == 0x205f || n == 0x3000

/-- `len(line.strip()) == 0` -/
def isBlankLine (line : Str) : Bool := line.all isUSpace

structure Result where
  banner : Option Banner
  header : List Str
  /-- what is left unread in the socket buffer -/
  unread : Bytes
  /-- `recv` results that were never requested -/
  pending : List Bytes
deriving Repr, DecidableEq

/-- the inner loop body applied to successive lines: skip blank lines, stop at the first banner,
    collect the others: `(banner, header, lines not read)` -/
def scan (header : List Str) : List Bytes → Option Banner × List Str × List Bytes
  | [] => (none, header, [])
  | raw :: more =>
    let line := lineText raw
    if isBlankLine line then scan header more
    else match parse line with
      | some b => (some b, header, more)
      | none => scan (header ++ [line]) more

/-- what `while self.unread_len > 0 and self.__has_line()` can take from the buffer: the
    complete (LF-terminated) lines, and the fragment without LF that stays buffered -/
def cutLines : Bytes → List Bytes × Bytes
  | [] => ([], [])
  | b :: bs =>
    if b = 0x0a then ([b] :: (cutLines bs).1, (cutLines bs).2)
    else match (cutLines bs).1 with
      | [] => ([], b :: (cutLines bs).2)
      | l :: ls => ((b :: l) :: ls, (cutLines bs).2)

/-- the peer has stopped sending (`recv` gave `s < 0`: closed, timed out or failed): the inner
    loop runs with `s < 0`, i.e. over everything that is buffered, the unterminated rest being
    read as a last line; then `get_banner` returns -/
def finish (header : List Str) (buf : Bytes) (pending : List Bytes) : Result :=
  match scan header (splitLines buf) with
  | (b, h, rest) => { banner := b, header := h, unread := rest.flatten, pending }

/-- `get_banner` (after the D17 repair, commit 04fd9e5) on a connected socket that has no
    banner yet, with `buf` unread in the buffer; the peer's data arrives as the given sequence
    of `recv` results, after which (or at an empty one) the peer has stopped.  Each `recv`
    result is appended to the buffer; complete lines are consumed as they become available, a
    fragment without LF stays buffered until more data arrives or the peer stops. -/
def getBanner (header : List Str) (buf : Bytes) : List Bytes → Result
  | [] => finish header buf []
  | chunk :: later =>
    if chunk.isEmpty then finish header buf later else
    match scan header (cutLines (buf ++ chunk)).1 with
    | (some b, h, rest) =>
      { banner := some b, header := h, unread := rest.flatten ++ (cutLines (buf ++ chunk)).2, pending := later }
    | (none, h, _) => getBanner h (cutLines (buf ++ chunk)).2 later

end Banner
end SshAudit
