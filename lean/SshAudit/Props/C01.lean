/-
  C01 — Report lists exactly the algorithms the peer advertised.

  The report model `Report.report` builds the lines of each category from the peer's list of that
  category only; the theorems below say the names shown are exactly the advertised names that are
  not blank, once per occurrence, in order — for every list, database state, role and size map.
  The byte level (KEXINIT → lists) is C10's `kexinit_rt` plus `kexinit_lists_from_bytes` here.
-/
import SshAudit.Lemmas.Report
import SshAudit.Props.C10
namespace SshAudit.C01
open SshAudit SshAudit.Report

/-- **Text report, per category: exactly the advertised non-blank names, in order, with multiplicity.** -/
theorem text_names_exact (rf : List Str) (db : DB) (peer : Peer) (client : Bool) (bsw : Option Str) (sw : Option Version.Software) (rn : Str) :
    let r := report rf db peer client bsw sw rn
    r.kex.map (·.name) = peer.kex.filter (printed kexC) ∧
    r.key.map (·.name) = peer.key.filter (printed keyC) ∧
    r.enc.map (·.name) = peer.encS.filter (printed encC) ∧
    r.mac.map (·.name) = peer.macS.filter (printed macC) := by
  simp only [report, algLines_names, and_self]

/-- every line sits in its own category (nothing is moved to another category) -/
theorem lines_in_category (rf : List Str) (db : DB) (cat : Str) (ns : List Str) (hk : List (Str × HostKeyInfo)) (dh : List (Str × Nat)) :
    ∀ l ∈ algLines rf db cat ns hk dh, l.cat = cat ∧ l.name ∈ ns := by
  intro l hl
  simp only [algLines, List.mem_filterMap] at hl
  obtain ⟨n, hn, hl⟩ := hl
  cases h : algTexts db cat n with
  | none => simp [h] at hl
  | some v => obtain ⟨ts, unk⟩ := v; simp [h] at hl; subst hl; exact ⟨rfl, hn⟩

/-- a name that is not blank is never dropped: non-gss names are printed iff they contain a non-space character -/
theorem printed_plain (cat n : Str) (h : ¬ (cat = kexC ∧ Text.startsWith n (s "gss-") = true)) :
    printed cat n = !(Text.stripU n).isEmpty := by
  unfold printed gssNormalize
  rw [if_neg h]

/-- the role does not matter for which names are listed -/
theorem role_irrelevant (rf : List Str) (db : DB) (peer : Peer) (b1 b2 : Option Str) (s1 s2 : Option Version.Software) (r1 r2 : Str) :
    (report rf db peer true b1 s1 r1).kex.map (·.name) = (report rf db peer false b2 s2 r2).kex.map (·.name) ∧
    (report rf db peer true b1 s1 r1).key.map (·.name) = (report rf db peer false b2 s2 r2).key.map (·.name) ∧
    (report rf db peer true b1 s1 r1).enc.map (·.name) = (report rf db peer false b2 s2 r2).enc.map (·.name) ∧
    (report rf db peer true b1 s1 r1).mac.map (·.name) = (report rf db peer false b2 s2 r2).mac.map (·.name) := by
  simp only [report, algLines_names, and_self]

/-- the shown name is the advertised name, optionally followed by a " (…)" size suffix — never renamed -/
theorem shown_name_prefix (rf : List Str) (cat n : Str) (hk : List (Str × HostKeyInfo)) (dh : List (Str × Nat)) :
    shownName rf cat n hk dh = n ∨ ∃ sfx, shownName rf cat n hk dh = n ++ s " (" ++ sfx := by
  unfold shownName
  by_cases h1 : cat = kexC
  · rw [if_pos h1]
    cases dh.find? (·.1 = n) with
    | none => exact Or.inl rfl
    | some pm => exact Or.inr ⟨Text.natToStr pm.2 ++ s "-bit)", by simp [List.append_assoc]⟩
  · rw [if_neg h1]
    by_cases h2 : cat = keyC
    · rw [if_pos h2]
      cases hk.find? (·.1 = n) with
      | none => exact Or.inl rfl
      | some pk =>
        simp only
        generalize (if rf.contains pk.2.caType = true then s "RSA" else pk.2.caType) = caT
        by_cases h3 : caT.length > 0 ∧ pk.2.caSize > 0
        · rw [if_pos h3]
          exact Or.inr ⟨Text.natToStr pk.2.size ++ s "-bit cert/" ++ Text.natToStr pk.2.caSize ++ s "-bit " ++ caT ++ s " CA)", by simp [List.append_assoc]⟩
        · rw [if_neg h3]
          by_cases h4 : rf.contains n = true
          · rw [if_pos h4]; exact Or.inr ⟨Text.natToStr pk.2.size ++ s "-bit)", by simp [List.append_assoc]⟩
          · rw [if_neg h4]; exact Or.inl rfl
    · rw [if_neg h2]; exact Or.inl rfl

/-- compression line: exactly the advertised methods other than "none", in order -/
theorem compression_text (rf : List Str) (db : DB) (peer : Peer) (client : Bool) (bsw : Option Str) (sw : Option Version.Software) (rn : Str) :
    (report rf db peer client bsw sw rn).compression = peer.compS.filter (· ≠ s "none") := rfl

/-! ### SSH-1 masks -/

theorem maskFrom_mem (start mask : Nat) (i : Nat) (names : List Str) (n : Str) :
    n ∈ maskFrom start mask i names ↔ ∃ j, start ≤ i + j ∧ mask.testBit (i + j) = true ∧ names[j]? = some n := by
  induction names generalizing i with
  | nil => simp [maskFrom]
  | cons x xs ih =>
    unfold maskFrom
    have shift : (∃ j, start ≤ i + 1 + j ∧ mask.testBit (i + 1 + j) = true ∧ xs[j]? = some n) ↔
        (∃ j, start ≤ i + (j + 1) ∧ mask.testBit (i + (j + 1)) = true ∧ (x :: xs)[j + 1]? = some n) := by
      constructor <;> rintro ⟨j, h1, h2, h3⟩ <;> exact ⟨j, by rwa [show i + 1 + j = i + (j + 1) by omega] at *, by rwa [show i + 1 + j = i + (j + 1) by omega] at *, by simpa using h3⟩
    split
    · next hc =>
      simp only [Bool.and_eq_true, decide_eq_true_eq] at hc
      rw [List.mem_cons, ih (i + 1), shift]
      constructor
      · rintro (h | ⟨j, h1, h2, h3⟩)
        · exact ⟨0, by simpa using hc.1, by simpa using hc.2, by simp [h]⟩
        · exact ⟨j + 1, h1, h2, h3⟩
      · rintro ⟨j, h1, h2, h3⟩
        cases j with
        | zero => left; simpa using h3.symm
        | succ j => right; exact ⟨j, h1, h2, h3⟩
    · next hc =>
      rw [ih (i + 1), shift]
      constructor
      · rintro ⟨j, h1, h2, h3⟩; exact ⟨j + 1, h1, h2, h3⟩
      · rintro ⟨j, h1, h2, h3⟩
        cases j with
        | zero =>
          exfalso; apply hc
          simp only [Bool.and_eq_true, decide_eq_true_eq]
          exact ⟨by simpa using h1, by simpa using h2⟩
        | succ j => exact ⟨j, h1, h2, h3⟩

/-- **SSH-1: a name is listed iff its bit is set** (bit index ≥ `start`, inside the table) — every mask -/
theorem mask_mem (names : List Str) (start mask : Nat) (n : Str) :
    n ∈ maskNames names start mask ↔ ∃ i, start ≤ i ∧ mask.testBit i = true ∧ names[i]? = some n := by
  unfold maskNames
  rw [maskFrom_mem]
  simp

theorem maskFrom_sublist (start mask : Nat) (i : Nat) (names : List Str) : (maskFrom start mask i names).Sublist names := by
  induction names generalizing i with
  | nil => exact List.Sublist.slnil
  | cons x xs ih =>
    unfold maskFrom
    split
    · exact (ih (i + 1)).cons₂ x
    · exact (ih (i + 1)).cons x

/-- the listed names keep the table order, each at most once (a sublist of the table) -/
theorem mask_sublist (names : List Str) (start mask : Nat) : (maskNames names start mask).Sublist names :=
  maskFrom_sublist start mask 0 names

/-! ### byte level: the lists come from the KEXINIT bytes -/

/-- a well-formed KEXINIT is read back as exactly the ten lists it was written from (C10) -/
theorem kexinit_lists_from_bytes (k : Wire.Kex) (bs : Bytes) (hwf : C10.KexWF k) (h : Wire.kexWrite k = .ok bs) :
    (Wire.kexParse bs).map (fun k' => (k'.kex, k'.key, k'.encS, k'.macS, k'.compS)) = .ok (k.kex, k.key, k.encS, k.macS, k.compS) := by
  rw [C10.kexinit_rt k bs hwf h]; rfl

-- non-vacuity
example : printed kexC (s "gss-group14-sha256-toWM5Slw5Ew8Mqkay+al2g==") = true ∧ printed encC (s "  ") = false ∧ printed encC [] = false := by decide +kernel
example : maskNames [s "none", s "idea", s "des", s "3des", s "tss", s "rc4", s "blowfish"] 0 72 = [s "3des", s "blowfish"] := by decide +kernel

end SshAudit.C01
