"""C02 — Exit status reflects the worst finding; incomplete audits never look clean.

Theorems: SshAudit.Props.C02 (status fold: 3 iff a failure, 2 iff no failure but a warning, 0 iff
neither, permutation-invariant, independent of every output option; audit() decision logic:
incomplete handshake => status 1 and no algorithm report; policy audit 0 iff passed, 3 iff failed).
Tie: (a) severity mixes through the real output() under 24 output-option sets vs. the model's
`report` status; (b) handshake faults at every stage through the real main() over fakenet vs.
`audit.end`; (c) policy runs pass/fail x text/JSON.
Oracle: count [fail]/[warn] tags in the captured report and compare with the exit status; faulted
handshakes must exit 1 without any (kex)/(key)/(enc)/(mac) line; policy verdict vs. exit status.
Extension props/ext/C02_policyaudit.py (Props/C02PolicyAudit.lean over Model/PolicyAudit.lean): the whole policy-audit path — evaluate_policy's text and
JSON forms, the error text, labels, -l levels, the outdated notice, broken handshakes, -M, -L, the built-in table — through the real main().
"""
import itertools
import json
import struct
import os
import tempfile

from common import Coverage, tbool
from props import report_common as rc
from props import peergen as pg
import fakenet as fn

ID = 'C02'
MODULE = 'SshAudit.Props.C02'
NAMESPACE = 'SshAudit.C02'
EXTENSIONS = ['props.ext.C02_policyaudit']
THEOREMS = ['foldStatus_append', 'foldStatus_three', 'foldStatus_two', 'foldStatus_zero', 'status_iff', 'status_range', 'status_perm',
            'statusOfLines_eq', 'report_status', 'incomplete_never_clean', 'complete_status', 'policy_status']
# functions / statement blocks of the code whose Lean definitions are regenerated from the source on every run (harness/translate_logic.py);
# `GenLogic.<name>_eq_model` (lean/SshAudit/Props/GenLogic*.lean) ties each to the hand-written model function the theorems above are about
GEN_LOGIC = ['status_step']

TECHNIQUE = 'Lean 4 theorems (closed form of the status fold by induction, iff-characterisation, permutation invariance; case analysis of the audit() decision logic) + end-to-end correspondence through output() and main() over scripted peers'
LEVEL_TEXT = ('The status fold is proved equal to "3 iff some failure, 2 iff no failure but a warning, 0 iff neither" for every note list, invariant under reordering, and the model report\'s status '
              'takes no output option; audit()\'s endings are stated outright as decision logic. The tie runs severity mixes through the real output() under all option sets and faulted handshakes '
              'through the real main() over in-process scripted servers, comparing exit statuses and printed sections with the model.'
              ' Extension (Props/C02PolicyAudit, 62 theorems): the policy-audit path itself — status 0 iff passed, 3 iff failed, never 2, 1 without parsed lists; what the text and JSON forms show agrees with the verdict; -l / batch / verbose / the outdated-policy notice never change verdict or status; -M and -L; tied to real main() -P runs (files, built-ins, client policies, fleets with broken members).')
LEVEL_NOTE = ('Trusted: Lean kernel, fakenet and the harness. "Finding" = a [fail]/[warn]-tagged algorithm note, as the property\'s observation points say: fail-coloured untagged (gen)/(sec) SSH-1 lines do not '
              'move the status (observation D23); an unknown algorithm is [warn] in text and "fail" in JSON notes, the exit status follows the text (observation D31). '
              'The handshake classification (which faults map to which ending) is tied by correspondence, not proved from the byte-level reader (see C09).')


def classes():
    """database names per severity class, per category"""
    db = pg.master()
    out = {}
    for c in rc.CATS:
        cl = {'fail': [], 'warn': [], 'clean': []}
        for n, d in db[c].items():
            if n.endswith('-*'):
                continue
            f = len(d) > 1 and any(d[1])
            w = len(d) > 2 and any(d[2])
            cl['fail' if f else ('warn' if w else 'clean')].append(n)
        out[c] = cl
    return out


def count_tags(records):
    fails = sum(1 for lvl, s, _, _ in records if s.startswith('(') and '[fail] ' in s and s[1:4] in rc.CATS + ('aut',) or (s.lstrip().startswith('`- [fail] ')))
    warns = sum(1 for lvl, s, _, _ in records if s.startswith('(') and '[warn] ' in s and s[1:4] in rc.CATS + ('aut',) or (s.lstrip().startswith('`- [warn] ')))
    return fails, warns


OPTION_SETS = [dict(batch=b, verbose=v, level=l, colors=c) for b in (False, True) for v in (False, True) for l in ('info', 'warn', 'fail') for c in (False, True)]


def run(ctx):
    r = ctx.rng
    cov = Coverage('one evaluation = one audit/report run on the real code; non-trivial = distinct (peer, option set) or (fault, mode) pairs; severity mixes: every assignment of {fail, warn, clean} '
                   'to 4 positions in each category, then random mixes, x 24 output-option sets; handshake faults: every stage x fault kind; policy runs pass/fail x text/JSON')
    failures, mismatches = [], []
    lines, expect = [], []
    cl = classes()

    def fail(kind, inp, observed, expected):
        failures.append({'sig': {'kind': kind}, 'input': inp, 'observed': observed, 'expected': expected, 'how': 'harness/props/C02.py on the real output()/main()'})
    # (a) severity mixes
    mixes = []
    assigns = list(itertools.product(['fail', 'warn', 'clean'], repeat=4))
    if ctx.tier != 'thorough':
        assigns = r.sample(assigns, 30) + [('clean',) * 4, ('warn',) * 4, ('clean', 'clean', 'clean', 'fail'), ('fail', 'warn', 'clean', 'clean'), ('warn', 'fail', 'warn', 'fail')]
    for cat in rc.CATS:
        for a in assigns:
            lists = {c: [r.choice(cl[c]['clean'])] for c in rc.CATS}
            lists[cat] = [r.choice(cl[cat][k]) for k in a]
            mixes.append(rc.mk_peer(lists['kex'], lists['key'], lists['enc'], lists['mac']))
    for _ in range(ctx.scale(60, 2000)):
        lists = {c: [r.choice(cl[c][r.choice(['fail', 'warn', 'clean', 'clean'])]) for _ in range(r.randint(1, 6))] for c in rc.CATS}
        if r.random() < 0.2:
            lists[r.choice(rc.CATS)].append(pg.unknown_name(r, 'plain'))
        mixes.append(rc.mk_peer(lists['kex'], lists['key'], lists['enc'], lists['mac']))
    # peers whose ONLY warning arises at run time (the Terrapin mark written by post_process_findings): every view must still exit 2 (seed C02-9)
    for ch in [n for n in pg.master()['enc'] if n.startswith('chacha20-poly1305')]:
        for extra_enc in ([], [r.choice(cl['enc']['clean'])]):
            mixes.append(rc.mk_peer([r.choice(cl['kex']['clean'])], [r.choice(cl['key']['clean'])], [ch] + extra_enc, [r.choice(cl['mac']['clean'])]))
    for i, peer in enumerate(mixes):
        base = None
        opts = OPTION_SETS if ctx.tier == 'thorough' else (r.sample(OPTION_SETS, 4) + [OPTION_SETS[0]])
        for o in opts:
            ret, out, text, banner = rc.run_output(peer, batch=o['batch'], verbose=o['verbose'], level=o['level'], colors=o['colors'])
            cov.add((json.dumps(peer, sort_keys=True), json.dumps(o, sort_keys=True)), True, tags=['severity-mix', 'status-%d' % ret],
                    sample={'peer': {k: peer[k] for k in ('kex', 'key', 'encS', 'macS')}, 'options': o, 'exit': ret} if i % 61 == 0 and o is opts[0] else None)
            f, w = count_tags(out.records)     # records are captured before the level filter, so every option set sees all tags
            want = 3 if f else (2 if w else 0)
            if ret != want:
                fail('status_vs_findings', {'peer': peer, 'options': o}, {'exit': ret, 'fail_tags': f, 'warn_tags': w}, want)
            if base is None:
                base = ret
            elif ret != base:
                fail('status_depends_on_options', {'peer': peer, 'options': o}, ret, base)
        jret, _, _, banner = rc.run_output(peer, batch=False, use_json=True)
        if jret != base:
            fail('status_depends_on_options', {'peer': peer, 'options': 'json'}, jret, base)
        lines.append(rc.report_line(peer, False, banner))
        expect.append(('status', base, peer))
    # (b) handshake faults through main()
    good_kex = fn.kexinit(['curve25519-sha256'], ['ssh-ed25519'], ['aes256-ctr'], ['hmac-sha2-256-etm@openssh.com'])
    faults = [
        ('connectFailed', dict(refuse=True)),
        ('noBanner', dict(close_on_connect=True)),
        ('noBanner', dict(banner=b'HTTP/1.1 400 Bad Request', kexinit_payload=None)),
        ('noBanner', dict(silent=True)),
        ('readError', dict(kexinit_payload=None)),
        ('readError', dict(raw_after_banner=fn.pkt(good_kex)[:20])),
        ('readError', dict(raw_after_banner=b'\x00\x00')),
        ('badFraming', dict(raw_after_banner=b'\x00\x00\x00\x0d\x04' + good_kex[:30])),
        ('badFraming', dict(raw_after_banner=b'\x00\x00\x00\x04\xff' + good_kex)),
        ('wrongPacketType', dict(raw_after_banner=fn.pkt(b'\x15' + good_kex[1:]))),
        ('wrongPacketType', dict(raw_after_banner=fn.pkt(b'\x02' + b'A' * 20))),
        ('parseFailed', dict(raw_after_banner=fn.pkt(good_kex[:40]))),
        ('parseFailed', dict(raw_after_banner=fn.pkt(b'\x14' + b'B' * 11))),
        ('ok', dict()),
    ]
    # the identification string is printed (and rated: SSH-1.x, non-printable characters) before the handshake breaks: none of that may lift the status of an incomplete audit
    banners = [b'SSH-2.0-OpenSSH_8.0', b'SSH-1.99-OpenSSH_3.9p1', b'SSH-1.5-Cisco-1.25', b'SSH-2.0-Open\xc3\xa9SSH_8.0', b'SSH-2.0-dropbear_2012.55 some comment', b'SSH-2.0-X\x07Y', b'SSH-1.99-\xff\xfe']
    all_modes = (([], 'standard'), (['-j'], 'standard'), (['-b'], 'standard'), (['-v'], 'standard'), (['-l', 'warn'], 'standard'))
    combos = []
    for hs, kw in faults:
        for bn in (banners if hs != 'ok' and 'banner' not in kw else banners[:1]):
            modes = all_modes if (bn == banners[0] or ctx.tier == 'thorough') else r.sample(all_modes, 2)
            for mode_args, mode in modes:
                combos.append((hs, kw, bn, mode_args, mode))
    for hs, kw_, bn, mode_args, mode in combos:
        if True:
            kw = dict(kw_)
            args = dict(banner=bn, kexinit_payload=good_kex, hostkeys={'ssh-ed25519': fn.ed25519_blob()})
            args.update(kw)
            if bn != banners[0]:
                kw['banner'] = args['banner']
            srv = fn.Server(**args)
            net = fn.FakeNet({'10.0.0.5': srv})
            code, out = fn.run_main(['-n', '--skip-rate-test'] + mode_args + ['10.0.0.5'], net)
            cov.add(('fault', hs, json.dumps(sorted(kw)), tuple(mode_args)), True, tags=['handshake-' + hs],
                    sample={'handshake': hs, 'server': {k: (v.hex()[:40] if isinstance(v, bytes) else v) for k, v in kw.items()}, 'args': mode_args, 'exit': code, 'stdout_head': out[:120]} if len(cov.samples) < 5 else None)
            has_alg = any(l.startswith(('(kex) ', '(key) ', '(enc) ', '(mac) ')) for l in out.split('\n')) or ('"kex": [{' in out.replace('\n', ' ').replace('    ', '').replace('[ {', '[{'))
            if hs != 'ok':
                if code != 1 or has_alg:
                    fail('incomplete_audit_looks_clean', {'handshake': hs, 'server': {k: (v.hex() if isinstance(v, bytes) else v) for k, v in kw.items()}, 'args': mode_args},
                         {'exit': code, 'algorithm_report': has_alg, 'stdout': out[:300]}, {'exit': 1, 'algorithm_report': False})
            else:
                if code not in (0, 2, 3) or not (has_alg or '-l' in mode_args):
                    fail('complete_audit_bad_status', {'args': mode_args}, {'exit': code, 'stdout': out[:300]}, 'a report and status 0/2/3')
            lines.append('audit.end %s standard 0 %d 0' % (hs, code if hs == 'ok' else 0))
            expect.append(('end', {'status': code, 'algReport': bool(has_alg) if '-l' not in mode_args else (hs == 'ok')}, (hs, mode_args)))
    # (b2) the same for an SSH-1 audit (-1, or the fallback after "Protocol major versions differ."): a public-key message that is well framed (length, padding,
    # CRC) but cut short / empty / of another type never looks clean
    from props.C10 import ssh1_frame
    good_pkm = b'\x11' * 8 + struct.pack('>I', 768) + b'\x00\x11' + b'\x01\x00\x01' + b'\x03\x00' + bytes(range(1, 97)) + struct.pack('>I', 1024) + b'\x00\x11' + b'\x01\x00\x01' + b'\x04\x00' + bytes(range(1, 129)) + struct.pack('>III', 2, 0x48, 0x24)
    s1faults = [('ok1', ssh1_frame(2, good_pkm))] + [('parseFailed', ssh1_frame(2, good_pkm[:k_])) for k_ in (0, 1, 7, 8, 11, 12, 40, len(good_pkm) - 9, len(good_pkm) - 1)] + \
        [('wrongPacketType', ssh1_frame(3, good_pkm)), ('readError', ssh1_frame(2, good_pkm)[:30])]
    for hs, raw in s1faults:
        for mode_args in ([], ['-j'], ['-b'], ['-v']):
            for how in ('dash-1', 'fallback'):
                if how == 'dash-1':
                    srv = fn.Server(banner=b'SSH-1.5-OpenSSH_3.9p1', raw_after_banner=raw, close_after_send=(hs != 'ok1'))
                    argv = ['-n', '--skip-rate-test', '-1']
                else:
                    srv = fn.StagedServer([fn.Server(banner=b'SSH-1.99-OpenSSH_3.9p1', raw_after_banner=b'Protocol major versions differ.\n', close_after_send=True),
                                           fn.Server(banner=b'SSH-1.5-OpenSSH_3.9p1', raw_after_banner=raw, close_after_send=(hs != 'ok1'))])
                    argv = ['-n', '--skip-rate-test']
                code, out = fn.run_main(argv + mode_args + ['10.0.0.7'], fn.FakeNet({'10.0.0.7': srv}))
                cov.add(('ssh1-fault', hs, len(raw), tuple(mode_args), how), True, tags=['handshake-ssh1-' + hs])
                has_alg = any(l.startswith(('(key) ', '(enc) ', '(aut) ')) for l in out.split('\n')) or '"enc": [' in out
                inp = {'ssh1': True, 'handshake': hs, 'raw_hex': raw.hex(), 'args': mode_args, 'how': how}
                if hs == 'ok1':
                    if code not in (0, 2, 3) or not has_alg:
                        fail('complete_audit_bad_status', inp, {'exit': code, 'stdout': out[:300]}, 'a report and status 0/2/3')
                elif code != 1 or has_alg:
                    fail('incomplete_audit_looks_clean', inp, {'exit': code, 'algorithm_report': has_alg, 'stdout': out[-300:]}, {'exit': 1, 'algorithm_report': False})
    # (c) policy runs
    d = tempfile.mkdtemp(prefix='verif_c02_')
    try:
        pol_ok = os.path.join(d, 'ok.txt')
        pol_bad = os.path.join(d, 'bad.txt')
        base_pol = 'name = "t"\nversion = 1\nhost keys = ssh-ed25519\nkey exchanges = curve25519-sha256\nciphers = %s\nmacs = hmac-sha2-256-etm@openssh.com\n'
        open(pol_ok, 'w').write(base_pol % 'aes256-ctr')
        open(pol_bad, 'w').write(base_pol % 'aes128-ctr')
        for path, passed in ((pol_ok, True), (pol_bad, False)):
            for extra in ([], ['-j'], ['-jj'], ['-b'], ['-l', 'warn']):
                srv = fn.Server(banner=b'SSH-2.0-OpenSSH_8.0', kexinit_payload=good_kex, hostkeys={'ssh-ed25519': fn.ed25519_blob()})
                code, out = fn.run_main(['-n', '--skip-rate-test', '-P', path] + extra + ['10.0.0.5'], fn.FakeNet({'10.0.0.5': srv}))
                cov.add(('policy', passed, tuple(extra)), True, tags=['policy-run'])
                verdict = None
                if '-j' in extra or '-jj' in extra:
                    try:
                        verdict = json.loads(out)['passed']
                    except Exception:
                        verdict = 'unparseable'
                else:
                    verdict = True if 'Passed' in out else (False if 'Failed!' in out else None)
                if code != (0 if passed else 3) or (verdict is not None and verdict != passed):
                    fail('policy_status', {'policy_passes': passed, 'args': extra}, {'exit': code, 'verdict': verdict, 'stdout': out[:200]}, {'exit': 0 if passed else 3})
                lines.append('audit.end ok policy 0 0 %s' % tbool(passed))
                expect.append(('end', {'status': code, 'algReport': True}, ('policy', extra)))
    finally:
        for f in os.listdir(d):
            os.unlink(os.path.join(d, f))
        os.rmdir(d)
    # built-in policies by name (every server policy, outdated versions included — those print an "update available" notice): the target each
    # describes passes (exit 0), the same target with its first cipher swapped fails (exit 3)
    from ssh_audit.builtin_policies import BUILTIN_POLICIES
    from props.C17 import policy_server
    names = [n for n, p_ in BUILTIN_POLICIES.items() if p_['server_policy']]
    latest = {}
    for n in names:
        base = n[:n.rindex(' (version ')]
        latest[base] = max(latest.get(base, 0), int(n[n.rindex(' (version ') + 10:-1]))
    outdated = [n for n in names if int(n[n.rindex(' (version ') + 10:-1]) < latest[n[:n.rindex(' (version ')]]]
    chosen = outdated + (names if ctx.tier == 'thorough' else r.sample([n for n in names if n not in outdated], 6))
    for pname in chosen:
        for drift in (False, True):
            for extra in ([], ['-j'], ['-b']) if ctx.tier == 'thorough' or pname in outdated else ([r.choice([[], ['-j'], ['-b'], ['-v']])]):
                srv = policy_server(BUILTIN_POLICIES[pname])
                if drift:
                    pl = dict(BUILTIN_POLICIES[pname])
                    pl['ciphers'] = ['aes128-cbc'] + list(pl['ciphers'] or [])[1:]
                    srv = policy_server(pl)
                code, out = fn.run_main(['-n', '--skip-rate-test', '-P', pname] + extra + ['10.0.0.6'], fn.FakeNet({'10.0.0.6': srv}))
                cov.add(('builtin-policy', pname, drift, tuple(extra)), True, tags=['policy-run', 'builtin-policy', 'outdated-version' if pname in outdated else 'latest-version'])
                if '-j' in extra:
                    try:
                        verdict = json.loads(out)['passed']
                    except Exception:
                        verdict = 'unparseable'
                else:
                    verdict = True if 'Passed' in out else (False if 'Failed!' in out else None)
                want = 3 if drift else 0
                if code != want or verdict != (not drift):
                    fail('policy_status', {'policy': pname, 'policy_passes': not drift, 'args': extra}, {'exit': code, 'verdict': verdict, 'stdout': out[:300]}, {'exit': want, 'verdict': not drift})
    model = ctx.driver(lines) if ctx.driver_ok else []
    for line, m, (kind, want, what) in zip(lines, model, expect):
        if kind == 'status':
            if m.get('ok', {}).get('status') != want:
                mismatches.append({'stream': 'report.status', 'op': line[:300], 'model': m.get('ok', {}).get('status'), 'impl': want})
        else:
            got = {k: m['ok'][k] for k in ('status', 'algReport')}
            if got != want:
                mismatches.append({'stream': 'audit.end', 'op': line, 'model': got, 'impl': want, 'case': str(what)})
    fn.reset_dbs()
    return {'failures': failures, 'mismatches': mismatches, 'coverage': cov, 'corr_cases': len(model),
            'assumptions': ['tags are counted from the captured report records (before the level filter), so the -l option cannot hide a finding from the oracle',
                            'the mapping from concrete faults to handshake classes is the harness\'s; the model states what each class yields'],
            'observations': ['D23: an SSH-1.99 banner prints fail-coloured (gen)/(sec) lines that carry no [fail] tag and do not raise the status (by the property\'s own observation points)',
                             'D31: an unknown algorithm is [warn] in the text report and "fail" in the JSON notes; the exit status follows the text']}


def replay(obj):
    f = obj.get('failure', obj)
    inp = f['input']
    if 'peer' in inp and isinstance(inp.get('options'), dict):
        o = inp['options']
        ret, out, text, _ = rc.run_output(inp['peer'], batch=o['batch'], verbose=o['verbose'], level=o['level'], colors=o['colors'])
        fl, w = count_tags(out.records)
        want = 3 if fl else (2 if w else 0)
        print('exit %d, %d [fail] tags, %d [warn] tags -> expected %d' % (ret, fl, w, want))
        return 1 if ret != want else 0
    print(json.dumps(f, indent=1)[:2000])
    import sys
    from common import rerun_for_signature
    return rerun_for_signature(sys.modules[__name__], f)
