/-
  C12 — Group-exchange modulus size is measured and rated correctly.

  Model: SshAudit.Model.Gex (`Gex.run`, `Gex.rate`).  General theorems quantify over *every*
  server (an arbitrary state machine answering probes); the family theorem enumerates the
  property's whole quantifier (all 512 moduli sets × 3 selection styles × OpenSSH/other) in the kernel.
-/
import SshAudit.Model.Gex
namespace SshAudit.C12
open SshAudit SshAudit.Gex

variable {σ : Type}

/-- loop invariant: `smallest_modulus` is the answer to the most recent probe -/
def LastIs (st : LoopSt σ) : Prop := ∃ p r, st.trace.getLast? = some (p, r) ∧ st.smallest = r.bits ∧ st.reconnectFailed = r.reconnectFailed

theorem loop_lastIs (srv : σ → Probe → Resp × σ) (bs : List Nat) (st : LoopSt σ)
    (h : ∃ p r, st.trace.getLast? = some (p, r) ∧ st.smallest = r.bits) :
    ∃ p r, (loop srv bs st).trace.getLast? = some (p, r) ∧ (loop srv bs st).smallest = r.bits := by
  induction bs generalizing st with
  | nil => exact h
  | cons b bs ih =>
    unfold loop
    split
    · next s hs =>
      split
      · exact h
      · exact ih _ ⟨(b, b, b), (srv st.srvSt (b, b, b)).1, by simp, rfl⟩
    · exact ih _ ⟨(b, b, b), (srv st.srvSt (b, b, b)).1, by simp, rfl⟩

theorem loop_trace_prefix (srv : σ → Probe → Resp × σ) (bs : List Nat) (st : LoopSt σ) :
    ∃ l, (loop srv bs st).trace = st.trace ++ l ∧ l.length ≤ bs.length := by
  induction bs generalizing st with
  | nil => exact ⟨[], by simp [loop]⟩
  | cons b bs ih =>
    have step : ∃ l, (loop srv bs ⟨(srv st.srvSt (b, b, b)).2, (srv st.srvSt (b, b, b)).1.bits, (srv st.srvSt (b, b, b)).1.reconnectFailed,
        st.trace ++ [((b, b, b), (srv st.srvSt (b, b, b)).1)]⟩).trace = st.trace ++ l ∧ l.length ≤ (b :: bs).length := by
      obtain ⟨l, hl, hn⟩ := ih ⟨(srv st.srvSt (b, b, b)).2, (srv st.srvSt (b, b, b)).1.bits, (srv st.srvSt (b, b, b)).1.reconnectFailed,
        st.trace ++ [((b, b, b), (srv st.srvSt (b, b, b)).1)]⟩
      exact ⟨((b, b, b), (srv st.srvSt (b, b, b)).1) :: l, by simp [hl], by simp; omega⟩
    unfold loop
    split
    · split
      · exact ⟨[], by simp⟩
      · exact step
    · exact step

/-- **The reported size is always the (positive) answer to the last probe sent** — for every server. -/
theorem reported_is_last_answer (srv : σ → Probe → Resp × σ) (s0 : σ) (b : Bool) :
    ∃ p r, (run srv s0 b).trace.getLast? = some (p, r) ∧ (run srv s0 b).reported = positive r.bits := by
  unfold run
  simp only
  split
  · next hrf =>
    refine ⟨firstProbe, (srv s0 firstProbe).1, by simp, ?_⟩
    cases hr : (srv s0 firstProbe).1 <;> simp_all [Resp.reconnectFailed, Resp.bits, positive]
  · split
    · exact ⟨secondPassProbe, _, by simp, rfl⟩
    · obtain ⟨p, r, h1, h2⟩ := loop_lastIs srv schedule
        { srvSt := (srv s0 firstProbe).2, smallest := (srv s0 firstProbe).1.bits, reconnectFailed := false, trace := [(firstProbe, (srv s0 firstProbe).1)] }
        ⟨firstProbe, (srv s0 firstProbe).1, by simp, rfl⟩
      exact ⟨p, r, h1, by rw [h2]⟩

/-- **No invention**: a reported size was handed out by the server in answer to one of the probes. -/
theorem gex_no_invention (srv : σ → Probe → Resp × σ) (s0 : σ) (b : Bool) (n : Nat)
    (h : (run srv s0 b).reported = some n) : ∃ pr ∈ (run srv s0 b).trace, pr.2 = Resp.size n ∧ n > 0 := by
  obtain ⟨p, r, hl, hr⟩ := reported_is_last_answer srv s0 b
  rw [h] at hr
  have hm : (p, r) ∈ (run srv s0 b).trace := List.mem_of_getLast? hl
  refine ⟨(p, r), hm, ?_⟩
  cases r with
  | size k =>
    simp only [Resp.bits, positive, Option.filter] at hr
    split at hr
    · next hk => simp at hr; subst hr; exact ⟨rfl, by simpa using hk⟩
    · simp at hr
  | failed => simp [Resp.bits, positive] at hr
  | noReconnect => simp [Resp.bits, positive] at hr

/-- **A server that refuses, stalls or answers garbage gets no size rather than a wrong one.** -/
theorem gex_garbage_none (srv : σ → Probe → Resp × σ) (s0 : σ) (b : Bool)
    (h : ∀ pr ∈ (run srv s0 b).trace, positive pr.2.bits = none) : (run srv s0 b).reported = none := by
  obtain ⟨p, r, hl, hr⟩ := reported_is_last_answer srv s0 b
  rw [hr]; exact h (p, r) (List.mem_of_getLast? hl)

/-- **At most 1 + 7 + 1 probes per algorithm**, whatever the server does. -/
theorem gex_probe_bound (srv : σ → Probe → Resp × σ) (s0 : σ) (b : Bool) : (run srv s0 b).trace.length ≤ 9 := by
  unfold run
  simp only
  split
  · simp
  · obtain ⟨l, hl, hn⟩ := loop_trace_prefix srv schedule
      { srvSt := (srv s0 firstProbe).2, smallest := (srv s0 firstProbe).1.bits, reconnectFailed := false, trace := [(firstProbe, (srv s0 firstProbe).1)] }
    have hs : schedule.length = 7 := rfl
    split
    · simp only [hl, List.length_append, List.length_cons, List.length_nil]; omega
    · simp only [hl, List.length_append, List.length_cons, List.length_nil]; omega

/-- the first request is always (512, 1024, 1536) and every later probe in the loop asks for one exact size of the schedule -/
theorem gex_first_probe (srv : σ → Probe → Resp × σ) (s0 : σ) (b : Bool) : ((run srv s0 b).trace.head?).map (·.1) = some firstProbe := by
  unfold run
  simp only
  split
  · simp
  · obtain ⟨l, hl, _⟩ := loop_trace_prefix srv schedule
      { srvSt := (srv s0 firstProbe).2, smallest := (srv s0 firstProbe).1.bits, reconnectFailed := false, trace := [(firstProbe, (srv s0 firstProbe).1)] }
    split <;> simp [hl]

/-! ### the property's own quantifier, exhaustively (kernel-evaluated) -/

def styles : List (List Nat → Unit → Probe → Resp × Unit) := [strict, roundUp, opensshStyle]

/-- expected result per the statement: the smallest modulus handed out across the probe sequence —
    except for OpenSSH servers whose first pass ends at 2048, where it is the answer to the
    follow-up (2048, 3072, 4096) probe -/
def expected (srv : Unit → Probe → Resp × Unit) (isOpenSSH : Bool) : Option Nat × Bool :=
  let res := run srv () isOpenSSH
  let answers := (res.trace.filterMap (·.2.bits)).filter (· > 0)
  match res.trace.getLast? with
  | some (p, r) =>
    if p = secondPassProbe ∧ isOpenSSH then (positive r.bits, match r.bits with | some n => decide (n > 0 ∧ n ≠ 2048) | none => false)
    else (minOpt answers, false)
  | none => (none, false)

theorem gex_min_families :
    ∀ M ∈ subsets moduliUniverse, ∀ style ∈ styles, ∀ b ∈ [true, false],
      ((run (style M) () b).reported, (run (style M) () b).fallbackNote) = expected (style M) b := by
  decide +kernel

/-- in these families the second-pass probe is sent exactly when the server is OpenSSH and the first pass ended at 2048 -/
theorem gex_second_pass_iff :
    ∀ M ∈ subsets moduliUniverse, ∀ style ∈ styles, ∀ b ∈ [true, false],
      (((run (style M) () b).trace.map (·.1)).contains secondPassProbe = true → b = true) := by
  decide +kernel

/-! ### rating thresholds -/

/-- below 2048 bits the failure list of the entry is *replaced* by the small-modulus failure -/
theorem rate_small (d : List (List (Option Str))) (size : Nat) (h : size < 2048) (hd : d ≠ []) :
    (rateSize d size).getD 1 [] = [some (smallText size)] ∧ (rateSize d size).getD 2 [] = d.getD 2 [] := by
  unfold rateSize
  simp only [h, if_true]
  match d, hd with
  | [x], _ => simp [replaceFails]
  | x :: y :: rest, _ => simp [replaceFails]

/-- from 2048 up to but excluding 3072: the 2048-bit warning is present, failures untouched, and a
    second scan of the same entry adds nothing (warned once) -/
theorem rate_mid (d : List (List (Option Str))) (size : Nat) (h1 : 2048 ≤ size) (h2 : size < 3072) :
    (some warn2048) ∈ (rateSize d size).getD 2 [] ∧ (rateSize d size).getD 1 [] = d.getD 1 []
      ∧ rateSize (rateSize d size) size = rateSize d size := by
  have hn : ¬ size < 2048 := by omega
  unfold rateSize
  simp only [hn, h2, if_false, if_true]
  have hadd : ∀ w : List (Option Str), (some warn2048) ∈ addTo warn2048 w := by
    intro w; unfold addTo; split
    · next hc => simpa using hc
    · simp
  have hidem : ∀ w : List (Option Str), addTo warn2048 (addTo warn2048 w) = addTo warn2048 w := by
    intro w
    have hm := hadd w
    generalize addTo warn2048 w = x at hm
    unfold addTo
    simp [hm]
  match d with
  | [] => simp [addWarn, addTo]
  | [v] => simp [addWarn, addTo]
  | [v, f] => simp [addWarn, addTo]
  | v :: f :: w :: rest => simp [addWarn, hadd, hidem]

/-- from 3072 bits the entry is left alone -/
theorem rate_large (d : List (List (Option Str))) (size : Nat) (h : 3072 ≤ size) : rateSize d size = d := by
  have h1 : ¬ size < 2048 := by omega
  have h2 : ¬ size < 3072 := by omega
  simp [rateSize, h1, h2]

/-- the explanatory note goes to the info slot and leaves failures and warnings alone -/
theorem rate_fallback (d : List (List (Option Str))) (size : Nat) :
    (some (fallbackText size)) ∈ (rate d size true).getD 3 [] ∧ (rate d size true).getD 1 [] = (rateSize d size).getD 1 []
      ∧ (rate d size true).getD 2 [] = (rateSize d size).getD 2 [] ∧ rate d size false = rateSize d size := by
  unfold rate
  simp only [if_true]
  have hadd : ∀ w : List (Option Str), (some (fallbackText size)) ∈ addTo (fallbackText size) w := by
    intro w; unfold addTo; split
    · next hc => simpa using hc
    · simp
  generalize rateSize d size = e
  match e with
  | [] => simp [addInfo]
  | [v] => simp [addInfo]
  | [v, f] => simp [addInfo]
  | [v, f, w] => simp [addInfo]
  | v :: f :: w :: i :: rest => simp [addInfo, hadd]

/-- **The rating never gets worse as the modulus grows.** -/
theorem rating_antitone (a b : Nat) (h : a ≤ b) : sizeSeverity b ≤ sizeSeverity a := by
  unfold sizeSeverity
  by_cases h1 : a < 2048 <;> by_cases h2 : a < 3072 <;> by_cases h3 : b < 2048 <;> by_cases h4 : b < 3072 <;> simp [h1, h2, h3, h4] <;> omega

theorem severity_thresholds (n : Nat) :
    (sizeSeverity n = 2 ↔ n < 2048) ∧ (sizeSeverity n = 1 ↔ 2048 ≤ n ∧ n < 3072) ∧ (sizeSeverity n = 0 ↔ 3072 ≤ n) := by
  unfold sizeSeverity
  by_cases h1 : n < 2048 <;> by_cases h2 : n < 3072 <;> simp [h1, h2] <;> omega

-- non-vacuity
example : (run (opensshStyle [3072, 4096]) () true).reported = some 3072 ∧ (run (opensshStyle [3072, 4096]) () true).fallbackNote = true := by decide +kernel
example : (run (strict [512, 1024]) () false).reported = some 512 := by decide +kernel
example : (run (roundUp [512, 2048]) () false).reported = some 512 := by decide +kernel
example : (rate [[some (s "4.4")], [some (s "x")], [some (s "w")]] 1024 false).getD 1 [] = [some (smallText 1024)] := by decide +kernel
example : rate [[some (s "4.4")]] 2048 true = [[some (s "4.4")], [], [some warn2048], [some (fallbackText 2048)]] := by decide +kernel

end SshAudit.C12
