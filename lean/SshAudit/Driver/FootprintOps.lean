import SshAudit.Driver.WireOps
import SshAudit.Driver.GexOps
import SshAudit.Model.Footprint
import SshAudit.Gen.Tables
namespace SshAudit.Driver
open SshAudit SshAudit.Footprint

def decProbeOutcome (tok : String) : Option (ProbeOutcome × Bool) :=
  match tok with
  | "c" => some (.connectFail, false) | "b" => some (.bannerFail, false) | "k" => some (.kexFail, false) | "g" => some (.groupFail, false)
  | "x" => some (.exchanged, false) | "X" => some (.exchanged, true)
  -- the *_INIT message went out and nothing came back (close / stall): no exception, the (empty) key is recorded; a group already received counts
  | "n" => some (.exchanged, true) | "s" => some (.exchanged, true) | _ => none

def phaseName : Phase → String | .handshake => "handshake" | .hostKey => "hostkey" | .gex => "gex" | .rate => "rate"
def jconn (c : Conn) : J := .arr [.str (phaseName c.phase).toList, .bool c.connected, .arr (c.sent.map .nat), .bool c.closed]

def decRateIter (tok : String) : Option RateIter :=
  -- `T` = time up; otherwise `<connect flags>/<readable flags>/<exceptional count>` e.g. `110/bn/1`
  if tok = "T" then some { timeUp := true, connectOk := [], readable := [], exceptional := [] } else
  match tok.splitOn "/" with
  | [c, r, x] => do
    let x ← String.toNat? x
    pure { timeUp := false, connectOk := c.toList.map (· = '1'), readable := (r.toList.zipIdx.map fun (ch, i) => (i, ch = 'b')),
           exceptional := List.range x }
  | _ => none

def footprintOp (op : String) (args : List String) : Option J :=
  match op, args with
  | "footprint.hs", [h] => do
    let h ← match h with | "p" => some HsOutcome.proceeds | "d1" => some (.versionsDiffer true true) | "d1n" => some (.versionsDiffer true false) | "d0" => some (.versionsDiffer false true) | "e" => some .ends | _ => none
    -- only the non-proceeding cases are answered here (the proceeding one is `footprint.audit`)
    let conns := auditFootprintH h [] [] [] [] [] [] false { plan := [], sizeOf := fun _ => none }
    pure (jok (.arr (conns.map jconn)))
  | "footprint.audit", [o, k, keys, plan, style, m] => do
    let o ← decBool o; let k ← decStrs k; let keys ← decStrs keys
    let plan ← if plan = "_" then some [] else (plan.splitOn ",").mapM decProbeOutcome
    let st ← styleOf style
    let m ← if m = "_" then some [] else (m.splitOn ",").mapM (fun (x : String) => x.toNat?)
    let env : Env := { plan := plan, sizeOf := fun p => ((st m () p).1).bits }
    let conns := auditFootprint (Gen.hostKeyTypes.map (·.name)) Gen.rsaFamily Gen.kexToDhgroupKeys Gen.gexAlgs k keys o env
    pure (jok (.arr (conns.map jconn)))
  | "footprint.rate", [mx, conc, iters] => do
    let mx ← decNat mx; let conc ← decNat conc
    let iters ← if iters = "_" then some [] else (iters.splitOn ",").mapM decRateIter
    let r := rateLoop mx conc iters rateInit
    pure (jok (.obj [("attempted", .nat r.attempted), ("opened", .nat r.opened), ("max_concurrent", .nat r.maxConcurrent), ("closed", .nat r.closedSocks)]))
  | "footprint.rateruns", [sk, cl, k] => do
    let sk ← decBool sk; let cl ← decBool cl; let k ← decStrs k
    pure (jok (.bool (rateRuns sk cl k (Gen.dheatAlgPriority ++ Gen.dheatGexAlgs))))
  | _, _ => none

end SshAudit.Driver
