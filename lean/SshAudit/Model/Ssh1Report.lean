/-
  The SSH-1 audit report: what `output()` (`ssh_audit.py`) renders when it is given an SSH-1
  public-key message (`pkm`, `kex is None`), and the JSON document `build_struct` produces for it.

  Mirrored branch by branch from `/repo/src/ssh_audit/ssh_audit.py` (`output`, `output_algorithms`,
  `output_security`, `output_compatibility`, `output_fingerprints`, `output_recommendations`,
  `output_info`, `post_process_findings` with `algs.ssh2kex is None`, `get_algorithm_recommendations`,
  `build_struct` else-branch), `algorithms.py` (`Algorithms.ssh1`, `maxlen`, `get_recommendations`,
  `get_ssh_timeframe`), `ssh1_publickeymessage.py` (`supported_ciphers`, `supported_authentications`,
  `host_key_fingerprint_data`) and `fingerprint.py` (the two hashes are opaque parameters).

  Shared code is shared here as well: the algorithm lines are `Report.algLines` (i.e. `output_algorithm`:
  `algTexts`, `entryTexts`, `sinceNote`, `foldStatus`), the masks are `Report.maskNames`, a recommendation is
  `Report.recOf`, the buffer and the line formats are `Output.*` (`generalItems`, `securityItems`,
  `algItems`, `fpItems`, `recItem`, `infoItems`, `finalOps`, `exec`).

  What the SSH-1 path does *not* do (and the model therefore does not either):
  * `output_algorithms` is called without `host_keys` / `dh_modulus_sizes`: no size suffix is ever shown
    (`host_key_bits` is read by nothing — the line that used it is commented out in `output_fingerprints`);
  * `aut` is skipped by `get_recommendations`; `get_algorithm_recommendations` walks `kex, key, enc, mac`;
  * `build_struct` lists bare names for `enc` / `aut` (no per-algorithm notes) and one fingerprint entry
    `{"type": "ssh-rsa1", "fp": <sha256 text>}`.

  Core Lean only.
-/
import SshAudit.Model.Output
import SshAudit.Model.Banner
namespace SshAudit
namespace Ssh1Report
open Report (s Level Note AlgLine Rec Action keyC encC autC macC)

/-- `SSH1.CIPHERS`, `SSH1.AUTHS` (ssh1.py) -/
structure Tables where
  ciphers : List Str
  auths : List Str
deriving Repr, DecidableEq

/-- `Fingerprint(d).sha256` (`"SHA256:" + base64 without padding`) and `Fingerprint(d).md5`
    (`"MD5:" + colon-separated hex`) — opaque -/
structure Hashes where
  sha256 : Bytes → Str
  md5 : Bytes → Str

/-- what `output()` is called with on the SSH-1 path -/
structure Input where
  pkm : Wire.Pkm
  banner : Option Banner.Banner := none
  clientHost : Option Str := none      -- `client_host` (a client audit when present)
  target : Option Str := none          -- the text of the `(gen) target:` line when `print_target`
  header : List Str := []
  rateNotes : Str := []                -- `dh_rate_test_notes`
  hostPort : Str := []                 -- `aconf.host + ":" + str(aconf.port)` (the JSON `target`)
deriving Repr, DecidableEq

def rsa1 : Str := s "ssh-rsa1"

/-! ### the public-key message -/

/-- `pkm.supported_ciphers`: `for i in range(len(SSH1.CIPHERS))` -/
def ciphers (t : Tables) (p : Wire.Pkm) : List Str := Report.maskNames t.ciphers 0 p.cmask

/-- `pkm.supported_authentications`: `for i in range(1, len(SSH1.AUTHS))` -/
def auths (t : Tables) (p : Wire.Pkm) : List Str := Report.maskNames t.auths 1 p.amask

/-- `pkm.host_key_fingerprint_data`: `_create_mpint(modulus, False) + _create_mpint(exponent, False)` -/
def fpData (p : Wire.Pkm) : Bytes := Wire.bytesOf (Wire.createMpintU p.hkN) ++ Wire.bytesOf (Wire.createMpintU p.hkE)

/-- `Algorithms.maxlen` with `ssh2kex is None`: the longest cipher / authentication name (`ssh-rsa1` is not counted) -/
def maxlenOf (cs au : List Str) : Nat :=
  max (max ((cs.map List.length).foldl max 0) ((au.map List.length).foldl max 0)) 0

/-! ### `output_algorithms(out, title, adb, atype, names, …, maxlen)` — no size maps on this path -/

def lines (db1 : DB) (cat : Str) (names : List Str) : List AlgLine := Report.algLines [] db1 cat names [] []

/-! ### `post_process_findings` with `algs.ssh2kex is None` -/

/-- every `_get_*_enabled` returns `[]`; the three `_get_*_not_enabled` lists are whole families of the **SSH-2** database -/
def suppress1 (db2 : DB) : List Str :=
  (DBm.keys db2 encC).filter Report.isChacha ++ (DBm.keys db2 encC).filter Report.isCbc ++ (DBm.keys db2 macC).filter Report.isEtm

/-- `additional_notes`: nothing to note about Terrapin; the rate-test notes when non-empty -/
def notes1 (rate : Str) : List Str := if rate.length > 0 then [rate] else []

/-- the peer an SSH-1 audit presents to the SSH-2 post-processing: nothing -/
def noPeer : Report.Peer := { kex := [], key := [], encC := [], encS := [], macC := [], macS := [], compS := [] }

/-! ### recommendations -/

/-- `Algorithms.get_recommendations` + `get_algorithm_recommendations` over the `(alg_type, alg_list)` pairs of one
    `Algorithms.Item`: per category, per action in the order del, add, chg, database order inside, suppress list applied.
    (`Report.recommendations` is this function on the four SSH-2 pairs.) -/
def recsFor (db : DB) (software : Option Version.Software) (cats : List (Str × List Str)) (suppress : List Str) : List Rec :=
  match software with
  | none => []
  | some sw =>
    let unknown := !Report.vproducts.contains sw.product
    cats.flatMap (fun (c, adv) =>
      let rs := (DBm.cat db c).filterMap (Report.recOf sw unknown c adv)
      let pick (a : Action) := rs.filter (fun r => r.action = a && !suppress.contains r.name)
      pick .del ++ pick .add ++ pick .chg)

/-- the SSH-1 item: `key ↦ ['ssh-rsa1']`, `enc ↦ ciphers`; `aut` is skipped (`if alg_type == 'aut': continue`) and
    `get_algorithm_recommendations` only visits `kex, key, enc, mac` -/
def recs1 (db1 : DB) (software : Option Version.Software) (cs : List Str) (suppress : List Str) : List Rec :=
  recsFor db1 software [(keyC, [rsa1]), (encC, cs)] suppress

/-! ### `output_compatibility` -/

/-- the `comp_text` list for a time frame (`for_server = True`) -/
def compatParts (tf : Version.Timeframe) : List Str :=
  [Version.pOpenSSH, Version.pDropbear].filterMap fun prod =>
    if Version.tfContains tf prod = false then none else
    match Version.tfGetFrom tf prod true with
    | none => none
    | some vfrom =>
      match Version.tfGetTill tf prod true with
      | none => some (prod ++ s " " ++ vfrom ++ s "+")
      | some vtill =>
        if vfrom = vtill then some (prod ++ s " " ++ vfrom)
        else if Version.compareVersion ⟨none, prod, vfrom, none, none⟩ vtill > 0 then
          some (prod ++ s " " ++ vfrom ++ s "+ (some functionality from " ++ vtill ++ s ")")
        else some (prod ++ s " " ++ vfrom ++ s "-" ++ vtill)

/-- `algs.get_ssh_timeframe(True)` over the SSH-1 item (key, enc, aut — `aut` does count here) -/
def timeframe1 (db1 : DB) (cs au : List Str) : Version.Timeframe :=
  Version.sshTimeframe [] db1 [(keyC, [rsa1]), (encC, cs), (autC, au)] (some true)

/-- the text after `(gen) compatibility: ` (`none`: a client audit, or nothing to say) -/
def compat1 (db1 : DB) (cs au : List Str) (client : Bool) : Option Str :=
  if client then none
  else
    let parts := compatParts (timeframe1 db1 cs au)
    if parts.length > 0 then some (Text.join (s ", ") parts) else none

/-! ### the report as data -/

structure Report1 where
  ciphers : List Str
  auths : List Str
  key : List AlgLine
  enc : List AlgLine
  aut : List AlgLine
  status : Nat                       -- `program_retval`
  unknown : List Str                 -- `unknown_algorithms`
  software : Option Version.Software -- `Software.parse(banner)`
  suppress : List Str
  recs : List Rec
  notes : List Str                   -- `additional_notes`
  maxlen : Nat                       -- `algs.maxlen + 1`
  compat : Option Str
deriving Repr

/-- `Software.parse(banner)` (`None` without a banner) -/
def softwareOf (b : Option Banner.Banner) : Option Version.Software :=
  match b with
  | some b => Version.parse b.software b.comments
  | none => none

def report (t : Tables) (db1 db2 : DB) (x : Input) : Report1 :=
  let cs := ciphers t x.pkm
  let au := auths t x.pkm
  let k := lines db1 keyC [rsa1]
  let e := lines db1 encC cs
  let a := lines db1 autC au
  let sw := softwareOf x.banner
  let sup := suppress1 db2
  { ciphers := cs, auths := au, key := k, enc := e, aut := a,
    status := Report.statusOfLines (Report.statusOfLines (Report.statusOfLines 0 k) e) a,
    unknown := (k ++ e ++ a).filterMap (fun l => if l.unknown then some (Report.gssNormalize l.cat l.name) else none),
    software := sw, suppress := sup,
    recs := recs1 db1 sw cs sup,
    notes := notes1 x.rateNotes,
    maxlen := maxlenOf cs au + 1,
    compat := compat1 db1 cs au x.clientHost.isSome }

/-! ### the JSON document (`build_struct(…, kex=None, pkm=pkm, …)`) -/

structure Doc where
  bannerRaw : Str                    -- `str(banner)` or `''`
  bannerProtocol : Option Str        -- `'.'.join(str(x) for x in banner.protocol)`
  bannerSoftware : Option Str
  bannerComments : Option Str
  clientIp : Option Str              -- exactly one of `client_ip` / `target` is present
  target : Option Str
  key : List Str                     -- `['ssh-rsa1']`
  enc : Option (List Str)            -- `pkm.supported_ciphers` (`null` without a pkm)
  aut : Option (List Str)
  fpType : Str                       -- `fingerprints = [{'type': 'ssh-rsa1', 'fp': …}]`
  fp : Option Str
  recs : List Rec                    -- `recommendations`, levelled by `Report.recLevel`
  notes : List Str                   -- `additional_notes`
deriving Repr, DecidableEq

/-- the else-branch of `build_struct` (`kex is None`), for an optional pkm -/
def docLists (t : Tables) (h : Hashes) (pkm : Option Wire.Pkm) : Option (List Str) × Option (List Str) × Option Str :=
  match pkm with
  | some p => (some (ciphers t p), some (auths t p), some (h.sha256 (fpData p)))
  | none => (none, none, none)

def doc (t : Tables) (h : Hashes) (db1 db2 : DB) (x : Input) : Doc :=
  let r := report t db1 db2 x
  let l := docLists t h (some x.pkm)
  { bannerRaw := match x.banner with | some b => Banner.render b | none => [],
    bannerProtocol := x.banner.map (fun b => Text.natToStr b.protocol.1 ++ s "." ++ Text.natToStr b.protocol.2),
    bannerSoftware := x.banner.bind (·.software),
    bannerComments := x.banner.bind (·.comments),
    clientIp := x.clientHost,
    target := if x.clientHost.isSome then none else some x.hostPort,
    key := [rsa1], enc := l.1, aut := l.2.1, fpType := rsa1, fp := l.2.2,
    recs := recs1 db1 r.software r.ciphers r.suppress,
    notes := r.notes }

/-! ### the text (`output()` as buffer calls) -/

/-- the data `Output`'s line formats read, for the SSH-1 report.  `secView = false`: the general section, where the
    banner is shown as a failure because `sshv == 1 or banner.protocol[0] == 1` holds (`sshv == 1`);
    `secView = true`: `output_security`, which looks at `banner.protocol[0] == 1` alone. -/
def outInput (h : Hashes) (x : Input) (r : Report1) (secView : Bool) : Output.Input :=
  { report := { kex := [], key := r.key, enc := r.enc, mac := [], status := r.status, compression := [],
                recs := r.recs, notes := r.notes, unknown := r.unknown },
    hasKex := false, rsaFamily := [], hostKeys := [], dhSizes := [],
    maxlen := r.maxlen,
    target := x.target,
    clientIP := x.clientHost,
    header := if x.header.length > 0 then some (Text.join (s "\n") x.header) else none,
    banner := x.banner.map (fun b =>
      { text := Banner.render b, ssh1 := if secView then decide (b.protocol.1 = 1) else true, validAscii := b.validAscii,
        software := r.software.map (fun sw => Version.display sw true) }),
    swDisplay := r.software.map (fun sw => Version.display sw false),
    compat := r.compat,
    fps := [{ ftype := rsa1, sha256 := h.sha256 (fpData x.pkm), md5 := h.md5 (fpData x.pkm) }],
    putty := x.clientHost.isSome && (match r.software with | some sw => decide (sw.product = Version.pPuTTY) | none => false),
    jsonCompact := [], jsonIndented := [] }

/-- the sections of `output()` in order, for a pkm -/
def sections (cfg : Output.Cfg) (h : Hashes) (x : Input) (r : Report1) : List Output.Sec :=
  let inp := outInput h x r false
  [{ title := s "# general", sort := false, items := Output.generalItems inp },
   { title := s "# security", sort := false, items := Output.securityItems cfg (outInput h x r true) },
   { title := s "# SSH1 host-key algorithms", sort := false, items := Output.algItems cfg inp r.key },
   { title := s "# SSH1 encryption algorithms (ciphers)", sort := false, items := Output.algItems cfg inp r.enc },
   { title := s "# SSH1 authentication types", sort := false, items := Output.algItems cfg inp r.aut },
   { title := s "# fingerprints", sort := false, items := inp.fps.flatMap (Output.fpItems cfg) },
   { title := Output.recTitle inp, sort := true, items := r.recs.map (Output.recItem cfg inp) },
   { title := s "# additional info", sort := false, items := Output.infoItems inp }]

/-- `jsonText`: `json.dumps(build_struct(…))` as text (opaque: the document itself is `doc`) -/
def outputOps (cfg : Output.Cfg) (h : Hashes) (x : Input) (r : Report1) (jsonText : Str) : List Output.Op :=
  (sections cfg h x r).flatMap Output.Sec.ops ++
    Output.finalOps cfg { outInput h x r false with jsonCompact := jsonText, jsonIndented := jsonText }

/-- the buffer entries after `output()` on a fresh buffer -/
def render (cfg : Output.Cfg) (h : Hashes) (x : Input) (r : Report1) (jsonText : Str) : List Str :=
  (Output.exec cfg (outputOps cfg h x r jsonText) {}).entries

/-- the value `output()` returns -/
def exitStatus (_cfg : Output.Cfg) (r : Report1) : Nat := r.status

/-- the tagged notes the report shows (`[fail]`, `[warn]`, `[info]` after ` -- ` / `` `- ``), in order -/
def shownNotes (r : Report1) : List Note := (r.key ++ r.enc ++ r.aut).flatMap (·.notes)

end Ssh1Report
end SshAudit
