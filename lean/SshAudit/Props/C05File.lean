/-
  C05 (extension) — the policy-file *text* path.

  `parse_create`: for every well-formed peer (`WfPeer`: non-empty name-lists whose names contain no ',' / newline and are
  fixed by `strip()`; banner, source, date and compression names without newline; size-map keys distinct) the parser
  applied to the text `Policy.create` writes yields exactly `Pol.policyOf peer`, the name `Custom Policy (based on … on …)`
  and version `1` — with `Json.loads` / `Json.dumpDict` the modelled `json.loads` / `json.dumps`, for *all* names (the
  JSON string round trip is proved for every Unicode scalar value).  Together with `C05.made_policy_verdict` and
  `C05.drift_*` this gives the C05 statements for the text path (`made_text_policy_*`).
  Further: every rejected line shape is rejected, comment / blank lines never change the result, the last occurrence of
  a value directive wins, the boolean flags are sticky (a later `= false` does not reset them — this is what the code does).
-/
import SshAudit.Props.C05
import SshAudit.Model.PolicyFile
set_option linter.unusedSimpArgs false
namespace SshAudit.C05File
open SshAudit SshAudit.Pol SshAudit.PolicyFile SshAudit.PolicyFile.Json

/-! ### `str.strip()` -/

def AllSp (l : Str) : Prop := ∀ c ∈ l, Text.isUSpace c = true
/-- no white space at either end -/
def Tight (m : Str) : Prop := (∀ c t, m = c :: t → Text.isUSpace c = false) ∧ (∀ t c, m = t ++ [c] → Text.isUSpace c = false)

def lstripU (l : Str) : Str := l.dropWhile Text.isUSpace
def rstripU (l : Str) : Str := (l.reverse.dropWhile Text.isUSpace).reverse

theorem stripU_eq (l : Str) : Text.stripU l = rstripU (lstripU l) := rfl

theorem AllSp.append {a b : Str} (ha : AllSp a) (hb : AllSp b) : AllSp (a ++ b) := by
  intro c hc; rcases List.mem_append.mp hc with h | h
  · exact ha c h
  · exact hb c h

theorem AllSp.reverse {a : Str} (ha : AllSp a) : AllSp a.reverse := fun c hc => ha c (List.mem_reverse.mp hc)

theorem allSp_nil : AllSp [] := fun _ h => nomatch h

theorem dropWhile_allSp {a : Str} (ha : AllSp a) : a.dropWhile Text.isUSpace = [] := by
  have := List.dropWhile_append_of_pos (p := Text.isUSpace) (l₁ := a) (l₂ := []) ha
  simpa using this

theorem dropWhile_cons_head {p : Char → Bool} {l : Str} {c : Char} {t : Str} (h : l.dropWhile p = c :: t) : p c = false := by
  induction l with
  | nil => simp at h
  | cons x xs ih =>
    by_cases hx : p x = true
    · rw [List.dropWhile_cons_of_pos hx] at h; exact ih h
    · rw [List.dropWhile_cons_of_neg hx] at h
      simp only [List.cons.injEq] at h
      rw [← h.1]; simpa using hx

theorem takeWhile_allSp (l : Str) : AllSp (l.takeWhile Text.isUSpace) := by
  intro c hc
  induction l with
  | nil => simp at hc
  | cons x xs ih =>
    by_cases hx : Text.isUSpace x = true
    · rw [List.takeWhile_cons_of_pos hx] at hc
      rcases List.mem_cons.mp hc with h | h
      · rw [h]; exact hx
      · exact ih h
    · rw [List.takeWhile_cons_of_neg hx] at hc; simp at hc

theorem lstripU_decomp (l : Str) : ∃ a, AllSp a ∧ l = a ++ lstripU l :=
  ⟨l.takeWhile Text.isUSpace, takeWhile_allSp l, (List.takeWhile_append_dropWhile).symm⟩

theorem rstripU_decomp (l : Str) : ∃ b, AllSp b ∧ l = rstripU l ++ b := by
  refine ⟨(l.reverse.takeWhile Text.isUSpace).reverse, (takeWhile_allSp _).reverse, ?_⟩
  unfold rstripU
  rw [← List.reverse_append, List.takeWhile_append_dropWhile, List.reverse_reverse]

/-- **`strip()` specification**: white space around a tight core is removed, nothing else -/
theorem stripU_spec (a m b : Str) (ha : AllSp a) (hb : AllSp b) (hm : Tight m) : Text.stripU (a ++ m ++ b) = m := by
  unfold Text.stripU
  cases m with
  | nil =>
    have : AllSp (a ++ [] ++ b) := (ha.append allSp_nil).append hb
    rw [dropWhile_allSp this]; rfl
  | cons c t =>
    have hc : Text.isUSpace c = false := hm.1 c t rfl
    rw [List.append_assoc, List.dropWhile_append_of_pos ha, List.cons_append,
      List.dropWhile_cons_of_neg (by simp [hc]), ← List.cons_append, List.reverse_append,
      List.dropWhile_append_of_pos hb.reverse]
    cases hr : (c :: t).reverse with
    | nil => simp at hr
    | cons d r =>
      have hct : c :: t = r.reverse ++ [d] := by
        have := congrArg List.reverse hr
        simpa using this
      have hd : Text.isUSpace d = false := hm.2 _ _ hct
      rw [List.dropWhile_cons_of_neg (by simp [hd]), ← hr, List.reverse_reverse]

/-- every text is white space, its stripped core, white space; the core is tight -/
theorem stripU_decomp (l : Str) : ∃ a b, AllSp a ∧ AllSp b ∧ Tight (Text.stripU l) ∧ l = a ++ Text.stripU l ++ b := by
  obtain ⟨a, ha, h1⟩ := lstripU_decomp l
  obtain ⟨b, hb, h2⟩ := rstripU_decomp (lstripU l)
  refine ⟨a, b, ha, hb, ⟨?_, ?_⟩, ?_⟩
  · intro c t hct
    rw [stripU_eq] at hct
    have h3 : lstripU l = c :: (t ++ b) := by rw [h2, hct]; rfl
    exact dropWhile_cons_head h3
  · intro t c hct
    rw [stripU_eq] at hct
    unfold rstripU at hct
    have := congrArg List.reverse hct
    simp only [List.reverse_reverse, List.reverse_append, List.reverse_cons, List.reverse_nil, List.nil_append, List.cons_append] at this
    exact dropWhile_cons_head this
  · rw [stripU_eq, List.append_assoc, ← h2]; exact h1

theorem stripU_tight (l : Str) : Tight (Text.stripU l) := by
  obtain ⟨_, _, _, _, h, _⟩ := stripU_decomp l; exact h

theorem stripU_idem (l : Str) : Text.stripU (Text.stripU l) = Text.stripU l := by
  have := stripU_spec [] (Text.stripU l) [] allSp_nil allSp_nil (stripU_tight l)
  simpa using this

theorem tight_of_stripU_eq {n : Str} (h : Text.stripU n = n) : Tight n := h ▸ stripU_tight n

theorem stripU_allSp_left (a l : Str) (ha : AllSp a) : Text.stripU (a ++ l) = Text.stripU l := by
  obtain ⟨a', b', ha', hb', ht, hl⟩ := stripU_decomp l
  have : a ++ l = (a ++ a') ++ Text.stripU l ++ b' := by
    conv => lhs; rw [hl]
    simp [List.append_assoc]
  rw [this]; exact stripU_spec _ _ _ (ha.append ha') hb' ht

theorem stripU_allSp_right (l b : Str) (hb : AllSp b) : Text.stripU (l ++ b) = Text.stripU l := by
  obtain ⟨a', b', ha', hb', ht, hl⟩ := stripU_decomp l
  have : l ++ b = a' ++ Text.stripU l ++ (b' ++ b) := by
    conv => lhs; rw [hl]
    simp [List.append_assoc]
  rw [this]; exact stripU_spec _ _ _ ha' (hb'.append hb) ht

theorem stripU_allSp (a : Str) (ha : AllSp a) : Text.stripU a = [] := by
  have := stripU_spec a [] [] ha allSp_nil ⟨fun _ _ h => by simp at h, fun t c h => by simp at h⟩
  simpa using this

theorem stripU_lstripU (l : Str) : Text.stripU (lstripU l) = Text.stripU l := by
  obtain ⟨a, ha, h⟩ := lstripU_decomp l
  conv => rhs; rw [h]
  exact (stripU_allSp_left _ _ ha).symm

theorem stripU_rstripU (l : Str) : Text.stripU (rstripU l) = Text.stripU l := by
  obtain ⟨b, hb, h⟩ := rstripU_decomp l
  conv => rhs; rw [h]
  exact (stripU_allSp_right _ _ hb).symm

/-- a character that is not white space stops `lstrip` / `rstrip` -/
theorem lstripU_append_cons (k : Str) (c : Char) (v : Str) (hc : Text.isUSpace c = false) :
    lstripU (k ++ c :: v) = lstripU k ++ c :: v := by
  unfold lstripU
  induction k with
  | nil => simp [List.dropWhile_cons_of_neg, hc]
  | cons x xs ih =>
    by_cases hx : Text.isUSpace x = true
    · simp only [List.cons_append, List.dropWhile_cons_of_pos hx]; exact ih
    · simp only [List.cons_append, List.dropWhile_cons_of_neg hx]

theorem rstripU_append_cons (k : Str) (c : Char) (v : Str) (hc : Text.isUSpace c = false) :
    rstripU (k ++ c :: v) = k ++ c :: rstripU v := by
  unfold rstripU
  have h := lstripU_append_cons v.reverse c k.reverse hc
  unfold lstripU at h
  simp only [List.reverse_append, List.reverse_cons, List.append_assoc, List.singleton_append]
  rw [h]
  simp

/-! ### `line.split('=', 1)` after `line.strip()`, then `key.strip()`, `val.strip()` -/

/-- **any amount of white space around the key, the `=` and the value is immaterial**, and only the first `=` splits -/
theorem splitKV_general (k v : Str) (hk : '=' ∉ k) :
    ∃ k' v', splitEq1 (Text.stripU (k ++ '=' :: v)) = some (k', v') ∧ Text.stripU k' = Text.stripU k ∧ Text.stripU v' = Text.stripU v := by
  refine ⟨lstripU k, rstripU v, ?_, stripU_lstripU k, stripU_rstripU v⟩
  rw [stripU_eq, lstripU_append_cons k '=' v (by decide), rstripU_append_cons _ '=' v (by decide)]
  apply C05.splitEq1_append
  intro h
  exact hk ((List.dropWhile_sublist _).mem h)

/-! ### `split` and `join` -/

theorem splitOn_of_not_mem (c : Char) (l : Str) (h : c ∉ l) : Text.splitOn c l = [l] := by
  induction l with
  | nil => rfl
  | cons x xs ih =>
    have hx : x ≠ c := fun e => h (by simp [e])
    have hxs : c ∉ xs := fun e => h (by simp [e])
    simp [Text.splitOn, hx, ih hxs]

theorem splitOn_append_sep (c : Char) (l r : Str) (h : c ∉ l) : Text.splitOn c (l ++ c :: r) = l :: Text.splitOn c r := by
  induction l with
  | nil => simp [Text.splitOn]
  | cons x xs ih =>
    have hx : x ≠ c := fun e => h (by simp [e])
    have hxs : c ∉ xs := fun e => h (by simp [e])
    simp [Text.splitOn, hx, ih hxs]

/-- **the lines of a text made by joining newline-free lines are those lines** -/
theorem splitOn_join_newline (c : Char) (lines : List Str) (hne : lines ≠ []) (h : ∀ l ∈ lines, c ∉ l) :
    Text.splitOn c (Text.join [c] lines) = lines := by
  induction lines with
  | nil => exact absurd rfl hne
  | cons l ls ih =>
    cases ls with
    | nil => simp [Text.join, splitOn_of_not_mem c l (h l (by simp))]
    | cons l2 ls2 =>
      have hl : c ∉ l := h l (by simp)
      simp only [Text.join, List.append_assoc, List.singleton_append]
      rw [splitOn_append_sep c l _ hl, ih (by simp) (fun x hx => h x (List.mem_cons_of_mem _ hx))]

theorem splitOn_ne_nil (c : Char) (l : Str) : ∃ p ps, Text.splitOn c l = p :: ps := by
  induction l with
  | nil => exact ⟨[], [], rfl⟩
  | cons x xs ih =>
    obtain ⟨p, ps, h⟩ := ih
    by_cases hx : x = c
    · exact ⟨[], Text.splitOn c xs, by simp [Text.splitOn, hx]⟩
    · exact ⟨x :: p, ps, by simp [Text.splitOn, hx, h]⟩

/-- white space before the first piece does not change the stripped pieces -/
theorem splitOn_allSp_left (c : Char) (a l : Str) (ha : AllSp a) (hc : c ∉ a) :
    (Text.splitOn c (a ++ l)).map Text.stripU = (Text.splitOn c l).map Text.stripU := by
  obtain ⟨p, ps, hp⟩ := splitOn_ne_nil c l
  have : Text.splitOn c (a ++ l) = (a ++ p) :: ps := by
    induction a with
    | nil => simpa using hp
    | cons x xs ih =>
      have hx : x ≠ c := fun e => hc (by simp [e])
      have hxs : c ∉ xs := fun e => hc (by simp [e])
      have := ih (fun y hy => ha y (List.mem_cons_of_mem _ hy)) hxs
      simp [Text.splitOn, hx, this]
  rw [this, hp]
  simp [stripU_allSp_left a p ha]

/-- `b` appended to the last piece -/
def appendLast : List Str → Str → List Str
  | [], _ => []
  | [p], b => [p ++ b]
  | p :: q :: ps, b => p :: appendLast (q :: ps) b

theorem splitOn_append_nosep (c : Char) (l b : Str) (hc : c ∉ b) :
    Text.splitOn c (l ++ b) = appendLast (Text.splitOn c l) b := by
  induction l with
  | nil => simp [splitOn_of_not_mem c b hc, Text.splitOn, appendLast]
  | cons x xs ih =>
    obtain ⟨p, ps, hp⟩ := splitOn_ne_nil c xs
    by_cases hx : x = c
    · simp only [List.cons_append, Text.splitOn, hx, if_true]
      rw [ih, hp]; rfl
    · simp only [List.cons_append, Text.splitOn, hx, if_false]
      rw [ih, hp]
      cases ps with
      | nil => simp [appendLast]
      | cons q qs => simp [appendLast]

theorem map_stripU_appendLast (ps : List Str) (b : Str) (hb : AllSp b) : (appendLast ps b).map Text.stripU = ps.map Text.stripU := by
  induction ps with
  | nil => rfl
  | cons p ps ih =>
    cases ps with
    | nil => simp [appendLast, stripU_allSp_right p b hb]
    | cons q qs => simp only [appendLast, List.map_cons] at ih ⊢; rw [ih]

theorem allSp_not_mem {a : Str} (ha : AllSp a) {c : Char} (hc : Text.isUSpace c = false) : c ∉ a := by
  intro h; have := ha c h; rw [hc] at this; exact absurd this (by simp)

/-- stripping the value first does not change the stripped pieces (the separator is not white space) -/
theorem parseAlgs_stripU (v : Str) : PolicyFile.parseAlgs (Text.stripU v) = PolicyFile.parseAlgs v := by
  unfold PolicyFile.parseAlgs
  obtain ⟨a, ha, h1⟩ := lstripU_decomp v
  obtain ⟨b, hb, h2⟩ := rstripU_decomp (lstripU v)
  have hcomma : Text.isUSpace ',' = false := by decide
  calc (Text.splitOn ',' (Text.stripU v)).map Text.stripU
      = (appendLast (Text.splitOn ',' (Text.stripU v)) b).map Text.stripU := (map_stripU_appendLast _ _ hb).symm
    _ = (Text.splitOn ',' (Text.stripU v ++ b)).map Text.stripU := by rw [splitOn_append_nosep _ _ _ (allSp_not_mem hb hcomma)]
    _ = (Text.splitOn ',' (lstripU v)).map Text.stripU := by rw [stripU_eq, ← h2]
    _ = (Text.splitOn ',' (a ++ lstripU v)).map Text.stripU := (splitOn_allSp_left _ _ _ ha (allSp_not_mem ha hcomma)).symm
    _ = (Text.splitOn ',' v).map Text.stripU := by rw [← h1]

/-- a name the list syntax can carry: no comma, unchanged by `strip()` -/
def WfName (n : Str) : Prop := ',' ∉ n ∧ Text.stripU n = n

/-- **`', '.join(names)` parses back to `names`** (the value may be stripped first, as the parser does) -/
theorem parseAlgs_join (names : List Str) (hne : names ≠ []) (h : ∀ n ∈ names, WfName n) :
    PolicyFile.parseAlgs (Text.stripU (Text.join listSep names)) = names := by
  rw [parseAlgs_stripU]
  unfold PolicyFile.parseAlgs
  induction names with
  | nil => exact absurd rfl hne
  | cons n ns ih =>
    obtain ⟨hn1, hn2⟩ := h n (by simp)
    cases ns with
    | nil => simp [Text.join, splitOn_of_not_mem ',' n hn1, hn2]
    | cons n2 ns2 =>
      have e : Text.join listSep (n :: n2 :: ns2) = n ++ ',' :: ([' '] ++ Text.join listSep (n2 :: ns2)) := by
        simp [Text.join, listSep]
      rw [e, splitOn_append_sep ',' n _ hn1, List.map_cons, hn2,
        splitOn_allSp_left ',' [' '] _ (by intro c hc; simp at hc; rw [hc]; decide) (by decide),
        ih (by simp) (fun x hx => h x (List.mem_cons_of_mem _ hx))]

/-! ### JSON: `json.loads (json.dumps d) = d` on the shapes `Policy.create` writes -/

theorem hexVal_hexDigit_lt : ∀ k, k < 16 → hexVal (hexDigit k) = some k := by decide

theorem hexVal_hexDigit (k : Nat) : hexVal (hexDigit k) = some (k % 16) := by
  have h : hexDigit k = hexDigit (k % 16) := by unfold hexDigit; rw [Nat.mod_mod]
  rw [h]; exact hexVal_hexDigit_lt _ (Nat.mod_lt _ (by decide))

theorem hex4Val_hex4 (n : Nat) (h : n < 65536) :
    hex4Val (hexDigit (n / 4096)) (hexDigit (n / 256)) (hexDigit (n / 16)) (hexDigit n) = some n := by
  unfold hex4Val
  simp only [hexVal_hexDigit]
  congr 1
  omega

theorem char_valid (c : Char) : c.toNat < 0xD800 ∨ (0xDFFF < c.toNat ∧ c.toNat < 0x110000) := by
  have := c.valid
  simp [UInt32.isValidChar, Nat.isValidChar] at this
  exact this

theorem esc_simple (f : Nat) (e ch : Char) (t : Str) (he : e ≠ 'u') (hs : simpleEsc e = some ch) :
    parseStrBody (f + 1) ('\\' :: e :: t) = consChar ch (parseStrBody f t) := by
  simp [parseStrBody, he, hs]

theorem esc_plain (f : Nat) (c : Char) (t : Str) (h1 : c ≠ '"') (h2 : c ≠ '\\') (h3 : ¬ c.toNat < 32) :
    parseStrBody (f + 1) (c :: t) = consChar c (parseStrBody f t) := by
  simp [parseStrBody, h1, h2, h3]

theorem esc_bmp (f : Nat) (c : Char) (t : Str) (h : c.toNat < 65536) :
    parseStrBody (f + 1) ('\\' :: 'u' :: hex4 c.toNat ++ t) = consChar c (parseStrBody f t) := by
  have hv := char_valid c
  have e1 : ¬ (0xD800 ≤ c.toNat ∧ c.toNat ≤ 0xDBFF) := by omega
  have e2 : ¬ (0xDC00 ≤ c.toNat ∧ c.toNat ≤ 0xDFFF) := by omega
  simp only [List.cons_append, hex4, parseStrBody, List.nil_append]
  simp only [hex4Val_hex4 c.toNat h]
  simp [e1, e2, Char.ofNat_toNat]

theorem esc_pair_gen (f hi lo : Nat) (t : Str) (h1 : 0xD800 ≤ hi ∧ hi ≤ 0xDBFF) (h2 : 0xDC00 ≤ lo ∧ lo ≤ 0xDFFF) :
    parseStrBody (f + 1) ('\\' :: 'u' :: hex4 hi ++ '\\' :: 'u' :: hex4 lo ++ t)
      = consChar (Char.ofNat (0x10000 + (hi - 0xD800) * 1024 + (lo - 0xDC00))) (parseStrBody f t) := by
  have a1 : hi < 65536 := by omega
  have a2 : lo < 65536 := by omega
  have d1 : ¬ ('\\' = '"') := by decide
  simp only [List.cons_append, hex4, parseStrBody, List.nil_append]
  simp only [hex4Val_hex4 _ a1, hex4Val_hex4 _ a2]
  rw [if_neg d1, if_pos h1]
  simp only [and_self, if_true, if_pos h2]

theorem esc_pair (f : Nat) (c : Char) (t : Str) (h : ¬ c.toNat < 65536) :
    parseStrBody (f + 1) ('\\' :: 'u' :: hex4 (0xD800 + (c.toNat - 0x10000) / 1024) ++ '\\' :: 'u' :: hex4 (0xDC00 + (c.toNat - 0x10000) % 1024) ++ t)
      = consChar c (parseStrBody f t) := by
  have hv := char_valid c
  have e3 : 0x10000 + (0xD800 + (c.toNat - 0x10000) / 1024 - 0xD800) * 1024 + (0xDC00 + (c.toNat - 0x10000) % 1024 - 0xDC00) = c.toNat := by omega
  rw [esc_pair_gen f _ _ t (by omega) (by omega), e3, Char.ofNat_toNat]

theorem parseStrBody_esc (f : Nat) (c : Char) (t : Str) : parseStrBody (f + 1) (escJ c ++ t) = consChar c (parseStrBody f t) := by
  unfold escJ
  split
  · next h => subst h; exact esc_simple f _ _ t (by decide) (by decide)
  split
  · next h => subst h; exact esc_simple f _ _ t (by decide) (by decide)
  split
  · next h => subst h; exact esc_simple f _ _ t (by decide) (by decide)
  split
  · next h => subst h; exact esc_simple f _ _ t (by decide) (by decide)
  split
  · next h => subst h; exact esc_simple f _ _ t (by decide) (by decide)
  split
  · next h => subst h; exact esc_simple f _ _ t (by decide) (by decide)
  split
  · next h => subst h; exact esc_simple f _ _ t (by decide) (by decide)
  split
  · next h1 h2 _ _ _ _ _ h => exact esc_plain f c t h1 h2 (by omega)
  split
  · next h => exact esc_bmp f c t h
  · next h => simpa [List.append_assoc] using esc_pair f c t h
theorem escJ_length_pos (c : Char) : 1 ≤ (escJ c).length := by
  unfold escJ
  repeat' split
  all_goals simp [hex4]

theorem length_le_escBody (v : Str) : v.length ≤ (escBody v).length := by
  induction v with
  | nil => simp [escBody]
  | cons c cs ih =>
    have := escJ_length_pos c
    simp only [escBody, List.length_cons, List.length_append]; omega

theorem parseStrBody_escBody (v t : Str) (f : Nat) (hf : v.length + 1 ≤ f) :
    parseStrBody f (escBody v ++ '"' :: t) = .ok (v, t) := by
  induction v generalizing f with
  | nil =>
    obtain ⟨f', rfl⟩ : ∃ f', f = f' + 1 := ⟨f - 1, by simp at hf; omega⟩
    simp [escBody, parseStrBody]
  | cons c cs ih =>
    obtain ⟨f', rfl⟩ : ∃ f', f = f' + 1 := ⟨f - 1, by simp at hf; omega⟩
    simp only [escBody, List.append_assoc]
    rw [parseStrBody_esc, ih f' (by simp at hf ⊢; omega)]
    rfl

/-- **a string written by `json.dumps` reads back as itself** — every Unicode scalar value, escapes and surrogate pairs included -/
theorem parseStrBody_dumpStr (v t : Str) : parseStr (escBody v ++ '"' :: t) = .ok (v, t) := by
  unfold parseStr
  apply parseStrBody_escBody
  have := length_le_escBody v
  simp only [List.length_append, List.length_cons]; omega

theorem isDigit_of_core {c : Char} (h : c.isDigit = true) : Text.isDigit c = true := by
  simp only [Char.isDigit, Bool.and_eq_true, decide_eq_true_eq] at h
  simp only [Text.isDigit, Bool.and_eq_true, decide_eq_true_eq]
  exact ⟨Char.le_def.mpr h.1, Char.le_def.mpr h.2⟩

theorem natToStr_eq (n : Nat) : Text.natToStr n = Nat.toDigits 10 n := by simp [Text.natToStr]

theorem natToStr_digits (n : Nat) : ∀ x ∈ Text.natToStr n, Text.isDigit x = true := by
  intro x hx; rw [natToStr_eq] at hx
  exact isDigit_of_core (Nat.isDigit_of_mem_toDigits (by decide) (by decide) hx)

theorem digitChar_ne_zero : ∀ n, n < 10 → 0 < n → Nat.digitChar n ≠ '0' := by decide

theorem toDigits_head (n : Nat) (h : 0 < n) : ∃ d ds, Nat.toDigits 10 n = d :: ds ∧ d ≠ '0' := by
  induction n using Nat.strongRecOn with
  | _ n ih =>
    by_cases hn : n < 10
    · exact ⟨n.digitChar, [], Nat.toDigits_of_lt_base hn, digitChar_ne_zero n hn h⟩
    · have h10 : 0 < n / 10 := by omega
      obtain ⟨d, ds, e, hd⟩ := ih (n / 10) (by omega) h10
      have := Nat.toDigits_append_toDigits (b := 10) (n := n / 10) (d := n % 10) (by decide) h10 (Nat.mod_lt _ (by decide))
      have e2 : 10 * (n / 10) + n % 10 = n := by omega
      rw [e2, e] at this
      exact ⟨d, ds ++ Nat.toDigits 10 (n % 10), this.symm, hd⟩

/-- decimal text: digits only, and a leading `0` only for zero itself -/
theorem natToStr_shape (n : Nat) : ∃ d ds, Text.natToStr n = d :: ds ∧ (d = '0' → ds = []) := by
  rw [natToStr_eq]
  by_cases h : 0 < n
  · obtain ⟨d, ds, e, hd⟩ := toDigits_head n h
    exact ⟨d, ds, e, fun h0 => absurd h0 hd⟩
  · have : n = 0 := by omega
    subst this
    exact ⟨'0', [], by decide, fun _ => rfl⟩

theorem digitsVal_natToStr (n : Nat) : digitsVal (Text.natToStr n) = n := by
  rw [natToStr_eq]
  show Nat.ofDigitChars 10 (Nat.toDigits 10 n) 0 = n
  exact Nat.ofDigitChars_ten_toDigits

theorem takeWhile_digits (ds t : Str) (c : Char) (hds : ∀ x ∈ ds, Text.isDigit x = true) (hc : Text.isDigit c = false) :
    (ds ++ c :: t).takeWhile Text.isDigit = ds ∧ (ds ++ c :: t).dropWhile Text.isDigit = c :: t := by
  induction ds with
  | nil => simp [hc]
  | cons d ds ih =>
    have hd := hds d (by simp)
    have := ih (fun x hx => hds x (List.mem_cons_of_mem _ hx))
    simp [hd, this.1, this.2]

/-- a delimiter that may follow a value inside an object -/
def IsDelim (c : Char) : Prop := c = ',' ∨ c = '}'

/-- **a non-negative integer written by `json.dumps` reads back**, up to the delimiter that follows it -/
theorem parseNum_natToStr (n : Nat) (c : Char) (t : Str) (hc : IsDelim c) :
    parseNum false (Text.natToStr n ++ c :: t) = .ok (.int n, c :: t) := by
  obtain ⟨d, ds, e, h0⟩ := natToStr_shape n
  have hdig := natToStr_digits n
  have hcd : Text.isDigit c = false := by rcases hc with h | h <;> subst h <;> decide
  have hce : ¬ (c = 'e' ∨ c = 'E') := by rcases hc with h | h <;> subst h <;> decide
  have hcp : ¬ (c = '.') := by rcases hc with h | h <;> subst h <;> decide
  obtain ⟨h1, h2⟩ := takeWhile_digits _ t c hdig hcd
  have hv := digitsVal_natToStr n
  unfold parseNum
  simp only [h1, h2]
  rw [e] at hv ⊢
  simp only
  by_cases hd : d = '0'
  · have := h0 hd; subst this; subst hd
    cases t with
    | nil => simp [hce, hv]
    | cons x xs => simp [hce, hcp, hv]
  · cases t with
    | nil => simp [hd, hce, hv]
    | cons x xs => simp [hd, hce, hcp, hv]
theorem skipWs_nonws (c : Char) (t : Str) (h : isWs c = false) : skipWs (c :: t) = c :: t := by
  simp [skipWs, List.dropWhile, h]

theorem skipWs_space (t : Str) : skipWs (' ' :: t) = skipWs t := by
  simp [skipWs, List.dropWhile, isWs]

theorem digit_ne {d x : Char} (hd : Text.isDigit d = true) (hx : Text.isDigit x = false) : d ≠ x := by
  intro e; subst e; rw [hd] at hx; exact absurd hx (by simp)

theorem digit_not_ws {d : Char} (hd : Text.isDigit d = true) : isWs d = false := by
  have h1 : d ≠ ' ' := digit_ne hd (by decide)
  have h2 : d ≠ '\t' := digit_ne hd (by decide)
  have h3 : d ≠ '\n' := digit_ne hd (by decide)
  have h4 : d ≠ '\r' := digit_ne hd (by decide)
  simp [isWs, h1, h2, h3, h4]

theorem s_null : s "null" = ['n', 'u', 'l', 'l'] := by decide
theorem s_true : s "true" = ['t', 'r', 'u', 'e'] := by decide
theorem s_false : s "false" = ['f', 'a', 'l', 's', 'e'] := by decide
theorem s_nan : s "NaN" = ['N', 'a', 'N'] := by decide
theorem s_inf : s "Infinity" = ['I', 'n', 'f', 'i', 'n', 'i', 't', 'y'] := by decide
theorem s_ninf : s "-Infinity" = ['-', 'I', 'n', 'f', 'i', 'n', 'i', 't', 'y'] := by decide

theorem isPrefixOf_cons_ne (x : Char) (xs : Str) (d : Char) (rest : Str) (h : d ≠ x) : (x :: xs).isPrefixOf (d :: rest) = false := by
  have : (x == d) = false := by simp [Ne.symm h]
  simp [List.isPrefixOf, this]

theorem parseValue_digit (f : Nat) (d : Char) (rest : Str) (hd : Text.isDigit d = true) :
    parseValue (f + 1) (d :: rest) = parseNum false (d :: rest) := by
  have n1 : d ≠ '"' := digit_ne hd (by decide)
  have n2 : d ≠ '{' := digit_ne hd (by decide)
  have n3 : d ≠ '[' := digit_ne hd (by decide)
  have n4 : d ≠ '-' := digit_ne hd (by decide)
  simp only [parseValue, n1, n2, n3, n4, if_false, s_null, s_true, s_false, s_nan, s_inf, s_ninf,
    isPrefixOf_cons_ne _ _ d rest (digit_ne hd (by decide : Text.isDigit 'n' = false)),
    isPrefixOf_cons_ne _ _ d rest (digit_ne hd (by decide : Text.isDigit 't' = false)),
    isPrefixOf_cons_ne _ _ d rest (digit_ne hd (by decide : Text.isDigit 'f' = false)),
    isPrefixOf_cons_ne _ _ d rest (digit_ne hd (by decide : Text.isDigit 'N' = false)),
    isPrefixOf_cons_ne _ _ d rest (digit_ne hd (by decide : Text.isDigit 'I' = false)),
    isPrefixOf_cons_ne _ _ d rest (digit_ne hd (by decide : Text.isDigit '-' = false)), Bool.false_eq_true]

theorem parseValue_nat (f n : Nat) (c : Char) (t : Str) (hc : IsDelim c) :
    parseValue (f + 1) (Text.natToStr n ++ c :: t) = .ok (.int n, c :: t) := by
  obtain ⟨d, ds, e, _⟩ := natToStr_shape n
  have hd : Text.isDigit d = true := natToStr_digits n d (by rw [e]; simp)
  have := parseNum_natToStr n c t hc
  rw [e] at this ⊢
  rw [List.cons_append, parseValue_digit f d _ hd]
  exact this

theorem parseValue_str (f : Nat) (v t : Str) : parseValue (f + 1) (dumpStr v ++ t) = .ok (.str v, t) := by
  have : dumpStr v ++ t = '"' :: (escBody v ++ '"' :: t) := by simp [dumpStr, List.append_assoc]
  rw [this]
  simp [parseValue, parseStrBody_dumpStr]

/-- one member that is the last of its object -/
theorem parseMembers_last (f : Nat) (k vtext : Str) (v : JV) (t : Str) (x : Char) (r : Str)
    (hhead : vtext = x :: r) (hx : isWs x = false)
    (hv : parseValue f (vtext ++ '}' :: t) = .ok (v, '}' :: t)) :
    parseMembers (f + 1) (dumpStr k ++ colonSep ++ vtext ++ '}' :: t) = .ok ([(k, v)], t) := by
  have e : dumpStr k ++ colonSep ++ vtext ++ '}' :: t = '"' :: (escBody k ++ '"' :: (':' :: ' ' :: (vtext ++ '}' :: t))) := by
    simp [dumpStr, colonSep, List.append_assoc]
  rw [e]
  simp only [parseMembers, parseStrBody_dumpStr, ne_eq, not_true_eq_false, if_false]
  rw [skipWs_nonws ':' _ (by decide)]
  simp only [skipWs_space]
  rw [hhead, List.cons_append, skipWs_nonws x _ hx, ← List.cons_append, ← hhead, hv]
  simp only
  rw [skipWs_nonws '}' _ (by decide)]
  simp

/-- one member followed by further members -/
theorem parseMembers_more (f : Nat) (k vtext : Str) (v : JV) (more : Str) (kvs : List (Str × JV)) (t : Str) (x : Char) (r : Str)
    (hhead : vtext = x :: r) (hx : isWs x = false) (y : Char) (r' : Str) (hmore : more = y :: r') (hy : isWs y = false)
    (hv : parseValue f (vtext ++ ',' :: ' ' :: more) = .ok (v, ',' :: ' ' :: more))
    (hrest : parseMembers f more = .ok (kvs, t)) :
    parseMembers (f + 1) (dumpStr k ++ colonSep ++ vtext ++ commaSep ++ more) = .ok ((k, v) :: kvs, t) := by
  have e : dumpStr k ++ colonSep ++ vtext ++ commaSep ++ more = '"' :: (escBody k ++ '"' :: (':' :: ' ' :: (vtext ++ ',' :: ' ' :: more))) := by
    simp [dumpStr, colonSep, commaSep, List.append_assoc]
  rw [e]
  simp only [parseMembers, parseStrBody_dumpStr, ne_eq, not_true_eq_false, if_false]
  rw [skipWs_nonws ':' _ (by decide)]
  simp only [skipWs_space]
  rw [hhead, List.cons_append, skipWs_nonws x _ hx, ← List.cons_append, ← hhead, hv]
  simp only
  rw [skipWs_nonws ',' _ (by decide)]
  have d1 : ¬ (',' = '}') := by decide
  simp only [d1, if_false, if_true, skipWs_space]
  rw [hmore, skipWs_nonws y _ hy, ← hmore, hrest]
  simp

theorem dumpStr_head (k : Str) : ∃ r, dumpStr k = '"' :: r := ⟨_, rfl⟩

/-- the object `{"hostkey_size": n[, "ca_key_type": s, "ca_key_size": m]}` as a JSON value -/
def jvHKS (h : HKS) : JV :=
  if h.caType = [] ∨ h.caSize = 0 then .obj [(kHostkeySize, .int h.size)]
  else .obj [(kHostkeySize, .int h.size), (kCaKeyType, .str h.caType), (kCaKeySize, .int h.caSize)]

theorem parseValue_dumpHKS (f : Nat) (h : HKS) (c : Char) (t : Str) (hf : 5 ≤ f) :
    parseValue f (dumpHKS h ++ c :: t) = .ok (jvHKS h, c :: t) := by
  obtain ⟨f', rfl⟩ : ∃ f', f = f' + 4 + 1 := ⟨f - 5, by omega⟩
  unfold dumpHKS jvHKS
  have d1 : ¬ ('{' = '"') := by decide
  have d2 : ¬ ('"' = '}') := by decide
  obtain ⟨dd, ds, hnat, _⟩ := natToStr_shape h.size
  have hdd : isWs dd = false := digit_not_ws (natToStr_digits h.size dd (by rw [hnat]; simp))
  split
  · -- one member
    have e : '{' :: (dumpStr kHostkeySize ++ colonSep ++ Text.natToStr h.size ++ ['}']) ++ c :: t
        = '{' :: (dumpStr kHostkeySize ++ colonSep ++ Text.natToStr h.size ++ '}' :: (c :: t)) := by simp [List.append_assoc]
    rw [e]
    have hm := parseMembers_last (f' + 3) kHostkeySize (Text.natToStr h.size) (.int h.size) (c :: t) dd ds hnat hdd
      (parseValue_nat _ _ '}' _ (Or.inr rfl))
    obtain ⟨r, hr⟩ : ∃ r, dumpStr kHostkeySize ++ colonSep ++ Text.natToStr h.size ++ '}' :: (c :: t) = '"' :: r := ⟨_, by simp [dumpStr]; rfl⟩
    rw [hr] at hm ⊢
    simp only [parseValue, d1, if_false, if_true, skipWs_nonws '"' r (by decide), d2, hm]
  · -- three members
    obtain ⟨dd2, ds2, hnat2, _⟩ := natToStr_shape h.caSize
    have hdd2 : isWs dd2 = false := digit_not_ws (natToStr_digits h.caSize dd2 (by rw [hnat2]; simp))
    have m3 := parseMembers_last (f' + 1) kCaKeySize (Text.natToStr h.caSize) (.int h.caSize) (c :: t) dd2 ds2 hnat2 hdd2
      (parseValue_nat _ _ '}' _ (Or.inr rfl))
    obtain ⟨r3, hr3⟩ : ∃ r, dumpStr kCaKeySize ++ colonSep ++ Text.natToStr h.caSize ++ '}' :: (c :: t) = '"' :: r := ⟨_, by simp [dumpStr]; rfl⟩
    have m2 := parseMembers_more (f' + 2) kCaKeyType (dumpStr h.caType) (.str h.caType) _ _ (c :: t) '"' _ rfl (by decide) '"' r3 hr3 (by decide)
      (parseValue_str _ _ _) m3
    obtain ⟨r2, hr2⟩ : ∃ r, dumpStr kCaKeyType ++ colonSep ++ dumpStr h.caType ++ commaSep ++ (dumpStr kCaKeySize ++ colonSep ++ Text.natToStr h.caSize ++ '}' :: (c :: t)) = '"' :: r :=
      ⟨_, by simp [dumpStr]; rfl⟩
    have m1 := parseMembers_more (f' + 3) kHostkeySize (Text.natToStr h.size) (.int h.size) _ _ (c :: t) dd ds hnat hdd '"' r2 hr2 (by decide)
      (parseValue_nat _ _ ',' _ (Or.inl rfl)) m2
    have e : '{' :: (dumpStr kHostkeySize ++ colonSep ++ Text.natToStr h.size ++ commaSep ++ dumpStr kCaKeyType ++ colonSep ++ dumpStr h.caType
        ++ commaSep ++ dumpStr kCaKeySize ++ colonSep ++ Text.natToStr h.caSize ++ ['}']) ++ c :: t
        = '{' :: (dumpStr kHostkeySize ++ colonSep ++ Text.natToStr h.size ++ commaSep ++ (dumpStr kCaKeyType ++ colonSep ++ dumpStr h.caType ++ commaSep ++ (dumpStr kCaKeySize ++ colonSep ++ Text.natToStr h.caSize ++ '}' :: (c :: t)))) := by
      simp [List.append_assoc]
    rw [e]
    obtain ⟨r1, hr1⟩ : ∃ r, dumpStr kHostkeySize ++ colonSep ++ Text.natToStr h.size ++ commaSep ++ (dumpStr kCaKeyType ++ colonSep ++ dumpStr h.caType ++ commaSep ++ (dumpStr kCaKeySize ++ colonSep ++ Text.natToStr h.caSize ++ '}' :: (c :: t))) = '"' :: r :=
      ⟨_, by simp [dumpStr]; rfl⟩
    rw [hr1] at m1 ⊢
    simp only [parseValue, d1, if_false, if_true, skipWs_nonws '"' r1 (by decide), d2, m1]

/-- one `"key": value` entry of a dumped dict -/
def entry {α} (pr : α → Str) (kv : Str × α) : Str := dumpStr kv.1 ++ colonSep ++ pr kv.2

theorem entry_head {α} (pr : α → Str) (kv : Str × α) : ∃ r, entry pr kv = '"' :: r := ⟨_, by simp [entry, dumpStr]; rfl⟩

theorem join_entries_head {α} (pr : α → Str) (kv : Str × α) (d : List (Str × α)) :
    ∃ r, Text.join commaSep ((kv :: d).map (entry pr)) = '"' :: r := by
  obtain ⟨r, hr⟩ := entry_head pr kv
  cases d with
  | nil => exact ⟨r, by simp [Text.join, hr]⟩
  | cons kv2 d2 => exact ⟨_, by simp [Text.join, hr]; rfl⟩

/-- the members of a dumped dict read back, given that each dumped value does -/
theorem parseMembers_entries {α} (pr : α → Str) (jv : α → JV) (F : Nat)
    (hhead : ∀ a, ∃ x r, pr a = x :: r ∧ isWs x = false)
    (hv : ∀ a c t f, IsDelim c → F ≤ f → parseValue f (pr a ++ c :: t) = .ok (jv a, c :: t))
    (d : List (Str × α)) (hne : d ≠ []) (t : Str) (f : Nat) (hf : F + d.length ≤ f) :
    parseMembers f (Text.join commaSep (d.map (entry pr)) ++ '}' :: t) = .ok (d.map (fun kv => (kv.1, jv kv.2)), t) := by
  induction d generalizing f with
  | nil => exact absurd rfl hne
  | cons kv d ih =>
    obtain ⟨f', rfl⟩ : ∃ f', f = f' + 1 := ⟨f - 1, by simp at hf; omega⟩
    obtain ⟨x, r, hx, hxw⟩ := hhead kv.2
    cases d with
    | nil =>
      simp only [List.map_cons, List.map_nil, Text.join, entry]
      exact parseMembers_last f' kv.1 (pr kv.2) (jv kv.2) t x r hx hxw (hv _ _ _ _ (Or.inr rfl) (by simp at hf; omega))
    | cons kv2 d2 =>
      obtain ⟨r2, hr2⟩ := join_entries_head pr kv2 d2
      have ih' := ih (by simp) f' (by simp at hf ⊢; omega)
      have e : Text.join commaSep ((kv :: kv2 :: d2).map (entry pr)) ++ '}' :: t
          = dumpStr kv.1 ++ colonSep ++ pr kv.2 ++ commaSep ++ (Text.join commaSep ((kv2 :: d2).map (entry pr)) ++ '}' :: t) := by
        simp [Text.join, entry, List.append_assoc]
      rw [e]
      have hm : Text.join commaSep ((kv2 :: d2).map (entry pr)) ++ '}' :: t = '"' :: (r2 ++ '}' :: t) := by rw [hr2]; rfl
      exact parseMembers_more f' kv.1 (pr kv.2) (jv kv.2) _ _ t x r hx hxw '"' _ hm (by decide)
        (hv _ _ _ _ (Or.inl rfl) (by simp at hf; omega)) ih'

theorem join_length_ge (sep : Str) (l : List Str) (h : ∀ x ∈ l, 1 ≤ x.length) : l.length ≤ (Text.join sep l).length := by
  induction l with
  | nil => simp [Text.join]
  | cons x xs ih =>
    have hx := h x (by simp)
    have := ih (fun y hy => h y (List.mem_cons_of_mem _ hy))
    cases xs with
    | nil => simpa [Text.join] using hx
    | cons y ys => simp only [Text.join, List.length_append, List.length_cons] at this ⊢; omega

theorem loads_dumpDict {α} (pr : α → Str) (jv : α → JV) (F : Nat)
    (hhead : ∀ a, ∃ x r, pr a = x :: r ∧ isWs x = false)
    (hv : ∀ a c t f, IsDelim c → F ≤ f → parseValue f (pr a ++ c :: t) = .ok (jv a, c :: t))
    (d : List (Str × α)) (hne : d ≠ []) (hF : F ≤ 5) :
    loads (dumpDict pr d) = .ok (.obj (d.map (fun kv => (kv.1, jv kv.2)))) := by
  obtain ⟨kv, d', rfl⟩ : ∃ kv d', d = kv :: d' := by cases d with | nil => exact absurd rfl hne | cons a b => exact ⟨a, b, rfl⟩
  obtain ⟨r, hr⟩ := join_entries_head pr kv d'
  have hlen : (kv :: d').length ≤ (Text.join commaSep ((kv :: d').map (entry pr))).length := by
    have := join_length_ge commaSep ((kv :: d').map (entry pr)) (by
      intro x hx; obtain ⟨a, _, rfl⟩ := List.mem_map.mp hx
      obtain ⟨r, hr⟩ := entry_head pr a; rw [hr]; simp)
    simpa using this
  have e : dumpDict pr (kv :: d') = '{' :: (Text.join commaSep ((kv :: d').map (entry pr)) ++ ['}']) := rfl
  have hL : (dumpDict pr (kv :: d')).length = (Text.join commaSep ((kv :: d').map (entry pr))).length + 2 := by
    rw [e]; simp
  have hm := parseMembers_entries pr jv F hhead hv (kv :: d') hne [] (2 * (dumpDict pr (kv :: d')).length + 1) (by
    rw [hL]; simp only [List.length_cons] at hlen ⊢; omega)
  have d1 : ¬ ('{' = '"') := by decide
  have d2 : ¬ ('"' = '}') := by decide
  have hm' : parseMembers (2 * (dumpDict pr (kv :: d')).length + 1) ('"' :: (r ++ ['}'])) = .ok ((kv :: d').map (fun kv => (kv.1, jv kv.2)), []) := by
    rw [← hm, hr]; rfl
  unfold loads
  generalize (dumpDict pr (kv :: d')).length = L at hm' ⊢
  rw [e, hr, skipWs_nonws '{' _ (by decide)]
  rw [show 2 * L + 2 = 2 * L + 1 + 1 from rfl]
  simp only [parseValue, d1, if_false, if_true, List.cons_append, skipWs_nonws '"' _ (by decide : isWs '"' = false), d2, hm']
  simp [skipWs]

theorem dumpHKS_head (h : HKS) : ∃ r, dumpHKS h = '{' :: r := by
  unfold dumpHKS; split <;> exact ⟨_, rfl⟩

/-- **`json.loads(json.dumps(host_keys_trimmed))`** -/
theorem loads_dumpHostKeys (d : List (Str × HKS)) (hne : d ≠ []) :
    loads (dumpHostKeys d) = .ok (.obj (d.map (fun kv => (kv.1, jvHKS kv.2)))) :=
  loads_dumpDict dumpHKS jvHKS 5
    (fun a => by obtain ⟨r, hr⟩ := dumpHKS_head a; exact ⟨'{', r, hr, by decide⟩)
    (fun a c t f _ hf => parseValue_dumpHKS f a c t hf) d hne (Nat.le_refl _)

/-- **`json.loads(json.dumps(kex.dh_modulus_sizes()))`** -/
theorem loads_dumpDh (d : List (Str × Nat)) (hne : d ≠ []) :
    loads (dumpDh d) = .ok (.obj (d.map (fun kv => (kv.1, JV.int kv.2)))) :=
  loads_dumpDict Text.natToStr (fun n => JV.int n) 1
    (fun a => by
      obtain ⟨dd, ds, e, _⟩ := natToStr_shape a
      exact ⟨dd, ds, e, digit_not_ws (natToStr_digits a dd (by rw [e]; simp))⟩)
    (fun a c t f hc hf => by
      obtain ⟨f', rfl⟩ : ∃ f', f = f' + 1 := ⟨f - 1, by omega⟩
      exact parseValue_nat f' a c t hc) d hne (by decide)

/-! ### from JSON values to the policy's size maps -/

theorem dictSet_new {α} (acc : List (Str × α)) (k : Str) (v : α) (h : k ∉ acc.map (·.1)) : dictSet acc k v = acc ++ [(k, v)] := by
  induction acc with
  | nil => rfl
  | cons kv rest ih =>
    have h1 : kv.1 ≠ k := fun e => h (by simp [e])
    have h2 : k ∉ rest.map (·.1) := fun e => h (by simp [e])
    simp [dictSet, h1, ih h2]

theorem foldl_dictSet_nodup {α} (kvs acc : List (Str × α)) (h : ((acc ++ kvs).map (·.1)).Nodup) :
    kvs.foldl (fun d kv => dictSet d kv.1 kv.2) acc = acc ++ kvs := by
  induction kvs generalizing acc with
  | nil => simp
  | cons kv rest ih =>
    have hk : kv.1 ∉ acc.map (·.1) := by
      intro hm
      simp only [List.map_append, List.map_cons] at h
      have := (List.nodup_append.mp h).2.2 _ hm kv.1 (by simp)
      exact this rfl
    simp only [List.foldl_cons, dictSet_new acc kv.1 kv.2 hk]
    rw [ih (acc ++ [(kv.1, kv.2)]) (by simpa [List.append_assoc] using h)]
    simp [List.append_assoc]

/-- a dict built from pairs with distinct keys is those pairs -/
theorem dictOf_nodup {α} (kvs : List (Str × α)) (h : (kvs.map (·.1)).Nodup) : dictOf kvs = kvs := by
  unfold dictOf
  have := foldl_dictSet_nodup kvs [] (by simpa using h)
  simpa using this

theorem k12 : kHostkeySize ≠ kCaKeyType := by decide
theorem k13 : kHostkeySize ≠ kCaKeySize := by decide
theorem k23 : kCaKeyType ≠ kCaKeySize := by decide

theorem natOf_int (n : Nat) : natOf (.int n) = some n := by simp [natOf]

theorem hksOfJson_jvHKS (h : HKS) : hksOfJson (jvHKS h) = some (normHKS h) := by
  unfold jvHKS normHKS
  split
  · next hc =>
    have e : dictOf [(kHostkeySize, JV.int h.size)] = [(kHostkeySize, JV.int h.size)] := rfl
    simp [hksOfJson, e, Pol.lookup, natOf_int, k12, k13]
  · next hc =>
    have e : dictOf [(kHostkeySize, JV.int h.size), (kCaKeyType, JV.str h.caType), (kCaKeySize, JV.int h.caSize)]
        = [(kHostkeySize, JV.int h.size), (kCaKeyType, JV.str h.caType), (kCaKeySize, JV.int h.caSize)] :=
      dictOf_nodup _ (by show ([kHostkeySize, kCaKeyType, kCaKeySize] : List Str).Nodup; decide)
    simp [hksOfJson, e, Pol.lookup, natOf_int, k12, k13, k23]

theorem mapM_hks (d : List (Str × HKS)) :
    (d.map (fun kv => (kv.1, jvHKS kv.2))).mapM (fun kv => (hksOfJson kv.2).map (fun h => (kv.1, h)))
      = some (d.map (fun kv => (kv.1, normHKS kv.2))) := by
  induction d with
  | nil => rfl
  | cons kv rest ih => simp [List.mapM_cons, hksOfJson_jvHKS, ih]

theorem normValueErr_jvHKS (h : HKS) : normValueErr (jvHKS h) = none := by
  unfold jvHKS; split <;> rfl

/-- **the host-key size map survives `json.dumps` → `json.loads` → `_normalize_hostkey_sizes`** (distinct key types) -/
theorem hksOfJsonTop_dump (d : List (Str × HKS)) (hnd : (d.map (·.1)).Nodup) :
    hksOfJsonTop (.obj (d.map (fun kv => (kv.1, jvHKS kv.2)))) = .ok (some (d.map (fun kv => (kv.1, normHKS kv.2)))) := by
  have hkeys : ((d.map (fun kv => (kv.1, jvHKS kv.2))).map (·.1)) = d.map (·.1) := by simp [List.map_map, Function.comp_def]
  have hd := dictOf_nodup (d.map (fun kv => (kv.1, jvHKS kv.2))) (by rw [hkeys]; exact hnd)
  have herr : (d.map (fun kv => (kv.1, jvHKS kv.2))).filterMap (fun kv => normValueErr kv.2) = [] := by
    induction d with
    | nil => rfl
    | cons kv rest ih =>
      simp only [List.map_cons, List.filterMap_cons, normValueErr_jvHKS]
      exact ih (by simp at hnd; exact hnd.2) (by simp) (dictOf_nodup _ (by simp [List.map_map, Function.comp_def]; simp at hnd; exact hnd.2))
  simp only [hksOfJsonTop, hd, herr, mapM_hks]
  simp

theorem mapM_dh (d : List (Str × Nat)) :
    (d.map (fun kv => (kv.1, JV.int kv.2))).mapM (fun kv => (natOf kv.2).map (fun n => (kv.1, n))) = some d := by
  induction d with
  | nil => rfl
  | cons kv rest ih => simp [List.mapM_cons, natOf_int, ih]

/-- **the modulus size map survives `json.dumps` → `json.loads`** (distinct names) -/
theorem dhOfJson_dump (d : List (Str × Nat)) (hnd : (d.map (·.1)).Nodup) :
    dhOfJson (.obj (d.map (fun kv => (kv.1, JV.int kv.2)))) = .ok (some d) := by
  have hkeys : ((d.map (fun kv => (kv.1, JV.int (kv.2 : Nat)))).map (·.1)) = d.map (·.1) := by simp [List.map_map, Function.comp_def]
  have hd := dictOf_nodup (d.map (fun kv => (kv.1, JV.int (kv.2 : Nat)))) (by rw [hkeys]; exact hnd)
  simp only [dhOfJson, hd, mapM_dh]

/-! ### the parser, line by line -/

variable (jl : Str → Except JErr JV)

/-- a line of white space only -/
theorem step_blank (st : PState) (a : Str) (ha : AllSp a) : step jl st a = .ok st := by
  simp [step, stripU_allSp a ha]

theorem stripU_hash (a t : Str) (ha : AllSp a) : Text.stripU (a ++ '#' :: t) = '#' :: rstripU t := by
  rw [stripU_allSp_left _ _ ha, stripU_eq]
  have : lstripU ('#' :: t) = '#' :: t := List.dropWhile_cons_of_neg (by decide)
  rw [this]
  exact rstripU_append_cons [] '#' t (by decide)

/-- a comment line (possibly indented) -/
theorem step_comment (st : PState) (a t : Str) (ha : AllSp a) : step jl st (a ++ '#' :: t) = .ok st := by
  simp [step, stripU_hash a t ha, Text.startsWith, List.isPrefixOf]

theorem splitEq1_none (l : Str) (h : '=' ∉ l) : splitEq1 l = none := by
  induction l with
  | nil => rfl
  | cons c cs ih =>
    have hc : c ≠ '=' := fun e => h (by simp [e])
    have hcs : '=' ∉ cs := fun e => h (by simp [e])
    simp [splitEq1, hc, ih hcs]

theorem mem_stripU {c : Char} {l : Str} (h : c ∈ Text.stripU l) : c ∈ l := by
  obtain ⟨a, b, _, _, _, e⟩ := stripU_decomp l
  rw [e]; simp [h]

/-- is `l` something the loop skips? -/
def Skipped (l : Str) : Prop := Text.stripU l = [] ∨ ∃ r, Text.stripU l = '#' :: r

theorem step_skipped (st : PState) (l : Str) (h : Skipped l) : step jl st l = .ok st := by
  rcases h with h | ⟨r, h⟩
  · simp [step, h]
  · simp [step, h, Text.startsWith, List.isPrefixOf]

theorem not_skipped_cond {l : Str} (h : ¬ Skipped l) : ((Text.stripU l).isEmpty || Text.startsWith (Text.stripU l) ['#']) = false := by
  cases hl : Text.stripU l with
  | nil => exact absurd (Or.inl hl) h
  | cons c r =>
    have : c ≠ '#' := fun e => h (Or.inr ⟨r, by rw [hl, e]⟩)
    simp [Text.startsWith, List.isPrefixOf, Ne.symm this]

/-- **a directive line without `=` is rejected** (`could not parse line`) -/
theorem step_noEq (st : PState) (l : Str) (hs : ¬ Skipped l) (h : '=' ∉ l) : step jl st l = .error (.noEq (Text.stripU l)) := by
  have h2 : '=' ∉ Text.stripU l := fun hm => h (mem_stripU hm)
  simp [step, not_skipped_cond hs, splitEq1_none _ h2]

/-- the general form of a directive line: what `step` does with `k = v` -/
theorem step_kv (st : PState) (k v : Str) (hk : '=' ∉ k) (hs : ¬ Skipped (k ++ '=' :: v)) :
    step jl st (k ++ '=' :: v) = dispatch jl st (Text.stripU (k ++ '=' :: v)) (Text.stripU k) (Text.stripU v) := by
  obtain ⟨k', v', h1, h2, h3⟩ := splitKV_general k v hk
  simp [step, not_skipped_cond hs, h1, h2, h3]

/-- **a line whose key is not a directive is rejected** (`invalid field found in policy`) -/
theorem step_unknown_key (st : PState) (k v : Str) (hk : '=' ∉ k) (hs : ¬ Skipped (k ++ '=' :: v)) (hbad : keyOk (Text.stripU k) = false) :
    step jl st (k ++ '=' :: v) = .error (.badField (Text.stripU (k ++ '=' :: v))) := by
  rw [step_kv jl st k v hk hs]
  simp [dispatch, hbad]

/-- **an unquoted `name` / `banner` value is rejected** -/
theorem step_unquoted (st : PState) (k v : Str) (hk : '=' ∉ k) (hs : ¬ Skipped (k ++ '=' :: v))
    (hkey : Text.stripU k = kName ∨ Text.stripU k = kBanner) (hlen : 2 ≤ (Text.stripU v).length)
    (hq : (Text.stripU v).head? ≠ some '"' ∨ (Text.stripU v).getLast? ≠ some '"') :
    step jl st (k ++ '=' :: v) = .error (.unquoted (Text.stripU k) (Text.stripU v)) := by
  rw [step_kv jl st k v hk hs]
  have hok : keyOk (Text.stripU k) = true := by rcases hkey with h | h <;> rw [h] <;> decide
  have hl : ¬ (Text.stripU v).length < 2 := by omega
  simp only [dispatch, dQuoted, hok, Bool.not_true, Bool.false_eq_true, if_false, hkey, if_true, hl, hq]

theorem dispatch_hostKeys (st : PState) (line val : Str) :
    dispatch jl st line kHostKeys val = .ok { st with pol := { st.pol with hostKeys := some (PolicyFile.parseAlgs val) } } := by
  simp +decide only [dispatch, if_true, if_false]
theorem dispatch_kex (st : PState) (line val : Str) :
    dispatch jl st line kKex val = .ok { st with pol := { st.pol with kex := some (PolicyFile.parseAlgs val) } } := by
  simp +decide only [dispatch, if_true, if_false]
theorem dispatch_ciphers (st : PState) (line val : Str) :
    dispatch jl st line kCiphers val = .ok { st with pol := { st.pol with ciphers := some (PolicyFile.parseAlgs val) } } := by
  simp +decide only [dispatch, if_true, if_false]
theorem dispatch_macs (st : PState) (line val : Str) :
    dispatch jl st line kMacs val = .ok { st with pol := { st.pol with macs := some (PolicyFile.parseAlgs val) } } := by
  simp +decide only [dispatch, if_true, if_false]
theorem dispatch_compressions (st : PState) (line val : Str) :
    dispatch jl st line kCompressions val = .ok { st with pol := { st.pol with compressions := some (PolicyFile.parseAlgs val) } } := by
  simp +decide only [dispatch, if_true, if_false]
theorem dispatch_optional (st : PState) (line val : Str) :
    dispatch jl st line kOptionalHostKeys val = .ok { st with pol := { st.pol with optionalHostKeys := some (PolicyFile.parseAlgs val) } } := by
  simp +decide only [dispatch, if_true, if_false]
theorem dispatch_version (st : PState) (line val : Str) :
    dispatch jl st line kVersion val = .ok { st with version := some val } := by
  simp +decide only [dispatch, if_true, if_false]
theorem dispatch_name (st : PState) (line val : Str) (hlen : 2 ≤ val.length) (h1 : val.head? = some '"') (h2 : val.getLast? = some '"') :
    dispatch jl st line kName val = .ok { st with name := some (unquote val) } := by
  have hl : ¬ val.length < 2 := by omega
  simp +decide only [dispatch, dQuoted, if_true, if_false, hl, h1, h2]
theorem dispatch_banner (st : PState) (line val : Str) (hlen : 2 ≤ val.length) (h1 : val.head? = some '"') (h2 : val.getLast? = some '"') :
    dispatch jl st line kBanner val = .ok { st with pol := { st.pol with banner := some (unquote val) } } := by
  have hl : ¬ val.length < 2 := by omega
  simp +decide only [dispatch, dQuoted, if_true, if_false, hl, h1, h2]
theorem dispatch_subset (st : PState) (line val : Str) :
    dispatch jl st line kSubset val = .ok (if Text.lower val == vTrue then { st with pol := { st.pol with allowSubset := true } } else st) := by
  by_cases h : Text.lower val = vTrue
  · simp +decide only [dispatch, dFlags, if_true, if_false, h, beq_self_eq_true, Bool.and_true, Bool.and_self, and_true, and_self]
  · have h' : (Text.lower val == vTrue) = false := by simpa using h
    simp +decide only [dispatch, dFlags, if_true, if_false, h, h', Bool.and_false, and_false, Bool.false_eq_true]
theorem dispatch_larger (st : PState) (line val : Str) :
    dispatch jl st line kLarger val = .ok (if Text.lower val == vTrue then { st with pol := { st.pol with allowLarger := true } } else st) := by
  by_cases h : Text.lower val = vTrue
  · simp +decide only [dispatch, dFlags, if_true, if_false, h, beq_self_eq_true, Bool.and_true, Bool.and_self, and_true, and_self]
  · have h' : (Text.lower val == vTrue) = false := by simpa using h
    simp +decide only [dispatch, dFlags, if_true, if_false, h, h', Bool.and_false, and_false, Bool.false_eq_true]
theorem dispatch_client (st : PState) (line val : Str) :
    dispatch jl st line kClient val = .ok (if Text.lower val == vTrue then { st with serverPolicy := false } else st) := by
  by_cases h : Text.lower val = vTrue
  · simp +decide only [dispatch, dFlags, if_true, if_false, h, beq_self_eq_true, Bool.and_true, Bool.and_self, and_true, and_self]
  · have h' : (Text.lower val == vTrue) = false := by simpa using h
    simp +decide only [dispatch, dFlags, if_true, if_false, h, h', Bool.and_false, and_false, Bool.false_eq_true]
theorem dispatch_hostKeySizes (st : PState) (line val : Str) (j : JV) (m : Option (List (Str × HKS))) (hj : jl val = .ok j) (hm : hksOfJsonTop j = .ok m) :
    dispatch jl st line kHostKeySizes val = .ok { st with pol := { st.pol with hostkeySizes := m } } := by
  simp +decide only [dispatch, dHostKeySizes, dDhSizes, if_true, if_false, hj, hm]
theorem dispatch_dhSizes (st : PState) (line val : Str) (j : JV) (m : Option (List (Str × Nat))) (hj : jl val = .ok j) (hm : dhOfJson j = .ok m) :
    dispatch jl st line kDhSizes val = .ok { st with pol := { st.pol with dhSizes := m } } := by
  simp +decide only [dispatch, dHostKeySizes, dDhSizes, if_true, if_false, hj, hm]

theorem parseLines_skip (st : PState) (l : Str) (ls : List Str) (h : Skipped l) : parseLines jl st (l :: ls) = parseLines jl st ls := by
  simp [parseLines, step_skipped jl st l h]

theorem skipped_nil : Skipped [] := Or.inl rfl
theorem skipped_hash (t : Str) : Skipped ('#' :: t) := Or.inr ⟨_, stripU_hash [] t allSp_nil⟩

theorem parseLines_hash (st : PState) (t : Str) (ls : List Str) : parseLines jl st (('#' :: t) :: ls) = parseLines jl st ls :=
  parseLines_skip jl st _ ls (skipped_hash t)
theorem parseLines_blank (st : PState) (ls : List Str) : parseLines jl st ([] :: ls) = parseLines jl st ls :=
  parseLines_skip jl st _ ls skipped_nil

theorem parseLines_ok (st st' : PState) (l : Str) (ls : List Str) (h : step jl st l = .ok st') : parseLines jl st (l :: ls) = parseLines jl st' ls := by
  simp [parseLines, h]

theorem parseLines_append (st : PState) (l1 l2 : List Str) :
    parseLines jl st (l1 ++ l2) = match parseLines jl st l1 with | .ok st' => parseLines jl st' l2 | .error e => .error e := by
  induction l1 generalizing st with
  | nil => rfl
  | cons l ls ih =>
    simp only [List.cons_append, parseLines]
    cases step jl st l with
    | ok st' => exact ih st'
    | error e => rfl

/-- **a comment or blank line, anywhere, never changes the result** -/
theorem parseLines_skip_comment_or_blank (st : PState) (l1 l2 : List Str) (c : Str) (hc : Skipped c) :
    parseLines jl st (l1 ++ c :: l2) = parseLines jl st (l1 ++ l2) := by
  rw [parseLines_append, parseLines_append]
  cases parseLines jl st l1 with
  | ok st' => exact parseLines_skip jl st' c l2 hc
  | error e => rfl

/-- a key as `Policy.create` writes it: no `=`, tight, not a comment -/
def KeyClean (key : Str) : Prop := '=' ∉ key ∧ Text.stripU (key ++ [' ']) = key ∧ (lstripU (key ++ [' '])).head? ≠ some '#'
instance (key : Str) : Decidable (KeyClean key) := by unfold KeyClean lstripU; infer_instance

theorem not_skipped_kv (k v : Str) (hk : (lstripU k).head? ≠ some '#') : ¬ Skipped (k ++ '=' :: v) := by
  have e : Text.stripU (k ++ '=' :: v) = lstripU k ++ '=' :: rstripU v := by
    rw [stripU_eq, lstripU_append_cons k '=' v (by decide), rstripU_append_cons _ '=' v (by decide)]
  rintro (h | ⟨r, h⟩)
  · rw [e] at h; simp at h
  · rw [e] at h
    cases hl : lstripU k with
    | nil => rw [hl] at h; simp at h
    | cons c cs => rw [hl] at h hk; simp at h hk; exact hk h.1

theorem kv_shape (key val : Str) : kv key val = (key ++ [' ']) ++ '=' :: (' ' :: val) := by simp [kv, eqSep]

theorem stripU_space_cons (val : Str) : Text.stripU (' ' :: val) = Text.stripU val :=
  stripU_allSp_left [' '] val (by intro c hc; simp at hc; rw [hc]; decide)

/-- a `key = value` line with a clean key reaches the directive chain with that key and the stripped value -/
theorem step_kv_clean (st : PState) (key val : Str) (hk : KeyClean key) :
    step jl st (kv key val) = dispatch jl st (Text.stripU (kv key val)) key (Text.stripU val) := by
  obtain ⟨h1, h2, h3⟩ := hk
  rw [kv_shape]
  rw [step_kv jl st (key ++ [' ']) (' ' :: val) (by simp [h1]) (not_skipped_kv _ _ h3), h2, stripU_space_cons]

theorem clean_name : KeyClean kName := by decide
theorem clean_version : KeyClean kVersion := by decide
theorem clean_subset : KeyClean kSubset := by decide
theorem clean_larger : KeyClean kLarger := by decide
theorem clean_hostKeys : KeyClean kHostKeys := by decide
theorem clean_kex : KeyClean kKex := by decide
theorem clean_ciphers : KeyClean kCiphers := by decide
theorem clean_macs : KeyClean kMacs := by decide
theorem clean_client : KeyClean kClient := by decide
theorem clean_hostKeySizes : KeyClean kHostKeySizes := by decide
theorem clean_dhSizes : KeyClean kDhSizes := by decide
theorem clean_banner : KeyClean kBanner := by decide
theorem clean_compressions : KeyClean kCompressions := by decide
theorem clean_optional : KeyClean kOptionalHostKeys := by decide

theorem tight_bracketed (o c : Char) (n : Str) (ho : Text.isUSpace o = false) (hc : Text.isUSpace c = false) : Tight (o :: (n ++ [c])) := by
  refine ⟨fun x t h => ?_, fun t x h => ?_⟩
  · simp at h; rw [← h.1]; exact ho
  · have : (o :: (n ++ [c])).getLast? = (t ++ [x]).getLast? := by rw [h]
    rw [← List.cons_append, List.getLast?_concat, List.getLast?_concat] at this
    simp at this; rw [← this]; exact hc

theorem stripU_bracketed (o c : Char) (n : Str) (ho : Text.isUSpace o = false) (hc : Text.isUSpace c = false) :
    Text.stripU (o :: (n ++ [c])) = o :: (n ++ [c]) := by
  have := stripU_spec [] _ [] allSp_nil allSp_nil (tight_bracketed o c n ho hc)
  simpa using this

theorem unquote_quoted (n : Str) : unquote ('"' :: (n ++ ['"'])) = unescNl (unescQuote n) := by
  simp [unquote, List.dropLast_concat]

theorem step_name_line (st : PState) (n : Str) :
    step jl st (kv kName ('"' :: (n ++ ['"']))) = .ok { st with name := some (unescNl (unescQuote n)) } := by
  rw [step_kv_clean jl st _ _ clean_name, stripU_bracketed '"' '"' n (by decide) (by decide),
    dispatch_name jl st _ _ (by simp) (by simp) (by rw [← List.cons_append, List.getLast?_concat]), unquote_quoted]

theorem step_version_line (st : PState) (v : Str) :
    step jl st (kv kVersion v) = .ok { st with version := some (Text.stripU v) } := by
  rw [step_kv_clean jl st _ _ clean_version, dispatch_version]

theorem step_subset_false (st : PState) : step jl st (kv kSubset (s "false")) = .ok st := by
  rw [step_kv_clean jl st _ _ clean_subset, dispatch_subset]
  have : (Text.lower (Text.stripU (s "false")) == vTrue) = false := by decide
  simp [this]

theorem step_larger_false (st : PState) : step jl st (kv kLarger (s "false")) = .ok st := by
  rw [step_kv_clean jl st _ _ clean_larger, dispatch_larger]
  have : (Text.lower (Text.stripU (s "false")) == vTrue) = false := by decide
  simp [this]

theorem step_client_true (st : PState) : step jl st (kv kClient vTrue) = .ok { st with serverPolicy := false } := by
  rw [step_kv_clean jl st _ _ clean_client, dispatch_client]
  have : (Text.lower (Text.stripU vTrue) == vTrue) = true := by decide
  simp [this]

/-- **the last occurrence of a name-list directive wins**: after a `host keys = …` line the list is that line's, whatever it was -/
theorem last_list_directive_wins (st : PState) (v : Str) :
    step jl st (kv kHostKeys v) = .ok { st with pol := { st.pol with hostKeys := some (PolicyFile.parseAlgs v) } } ∧
    step jl st (kv kKex v) = .ok { st with pol := { st.pol with kex := some (PolicyFile.parseAlgs v) } } ∧
    step jl st (kv kCiphers v) = .ok { st with pol := { st.pol with ciphers := some (PolicyFile.parseAlgs v) } } ∧
    step jl st (kv kMacs v) = .ok { st with pol := { st.pol with macs := some (PolicyFile.parseAlgs v) } } ∧
    step jl st (kv kCompressions v) = .ok { st with pol := { st.pol with compressions := some (PolicyFile.parseAlgs v) } } ∧
    step jl st (kv kOptionalHostKeys v) = .ok { st with pol := { st.pol with optionalHostKeys := some (PolicyFile.parseAlgs v) } } := by
  refine ⟨?_, ?_, ?_, ?_, ?_, ?_⟩
  · rw [step_kv_clean jl st _ _ clean_hostKeys, dispatch_hostKeys, parseAlgs_stripU]
  · rw [step_kv_clean jl st _ _ clean_kex, dispatch_kex, parseAlgs_stripU]
  · rw [step_kv_clean jl st _ _ clean_ciphers, dispatch_ciphers, parseAlgs_stripU]
  · rw [step_kv_clean jl st _ _ clean_macs, dispatch_macs, parseAlgs_stripU]
  · rw [step_kv_clean jl st _ _ clean_compressions, dispatch_compressions, parseAlgs_stripU]
  · rw [step_kv_clean jl st _ _ clean_optional, dispatch_optional, parseAlgs_stripU]

/-- **the last `name` / `version` / `banner` wins** -/
theorem last_name_wins (st : PState) (n v : Str) :
    step jl st (kv kName ('"' :: (n ++ ['"']))) = .ok { st with name := some (unescNl (unescQuote n)) } ∧
    step jl st (kv kVersion v) = .ok { st with version := some (Text.stripU v) } ∧
    step jl st (kv kBanner ('"' :: (n ++ ['"']))) = .ok { st with pol := { st.pol with banner := some (unescNl (unescQuote n)) } } := by
  refine ⟨step_name_line jl st n, step_version_line jl st v, ?_⟩
  rw [step_kv_clean jl st _ _ clean_banner, stripU_bracketed '"' '"' n (by decide) (by decide),
    dispatch_banner jl st _ _ (by simp) (by simp) (by rw [← List.cons_append, List.getLast?_concat]), unquote_quoted]

theorem wfNames_parse (names : List Str) (hne : names ≠ []) (h : ∀ n ∈ names, WfName n) :
    PolicyFile.parseAlgs (listVal true names) = names := by
  have := parseAlgs_join names hne h
  rw [parseAlgs_stripU] at this
  simpa [listVal] using this

theorem dumpDict_bracketed {α} (pr : α → Str) (d : List (Str × α)) : ∃ n, dumpDict pr d = '{' :: (n ++ ['}']) := ⟨_, rfl⟩

theorem step_hostKeySizes_line (st : PState) (d : List (Str × HKS)) (hnd : (d.map (·.1)).Nodup)
    (hj : jl (dumpHostKeys d) = .ok (.obj (d.map (fun kv => (kv.1, jvHKS kv.2))))) :
    step jl st (kv kHostKeySizes (dumpHostKeys d)) = .ok { st with pol := { st.pol with hostkeySizes := some (d.map (fun kv => (kv.1, normHKS kv.2))) } } := by
  obtain ⟨n, hn⟩ := dumpDict_bracketed dumpHKS d
  have hs : Text.stripU (dumpHostKeys d) = dumpHostKeys d := by
    unfold dumpHostKeys; rw [hn]; exact stripU_bracketed '{' '}' n (by decide) (by decide)
  rw [step_kv_clean jl st _ _ clean_hostKeySizes, hs]
  exact dispatch_hostKeySizes jl st _ _ _ _ hj (hksOfJsonTop_dump d hnd)

theorem step_dhSizes_line (st : PState) (d : List (Str × Nat)) (hnd : (d.map (·.1)).Nodup)
    (hj : jl (dumpDh d) = .ok (.obj (d.map (fun kv => (kv.1, JV.int kv.2))))) :
    step jl st (kv kDhSizes (dumpDh d)) = .ok { st with pol := { st.pol with dhSizes := some d } } := by
  obtain ⟨n, hn⟩ := dumpDict_bracketed Text.natToStr d
  have hs : Text.stripU (dumpDh d) = dumpDh d := by
    unfold dumpDh; rw [hn]; exact stripU_bracketed '{' '}' n (by decide) (by decide)
  rw [step_kv_clean jl st _ _ clean_dhSizes, hs]
  exact dispatch_dhSizes jl st _ _ _ _ hj (dhOfJson_dump d hnd)

/-- the peers the text format can carry (the property's quantifier, made exact) -/
structure WfPeer (peer : Peer) : Prop where
  hasKex : peer.hasKex = true
  keyNe : peer.key ≠ []
  kexNe : peer.kex ≠ []
  encNe : peer.enc ≠ []
  macNe : peer.mac ≠ []
  key : ∀ n ∈ peer.key, WfName n
  kex : ∀ n ∈ peer.kex, WfName n
  enc : ∀ n ∈ peer.enc, WfName n
  mac : ∀ n ∈ peer.mac, WfName n
  hkNodup : (peer.hostKeys.map (·.1)).Nodup
  dhNodup : (peer.dhSizes.map (·.1)).Nodup

/-- `json.loads` reads back the two dumped size maps (proved for the modelled `Json.loads` below) -/
def LoadsOk (jl : Str → Except JErr JV) (peer : Peer) : Prop :=
  (peer.hostKeys ≠ [] → jl (dumpHostKeys peer.hostKeys) = .ok (.obj (peer.hostKeys.map (fun kv => (kv.1, jvHKS kv.2))))) ∧
  (peer.dhSizes ≠ [] → jl (dumpDh peer.dhSizes) = .ok (.obj (peer.dhSizes.map (fun kv => (kv.1, JV.int kv.2)))))

/-- the loaded name -/
def madeName (source today : Str) : Str := unescNl (unescQuote (nameVal source today))

theorem parseLines_createLines (source today : Str) (peer : Peer) (ca : Bool) (hw : WfPeer peer) (hl : LoadsOk jl peer) :
    parseLines jl {} (createLines source today peer ca)
      = .ok { name := some (madeName source today), version := some ['1'], pol := policyOf peer, serverPolicy := !ca } := by
  have hk := hw.hasKex
  unfold createLines
  simp only [List.cons_append, List.nil_append, List.append_assoc, parseLines_hash, parseLines_blank]
  -- client chunk
  have c1 : ∀ rest, parseLines jl {} (clientChunk ca ++ rest) = parseLines jl { serverPolicy := !ca } rest := by
    intro rest
    cases ca
    · simp [clientChunk]
    · simp only [clientChunk, if_true, List.cons_append, List.nil_append, parseLines_hash, parseLines_blank]
      rw [parseLines_ok jl _ _ _ _ (step_client_true jl _)]; rfl
  rw [c1]
  simp only [parseLines_hash, parseLines_blank]
  rw [parseLines_ok jl _ _ _ _ (step_name_line jl _ _)]
  simp only [parseLines_hash, parseLines_blank]
  rw [parseLines_ok jl _ _ _ _ (step_version_line jl _ _)]
  simp only [parseLines_hash, parseLines_blank]
  rw [parseLines_ok jl _ _ _ _ (step_subset_false jl _)]
  simp only [parseLines_hash, parseLines_blank]
  rw [parseLines_ok jl _ _ _ _ (step_larger_false jl _)]
  simp only [parseLines_hash, parseLines_blank]
  -- size maps
  have c2 : ∀ st rest, parseLines jl st (hostKeysChunk peer ++ rest)
      = parseLines jl { st with pol := { st.pol with hostkeySizes := if peer.hostKeys = [] then st.pol.hostkeySizes else some (peer.hostKeys.map (fun kv => (kv.1, normHKS kv.2))) } } rest := by
    intro st rest
    by_cases h : peer.hostKeys = []
    · simp [hostKeysChunk, h]
    · simp only [hostKeysChunk, hk, h, ne_eq, not_false_eq_true, and_self, if_true, if_false, List.cons_append, List.nil_append, parseLines_hash, parseLines_blank]
      rw [parseLines_ok jl _ _ _ _ (step_hostKeySizes_line jl _ _ hw.hkNodup (hl.1 h))]
  have c3 : ∀ st rest, parseLines jl st (dhChunk peer ++ rest)
      = parseLines jl { st with pol := { st.pol with dhSizes := if peer.dhSizes = [] then st.pol.dhSizes else some peer.dhSizes } } rest := by
    intro st rest
    by_cases h : peer.dhSizes = []
    · simp [dhChunk, h]
    · simp only [dhChunk, hk, h, ne_eq, not_false_eq_true, and_self, if_true, if_false, List.cons_append, List.nil_append, parseLines_hash, parseLines_blank]
      rw [parseLines_ok jl _ _ _ _ (step_dhSizes_line jl _ _ hw.dhNodup (hl.2 h))]
  rw [c2, c3]
  simp only [parseLines_hash, parseLines_blank]
  rw [parseLines_ok jl _ _ _ _ (last_list_directive_wins jl _ _).1]
  simp only [parseLines_hash, parseLines_blank]
  rw [parseLines_ok jl _ _ _ _ (last_list_directive_wins jl _ _).2.1]
  simp only [parseLines_hash, parseLines_blank]
  rw [parseLines_ok jl _ _ _ _ (last_list_directive_wins jl _ _).2.2.1]
  simp only [parseLines_hash, parseLines_blank]
  rw [parseLines_ok jl _ _ _ _ (last_list_directive_wins jl _ _).2.2.2.1]
  rw [parseLines_blank]
  have e1 : Text.stripU ['1'] = ['1'] := by decide
  simp only [parseLines, hk, e1, wfNames_parse _ hw.keyNe hw.key, wfNames_parse _ hw.kexNe hw.kex,
    wfNames_parse _ hw.encNe hw.enc, wfNames_parse _ hw.macNe hw.mac, madeName, policyOf]

theorem loadsOk_loads (peer : Peer) : LoadsOk Json.loads peer :=
  ⟨fun h => loads_dumpHostKeys _ h, fun h => loads_dumpDh _ h⟩

/-! ### the text: its lines contain no newline -/

def NoNl (l : Str) : Prop := '\n' ∉ l
instance (l : Str) : Decidable (NoNl l) := by unfold NoNl; infer_instance

theorem noNl_nil : NoNl [] := by simp [NoNl]
theorem noNl_append {a b : Str} (ha : NoNl a) (hb : NoNl b) : NoNl (a ++ b) := by
  unfold NoNl at *; simp [ha, hb]
theorem noNl_cons {c : Char} {l : Str} (hc : c ≠ '\n') (hl : NoNl l) : NoNl (c :: l) := by
  unfold NoNl at *; simp [hl, Ne.symm hc]

theorem noNl_join (sep : Str) (ls : List Str) (hsep : NoNl sep) (h : ∀ l ∈ ls, NoNl l) : NoNl (Text.join sep ls) := by
  induction ls with
  | nil => exact noNl_nil
  | cons l rest ih =>
    cases rest with
    | nil => simpa [Text.join] using h l (by simp)
    | cons l2 r2 =>
      simp only [Text.join]
      exact noNl_append (noNl_append (h l (by simp)) hsep) (ih (fun x hx => h x (List.mem_cons_of_mem _ hx)))

theorem noNl_natToStr (n : Nat) : NoNl (Text.natToStr n) := by
  intro h
  have := natToStr_digits n _ h
  exact absurd this (by decide)

theorem hexDigit_ne_nl (k : Nat) : hexDigit k ≠ '\n' := by
  have h : ∀ j, j < 16 → hexDigit j ≠ '\n' := by decide
  have e : hexDigit k = hexDigit (k % 16) := by unfold hexDigit; rw [Nat.mod_mod]
  rw [e]; exact h _ (Nat.mod_lt _ (by decide))

theorem noNl_hex4 (n : Nat) : NoNl (hex4 n) := by
  unfold hex4
  exact noNl_cons (hexDigit_ne_nl _) (noNl_cons (hexDigit_ne_nl _) (noNl_cons (hexDigit_ne_nl _) (noNl_cons (hexDigit_ne_nl _) noNl_nil)))

theorem noNl_escJ (c : Char) : NoNl (escJ c) := by
  unfold escJ
  split; · decide
  split; · decide
  split; · decide
  split; · decide
  split; · decide
  split; · decide
  split; · decide
  split
  · next h1 h2 h3 h4 h5 h6 h7 h =>
    exact noNl_cons h3 noNl_nil
  split
  · exact noNl_cons (by decide) (noNl_cons (by decide) (noNl_hex4 _))
  · exact noNl_cons (by decide) (noNl_cons (by decide) (noNl_append (noNl_hex4 _) (noNl_cons (by decide) (noNl_cons (by decide) (noNl_hex4 _)))))

theorem noNl_escBody (v : Str) : NoNl (escBody v) := by
  induction v with
  | nil => exact noNl_nil
  | cons c cs ih => exact noNl_append (noNl_escJ c) ih

theorem noNl_dumpStr (v : Str) : NoNl (dumpStr v) :=
  noNl_cons (by decide) (noNl_append (noNl_escBody v) (noNl_cons (by decide) noNl_nil))

theorem noNl_dumpDict {α} (pr : α → Str) (h : ∀ a, NoNl (pr a)) (d : List (Str × α)) : NoNl (dumpDict pr d) := by
  unfold dumpDict
  refine noNl_cons (by decide) (noNl_append (noNl_join _ _ (by decide) ?_) (noNl_cons (by decide) noNl_nil))
  intro l hl
  obtain ⟨kv, _, rfl⟩ := List.mem_map.mp hl
  exact noNl_append (noNl_append (noNl_dumpStr _) (by decide)) (h _)

theorem noNl_dumpHKS (h : HKS) : NoNl (dumpHKS h) := by
  have c : NoNl colonSep := by decide
  have m : NoNl commaSep := by decide
  have e : NoNl ['}'] := by decide
  have k1 := noNl_dumpStr kHostkeySize
  have k2 := noNl_dumpStr kCaKeyType
  have k3 := noNl_dumpStr kCaKeySize
  unfold dumpHKS
  split
  · exact noNl_cons (by decide) (noNl_append (noNl_append (noNl_append k1 c) (noNl_natToStr _)) e)
  · have n1 := noNl_natToStr h.size
    have n2 := noNl_natToStr h.caSize
    have d := noNl_dumpStr h.caType
    unfold NoNl at *
    simp only [List.mem_cons, List.mem_append, not_or]
    exact ⟨by decide, ⟨⟨⟨⟨⟨⟨⟨⟨⟨⟨k1, c⟩, n1⟩, m⟩, k2⟩, c⟩, d⟩, m⟩, k3⟩, c⟩, n2⟩, by decide⟩

/-- what the substituted texts must not contain for the text to have the lines `createLines` lists -/
structure WfText (source today : Str) (peer : Peer) : Prop where
  source : NoNl source
  today : NoNl today
  banner : NoNl peer.bannerStr
  comp : ∀ n ∈ peer.comp, NoNl n
  key : ∀ n ∈ peer.key, NoNl n
  kex : ∀ n ∈ peer.kex, NoNl n
  enc : ∀ n ∈ peer.enc, NoNl n
  mac : ∀ n ∈ peer.mac, NoNl n

theorem noNl_listVal (b : Bool) (names : List Str) (h : ∀ n ∈ names, NoNl n) : NoNl (listVal b names) := by
  unfold listVal
  split
  · exact noNl_join _ _ (by decide) h
  · decide

theorem noNl_kv (key val : Str) (hk : NoNl key) (hv : NoNl val) : NoNl (kv key val) :=
  noNl_append (noNl_append hk (by decide)) hv

theorem createLines_noNl (source today : Str) (peer : Peer) (ca : Bool) (hw : WfText source today peer) :
    ∀ l ∈ createLines source today peer ca, NoNl l := by
  have hs := hw.source
  have ht := hw.today
  have q : NoNl ['"'] := by decide
  unfold createLines clientChunk hostKeysChunk dhChunk nameVal
  simp only [List.forall_mem_append, List.forall_mem_cons, List.forall_mem_nil, and_true]  -- a conjunction, one line each
  have e0 : ∀ x : Str, x ∈ ([] : List Str) → NoNl x := fun x hx => by simp at hx
  and_intros
  all_goals try decide
  all_goals try exact e0
  · exact noNl_cons (by decide) (noNl_append (noNl_append (noNl_append (noNl_append (by decide) hs) (by decide)) ht) (by decide))
  · intro x hx
    split at hx
    · simp only [List.mem_cons, List.mem_nil_iff, or_false] at hx
      rcases hx with rfl | rfl | rfl <;> decide
    · simp at hx
  · exact noNl_kv _ _ (by decide) (noNl_cons (by decide) (noNl_append (noNl_append (noNl_append (noNl_append (noNl_append (by decide) hs) (by decide)) ht) (by decide)) q))
  · exact noNl_cons (by decide) (noNl_append (noNl_append (by decide) hw.banner) q)
  · exact noNl_cons (by decide) (noNl_append (by decide) (noNl_listVal _ _ hw.comp))
  · intro x hx
    split at hx
    · simp only [List.mem_cons, List.mem_nil_iff, or_false] at hx
      rcases hx with rfl | rfl | rfl
      · decide
      · decide
      · exact noNl_kv _ _ (by decide) (noNl_dumpDict _ noNl_dumpHKS _)
    · simp at hx
  · intro x hx
    split at hx
    · simp only [List.mem_cons, List.mem_nil_iff, or_false] at hx
      rcases hx with rfl | rfl | rfl
      · decide
      · decide
      · exact noNl_kv _ _ (by decide) (noNl_dumpDict _ noNl_natToStr _)
    · simp at hx
  · exact noNl_kv _ _ (by decide) (noNl_listVal _ _ hw.key)
  · exact noNl_kv _ _ (by decide) (noNl_listVal _ _ hw.kex)
  · exact noNl_kv _ _ (by decide) (noNl_listVal _ _ hw.enc)
  · exact noNl_kv _ _ (by decide) (noNl_listVal _ _ hw.mac)

/-! ### `Policy.create` followed by the parser -/

theorem lines_of_create (source today : Str) (peer : Peer) (ca : Bool) (ht : WfText source today peer) :
    Text.splitOn '\n' (create source today peer ca) = createLines source today peer ca :=
  splitOn_join_newline '\n' _ (by simp [createLines]) (createLines_noNl source today peer ca ht)

/-- the text path for any `json.loads` that reads the two dumped maps back -/
theorem parse_create_with (jl : Str → Except JErr JV) (source today : Str) (peer : Peer) (ca : Bool)
    (hw : WfPeer peer) (ht : WfText source today peer) (hl : LoadsOk jl peer) :
    parseWith jl (create source today peer ca)
      = .ok { name := madeName source today, version := ['1'], pol := policyOf peer, serverPolicy := !ca, warnings := 0 } := by
  unfold parseWith
  rw [lines_of_create source today peer ca ht, parseLines_createLines jl source today peer ca hw hl]
  rfl

/-- **`parse_create`: loading the text `-M` writes gives exactly the policy of the peer** — every well-formed peer, all names
    (with `=`, non-ASCII, quotes, …), any size maps; the name is `Custom Policy (based on <source> on <date>)` (unescaped), the version `1`. -/
theorem parse_create (source today : Str) (peer : Peer) (hw : WfPeer peer) (ht : WfText source today peer) :
    parse (create source today peer false)
      = .ok { name := madeName source today, version := ['1'], pol := policyOf peer, serverPolicy := true, warnings := 0 } :=
  parse_create_with Json.loads source today peer false hw ht (loadsOk_loads peer)

/-- a client audit (`-M` with `-c`) gives the same policy, marked as a client policy -/
theorem parse_create_client (source today : Str) (peer : Peer) (hw : WfPeer peer) (ht : WfText source today peer) :
    parse (create source today peer true)
      = .ok { name := madeName source today, version := ['1'], pol := policyOf peer, serverPolicy := false, warnings := 0 } :=
  parse_create_with Json.loads source today peer true hw ht (loadsOk_loads peer)

theorem unescQuote_id (l : Str) (h : '\\' ∉ l) : unescQuote l = l := by
  induction l using unescQuote.induct with
  | case1 => rfl
  | case2 c => rfl
  | case3 c d rest hc ih => exact absurd (by simp [hc.1]) h
  | case4 c d rest hc ih =>
    have : '\\' ∉ d :: rest := fun hm => h (List.mem_cons_of_mem _ hm)
    simp [unescQuote, hc, ih this]

theorem unescNl_id (l : Str) (h : '\\' ∉ l) : unescNl l = l := by
  induction l using unescNl.induct with
  | case1 => rfl
  | case2 c => rfl
  | case3 c d rest hc ih => exact absurd (by simp [hc.1]) h
  | case4 c d rest hc ih =>
    have : '\\' ∉ d :: rest := fun hm => h (List.mem_cons_of_mem _ hm)
    simp [unescNl, hc, ih this]

/-- without a backslash in the target name the loaded policy name is literally `Custom Policy (based on … on …)` -/
theorem madeName_plain (source today : Str) (hs : '\\' ∉ source) (ht : '\\' ∉ today) : madeName source today = nameVal source today := by
  have h : '\\' ∉ nameVal source today := by
    unfold nameVal
    simp only [List.mem_append, not_or]
    exact ⟨⟨⟨⟨by decide, hs⟩, by decide⟩, ht⟩, by decide⟩
  unfold madeName
  rw [unescQuote_id _ h, unescNl_id _ h]

/-- **C05 for the text path: the policy file made from a target, loaded back, passes on that target with no errors** -/
theorem made_text_policy_passes (source today : Str) (peer : Peer) (ca : Bool) (hw : WfPeer peer) (ht : WfText source today peer) :
    ∃ r, parse (create source today peer ca) = .ok r ∧ (evaluate r.pol peer []).1 = true ∧ (evaluate r.pol peer []).2 = [] := by
  refine ⟨_, parse_create_with Json.loads source today peer ca hw ht (loadsOk_loads peer), ?_⟩
  exact C05.made_policy_verdict peer

/-- **… and fails, naming the field, on a target whose key-exchange list differs** (likewise host keys, ciphers, MACs) -/
theorem made_text_policy_drift_kex (source today : Str) (peer peer' : Peer) (ca : Bool) (hw : WfPeer peer) (ht : WfText source today peer)
    (hk : peer'.hasKex = true) (hd : peer'.kex ≠ peer.kex) :
    ∃ r, parse (create source today peer ca) = .ok r ∧ (evaluate r.pol peer' []).1 = false ∧
      ∃ e ∈ (evaluate r.pol peer' []).2, e.field = s "Key exchanges" ∧ e.expectedRequired = peer.kex ∧ e.actual = peer'.kex :=
  ⟨_, parse_create_with Json.loads source today peer ca hw ht (loadsOk_loads peer), C05.drift_kex peer peer' hk hd⟩

theorem made_text_policy_drift_hostkeys (source today : Str) (peer peer' : Peer) (ca : Bool) (hw : WfPeer peer) (ht : WfText source today peer)
    (hk : peer'.hasKex = true) (hd : peer'.key ≠ peer.key) :
    ∃ r, parse (create source today peer ca) = .ok r ∧ (evaluate r.pol peer' []).1 = false ∧
      ∃ e ∈ (evaluate r.pol peer' []).2, e.field = s "Host keys" ∧ e.expectedRequired = peer.key ∧ e.actual = peer'.key :=
  ⟨_, parse_create_with Json.loads source today peer ca hw ht (loadsOk_loads peer), C05.drift_hostkeys peer peer' hk hd⟩

theorem made_text_policy_drift_ciphers (source today : Str) (peer peer' : Peer) (ca : Bool) (hw : WfPeer peer) (ht : WfText source today peer)
    (hk : peer'.hasKex = true) (hd : peer'.enc ≠ peer.enc) :
    ∃ r, parse (create source today peer ca) = .ok r ∧ (evaluate r.pol peer' []).1 = false ∧
      ∃ e ∈ (evaluate r.pol peer' []).2, e.field = s "Ciphers" ∧ e.expectedRequired = peer.enc ∧ e.actual = peer'.enc :=
  ⟨_, parse_create_with Json.loads source today peer ca hw ht (loadsOk_loads peer), C05.drift_ciphers peer peer' hk hd⟩

theorem made_text_policy_drift_macs (source today : Str) (peer peer' : Peer) (ca : Bool) (hw : WfPeer peer) (ht : WfText source today peer)
    (hk : peer'.hasKex = true) (hd : peer'.mac ≠ peer.mac) :
    ∃ r, parse (create source today peer ca) = .ok r ∧ (evaluate r.pol peer' []).1 = false ∧
      ∃ e ∈ (evaluate r.pol peer' []).2, e.field = s "MACs" ∧ e.expectedRequired = peer.mac ∧ e.actual = peer'.mac :=
  ⟨_, parse_create_with Json.loads source today peer ca hw ht (loadsOk_loads peer), C05.drift_macs peer peer' hk hd⟩

/-- sizes: a different host-key size, CA type / size or modulus size (both measured) fails the loaded text policy -/
theorem made_text_policy_drift_sizes (source today : Str) (peer peer' : Peer) (ca : Bool) (hw : WfPeer peer) (ht : WfText source today peer)
    (hk : peer'.hasKex = true) :
    ∃ r, parse (create source today peer ca) = .ok r ∧
      (∀ t a a', lookup peer.hostKeys t = some a → lookup peer'.hostKeys t = some a' → a'.size ≠ a.size → (evaluate r.pol peer' []).1 = false) ∧
      (∀ t a a', lookup peer.hostKeys t = some a → lookup peer'.hostKeys t = some a' → (a.caType ≠ [] ∧ 0 < a.caSize) →
          (a'.caType ≠ a.caType ∨ a'.caSize ≠ a.caSize) → (evaluate r.pol peer' []).1 = false) ∧
      (∀ t a a', lookup peer.dhSizes t = some a → lookup peer'.dhSizes t = some a' → a' ≠ a → (evaluate r.pol peer' []).1 = false) :=
  ⟨_, parse_create_with Json.loads source today peer ca hw ht (loadsOk_loads peer),
    fun t a a' h1 h2 hd => C05.drift_hostkey_size peer peer' hk t a a' h1 h2 hd,
    fun t a a' h1 h2 hca hd => C05.drift_ca peer peer' hk t a a' h1 h2 hca hd,
    fun t a a' h1 h2 hd => C05.drift_modulus peer peer' hk t a a' h1 h2 hd⟩

/-! ### what a line cannot change: sticky flags, required name / version, comments -/

/-- what a step leaves untouched: the two flags and `client policy` once set, and the name / version unless the line is that directive -/
def Frame (key : Str) (st st' : PState) : Prop :=
  (st.pol.allowLarger = true → st'.pol.allowLarger = true) ∧ (st.pol.allowSubset = true → st'.pol.allowSubset = true) ∧
  (st.serverPolicy = false → st'.serverPolicy = false) ∧
  (key ≠ kName → st'.name = st.name) ∧ (key ≠ kVersion → st'.version = st.version)

theorem Frame.rfl' (key : Str) (st : PState) : Frame key st st := ⟨id, id, id, fun _ => rfl, fun _ => rfl⟩

theorem frame_dQuoted (st st' : PState) (key val : Str) (h : dQuoted st key val = .ok st') : Frame key st st' := by
  unfold dQuoted at h
  simp only at h
  repeat' split at h
  all_goals (cases h <;> simp_all [Frame])

theorem frame_dLegacyHostkey (st st' : PState) (key val : Str) (h : dLegacyHostkey st key val = .ok st') : Frame key st st' := by
  unfold dLegacyHostkey at h
  split at h
  · cases h
  · split at h
    · cases h
    · cases h; simp_all [Frame]

theorem frame_dLegacyCakey (st st' : PState) (key val : Str) (h : dLegacyCakey st key val = .ok st') : Frame key st st' := by
  unfold dLegacyCakey at h
  split at h
  · cases h
  · split at h
    · cases h
    · split at h
      · cases h
      · cases h; simp_all [Frame]

theorem frame_dLegacyDh (st st' : PState) (key val : Str) (h : dLegacyDh st key val = .ok st') : Frame key st st' := by
  unfold dLegacyDh at h
  split at h
  · cases h
  · split at h
    · cases h
    · cases h; simp_all [Frame]

theorem frame_dHostKeySizes (st st' : PState) (key val : Str) (h : dHostKeySizes jl st val = .ok st') : Frame key st st' := by
  unfold dHostKeySizes at h
  cases hj : jl val with
  | error e => rw [hj] at h; cases e <;> cases h
  | ok j =>
    rw [hj] at h
    simp only at h
    cases hm : hksOfJsonTop j with
    | error e => rw [hm] at h; cases h
    | ok m => rw [hm] at h; cases h; simp_all [Frame]

theorem frame_dDhSizes (st st' : PState) (key val : Str) (h : dDhSizes jl st val = .ok st') : Frame key st st' := by
  unfold dDhSizes at h
  cases hj : jl val with
  | error e => rw [hj] at h; cases e <;> cases h
  | ok j =>
    rw [hj] at h
    simp only at h
    cases hm : dhOfJson j with
    | error e => rw [hm] at h; cases h
    | ok m => rw [hm] at h; cases h; simp_all [Frame]

theorem frame_dFlags (st : PState) (key val : Str) : Frame key st (dFlags st key val) := by
  unfold dFlags
  split
  · simp_all [Frame]
  split
  · simp_all [Frame]
  split
  · simp_all [Frame]
  · exact Frame.rfl' key st

theorem dispatch_frame (st st' : PState) (line key val : Str) (h : dispatch jl st line key val = .ok st') : Frame key st st' := by
  unfold dispatch at h
  by_cases c0 : (!keyOk key) = true
  · rw [if_pos c0] at h; cases h
  rw [if_neg c0] at h
  by_cases c1 : key = kName ∨ key = kBanner
  · rw [if_pos c1] at h; exact frame_dQuoted st st' key val h
  rw [if_neg c1] at h
  by_cases c2 : key = kVersion
  · rw [if_pos c2] at h; cases h; simp_all [Frame]
  rw [if_neg c2] at h
  by_cases c3 : key = kCompressions
  · rw [if_pos c3] at h; cases h; simp_all [Frame]
  rw [if_neg c3] at h
  by_cases c4 : key = kHostKeys
  · rw [if_pos c4] at h; cases h; simp_all [Frame]
  rw [if_neg c4] at h
  by_cases c5 : key = kOptionalHostKeys
  · rw [if_pos c5] at h; cases h; simp_all [Frame]
  rw [if_neg c5] at h
  by_cases c6 : key = kKex
  · rw [if_pos c6] at h; cases h; simp_all [Frame]
  rw [if_neg c6] at h
  by_cases c7 : key = kCiphers
  · rw [if_pos c7] at h; cases h; simp_all [Frame]
  rw [if_neg c7] at h
  by_cases c8 : key = kMacs
  · rw [if_pos c8] at h; cases h; simp_all [Frame]
  rw [if_neg c8] at h
  by_cases c9 : Text.startsWith key pfxHostkey = true
  · rw [if_pos c9] at h; exact frame_dLegacyHostkey st st' key val h
  rw [if_neg c9] at h
  by_cases c10 : Text.startsWith key pfxCakey = true
  · rw [if_pos c10] at h; exact frame_dLegacyCakey st st' key val h
  rw [if_neg c10] at h
  by_cases c11 : key = kHostKeySizes
  · rw [if_pos c11] at h; exact frame_dHostKeySizes jl st st' key val h
  rw [if_neg c11] at h
  by_cases c12 : Text.startsWith key pfxDh = true
  · rw [if_pos c12] at h; exact frame_dLegacyDh st st' key val h
  rw [if_neg c12] at h
  by_cases c13 : key = kDhSizes
  · rw [if_pos c13] at h; exact frame_dDhSizes jl st st' key val h
  rw [if_neg c13] at h
  cases h; exact frame_dFlags st key val

theorem step_frame (st st' : PState) (l : Str) (h : step jl st l = .ok st') :
    (st.pol.allowLarger = true → st'.pol.allowLarger = true) ∧ (st.pol.allowSubset = true → st'.pol.allowSubset = true) ∧
    (st.serverPolicy = false → st'.serverPolicy = false) ∧
    ((∀ k v, splitEq1 (Text.stripU l) = some (k, v) → Text.stripU k ≠ kName) → st'.name = st.name) ∧
    ((∀ k v, splitEq1 (Text.stripU l) = some (k, v) → Text.stripU k ≠ kVersion) → st'.version = st.version) := by
  unfold step at h
  simp only at h
  split at h
  · cases h; exact ⟨id, id, id, fun _ => rfl, fun _ => rfl⟩
  · split at h
    · cases h
    · next k v hkv =>
      obtain ⟨f1, f2, f3, f4, f5⟩ := dispatch_frame jl st st' _ _ _ h
      exact ⟨f1, f2, f3, fun hn => f4 (hn k v hkv), fun hn => f5 (hn k v hkv)⟩

/-- **the boolean directives are sticky**: once `allow_larger_keys` / `allow_algorithm_subset_and_reordering` is true or the policy is a client
    policy, no later line (in particular not `… = false`) resets it — this is what the code does -/
theorem flags_sticky (st st' : PState) (lines : List Str) (h : parseLines jl st lines = .ok st') :
    (st.pol.allowLarger = true → st'.pol.allowLarger = true) ∧ (st.pol.allowSubset = true → st'.pol.allowSubset = true) ∧
    (st.serverPolicy = false → st'.serverPolicy = false) := by
  induction lines generalizing st with
  | nil => simp only [parseLines] at h; cases h; exact ⟨id, id, id⟩
  | cons l ls ih =>
    simp only [parseLines] at h
    cases hs : step jl st l with
    | error e => rw [hs] at h; cases h
    | ok st1 =>
      rw [hs] at h
      obtain ⟨a1, a2, a3, _, _⟩ := step_frame jl st st1 l hs
      obtain ⟨b1, b2, b3⟩ := ih st1 h
      exact ⟨fun x => b1 (a1 x), fun x => b2 (a2 x), fun x => b3 (a3 x)⟩

/-- is `l` a directive line with key `key`? -/
def IsDirective (key l : Str) : Prop := ∃ k v, splitEq1 (Text.stripU l) = some (k, v) ∧ Text.stripU k = key

theorem parseLines_name_version (st st' : PState) (lines : List Str) (h : parseLines jl st lines = .ok st') :
    ((∀ l ∈ lines, ¬ IsDirective kName l) → st'.name = st.name) ∧ ((∀ l ∈ lines, ¬ IsDirective kVersion l) → st'.version = st.version) := by
  induction lines generalizing st with
  | nil => simp only [parseLines] at h; cases h; exact ⟨fun _ => rfl, fun _ => rfl⟩
  | cons l ls ih =>
    simp only [parseLines] at h
    cases hs : step jl st l with
    | error e => rw [hs] at h; cases h
    | ok st1 =>
      rw [hs] at h
      obtain ⟨_, _, _, a4, a5⟩ := step_frame jl st st1 l hs
      obtain ⟨b1, b2⟩ := ih st1 h
      constructor
      · intro hn
        rw [b1 (fun x hx => hn x (List.mem_cons_of_mem _ hx))]
        exact a4 (fun k v hkv hk => hn l (by simp) ⟨k, v, hkv, hk⟩)
      · intro hn
        rw [b2 (fun x hx => hn x (List.mem_cons_of_mem _ hx))]
        exact a5 (fun k v hkv hk => hn l (by simp) ⟨k, v, hkv, hk⟩)

/-- **a text without a `name` directive is never accepted** (it ends in `The policy does not have a name field` unless a line fails first) -/
theorem parse_missing_name (text : Str) (h : ∀ l ∈ Text.splitOn '\n' text, ¬ IsDirective kName l) : ∀ r, parseWith jl text ≠ .ok r := by
  intro r hr
  unfold parseWith at hr
  cases hp : parseLines jl {} (Text.splitOn '\n' text) with
  | error e => rw [hp] at hr; cases hr
  | ok st =>
    rw [hp] at hr
    have := (parseLines_name_version jl {} st _ hp).1 h
    simp only [finish, this] at hr
    cases hr

/-- **a text without a `version` directive is never accepted** -/
theorem parse_missing_version (text : Str) (h : ∀ l ∈ Text.splitOn '\n' text, ¬ IsDirective kVersion l) : ∀ r, parseWith jl text ≠ .ok r := by
  intro r hr
  unfold parseWith at hr
  cases hp : parseLines jl {} (Text.splitOn '\n' text) with
  | error e => rw [hp] at hr; cases hr
  | ok st =>
    rw [hp] at hr
    have hv : st.version = none := (parseLines_name_version jl {} st _ hp).2 h
    simp only [finish] at hr
    cases hn : st.name with
    | none => simp only [hn] at hr; cases hr
    | some n => simp only [hn, hv] at hr; cases hr

/-- **a comment or blank line inserted anywhere in a text never changes what the text loads to** -/
theorem parse_insert_comment_or_blank (l1 l2 : List Str) (c : Str) (hc : Skipped c) (hne : l1 ++ l2 ≠ [])
    (h1 : ∀ l ∈ l1, '\n' ∉ l) (h2 : ∀ l ∈ l2, '\n' ∉ l) (hcn : '\n' ∉ c) :
    parseWith jl (Text.join ['\n'] (l1 ++ c :: l2)) = parseWith jl (Text.join ['\n'] (l1 ++ l2)) := by
  unfold parseWith
  rw [splitOn_join_newline '\n' _ (by simp), splitOn_join_newline '\n' _ hne, parseLines_skip_comment_or_blank jl _ l1 l2 c hc]
  · intro l hl; rcases List.mem_append.mp hl with h | h
    · exact h1 l h
    · exact h2 l h
  · intro l hl; rcases List.mem_append.mp hl with h | h
    · exact h1 l h
    · rcases List.mem_cons.mp h with h | h
      · rw [h]; exact hcn
      · exact h2 l h

/-! ### non-vacuity: a realistic peer satisfies the hypotheses; the model computes on concrete texts -/

instance (n : Str) : Decidable (WfName n) := by unfold WfName; infer_instance

instance {ε α} [DecidableEq ε] [DecidableEq α] : DecidableEq (Except ε α) := fun a b =>
  match a, b with
  | .ok x, .ok y => if h : x = y then isTrue (h ▸ rfl) else isFalse (fun e => by cases e; exact h rfl)
  | .error x, .error y => if h : x = y then isTrue (h ▸ rfl) else isFalse (fun e => by cases e; exact h rfl)
  | .ok _, .error _ => isFalse (fun e => by cases e)
  | .error _, .ok _ => isFalse (fun e => by cases e)

/-- an OpenSSH-like target with a GSS key exchange (`=` in the name), a certificate host key and a measured group-exchange modulus -/
def peerR : Peer :=
  { bannerStr := s "SSH-2.0-OpenSSH_9.6p1 Ubuntu-3ubuntu13.5",
    comp := [s "none", s "zlib@openssh.com"],
    key := [s "rsa-sha2-512", s "rsa-sha2-256", s "ecdsa-sha2-nistp256", s "ssh-ed25519", s "ssh-ed25519-cert-v01@openssh.com"],
    kex := [s "sntrup761x25519-sha512@openssh.com", s "curve25519-sha256", s "gss-group14-sha256-toWM5Slw5Ew8Mqkay+al2g==",
            s "diffie-hellman-group-exchange-sha256", s "kex-strict-s-v00@openssh.com"],
    enc := [s "chacha20-poly1305@openssh.com", s "aes256-gcm@openssh.com"],
    mac := [s "umac-128-etm@openssh.com", s "hmac-sha2-256-etm@openssh.com"],
    hostKeys := [(s "rsa-sha2-512", { size := 3072, caType := [], caSize := 0 }), (s "ssh-ed25519", { size := 256, caType := [], caSize := 0 }),
                 (s "ssh-ed25519-cert-v01@openssh.com", { size := 256, caType := s "ssh-rsa", caSize := 4096 })],
    dhSizes := [(s "diffie-hellman-group-exchange-sha256", 3072)] }
def srcR : Str := s "target.example"
def todayR : Str := s "2026/09/29"

/-- **the hypotheses of `parse_create` hold for a realistic peer** -/
theorem realistic_peer_wf : WfPeer peerR ∧ WfText srcR todayR peerR :=
  ⟨⟨by decide +kernel, by decide +kernel, by decide +kernel, by decide +kernel, by decide +kernel, by decide +kernel, by decide +kernel,
    by decide +kernel, by decide +kernel, by decide +kernel, by decide +kernel⟩,
   ⟨by decide +kernel, by decide +kernel, by decide +kernel, by decide +kernel, by decide +kernel, by decide +kernel, by decide +kernel,
    by decide +kernel⟩⟩

-- the theorem instantiated, and the same fact by running the model on the 2.6 kB text in the kernel
example : parse (create srcR todayR peerR false)
    = .ok { name := s "Custom Policy (based on target.example on 2026/09/29)", version := ['1'], pol := policyOf peerR, serverPolicy := true, warnings := 0 } := by
  rw [parse_create srcR todayR peerR realistic_peer_wf.1 realistic_peer_wf.2, madeName_plain srcR todayR (by decide +kernel) (by decide +kernel)]
  decide +kernel
example : (parse (create srcR todayR peerR true)).toOption.map (fun r => (r.pol == policyOf peerR, r.serverPolicy, r.version)) = some (true, false, ['1']) := by
  decide +kernel
example : (evaluate (policyOf peerR) peerR []).1 = true := by decide +kernel

-- a hand-written policy: comments, CRLF, white space around `=` and `,`, `=` inside a value, escapes, legacy and JSON sizes
def handText : Str :=
  s "# a policy\r\n\r\n  name   =  \"My \\\"quoted\\\" policy\"  \r\nversion = 2 = two\n" ++ s "host keys = a ,b==,  c\nhostkey_size_a = 3072\n"
  ++ s "cakey_size_rsa-sha2-512-cert-v01@openssh.com = 4096\n" ++ s "dh_modulus_sizes = {\"g\\u00e9\": 2048}\nallow_larger_keys = TRUE\n"
  ++ s "allow_larger_keys = false\nhost keys = x, y\n"
example : parse handText = .ok {
    name := s "My \"quoted\" policy", version := s "2 = two", serverPolicy := true, warnings := 2,
    pol := { hostKeys := some [s "x", s "y"], allowLarger := true, dhSizes := some [(s "gé", 2048)],
             hostkeySizes := some [(s "a", { size := 3072, caType := [], caSize := 0 }),
                                   (s "rsa-sha2-512-cert-v01@openssh.com", { size := 3072, caType := s "ssh-rsa", caSize := 4096 })] } } := by
  decide +kernel
-- rejected shapes
example : parse (s "name = \"x\"\nversion = 1\nhost keys a, b\n") = .error (.noEq (s "host keys a, b")) := by decide +kernel
example : parse (s "name = \"x\"\nversion = 1\nhostkeys = a\n") = .error (.badField (s "hostkeys = a")) := by decide +kernel
example : parse (s "name = My Policy\nversion = 1\n") = .error (.unquoted (s "name") (s "My Policy")) := by decide +kernel
example : parse (s "name = \"x\"\nbanner = \"SSH-2.0-x\nversion = 1\n") = .error (.unquoted (s "banner") (s "\"SSH-2.0-x")) := by decide +kernel
example : parse (s "version = 1\nhost keys = a\n") = .error .noName := by decide +kernel
example : parse (s "name = \"x\"\n# version = 1\n") = .error .noVersion := by decide +kernel
example : parse (s "name = \"x\"\nversion = 1\nhost_key_sizes = {\"a\": {\"hostkey_size\": 1}\n") = .error .badJson := by decide +kernel
example : parse (s "name = \"x\"\nversion = 1\nhost_key_sizes = {\"a\": 3072}\n") = .error .typeError := by decide +kernel
example : parse (s "name = \"x\"\nversion = 1\ncakey_size_a = 1\n") = .error .unbound := by decide +kernel
example : parse (s "name = \"x\"\nversion = 1\nhostkey_size_a = 30x72\n") = .error (.badInt (s "30x72")) := by decide +kernel
-- json: escapes, surrogate pairs, duplicate keys, white space
example : (Json.loads (s "\"\\ud83d\\ude00\\u00e9\\n\"")).toOption.map (fun v => match v with | .str x => x | _ => []) = some [Char.ofNat 0x1F600, 'é', '\n'] := by decide +kernel
example : Json.dumpStr [Char.ofNat 0x1F600, 'é', '\n', '"', '\x7f'] = s "\"\\ud83d\\ude00\\u00e9\\n\\\"\\u007f\"" := by decide +kernel
example : dumpHostKeys peerR.hostKeys = s "{\"rsa-sha2-512\": {\"hostkey_size\": 3072}, \"ssh-ed25519\": {\"hostkey_size\": 256}, "
    ++ s "\"ssh-ed25519-cert-v01@openssh.com\": {\"hostkey_size\": 256, " ++ s "\"ca_key_type\": \"ssh-rsa\", \"ca_key_size\": 4096}}" := by decide +kernel

-- the hypotheses are needed: a name with a comma, or an empty name-list, does not survive the text (the code joins with `, ` and splits at `,`)
example : (parse (create srcR todayR { peerR with mac := [s "a,b"] } false)).toOption.map (·.pol.macs) = some (some [s "a", s "b"]) := by decide +kernel
example : (parse (create srcR todayR { peerR with mac := [] } false)).toOption.map (·.pol.macs) = some (some [[]]) := by decide +kernel

end SshAudit.C05File
