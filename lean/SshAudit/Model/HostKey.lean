/-
  Host-key measurement: `KexDH.recv_reply` / `__parse_ca_key` / `__get_bytes` / `__adjust_key_size`
  (kexdh.py, byte level), the size / CA thresholds, database edits and RSA-family fan-out of
  `HostKeyTest.perform_test` + `HostKeyTest.run` (hostkeytest.py), `SSH2_Kex.set_host_key`
  (ssh2_kex.py), the fingerprint lists of `output_fingerprints` / `build_struct` and the
  `Fingerprint` formatting (ssh_audit.py, fingerprint.py; hash functions are parameters), and the
  JSON `keysize` / `casize` fields.  Core Lean only.

  Conventions (DESIGN §3): a position `ptr` into a buffer is "the bytes from `ptr` on" (Python
  slices clamp, so `buf[ptr:]` past the end is empty); exceptions are data; the per-thread rating
  database is a value threaded through `step`; the probed server is an arbitrary state machine
  `srv : σ → Str → Outcome × σ` answering one probe connection per requested host-key type.

  The section `Spec` holds encoders written from RFC 4251/4253 and PROTOCOL.certkeys; nothing in
  the model of the code uses them.
-/
import SshAudit.Model.Wire
import SshAudit.Model.Report
namespace SshAudit
namespace HostKey
open Wire

def s (x : String) : Str := x.toList

/-! ### kexdh.py, byte level -/

/-- `KexDH.__get_bytes(buf, ptr)`: `(buf[ptr+4 : ptr+4+n], n, rest)`; `struct.error` when fewer
    than four bytes are left.  The second component is the *declared* length. -/
def getBytes (bs : Bytes) : Except Exn (Bytes × Nat × Bytes) :=
  if bs.length < 4 then .error .struct
  else
    let n := ofBE (natsOf (bs.take 4))
    .ok ((bs.drop 4).take n, n, (bs.drop 4).drop n)

/-- `bytes.decode('ascii')` -/
def asciiDecode (bs : Bytes) : Except Exn Str :=
  if bs.all (fun b => b.toNat < 128) then .ok (bs.map (fun b => Char.ofNat b.toNat)) else .error .unicode

/-- `int(binascii.hexlify(b), 16)`: `ValueError` on the empty string -/
def hexInt (bs : Bytes) : Except Exn Nat :=
  if bs.isEmpty then .error .value else .ok (ofBE (natsOf bs))

def tEd25519 : Str := s "ssh-ed25519"
def tEd448 : Str := s "ssh-ed448"
def tDss : Str := s "ssh-dss"
def tRsa : Str := s "ssh-rsa"
def pRsaCert : Str := s "ssh-rsa-cert-v0"
def pEdCert : Str := s "ssh-ed25519-cert-v0"
def pEd : Str := s "ssh-ed25519"
def pEcdsa : Str := s "ecdsa-sha2-nistp"
def pSshRsa : Str := s "ssh-rsa"

/-- `__parse_ca_key(hostkey, hostkey_type, ptr)` on the bytes from `ptr` on: (CA key type, CA key length in bytes,
    `__ca_n_bits`: the bit length of the modulus of an `ssh-rsa` CA key, else 0) -/
def parseCaKey (r0 : Bytes) : Except Exn (Str × Nat × Nat) := do
  let r := r0.drop 8                                   -- serial
  let certType ← hexInt (r.take 4)
  let r := r.drop 4
  if certType = 2 then do
    let (_, _, r) ← getBytes r                         -- key id
    let (_, _, r) ← getBytes r                         -- principals
    let r := r.drop 16                                 -- valid after, valid before
    let (_, _, r) ← getBytes r                         -- critical options
    let (_, _, r) ← getBytes r                         -- extensions
    let (_, _, r) ← getBytes r                         -- reserved ("another nonce")
    let (caKey, _, _) ← getBytes r
    let (tb, _, c) ← getBytes caKey
    let caType ← asciiDecode tb
    if caType = tEd25519 then pure (caType, 32, 0)
    else do
      let (_, _, c) ← getBytes c                       -- exponent / curve name
      let (n, nLen, _) ← getBytes c                    -- modulus / point
      -- `if ca_key_type == 'ssh-rsa' and ca_key_n_len > 0: self.__ca_n_bits = int(hexlify(ca_key_n), 16).bit_length()`
      let bits ← (if caType = tRsa ∧ nLen > 0 then do let v ← hexInt n; pure (bitLen v) else pure 0)
      if Text.startsWith caType pEcdsa ∧ nLen > 0 then
        match n with
        | [] => .error .index                          -- `ca_key_n[0]` on a truncated field
        | b :: _ => if b = 4 then pure (caType, (nLen - 1) / 2, bits) else pure (caType, nLen, bits)
      else pure (caType, nLen, bits)
  else pure ([], 0, 0)

structure Parsed where
  keyType : Str
  nLen : Nat          -- `__hostkey_n_len`
  nBits : Nat         -- `__hostkey_n_bits`
  caType : Str
  caNLen : Nat        -- `__ca_n_len`
  caNBits : Nat       -- `__ca_n_bits`
deriving Repr, DecidableEq

/-- the part of `recv_reply` that picks the host-key blob apart -/
def parseHostKey (hostkey : Bytes) : Except Exn Parsed := do
  let (tb, _, r) ← getBytes hostkey
  let ty ← asciiDecode tb
  let r ← (if Text.startsWith ty pRsaCert then do let (_, _, r) ← getBytes r; pure r else pure r)
  let (e, _, r) ← getBytes r
  let _ ← hexInt e
  let (nLen, nBits, r) ← (if ty = tEd25519 then pure (32, 0, r) else if ty = tEd448 then pure (57, 0, r) else do
      let (n, nLen, r) ← getBytes r
      let v ← hexInt n
      -- `if self.__hostkey_type.startswith('ssh-rsa'): self.__hostkey_n_bits = self.__hostkey_n.bit_length()`
      pure (nLen, (if Text.startsWith ty pSshRsa then bitLen v else 0), r))
  if Text.startsWith ty pRsaCert ∨ Text.startsWith ty pEdCert then do
    let (caT, caLen, caBits) ← parseCaKey r
    pure { keyType := ty, nLen := nLen, nBits := nBits, caType := caT, caNLen := caLen, caNBits := caBits }
  else pure { keyType := ty, nLen := nLen, nBits := nBits, caType := [], caNLen := 0, caNBits := 0 }

/-- `recv_reply` on the payload of a KEXDH_REPLY / KEXDH_GEX_REPLY (after the message byte):
    the host-key blob and what was parsed from it -/
def recvReply (payload : Bytes) : Except Exn (Bytes × Parsed) := do
  let (hostkey, _, r) ← getBytes payload
  let (_, _, r) ← getBytes r
  let (_, _, _) ← getBytes r
  let p ← parseHostKey hostkey
  pure (hostkey, p)

/-- `__adjust_key_size` -/
def adjustKeySize (size : Nat) : Nat :=
  let size := size * 8
  if (size / 8) % 2 ≠ 0 then size - 8 else size

/-- `get_hostkey_size()`: the bit length of an RSA modulus when one was measured, else the byte-length rule -/
def Parsed.size (p : Parsed) : Nat := if p.nBits > 0 then p.nBits else adjustKeySize p.nLen
/-- `get_ca_size()` -/
def Parsed.caSize (p : Parsed) : Nat := if p.caNBits > 0 then p.caNBits else adjustKeySize p.caNLen

/-! ### hostkeytest.py -/

structure HKRec where
  raw : Bytes
  info : Report.HostKeyInfo
deriving Repr, DecidableEq

/-- what one probe connection ends in -/
inductive Outcome where
  | connFail                     -- connect / banner error or unparsable KEXINIT: `perform_test` returns
  | raised                       -- `send_init` / `recv_reply` raised before the payload was looked at
                                 --   (KexDHException for a wrong message type, `sys.exit` in `read_packet`)
  | noReply                      -- `read_packet` gave −1: `recv_reply` returns `None`
  | reply (payload : Bytes)
deriving Repr, DecidableEq

inductive Probe where
  | stop | skip | got (r : HKRec)
deriving Repr, DecidableEq

/-- the `try:` block of `perform_test` plus the three getters -/
def probeResult : Outcome → Probe
  | .connFail => .stop
  | .raised => .skip
  | .noReply => .got { raw := [], info := { size := adjustKeySize 0, caType := [], caSize := adjustKeySize 0 } }
  | .reply p =>
    match recvReply p with
    | .error _ => .skip
    | .ok (blob, q) => .got { raw := blob, info := { size := q.size, caType := q.caType, caSize := q.caSize } }

/-- tables and texts the code reads (`HOST_KEY_TYPES`, `RSA_FAMILY`, the two warning texts, the keys of `KEX_TO_DHGROUP`) -/
structure Cfg where
  types : List HostKeyType
  rsaFamily : List Str
  two2k : Str
  smallEcc : Str
  kexGroups : List Str

def smallText (n : Nat) : Str := s "using small " ++ Text.natToStr n ++ s "-bit modulus"
def smallHostText (n : Nat) : Str := s "using small " ++ Text.natToStr n ++ s "-bit hostkey modulus"
def smallCaText (n : Nat) : Str := s "using small " ++ Text.natToStr n ++ s "-bit CA key modulus"
def nsaText : Str := s "CA key uses elliptic curves that are suspected as being backdoored by the U.S. National Security Agency"

def isEcc (n : Str) : Bool := Text.startsWith n pEd || Text.startsWith n pEcdsa

/-- (`*_min_good`, `*_min_warn`, `*_warn_str`) -/
def limits (cfg : Cfg) (n : Str) : Nat × Nat × Str := if isEcc n then (256, 224, cfg.smallEcc) else (3072, 2048, cfg.two2k)

/-- `key_fail_comments`, `key_warn_comments` of one probed host-key type -/
def comments (cfg : Cfg) (name : Str) (cert : Bool) (size : Nat) (caType : Str) (caSize : Nat) : List Str × List Str :=
  if size > 0 ∨ caSize > 0 then
    let (hGood, hWarn, hStr) := limits cfg name
    let (cGood, cWarn, cStr) := limits cfg caType
    let fw : List Str × List Str :=
      if cert = false ∧ size < hGood ∧ name ≠ tDss then
        (if size < hWarn then ([smallText size], []) else ([], [hStr]))
      else if cert = true ∧ (size < hGood ∨ (0 < caSize ∧ caSize < cGood)) then
        let fw1 : List Str × List Str :=
          if size < hWarn then ([smallHostText size], [])
          else if size < hGood then ([], [hStr]) else ([], [])
        let fw2 : List Str × List Str :=
          if 0 < caSize ∧ caSize < cWarn then ([smallCaText caSize], [])
          else if (0 < caSize ∧ caSize < cGood) ∧ ¬ fw1.2.contains cStr then ([], [cStr]) else ([], [])
        (fw1.1 ++ fw2.1, fw1.2 ++ fw2.2)
      else ([], [])
    if Text.startsWith caType pEcdsa then (fw.1 ++ [nsaText], fw.2) else fw
  else ([], [])

/-- `while len(d) < 3: d.append([])`, `d[1].extend(fails)`, `d[2].extend(warns)` -/
def extendDesc (fails warns : List Str) (d : List (List (Option Str))) : List (List (Option Str)) :=
  (d ++ List.replicate (3 - d.length) []).mapIdx
    (fun j l => if j = 1 then l ++ fails.map some else if j = 2 then l ++ warns.map some else l)

/-- the edits of `db['key'][name]`; `none` = `KeyError` (a probed type the database does not have) -/
def editKey (db : DB) (name : Str) (fails warns : List Str) : Option DB :=
  match DBm.lookup db Report.keyC name with
  | none => none
  | some _ => some (Report.updateEntry db Report.keyC name (extendDesc fails warns))

def editAll (db : DB) (names : List Str) (fails warns : List Str) : Option DB :=
  names.foldlM (fun d n => editKey d n fails warns) db

/-- `SSH2_Kex.set_host_key`: the first record of a type wins -/
def setHostKey (hk : List (Str × HKRec)) (name : Str) (r : HKRec) : List (Str × HKRec) :=
  if hk.any (·.1 = name) then hk else hk ++ [(name, r)]

inductive Halt where
  | connFail | keyError
deriving Repr, DecidableEq

structure St (σ : Type) where
  srv : σ
  hostKeys : List (Str × HKRec)        -- `server_kex.host_keys()`, insertion order
  db : DB
  parsed : List Str                    -- `parsed_host_key_types`
  probes : List Str                    -- one entry per probe connection attempted: the host-key type requested
  halt : Option Halt

/-- one pass of `for host_key_type in host_key_types:` -/
def step {σ : Type} (cfg : Cfg) (srv : σ → Str → Outcome × σ) (keys : List Str) (st : St σ) (t : HostKeyType) : St σ :=
  if st.halt.isSome then st
  else if st.parsed.contains t.name then st
  else if keys.contains t.name = false then st
  else
    let (o, srv') := srv st.srv t.name
    let probes := st.probes ++ [t.name]
    match probeResult o with
    | .stop => { st with srv := srv', probes := probes, halt := some .connFail }
    | .skip => { st with srv := srv', probes := probes }
    | .got r =>
      let inFam := cfg.rsaFamily.contains t.name
      let hk1 := setHostKey st.hostKeys t.name r
      let hk2 := if t.cert = false ∧ inFam = true then cfg.rsaFamily.foldl (fun h n => setHostKey h n r) hk1 else hk1
      let fw := comments cfg t.name t.cert r.info.size r.info.caType r.info.caSize
      let targets := if inFam then cfg.rsaFamily else [t.name]
      match editAll st.db targets fw.1 fw.2 with
      | none => { st with srv := srv', probes := probes, hostKeys := hk2, halt := some .keyError }
      | some db' => { st with srv := srv', probes := probes, hostKeys := hk2, db := db', parsed := st.parsed ++ targets }

/-- `HostKeyTest.perform_test` -/
def perform {σ : Type} (cfg : Cfg) (srv : σ → Str → Outcome × σ) (keys : List Str) (st : St σ) : St σ :=
  cfg.types.foldl (step cfg srv keys) st

def initSt {σ : Type} (s0 : σ) (db : DB) : St σ :=
  { srv := s0, hostKeys := [], db := db, parsed := [], probes := [], halt := none }

/-- `HostKeyTest.run`: nothing happens unless one of the server's key exchanges is one the tool can start -/
def run {σ : Type} (cfg : Cfg) (srv : σ → Str → Outcome × σ) (s0 : σ) (db : DB) (kex keys : List Str) : St σ :=
  if kex.any (fun k => cfg.kexGroups.contains k) then perform cfg srv keys (initSt s0 db) else initSt s0 db

def toReport (hk : List (Str × HKRec)) : List (Str × Report.HostKeyInfo) := hk.map (fun e => (e.1, e.2.info))

/-! ### fingerprints (`output_fingerprints`, `build_struct`, `fingerprint.py`) -/

def dictGet {α : Type} (d : List (Str × α)) (k : Str) : Option α := (d.find? (·.1 = k)).map (·.2)
/-- `d[k] = v` -/
def dictSet {α : Type} (d : List (Str × α)) (k : Str) (v : α) : List (Str × α) :=
  if d.any (·.1 = k) then d.map (fun e => if e.1 = k then (k, v) else e) else d ++ [(k, v)]
/-- `del d[k]` -/
def dictDel {α : Type} (d : List (Str × α)) (k : Str) : List (Str × α) := d.filter (fun e => e.1 ≠ k)

def insertSorted (k : Str) : List Str → List Str
  | [] => [k]
  | x :: xs => if Text.ltStr x k then x :: insertSorted k xs else k :: x :: xs
/-- `sorted(keys)` on `str` (code-point order) -/
def sortStrs (l : List Str) : List Str := l.foldr insertSorted []

def fpLabel (rsaFamily : List Str) (k : Str) : Str := if rsaFamily.contains k then tRsa else k
def isCert (k : Str) : Bool := Text.hasSub (s "-cert-") k

/-- the `fps` dict of `output_fingerprints` (SSH-2 part) -/
def textFpDict (rsaFamily : List Str) (hk : List (Str × HKRec)) : List (Str × Bytes) :=
  hk.foldl (fun d e => if isCert (fpLabel rsaFamily e.1) then d else dictSet d (fpLabel rsaFamily e.1) e.2.raw) []

/-- the (label, bytes that are hashed) pairs `output_fingerprints` walks over, in print order -/
def textFps (rsaFamily : List Str) (hk : List (Str × HKRec)) : List (Str × Bytes) :=
  let d := textFpDict rsaFamily hk
  (sortStrs (d.map (·.1))).filterMap (fun k => (dictGet d k).map (fun v => (k, v)))

/-- is a fingerprint label printed in the text report? (ECDSA / DSS only with `-v`) -/
def fpShown (verbose : Bool) (label : Str) : Bool :=
  verbose || !(Text.startsWith label (s "ecdsa-") || label = tDss)

/-- the renaming loop of `build_struct` (`for t in list(host_keys.keys()): if t in RSA_FAMILY: v = host_keys[t]; del host_keys[t]; host_keys['ssh-rsa'] = v`) -/
def jsonRename (rsaFamily : List Str) (hk : List (Str × HKRec)) : List (Str × HKRec) :=
  (hk.map (·.1)).foldl (fun d k =>
    if rsaFamily.contains k then
      match dictGet d k with
      | some v => dictSet (dictDel d k) tRsa v
      | none => d                                     -- `KeyError`; unreachable when the keys of `hk` are distinct
    else d) hk

/-- the (label, bytes that are hashed) pairs behind the JSON `fingerprints` array (two entries each: SHA256, MD5) -/
def jsonFps (rsaFamily : List Str) (hk : List (Str × HKRec)) : List (Str × Bytes) :=
  let d := jsonRename rsaFamily hk
  ((sortStrs (d.map (·.1))).filter (fun k => !isCert k)).filterMap (fun k => (dictGet d k).map (fun v => (k, v.raw)))

def b64Alphabet : List Char := "ABCDEFGHIJKLMNOPQRSTUVWXYZabcdefghijklmnopqrstuvwxyz0123456789+/".toList
def b64Char (n : Nat) : Char := b64Alphabet.getD (n % 64) 'A'

/-- `base64.b64encode` -/
def b64 : Bytes → Str
  | a :: b :: c :: rest =>
    let n := a.toNat * 65536 + b.toNat * 256 + c.toNat
    b64Char (n / 262144) :: b64Char (n / 4096) :: b64Char (n / 64) :: b64Char n :: b64 rest
  | [a, b] =>
    let n := a.toNat * 65536 + b.toNat * 256
    [b64Char (n / 262144), b64Char (n / 4096), b64Char (n / 64), '=']
  | [a] =>
    let n := a.toNat * 65536
    [b64Char (n / 262144), b64Char (n / 4096), '=', '=']
  | [] => []

/-- `.rstrip('=')` -/
def rstripEq (t : Str) : Str := (t.reverse.dropWhile (· = '=')).reverse

def hexDigit (n : Nat) : Char := "0123456789abcdef".toList.getD (n % 16) '0'
def hexByte (b : UInt8) : Str := [hexDigit (b.toNat / 16), hexDigit b.toNat]

/-- `Fingerprint.sha256` given the digest -/
def sha256Text (digest : Bytes) : Str := s "SHA256:" ++ rstripEq (b64 digest)
/-- `Fingerprint.md5` given the digest -/
def md5Text (digest : Bytes) : Str := s "MD5:" ++ Text.join [':'] (digest.map hexByte)

/-- the `(fin)` lines of the text report as (label, hash algorithm, text), for hash functions `h256`, `hmd5` -/
def textFpLines (h256 hmd5 : Bytes → Bytes) (rsaFamily : List Str) (verbose : Bool) (hk : List (Str × HKRec)) : List (Str × Str × Str) :=
  ((textFps rsaFamily hk).filter (fun e => fpShown verbose e.1)).flatMap (fun e =>
    (e.1, s "SHA256", sha256Text (h256 e.2)) :: (if verbose then [(e.1, s "MD5", md5Text (hmd5 e.2))] else []))

/-- the JSON `fingerprints` array as (hostkey, hash_alg, hash) -/
def jsonFpEntries (h256 hmd5 : Bytes → Bytes) (rsaFamily : List Str) (hk : List (Str × HKRec)) : List (Str × Str × Str) :=
  (jsonFps rsaFamily hk).flatMap (fun e =>
    [(e.1, s "SHA256", (sha256Text (h256 e.2)).drop 7), (e.1, s "MD5", (md5Text (hmd5 e.2)).drop 4)])

/-! ### JSON `key` entries: `keysize`, `ca_algorithm`, `casize` -/

def jsonKeyFields (rsaFamily : List Str) (name : Str) (hk : List (Str × HKRec)) : Option Nat × Option (Str × Nat) :=
  match dictGet hk name with
  | none => (none, none)
  | some r =>
    (if rsaFamily.contains name || Text.startsWith name pRsaCert then some r.info.size else none,
     if r.info.caSize > 0 then some (r.info.caType, r.info.caSize) else none)

/-! ### spec side: encoders from RFC 4251 / RFC 4253 §6.6 / RFC 8709 / RFC 5656 / PROTOCOL.certkeys -/
namespace Spec

def u32 (v : Nat) : Bytes := bytesOf (toBE v 4)
def u64 (v : Nat) : Bytes := bytesOf (toBE v 8)
/-- `string`: uint32 length, then the bytes -/
def sstr (b : Bytes) : Bytes := u32 b.length ++ b
def ascii (t : Str) : Bytes := t.map (fun c => UInt8.ofNat c.toNat)

/-- RFC 4251 `mpint` of a natural number: zero is the empty string; a positive number is its
    shortest big-endian two's-complement form, i.e. `bit_length / 8 + 1` bytes (a zero byte
    precedes a set top bit) -/
def mpint (n : Nat) : Bytes := if n = 0 then sstr [] else sstr (bytesOf (toBE n (bitLen n / 8 + 1)))

/-- RFC 4253 §6.6: `string "ssh-rsa", mpint e, mpint n` -/
def rsaBlob (e n : Nat) : Bytes := sstr (ascii (s "ssh-rsa")) ++ mpint e ++ mpint n
/-- RFC 8709 -/
def ed25519Blob (pk : Bytes) : Bytes := sstr (ascii (s "ssh-ed25519")) ++ sstr pk
def ed448Blob (pk : Bytes) : Bytes := sstr (ascii (s "ssh-ed448")) ++ sstr pk
/-- RFC 5656 §3.1: `string "ecdsa-sha2-<curve>", string <curve>, string Q` with `Q = 04 ‖ X ‖ Y` -/
def ecdsaBlob (curve : Str) (x y : Bytes) : Bytes :=
  sstr (ascii (s "ecdsa-sha2-" ++ curve)) ++ sstr (ascii curve) ++ sstr ((4 : UInt8) :: (x ++ y))

/-- the variable parts of a certificate (PROTOCOL.certkeys) other than the keys -/
structure CertFields where
  nonce : Bytes
  serial : Nat
  keyId : Bytes
  principals : Bytes
  validAfter : Nat
  validBefore : Nat
  crit : Bytes
  ext : Bytes
  reserved : Bytes
  sig : Bytes

def CertFields.fits (f : CertFields) : Prop :=
  f.nonce.length < 2 ^ 32 ∧ f.keyId.length < 2 ^ 32 ∧ f.principals.length < 2 ^ 32 ∧ f.crit.length < 2 ^ 32 ∧
  f.ext.length < 2 ^ 32 ∧ f.reserved.length < 2 ^ 32

/-- `string kind, string nonce, <public key fields>, uint64 serial, uint32 type, string key id, string principals,
    uint64 valid after, uint64 valid before, string critical options, string extensions, string reserved,
    string signature key, string signature` -/
def certBlob (kind : Str) (pubFields : Bytes) (certType : Nat) (f : CertFields) (ca : Bytes) : Bytes :=
  sstr (ascii kind) ++ (sstr f.nonce ++ (pubFields ++ (u64 f.serial ++ (u32 certType ++ (sstr f.keyId ++ (sstr f.principals ++
    (u64 f.validAfter ++ (u64 f.validBefore ++ (sstr f.crit ++ (sstr f.ext ++ (sstr f.reserved ++ (sstr ca ++ sstr f.sig))))))))))))

def rsaCertKind : Str := s "ssh-rsa-cert-v01@openssh.com"
def edCertKind : Str := s "ssh-ed25519-cert-v01@openssh.com"
def rsaCert (e n : Nat) (certType : Nat) (f : CertFields) (ca : Bytes) : Bytes := certBlob rsaCertKind (mpint e ++ mpint n) certType f ca
def edCert (pk : Bytes) (certType : Nat) (f : CertFields) (ca : Bytes) : Bytes := certBlob edCertKind (sstr pk) certType f ca

/-- RFC 4253 §8: the KEXDH_REPLY payload after the message byte: `string K_S, mpint f (or string Q_S), string signature` -/
def kexReply (blob f sig : Bytes) : Bytes := sstr blob ++ (sstr f ++ sstr sig)

end Spec

end HostKey
end SshAudit
