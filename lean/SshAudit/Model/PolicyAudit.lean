/-
  The policy-audit path of `ssh_audit.py`, on top of `Model/Policy.lean` (`Pol.evaluate`: verdict + error records),
  `Model/Output.lean` (the `OutputBuffer` state machine), `Model/Target.lean` (`int()`, `'%d' %`, the host label, `IPv6Address`),
  `Model/PolicyFile.lean` (`json.dumps` of a string, `Policy.create`) and `Model/Session.lean` (how an audit ends).

    policy.py      Policy._normalize_error_field            normField
                   Policy._get_errors                        errBlock / errorBlocks / errorStr   (JSON: the records themselves, unsorted)
                   Policy._append_error                      Pol.failWith (already in Model/Policy.lean: `None` -> `['']`)
                   Policy.get_name_and_version               nameAndVersion
                   Policy.load_builtin_policy                loadBuiltin (name, version, "(version N+1)" look-up = is_outdated_builtin_policy)
                   Policy.list_builtin_policies              listBuiltin (non-verbose: latest version per base name; verbose: every name)
    ssh_audit.py   evaluate_policy                           evalOps  (text: Host / Client IP, Policy, Result, Errors, Note;  JSON: docText)
                   audit(): the policy branch + status       policyAudit  (status 0 / 3; the three endings without a parsed KEXINIT: status 1)
                   make_policy                               makePolicy
                   list_policies + sys.exit(GOOD)            listOps / listStatus

  Python -> Lean: text is `List Char`; `"%s" % int` / `str(int)` is `Target.showInt`, `int(str)` is `Target.pyInt` (version numbers
  of built-in policies); `list.sort()` on `str` is `Output.sortStr`;
  `json.dumps(…, sort_keys=True, indent=None | 4)` is written out for the one document shape `evaluate_policy` builds
  (keys in sorted order, `ensure_ascii`, separators `", "` / `": "`, or `","` + newline + 4·depth blanks when indented, `[]` for an
  empty list); exceptions are data.  `Utils.is_windows()` is the field `Conf.windows`.  Core Lean only.
-/
import SshAudit.Model.Output
import SshAudit.Model.PolicyFile
import SshAudit.Model.Target
import SshAudit.Model.Session
namespace SshAudit
namespace PolicyAudit
open Pol (s Policy Peer PErr)
open Output (Cfg Op Meth)

/-! ### `Policy._normalize_error_field` / `_get_errors` -/

/-- `_normalize_error_field`: a one-element list is shown as its element, exactly as given (no `int()` since the D39 repair),
    every other list joined with `", "` -/
def normField (l : List Str) : Str :=
  match l with
  | [x] => x
  | _ => Text.join (s ", ") l

def semi (sub : Bool) : Str := if sub then s "; subset and/or reordering allowed" else s "; exact match"
def parens (sub : Bool) : Str := if sub then s " (subset and/or reordering allowed)" else []

/-- `('expected_optional' in e) and (e['expected_optional'] != [''])` -/
def hasOptional (e : PErr) : Bool := e.expectedOptional != [[]]

def blockHead (e : PErr) : Str := s "  * " ++ e.field ++ s " did not match.\n"

/-- one `e_str` of `_get_errors` -/
def errBlock (sub : Bool) (e : PErr) : Str :=
  if hasOptional e then
    blockHead e ++ s "    - Expected (required" ++ semi sub ++ s "): " ++ normField e.expectedRequired ++
      s "\n    - Expected (optional): " ++ normField e.expectedOptional ++ s "\n" ++
      s "    - Actual:" ++ s "              " ++ normField e.actual ++ s "\n"
  else
    blockHead e ++ s "    - Expected" ++ parens sub ++ s ": " ++ normField e.expectedRequired ++ s "\n" ++
      s "    - Actual:" ++ s "   " ++ normField e.actual ++ s "\n"

/-- `error_list` after `error_list.sort()` -/
def errorBlocks (sub : Bool) (errs : List PErr) : List Str := Output.sortStr (errs.map (errBlock sub))

/-- `error_str`: `"\n".join(error_list)` (`''` for an empty list) -/
def errorStr (sub : Bool) (errs : List PErr) : Str := Text.join ['\n'] (errorBlocks sub errs)

/-! ### the policy object as `evaluate_policy` reads it -/

/-- `"%s (version %s)" % (name, version)` -/
def nameAndVersion (name version : Str) : Str := name ++ s " (version " ++ version ++ s ")"

structure PolicyInfo where
  policy : Policy
  nameAndVersion : Str          -- `get_name_and_version()`
  outdated : Bool := false      -- `is_outdated_builtin_policy()`
deriving Repr, DecidableEq

/-- `t.find(sub)` (`none` = -1) -/
def findSub (sub : Str) : Str → Option Nat
  | [] => if sub.isEmpty then some 0 else none
  | x :: xs => if sub.isPrefixOf (x :: xs) then some 0 else (findSub sub xs).map (· + 1)

/-- `t.rfind(sub)` (`none` = -1) -/
def rfindSub (sub : Str) : Str → Option Nat
  | [] => if sub.isEmpty then some 0 else none
  | x :: xs =>
    match rfindSub sub xs with
    | some i => some (i + 1)
    | none => if sub.isPrefixOf (x :: xs) then some 0 else none

/-- `t[0:i]` for the result `i` of `find` / `rfind`: with -1 the slice drops the last character -/
def sliceTo (t : Str) (i : Option Nat) : Str :=
  match i with
  | some k => t.take k
  | none => t.dropLast

def ofBuiltin (b : BuiltinPolicy) : Policy :=
  { banner := b.banner, compressions := b.compressions, hostKeys := b.hostKeys, optionalHostKeys := b.optionalHostKeys,
    kex := b.kex, ciphers := b.ciphers, macs := b.macs,
    hostkeySizes := b.hostkeySizes.map (fun l => l.map (fun h => (h.keyType, { size := h.hostkeySize, caType := h.caKeyType, caSize := h.caKeySize }))),
    dhSizes := b.dhModulusSizes }

/-- the key `load_builtin_policy` looks up to decide whether a newer version exists:
    `policy_name[0:policy_name.find("(version ")] + "(version %s)" % str(int(version) + 1)`; `none`: `int(version)` raises -/
def nextVersionName (policyName version : Str) : Option Str :=
  (Target.pyInt version).map fun v => sliceTo policyName (findSub (s "(version ") policyName) ++ s "(version " ++ Target.showInt (v + 1) ++ s ")"

structure Loaded where
  info : PolicyInfo
  name : Str
  version : Str
  server : Bool
deriving Repr, DecidableEq

/-- `Policy.load_builtin_policy(policy_name)`: `none` = not a built-in name (the caller then reads a file);
    `some (error value)` = `int(p._version)` raised -/
def loadBuiltin (tbl : List BuiltinPolicy) (policyName : Str) : Option (Except Exn Loaded) :=
  match tbl.find? (·.name = policyName) with
  | none => none
  | some b =>
    let name := sliceTo policyName (rfindSub (s " (") policyName)
    match nextVersionName policyName b.version with
    | none => some (.error .value)
    | some nxt =>
      some (.ok { info := { policy := ofBuiltin b, nameAndVersion := nameAndVersion name b.version,
                            outdated := tbl.any (·.name = nxt) },
                  name := name, version := b.version, server := b.serverPolicy })

/-! ### `Policy.list_builtin_policies` -/

/-- `'"{:s}"'.format(policy_name)` -/
def quoted (n : Str) : Str := '"' :: (n ++ ['"'])

/-- one step of the non-verbose loop: `d[base]` is created, or replaced when the version is greater -/
def latestStep (d : List (Str × Int × Str)) (base : Str) (version : Int) (desc : Str) : List (Str × Int × Str) :=
  match d with
  | [] => [(base, version, desc)]
  | e :: rest =>
    if e.1 = base then (if version > e.2.1 then (base, version, desc) :: rest else e :: rest)
    else e :: latestStep rest base version desc

/-- (base name, version) of one table entry: `("", 0)` when the name has no `" (version "` -/
def baseAndVersion (b : BuiltinPolicy) : Except Exn (Str × Int) :=
  match findSub (s " (version ") b.name with
  | none => .ok ([], 0)
  | some pos =>
    match Target.pyInt b.version with
    | some v => .ok (b.name.take pos, v)
    | none => .error .value

def latestFold (d : List (Str × Int × Str)) : List BuiltinPolicy → Except Exn (List (Str × Int × Str))
  | [] => .ok d
  | b :: rest =>
    match baseAndVersion b with
    | .error e => .error e
    | .ok (base, v) => latestFold (latestStep d base v (quoted b.name)) rest

/-- `Policy.list_builtin_policies(verbose)`: (server descriptions, client descriptions), each sorted;
    `changelog` supplies `policy['changelog']` for the verbose form -/
def listBuiltin (tbl : List BuiltinPolicy) (verbose : Bool) (changelog : Str → Str) : Except Exn (List Str × List Str) :=
  if verbose then
    let desc := fun (b : BuiltinPolicy) => quoted b.name ++ s ": " ++ changelog b.name
    .ok (Output.sortStr ((tbl.filter (·.serverPolicy)).map desc), Output.sortStr ((tbl.filter (fun b => !b.serverPolicy)).map desc))
  else
    match latestFold [] (tbl.filter (·.serverPolicy)), latestFold [] (tbl.filter (fun b => !b.serverPolicy)) with
    | .ok sv, .ok cl => .ok (Output.sortStr (sv.map (·.2.2)), Output.sortStr (cl.map (·.2.2)))
    | .error e, _ => .error e
    | _, .error e => .error e

def hint1 : Str := s "\nHint: Use -P and provide the full name of a policy to run a policy scan with.\n"
def hint2 : Str := s "Hint: Use -L -v to see the change log for each policy, as well as previous versions.\n"
def note1 : Str := s "Note: the general OpenSSH policies apply to the official releases only. OS distributions may back-port changes that cause failures (for example, Debian 11 back-ported the strict KEX mode into their package of OpenSSH v8.4, whereas it was only officially added to OpenSSH v9.6 and later).  In these cases, consider creating a custom policy (-M option).\n"
def note2 : Str := s "Note: instructions for hardening targets, which correspond to the above policies, can be found at: <https://ssh-audit.com/hardening_guides.html>\n"

def bullets (names : List Str) : Str := s "  * " ++ Text.join (s "\n  * ") names

/-- `list_policies(out, verbose)` as buffer calls -/
def listOps (server client : List Str) : List Op :=
  (if server.length > 0 then [.head (s "\nServer policies:\n") true, .print .info (bullets server) true false] else []) ++
  (if client.length > 0 then [.head (s "\nClient policies:\n") true, .print .info (bullets client) true false] else []) ++
  [.sep] ++
  (if server.length = 0 ∧ client.length = 0 then [.print .fail (s "Error: no built-in policies found!") true false]
   else [.print .info hint1 true false, .print .info hint2 true false, .print .info note1 true false, .print .info note2 true false]) ++
  [.write]

/-- `-L`: `list_policies(out, aconf.verbose); sys.exit(exitcodes.GOOD)` — the status does not look at what was listed -/
def listStatus (_server _client : List Str) : Nat := 0

/-! ### `evaluate_policy` -/

/-- the fields of `aconf` (and of the socket) that `evaluate_policy` / `make_policy` read -/
structure Conf where
  host : Str := []
  port : Int := 22
  clientAudit : Bool := false
  clientHost : Str := []        -- `s.client_host` (set by `accept()` in a client audit)
  windows : Bool := false       -- `Utils.is_windows()`
deriving Repr, DecidableEq

def iconGood (windows : Bool) : Str := if windows then [] else ['✔', ' ']
def iconFail (windows : Bool) : Str := if windows then [] else ['❌', ' ']
def passedText (windows : Bool) : Str := iconGood windows ++ ['P', 'a', 's', 's', 'e', 'd']
def failedText (windows : Bool) : Str := iconFail windows ++ ['F', 'a', 'i', 'l', 'e', 'd', '!']

/-- "Note: A newer version of this built-in policy is available.  Use the -L option to view all available versions." (a character list: the kernel is slow on `String.toList` of long literals) -/
def noteText : Str :=
  ['N', 'o', 't', 'e', ':', ' ', 'A', ' ', 'n', 'e', 'w', 'e', 'r', ' ', 'v', 'e', 'r', 's', 'i', 'o', 'n', ' ', 'o', 'f', ' ', 't', 'h', 'i', 's', ' ', 'b', 'u', 'i', 'l', 't', '-', 'i', 'n', ' ', 'p', 'o', 'l', 'i', 'c', 'y', ' ', 'i', 's', ' ', 'a', 'v', 'a', 'i', 'l', 'a', 'b', 'l', 'e', '.', ' ', ' ', 'U', 's', 'e', ' ', 't', 'h', 'e', ' ', '-', 'L', ' ', 'o', 'p', 't', 'i', 'o', 'n', ' ', 't', 'o', ' ', 'v', 'i', 'e', 'w', ' ', 'a', 'l', 'l', ' ', 'a', 'v', 'a', 'i', 'l', 'a', 'b', 'l', 'e', ' ', 'v', 'e', 'r', 's', 'i', 'o', 'n', 's', '.']
def warningText : Str := s "A newer version of this built-in policy is available."

/-- `spacing`: the fields line up with `Client IP: ` in a client audit -/
def spacing (c : Conf) : Str := if c.clientAudit then [' ', ' ', ' '] else []

/-- first line of the text form -/
def hostLine (c : Conf) : Str :=
  if c.clientAudit then ['C', 'l', 'i', 'e', 'n', 't', ' ', 'I', 'P', ':', ' '] ++ c.clientHost else ['H', 'o', 's', 't', ':', ' ', ' ', ' '] ++ Target.labelText c.host c.port

def policyLine (c : Conf) (pi : PolicyInfo) : Str := ['P', 'o', 'l', 'i', 'c', 'y', ':', ' '] ++ spacing c ++ pi.nameAndVersion
def resultLead (c : Conf) : Str := ['R', 'e', 's', 'u', 'l', 't', ':', ' '] ++ spacing c
def errorsText (pi : PolicyInfo) (errs : List PErr) : Str := ['\n', 'E', 'r', 'r', 'o', 'r', 's', ':', '\n'] ++ errorStr pi.policy.allowSubset errs

/-- the JSON document of a policy audit, as a value -/
structure Doc where
  host : Str
  port : Int
  policy : Str
  passed : Bool
  errors : List PErr
  warnings : List Str
deriving Repr, DecidableEq

def warningsOf (outdated : Bool) : List Str := if outdated then [warningText] else []

def docOf (c : Conf) (pi : PolicyInfo) (res : Pol.St) : Doc :=
  { host := c.host, port := c.port, policy := pi.nameAndVersion, passed := res.1, errors := res.2, warnings := warningsOf pi.outdated }

open PolicyFile.Json (dumpStr) in
/-- `json.dumps(list_of_str)` -/
def dumpStrs (l : List Str) : Str := '[' :: (Text.join (s ", ") (l.map dumpStr) ++ [']'])

def dumpBool (b : Bool) : Str := if b then s "true" else s "false"

open PolicyFile.Json (dumpStr) in
/-- one error record, keys sorted -/
def dumpErr (e : PErr) : Str :=
  s "{\"actual\": " ++ dumpStrs e.actual ++ s ", \"expected_optional\": " ++ dumpStrs e.expectedOptional ++
  s ", \"expected_required\": " ++ dumpStrs e.expectedRequired ++ s ", \"mismatched_field\": " ++ dumpStr e.field ++ s "}"

open PolicyFile.Json (dumpStr) in
/-- `json.dumps(json_struct, indent=None, sort_keys=True)` -/
def dumpDoc (d : Doc) : Str :=
  s "{\"errors\": [" ++ Text.join (s ", ") (d.errors.map dumpErr) ++ s "], \"host\": " ++ dumpStr d.host ++
  s ", \"passed\": " ++ dumpBool d.passed ++ s ", \"policy\": " ++ dumpStr d.policy ++
  s ", \"port\": " ++ Target.showInt d.port ++ s ", \"warnings\": " ++ dumpStrs d.warnings ++ s "}"

/-- newline + `4 * depth` blanks -/
def nl (depth : Nat) : Str := '\n' :: List.replicate (4 * depth) ' '

open PolicyFile.Json (dumpStr) in
/-- a list of strings at nesting depth `d`, `indent=4` -/
def dumpStrsI (d : Nat) (l : List Str) : Str :=
  if l.isEmpty then s "[]" else '[' :: (nl (d + 1) ++ Text.join (',' :: nl (d + 1)) (l.map dumpStr) ++ nl d ++ [']'])

open PolicyFile.Json (dumpStr) in
def dumpErrI (d : Nat) (e : PErr) : Str :=
  '{' :: (nl (d + 1) ++ s "\"actual\": " ++ dumpStrsI (d + 1) e.actual ++ ',' :: nl (d + 1) ++ s "\"expected_optional\": " ++ dumpStrsI (d + 1) e.expectedOptional ++
    ',' :: nl (d + 1) ++ s "\"expected_required\": " ++ dumpStrsI (d + 1) e.expectedRequired ++ ',' :: nl (d + 1) ++ s "\"mismatched_field\": " ++ dumpStr e.field ++
    nl d ++ ['}'])

def dumpErrsI (d : Nat) (es : List PErr) : Str :=
  if es.isEmpty then s "[]" else '[' :: (nl (d + 1) ++ Text.join (',' :: nl (d + 1)) (es.map (dumpErrI (d + 1))) ++ nl d ++ [']'])

open PolicyFile.Json (dumpStr) in
/-- `json.dumps(json_struct, indent=4, sort_keys=True)` -/
def dumpDocI (d : Doc) : Str :=
  '{' :: (nl 1 ++ s "\"errors\": " ++ dumpErrsI 1 d.errors ++ ',' :: nl 1 ++ s "\"host\": " ++ dumpStr d.host ++
    ',' :: nl 1 ++ s "\"passed\": " ++ dumpBool d.passed ++ ',' :: nl 1 ++ s "\"policy\": " ++ dumpStr d.policy ++
    ',' :: nl 1 ++ s "\"port\": " ++ Target.showInt d.port ++ ',' :: nl 1 ++ s "\"warnings\": " ++ dumpStrsI 1 d.warnings ++ nl 0 ++ ['}'])

def docText (cfg : Cfg) (d : Doc) : Str := if cfg.jsonIndent then dumpDocI d else dumpDoc d

/-- the verdict lines of the text form: `out.good(...)`, or `out.fail(...)` followed by `out.warn("\nErrors:\n" + error_str)` -/
def verdictOps (c : Conf) (pi : PolicyInfo) (res : Pol.St) : List Op :=
  if res.1 then [.print .good (passedText c.windows) true false]
  else [.print .fail (failedText c.windows) true false, .print .warn (errorsText pi res.2) true false]

def noteOps (pi : PolicyInfo) : List Op := if pi.outdated then [.print .warn noteText true false] else []

/-- the calls `evaluate_policy` makes on the buffer, given the result `res` of `aconf.policy.evaluate(banner, kex)` -/
def evalOpsOf (cfg : Cfg) (c : Conf) (pi : PolicyInfo) (res : Pol.St) : List Op :=
  if cfg.json then [.print .info (docText cfg (docOf c pi res)) true true]
  else
    [.print .info (hostLine c) true false, .print .info (policyLine c pi) true false, .print .info (resultLead c) false false] ++
    verdictOps c pi res ++ noteOps pi

/-- `aconf.policy.evaluate(banner, kex)` on the policy object of this target (a fresh deep copy: no earlier errors) -/
def verdictOf (pi : PolicyInfo) (peer : Peer) : Pol.St := Pol.evaluate pi.policy peer []

def evalOps (cfg : Cfg) (c : Conf) (pi : PolicyInfo) (peer : Peer) : List Op := evalOpsOf cfg c pi (verdictOf pi peer)

/-- the return value of `evaluate_policy` -/
def passed (pi : PolicyInfo) (peer : Peer) : Bool := (verdictOf pi peer).1

/-- the buffer entries `evaluate_policy` leaves on a fresh buffer -/
def evalEntries (cfg : Cfg) (c : Conf) (pi : PolicyInfo) (peer : Peer) : List Str := (Output.exec cfg (evalOps cfg c pi peer) {}).entries

/-! ### the same entries in closed form (proved equal: `Lemmas.PolicyAudit.evalEntries_eq`) -/

/-- the last line(s) of the verdict at level `info`: the result line, then the errors block of a failed audit -/
def verdictEntries0 (cfg : Cfg) (c : Conf) (pi : PolicyInfo) (res : Pol.St) : List Str :=
  if res.1 then [resultLead c ++ Output.paint cfg.colors .good (passedText c.windows)]
  else [resultLead c ++ Output.paint cfg.colors .fail (failedText c.windows), Output.paint cfg.colors .warn (errorsText pi res.2)]

def noteEntries (cfg : Cfg) (pi : PolicyInfo) : List Str := if pi.outdated then [Output.paint cfg.colors .warn noteText] else []

/-- what is left of the text form at each `-l` level (0 = info, 1 = warn, 2 = fail; no method passes a level above 2) -/
def closedEntriesOf (cfg : Cfg) (c : Conf) (pi : PolicyInfo) (res : Pol.St) : List Str :=
  if cfg.json then [docText cfg (docOf c pi res)]
  else if cfg.level = 0 then [hostLine c, policyLine c pi] ++ verdictEntries0 cfg c pi res ++ noteEntries cfg pi
  else if cfg.level = 1 then
    (if res.1 then [] else [Output.paint cfg.colors .fail (failedText c.windows), Output.paint cfg.colors .warn (errorsText pi res.2)]) ++ noteEntries cfg pi
  else if cfg.level = 2 then (if res.1 then [] else [Output.paint cfg.colors .fail (failedText c.windows)])
  else []

/-! ### `audit()`: the policy branch and how the audit ends -/

/-- `exitcodes.GOOD`, `exitcodes.FAILURE`, `exitcodes.CONNECTION_ERROR` -/
def GOOD : Nat := 0
def FAILURE : Nat := 3

/-- how far the first connection got -/
inductive Ending where
  | completed (peer : Peer)                       -- banner and KEXINIT obtained and parsed (host-key / GEX probes done)
  | connectFailed (err : Str)                     -- `out.fail(err); out.write(); sys.exit(CONNECTION_ERROR)`
  | afterBanner (inp : Output.Input) (err : Str)  -- no banner / read error / wrong packet type: `output(out, aconf, banner, header); out.fail(err)`
  | parseFailed (trace : Str)                     -- `SSH2_Kex.parse` raised: `out.fail("Failed to parse server's kex.  Stack trace:\n" + trace)`
deriving Repr

def parseFailedText (trace : Str) : Str := s "Failed to parse server's kex.  Stack trace:\n" ++ trace

structure Result where
  status : Nat
  stdout : List (List Str)        -- one entry per `print(get_buffer())`, as in `Output.Buf.out`
deriving Repr, DecidableEq

def vOps (vmsgs : List Str) : List Op := vmsgs.map (fun m => Op.v m true)

/-- a single-target policy audit (`-P`), from `audit()`'s first line to `main()`'s final `out.write()`;
    `vmsgs`: the texts of the `out.v(…, write_now=True)` calls before the handshake ("Starting audit of …" / "Listening for …") -/
def policyAudit (cfg : Cfg) (vmsgs : List Str) (c : Conf) (pi : PolicyInfo) : Ending → Result
  | .completed peer =>
    { status := if passed pi peer then GOOD else FAILURE,
      stdout := (Output.exec cfg (vOps vmsgs ++ evalOps cfg c pi peer ++ [.write]) {}).out }
  | .connectFailed err =>
    { status := Session.connectionError,
      stdout := (Output.exec cfg (vOps vmsgs ++ [.print .fail err true false, .write]) {}).out }
  | .afterBanner inp err =>
    { status := Session.connectionError, stdout := Output.stdoutOfError cfg vmsgs inp err }
  | .parseFailed trace =>
    { status := Session.connectionError,
      stdout := (Output.exec cfg (vOps vmsgs ++ [.print .fail (parseFailedText trace) true false, .write]) {}).out }

/-! ### `make_policy` (`-M`) -/

/-- what `open(path, 'x')` does -/
inductive FileState where
  | absent                  -- the file is created
  | present                 -- FileExistsError
  | denied (msg : Str)      -- PermissionError; `msg` = `str(e)`
deriving Repr, DecidableEq

structure MakeResult where
  written : Option Str      -- the content of the new file
  printed : Str             -- the line `print()` sends to stdout (not through the buffer)
  status : Nat
deriving Repr, DecidableEq

/-- `source`: the host in a server audit, the client's address in a client audit -/
def makeSource (c : Conf) : Str := if c.clientAudit then c.clientHost else c.host

/-- `make_policy(aconf, banner, kex, client_host)` after a completed handshake, and `audit()`'s return value
    (`program_retval` is still `GOOD`: nothing assigns it on this branch) -/
def makePolicy (c : Conf) (path today : Str) (peer : Peer) (fs : FileState) : MakeResult :=
  match fs with
  | .absent =>
    { written := some (PolicyFile.create (makeSource c) today peer c.clientAudit),
      printed := s "Wrote policy to " ++ path ++ s ".  Customize as necessary, then run a policy scan with -P option.", status := GOOD }
  | .present => { written := none, printed := s "Error: file already exists: " ++ path, status := GOOD }
  | .denied msg => { written := none, printed := s "Error: insufficient permissions: " ++ msg, status := GOOD }

end PolicyAudit
end SshAudit
