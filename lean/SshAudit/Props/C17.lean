/-
  C17 — The tool's knowledge tables agree with each other.

  Pure translator route: every obligation below is a statement about `SshAudit.Gen.*`,
  which `harness/translate.py` regenerates from /repo on every run; the proofs are
  `decide +kernel` over the whole (finite) tables, so they are re-checked by the kernel
  against what the code says now.  No sampling: each `∀ … ∈ table` ranges over every entry.
-/
import SshAudit.Model.DB
import SshAudit.Gen.KexDB
import SshAudit.Gen.Policies
import SshAudit.Gen.Tables
import SshAudit.Model.Report
namespace SshAudit.C17
open SshAudit SshAudit.Gen SshAudit.DBm SshAudit.Text

def s (x : String) : Str := x.toList

def kexC : Str := ['k','e','x']
def keyC : Str := ['k','e','y']
def encC : Str := ['e','n','c']
def macC : Str := ['m','a','c']
def autC : Str := ['a','u','t']

def known (c n : Str) : Bool := (keys ssh2db c).contains n
def notFailing (c n : Str) : Bool :=
  match lookup ssh2db c n with
  | some e => (fails e).isEmpty
  | none => false

def olist (o : Option (List Str)) : List Str := o.getD []

/-- every (category, name) pair a built-in policy mentions -/
def policyNames (p : BuiltinPolicy) : List (Str × Str) :=
  (olist p.kex).map (kexC, ·) ++ (olist p.hostKeys).map (keyC, ·) ++ (olist p.optionalHostKeys).map (keyC, ·)
  ++ (olist p.ciphers).map (encC, ·) ++ (olist p.macs).map (macC, ·)

def policySizeKeys (p : BuiltinPolicy) : List (Str × Str) :=
  ((p.hostkeySizes.getD []).map (fun h => (keyC, h.keyType))) ++ ((p.dhModulusSizes.getD []).map (fun d => (kexC, d.1)))

/-- Every algorithm named by a built-in policy (lists and size maps) is a database key. -/
theorem policy_names_known :
    ∀ p ∈ builtinPolicies, ∀ cn ∈ policyNames p ++ policySizeKeys p, known cn.1 cn.2 = true := by
  decide +kernel

/-- No built-in policy requires or permits an algorithm the database rates as a failure. -/
theorem policy_names_not_failing :
    ∀ p ∈ builtinPolicies, ∀ cn ∈ policyNames p, notFailing cn.1 cn.2 = true := by
  decide +kernel

/-- The sizes built-in policies list sit at or above the "no size note" thresholds of C11/C12
    (RSA ≥ 3072, Ed25519 ≥ 256, CA likewise, GEX ≥ 3072), so a peer configured exactly per
    the policy collects no size failure either. -/
def sizeOk (h : HostKeySize) : Bool :=
  (if startsWith h.keyType (s "ssh-ed25519") || startsWith h.keyType (s "sk-ssh-ed25519") then h.hostkeySize ≥ 256 else h.hostkeySize ≥ 3072)
  && (h.caKeySize = 0 || (if startsWith h.caKeyType (s "ssh-ed25519") then h.caKeySize ≥ 256 else h.caKeySize ≥ 3072))

theorem policy_sizes_clean :
    ∀ p ∈ builtinPolicies, (∀ h ∈ p.hostkeySizes.getD [], sizeOk h = true) ∧ (∀ d ∈ p.dhModulusSizes.getD [], d.2 ≥ 3072) := by
  decide +kernel

/-! ### a peer configured exactly per a built-in policy shows no failure -/

/-- the peer a built-in policy describes: its lists as advertised lists, its size maps as the measured sizes
    (`withOptional`: the optional host keys are offered too) -/
def peerOf (p : BuiltinPolicy) (withOptional : Bool) : Report.Peer :=
  { kex := olist p.kex, key := olist p.hostKeys ++ (if withOptional then olist p.optionalHostKeys else []),
    encC := olist p.ciphers, encS := olist p.ciphers, macC := olist p.macs, macS := olist p.macs, compS := olist p.compressions,
    hostKeys := (p.hostkeySizes.getD []).map (fun h => (h.keyType, { size := h.hostkeySize, caType := h.caKeyType, caSize := h.caKeySize })),
    dhSizes := p.dhModulusSizes.getD [] }

/-- **The report the model renders for the peer of every built-in policy (every version, server and client, with and
    without the optional host keys, OpenSSH banner or none) carries no failure**: its status is never 3. The database the
    report starts from is the master database because, by `policy_sizes_clean`, probing such a peer adds no size note
    (thresholds of C11/C12); the Terrapin and fallback edits of `post_process_findings` are part of `Report.report`. -/
theorem builtin_peer_no_fail :
    ∀ p ∈ builtinPolicies, ∀ opt ∈ [true, false], ∀ sw ∈ [none, some (s "OpenSSH_9.9")],
      (Report.report rsaFamily ssh2db (peerOf p opt) (!p.serverPolicy) sw none []).status ≠ 3 := by
  decide +kernel

/-- … and nothing in it is unknown to the database -/
theorem builtin_peer_all_known :
    ∀ p ∈ builtinPolicies, ∀ opt ∈ [true, false],
      (Report.report rsaFamily ssh2db (peerOf p opt) (!p.serverPolicy) none none []).unknown = [] := by
  decide +kernel

/-- Host-key probe table ⊆ database. -/
theorem hostkey_types_known : ∀ h ∈ hostKeyTypes, known keyC h.name = true := by decide +kernel

/-- The RSA family and the probe-dispatch tables name database keys. -/
theorem probe_tables_known :
    (∀ n ∈ rsaFamily, known keyC n = true) ∧ (∀ n ∈ kexToDhgroupKeys, known kexC n = true)
    ∧ (∀ n ∈ gexAlgs, known kexC n = true) := by decide +kernel

/-- Denial-of-service test tables ⊆ database. -/
theorem dheat_names_known :
    ∀ n ∈ dheatGexAlgs ++ dheatAlgPriority ++ dheatTestedAlgs ++ dheatAlgModulusSizes.map (·.1), known kexC n = true := by
  decide +kernel

/-- `alg_priority` and `alg_modulus_sizes` have the same key set. -/
theorem dheat_tables_consistent :
    (∀ n ∈ dheatAlgPriority, (dheatAlgModulusSizes.map (·.1)).contains n = true)
    ∧ (∀ n ∈ dheatAlgModulusSizes.map (·.1), dheatAlgPriority.contains n = true) := by decide +kernel

/-- Tokens of primitives the database brands as broken. -/
def brokenTokens : List Str :=
  ["md5","sha1","arcfour","rc4","des","none","dss","group1-","1024","nistp","nistk","nistb","nistt","ripemd",
   "blowfish","cast","idea","seed","serpent","rijndael","gost","null"].map s

/-- `dsa` not preceded by `ec`. -/
def hasPlainDsa : Str → Bool
  | [] => false
  | x :: xs =>
    if startsWith (x :: xs) (s "ecdsa") then hasPlainDsa (xs.drop 4)
    else startsWith (x :: xs) (s "dsa") || hasPlainDsa xs
termination_by l => l.length
decreasing_by all_goals simp_wf <;> omega

def mentionsBroken (n : Str) : Bool :=
  let l := lower n
  brokenTokens.any (fun t => hasSub t l) || hasPlainDsa l

/-- SSH-2 database: every entry whose name contains a broken primitive carries ≥ 1 failure. -/
theorem broken_primitive_failed₂ :
    ∀ ce ∈ ssh2db, ∀ e ∈ ce.2, mentionsBroken e.name = true → (fails e).isEmpty = false := by
  decide +kernel

/-- Documented shape: 1–4 lists per entry; no `None` among the notes; unique names per category. -/
def shapeOk (e : Entry) : Bool :=
  1 ≤ e.desc.length && e.desc.length ≤ 4 && (e.desc.drop 1).all (fun l => l.all Option.isSome)

theorem entry_shape₂ : ∀ ce ∈ ssh2db, (∀ e ∈ ce.2, shapeOk e = true) ∧ (ce.2.map (·.name)).Nodup := by
  decide +kernel
theorem entry_shape₁ : ∀ ce ∈ ssh1db, (∀ e ∈ ce.2, shapeOk e = true) ∧ (ce.2.map (·.name)).Nodup := by
  decide +kernel

/-- The four SSH-2 categories exist, in the documented order. -/
theorem categories₂ : ssh2db.map (·.1) = [kexC, keyC, encC, macC] := by decide +kernel
theorem categories₁ : ssh1db.map (·.1) = [keyC, encC, autC] := by decide +kernel

/-- KNOWN FINDING D22 (negation, with witnesses): the SSH-1 database rates `3des`, `blowfish`
    and `idea` with no failure although the SSH-2 database brands these primitives as broken. -/
theorem broken_primitive_failed₁_false :
    ¬ (∀ ce ∈ ssh1db, ∀ e ∈ ce.2, mentionsBroken e.name = true → (fails e).isEmpty = false) := by
  decide +kernel

/-- …and those three are the *only* exceptions (partial form of the full statement). -/
def d22 : List Str := ["3des","blowfish","idea"].map s
theorem broken_primitive_failed₁_partial :
    ∀ ce ∈ ssh1db, ∀ e ∈ ce.2, mentionsBroken e.name = true → ¬ (e.name ∈ d22) → (fails e).isEmpty = false := by
  decide +kernel

-- non-vacuity: the premises above are met by real entries
example : mentionsBroken (s "ecdsa-sha2-nistp256") = true ∧ mentionsBroken (s "ssh-ed25519") = false
    ∧ hasPlainDsa (s "ecdsa-x") = false ∧ hasPlainDsa (s "ssh-dsa") = true := by decide +kernel
example : ∃ p ∈ builtinPolicies, (policyNames p).length > 10 := by decide +kernel

end SshAudit.C17
