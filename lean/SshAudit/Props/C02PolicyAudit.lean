/-
  C02 (extension): the policy-audit path — `audit()`'s policy branch, `evaluate_policy`, the error text of `Policy._get_errors`,
  the built-in policy table (`load_builtin_policy`, `list_builtin_policies`), `make_policy` (-M) and `list_policies` (-L).

  Model: `SshAudit.Model.PolicyAudit` on top of `Pol.evaluate` (C06).  Every theorem is for all policies, peers, option sets,
  host / port / name texts; the theorems whose name starts with `gen_` evaluate the regenerated built-in table in the kernel.
-/
import SshAudit.Lemmas.PolicyAudit
import SshAudit.Lemmas.Target
import SshAudit.Props.C06
import SshAudit.Props.C05File
import SshAudit.Gen.Policies
namespace SshAudit.C02PolicyAudit
open SshAudit.PolicyAudit
open Pol (s Policy Peer PErr)
open Output (Cfg Op Meth exec passes paint vWrites)

/-! ### A. exit status -/

/-- **A policy audit exits 0 exactly when its verdict is passed.** -/
theorem status_zero_iff_passed (cfg : Cfg) (vmsgs : List Str) (c : Conf) (pi : PolicyInfo) (peer : Peer) :
    (policyAudit cfg vmsgs c pi (.completed peer)).status = 0 ↔ passed pi peer = true := by
  simp only [policyAudit, GOOD, FAILURE]
  cases passed pi peer <;> simp

/-- **… and 3 exactly when it is failed.** -/
theorem status_three_iff_failed (cfg : Cfg) (vmsgs : List Str) (c : Conf) (pi : PolicyInfo) (peer : Peer) :
    (policyAudit cfg vmsgs c pi (.completed peer)).status = 3 ↔ passed pi peer = false := by
  simp only [policyAudit, GOOD, FAILURE]
  cases passed pi peer <;> simp

/-- no ending of a policy audit gives the "warnings only" status 2 -/
theorem status_never_two (cfg : Cfg) (vmsgs : List Str) (c : Conf) (pi : PolicyInfo) (e : Ending) :
    (policyAudit cfg vmsgs c pi e).status ≠ 2 := by
  cases e with
  | completed peer => simp only [policyAudit, GOOD, FAILURE]; cases passed pi peer <;> simp
  | connectFailed err => simp [policyAudit, Session.connectionError]
  | afterBanner inp err => simp [policyAudit, Session.connectionError]
  | parseFailed t => simp [policyAudit, Session.connectionError]

/-- **An audit that could not obtain and parse the peer's algorithm lists exits 1 — never 0, 2 or 3** — whatever the policy says -/
theorem incomplete_status (cfg : Cfg) (vmsgs : List Str) (c : Conf) (pi : PolicyInfo) (e : Ending) (h : ∀ peer, e ≠ .completed peer) :
    (policyAudit cfg vmsgs c pi e).status = 1 := by
  cases e with
  | completed peer => exact absurd rfl (h peer)
  | connectFailed err => rfl
  | afterBanner inp err => rfl
  | parseFailed t => rfl

/-- the status is 0 exactly when every field the policy specifies is satisfied (the declarative rules of C06) -/
theorem status_zero_iff_satisfied (cfg : Cfg) (vmsgs : List Str) (c : Conf) (pi : PolicyInfo) (peer : Peer) :
    (policyAudit cfg vmsgs c pi (.completed peer)).status = 0 ↔ Pol.Satisfied pi.policy peer := by
  rw [status_zero_iff_passed]
  exact C06.evaluate_iff_satisfied pi.policy peer

/-- **No output option, no verbose message, no host / port / client address, neither the policy's name nor its "outdated" flag
    changes the status**: two audits with the same policy rules and the same ending have the same status. -/
theorem status_presentation_free (cfg cfg' : Cfg) (vmsgs vmsgs' : List Str) (c c' : Conf) (pi pi' : PolicyInfo) (e : Ending)
    (hp : pi.policy = pi'.policy) :
    (policyAudit cfg vmsgs c pi e).status = (policyAudit cfg' vmsgs' c' pi' e).status := by
  cases e with
  | completed peer =>
    have hv : passed pi peer = passed pi' peer := by simp only [passed, verdictOf, hp]
    simp only [policyAudit, hv]
  | connectFailed err => rfl
  | afterBanner inp err => rfl
  | parseFailed t => rfl

/-- the status is the one `Session.auditEnd` (C02) assigns to a completed policy-mode audit -/
theorem status_is_auditEnd (cfg : Cfg) (vmsgs : List Str) (c : Conf) (pi : PolicyInfo) (peer : Peer) (acfg : Session.AuditCfg) (n : Nat)
    (hm : acfg.mode = .policy) :
    (policyAudit cfg vmsgs c pi (.completed peer)).status = (Session.auditEnd acfg .ok { reportStatus := n, policyPassed := passed pi peer }).status := by
  simp only [policyAudit, Session.auditEnd, hm, GOOD, FAILURE]

/-! ### B. the verdict as shown: text, JSON, error list -/

/-- the JSON `passed` field is the verdict; the JSON `errors` list is the evaluator's record list, entry for entry, in the order the checks ran -/
theorem json_passed_and_errors (c : Conf) (pi : PolicyInfo) (peer : Peer) :
    (docOf c pi (verdictOf pi peer)).passed = passed pi peer ∧ (docOf c pi (verdictOf pi peer)).errors = (Pol.evaluate pi.policy peer []).2 := ⟨rfl, rfl⟩

/-- **JSON `passed` is true iff the JSON error list is empty** -/
theorem json_passed_iff_no_errors (c : Conf) (pi : PolicyInfo) (peer : Peer) :
    (docOf c pi (verdictOf pi peer)).passed = true ↔ (docOf c pi (verdictOf pi peer)).errors = [] :=
  C06.passed_iff_no_errors pi.policy peer

/-- the buffer entries of `evaluate_policy` on a fresh buffer, in closed form (text form: per `-l` level) -/
theorem entries_closed (cfg : Cfg) (c : Conf) (pi : PolicyInfo) (peer : Peer) :
    evalEntries cfg c pi peer = closedEntriesOf cfg c pi (verdictOf pi peer) := by
  unfold evalEntries evalOps
  have h0 : ({} : Output.Buf) = ⟨[], [], false, true, [], none⟩ := rfl
  rw [h0, exec_evalOps]
  simp [Output.Buf.entries, Output.doFlush]

/-- everything a completed policy audit writes to stdout: the verbose messages (one write each, when shown), then one write with the entries -/
theorem stdout_closed (cfg : Cfg) (vmsgs : List Str) (c : Conf) (pi : PolicyInfo) (peer : Peer) :
    (policyAudit cfg vmsgs c pi (.completed peer)).stdout = vWrites cfg vmsgs ++ [closedEntriesOf cfg c pi (verdictOf pi peer)] := by
  simp only [policyAudit, vOps, evalOps]
  have h0 : ({} : Output.Buf) = ⟨[], [], false, true, [], none⟩ := rfl
  rw [h0, Output.exec_append, Output.exec_append, Output.exec_vmsgs, exec_evalOps]
  simp [Output.exec_cons, Output.exec_nil, Output.stepG, Output.step, Output.doWrite, Output.doFlush]

/-- the Result line of the text form -/
def resultLine (cfg : Cfg) (c : Conf) (verdict : Bool) : Str :=
  resultLead c ++ (if verdict then paint cfg.colors .good (passedText c.windows) else paint cfg.colors .fail (failedText c.windows))

/-- the two Result lines differ (with or without colours, with or without the icons) -/
theorem resultLine_verdict (cfg : Cfg) (c : Conf) : resultLine cfg c true ≠ resultLine cfg c false := by
  unfold resultLine
  simp only [if_true, Bool.false_eq_true, if_false]
  intro h
  have h' := List.append_cancel_left h
  revert h'
  cases cfg.colors <;> cases c.windows <;> decide

/-- **Text form at level `info`: Host / Client IP, Policy, Result, then (failed only) the Errors block, then (outdated only) the note;
    the Result line says Passed iff the verdict is passed** -/
theorem text_entries_info (cfg : Cfg) (c : Conf) (pi : PolicyInfo) (peer : Peer) (hj : cfg.json = false) (hl : cfg.level = 0) :
    evalEntries cfg c pi peer =
      [hostLine c, policyLine c pi, resultLine cfg c (passed pi peer)] ++
      (if passed pi peer then [] else [paint cfg.colors .warn (errorsText pi (verdictOf pi peer).2)]) ++ noteEntries cfg pi := by
  rw [entries_closed]
  unfold closedEntriesOf verdictEntries0 resultLine passed
  simp only [hj, hl, if_true, Bool.false_eq_true, if_false]
  cases (verdictOf pi peer).1 <;> simp

/-- **text says Passed ↔ JSON `passed` = true ↔ the error list is empty** (third entry of the text form at level `info`) -/
theorem text_json_errors_agree (cfg : Cfg) (c : Conf) (pi : PolicyInfo) (peer : Peer) (hj : cfg.json = false) (hl : cfg.level = 0) :
    ((evalEntries cfg c pi peer)[2]? = some (resultLine cfg c true) ↔ (docOf c pi (verdictOf pi peer)).passed = true) ∧
    ((evalEntries cfg c pi peer)[2]? = some (resultLine cfg c false) ↔ (docOf c pi (verdictOf pi peer)).passed = false) ∧
    ((docOf c pi (verdictOf pi peer)).passed = true ↔ (Pol.evaluate pi.policy peer []).2 = []) := by
  refine ⟨?_, ?_, C06.passed_iff_no_errors pi.policy peer⟩
  · rw [text_entries_info cfg c pi peer hj hl]
    show _ ↔ passed pi peer = true
    cases hp : passed pi peer
    · simp only [List.cons_append, List.getElem?_cons_succ, List.getElem?_cons_zero, Option.some.injEq]
      exact ⟨fun h => absurd h.symm (resultLine_verdict cfg c), fun h => by simp at h⟩
    · simp
  · rw [text_entries_info cfg c pi peer hj hl]
    show _ ↔ passed pi peer = false
    cases hp : passed pi peer
    · simp
    · simp only [List.cons_append, List.getElem?_cons_succ, List.getElem?_cons_zero, Option.some.injEq]
      exact ⟨fun h => absurd h (resultLine_verdict cfg c), fun h => by simp at h⟩

/-- **The Errors block is printed iff the verdict is failed** (text form; the call is made whatever the level, the level decides whether it survives) -/
theorem errors_block_iff_failed (cfg : Cfg) (c : Conf) (pi : PolicyInfo) (peer : Peer) (hj : cfg.json = false) :
    Op.print .warn (errorsText pi (verdictOf pi peer).2) true false ∈ evalOps cfg c pi peer ↔ passed pi peer = false := by
  have hne : errorsText pi (verdictOf pi peer).2 ≠ noteText := by
    intro h
    have h1 : (errorsText pi (verdictOf pi peer).2).head? = some '\n' := rfl
    have h2 : noteText.head? = some 'N' := by decide
    rw [h, h2] at h1
    exact absurd h1 (by decide)
  unfold evalOps evalOpsOf verdictOps noteOps passed
  simp only [hj, Bool.false_eq_true, if_false]
  cases hv : (verdictOf pi peer).1 <;> cases ho : pi.outdated <;> simp [hne]

/-- one text block per error record: the sorted block list is a permutation of the blocks of the records (none lost, none invented, none merged) -/
theorem error_blocks_perm (sub : Bool) (errs : List PErr) : (errorBlocks sub errs).Perm (errs.map (errBlock sub)) :=
  Output.sortStr_perm _

theorem error_blocks_count (sub : Bool) (errs : List PErr) : (errorBlocks sub errs).length = errs.length := by
  have := (error_blocks_perm sub errs).length_eq
  simpa using this

/-- the blocks appear in code-point order of their text (`error_list.sort()`), not in the order the checks ran … -/
theorem error_blocks_sorted (sub : Bool) (errs : List PErr) : (errorBlocks sub errs).Pairwise (fun a b => Output.leStr a b = true) :=
  Output.sortStr_sorted _

/-- … so the text of the Errors block does not depend on the order in which the evaluator found the errors -/
theorem error_text_order_free (sub : Bool) (errs errs' : List PErr) (h : errs.Perm errs') : errorStr sub errs = errorStr sub errs' := by
  unfold errorStr errorBlocks
  rw [Output.sortStr_eq_of_perm _ _ (h.map _)]

/-- **Each block names the field, then the expected and the actual value** — an error without optional list -/
theorem errBlock_plain (sub : Bool) (e : PErr) (h : e.expectedOptional = [[]]) :
    errBlock sub e = s "  * " ++ e.field ++ s " did not match.\n" ++ s "    - Expected" ++ parens sub ++ s ": " ++ normField e.expectedRequired ++ s "\n" ++
      s "    - Actual:" ++ s "   " ++ normField e.actual ++ s "\n" := by
  simp [errBlock, hasOptional, h, blockHead]

/-- … and with the policy's optional host keys: required and optional on lines of their own -/
theorem errBlock_optional (sub : Bool) (e : PErr) (h : e.expectedOptional ≠ [[]]) :
    errBlock sub e = s "  * " ++ e.field ++ s " did not match.\n" ++ s "    - Expected (required" ++ semi sub ++ s "): " ++ normField e.expectedRequired ++
      s "\n    - Expected (optional): " ++ normField e.expectedOptional ++ s "\n" ++ s "    - Actual:" ++ s "              " ++ normField e.actual ++ s "\n" := by
  simp [errBlock, hasOptional, h, blockHead]

/-- **the text form shows every expected / actual value exactly as the error record carries it**: the names joined by ", "
    (a single name: the name itself, an empty list: nothing) — unconditionally since the D39 repair -/
theorem normField_faithful (l : List Str) : normField l = Text.join (s ", ") l := by
  match l with
  | [] => rfl
  | [_] => rfl
  | _ :: _ :: _ => rfl

theorem normField_single (x : Str) : normField [x] = x := rfl

/-- … in particular the former witnesses: `007` stays `007`, `+10` stays `+10`, a size stays the numeral `str(size)` -/
theorem normField_size (n : Nat) : normField [Text.natToStr n] = Text.natToStr n := rfl

/-- the whole block with the record's own values spelled out (no optional list) -/
theorem errBlock_plain_values (sub : Bool) (e : PErr) (h : e.expectedOptional = [[]]) :
    errBlock sub e = s "  * " ++ e.field ++ s " did not match.\n" ++ s "    - Expected" ++ parens sub ++ s ": " ++ Text.join (s ", ") e.expectedRequired ++ s "\n" ++
      s "    - Actual:" ++ s "   " ++ Text.join (s ", ") e.actual ++ s "\n" := by
  rw [errBlock_plain sub e h, normField_faithful, normField_faithful]

theorem errBlock_optional_values (sub : Bool) (e : PErr) (h : e.expectedOptional ≠ [[]]) :
    errBlock sub e = s "  * " ++ e.field ++ s " did not match.\n" ++ s "    - Expected (required" ++ semi sub ++ s "): " ++ Text.join (s ", ") e.expectedRequired ++
      s "\n    - Expected (optional): " ++ Text.join (s ", ") e.expectedOptional ++ s "\n" ++ s "    - Actual:" ++ s "              " ++ Text.join (s ", ") e.actual ++ s "\n" := by
  rw [errBlock_optional sub e h, normField_faithful, normField_faithful, normField_faithful]

theorem splitOn_cons_ne (c x : Char) (t : Str) (h : x ≠ c) :
    ∃ p ps, Text.splitOn c t = p :: ps ∧ Text.splitOn c (x :: t) = (x :: p) :: ps := by
  cases hs : Text.splitOn c t with
  | nil => exact absurd hs (Target.splitOn_ne_nil c t)
  | cons p ps => exact ⟨p, ps, rfl, by simp [Text.splitOn, h, hs]⟩

/-- splitting the shown text at its commas gives the names back (the later ones behind the separator's blank), when no name contains a comma -/
theorem splitOn_join_comma (x : Str) (xs : List Str) (hx : ',' ∉ x) (hxs : ∀ y ∈ xs, ',' ∉ y) :
    Text.splitOn ',' (Text.join (s ", ") (x :: xs)) = x :: xs.map (' ' :: ·) := by
  induction xs generalizing x with
  | nil => simpa [Text.join] using Target.splitOn_no_sep ',' x hx
  | cons y r ih =>
    have hy : ',' ∉ y := hxs y (by simp)
    have hr : ∀ z ∈ r, ',' ∉ z := fun z hz => hxs z (by simp [hz])
    have hj : Text.join (s ", ") (x :: y :: r) = x ++ ',' :: (' ' :: Text.join (s ", ") (y :: r)) := by
      simp [Text.join, s]
    rw [hj, Target.splitOn_append_sep ',' x _ hx]
    obtain ⟨p, ps, h1, h2⟩ := splitOn_cons_ne ',' ' ' (Text.join (s ", ") (y :: r)) (by decide)
    rw [h2]
    rw [ih y hy hr] at h1
    injection h1 with hp hps
    subst hp; subst hps
    simp

theorem map_cons_inj (c : Char) : ∀ xs ys : List Str, xs.map (c :: ·) = ys.map (c :: ·) → xs = ys
  | [], [], _ => rfl
  | [], _ :: _, h => by simp at h
  | _ :: _, [], h => by simp at h
  | x :: xs, y :: ys, h => by
    simp only [List.map_cons, List.cons.injEq] at h
    rw [h.1.2, map_cons_inj c xs ys h.2]

/-- **two value lists are shown by the same text only if they are the same list** — for non-empty lists of comma-free names (the
    names of a KEXINIT name-list and of a policy file's list directive never contain a comma) -/
theorem normField_injective (a b : List Str) (ha : a ≠ []) (hb : b ≠ []) (hca : ∀ x ∈ a, ',' ∉ x) (hcb : ∀ x ∈ b, ',' ∉ x)
    (h : normField a = normField b) : a = b := by
  rw [normField_faithful, normField_faithful] at h
  match a, b, ha, hb with
  | x :: xs, y :: ys, _, _ =>
    have h1 := splitOn_join_comma x xs (hca x (by simp)) (fun z hz => hca z (by simp [hz]))
    have h2 := splitOn_join_comma y ys (hcb y (by simp)) (fun z hz => hcb z (by simp [hz]))
    rw [h] at h1
    rw [h1] at h2
    injection h2 with hxy hm
    subst hxy
    have : xs = ys := map_cons_inj ' ' xs ys hm
    rw [this]

/-- **a mismatch never shows two equal texts**: when the expected and the actual list of an error differ, so do the two printed values -/
theorem mismatch_shows_different_values (e : PErr) (hne : e.expectedRequired ≠ e.actual) (h1 : e.expectedRequired ≠ []) (h2 : e.actual ≠ [])
    (hc1 : ∀ x ∈ e.expectedRequired, ',' ∉ x) (hc2 : ∀ x ∈ e.actual, ',' ∉ x) :
    normField e.expectedRequired ≠ normField e.actual :=
  fun h => hne (normField_injective _ _ h1 h2 hc1 hc2 h)

/-- the two limits of that statement, with witnesses: the empty list and the list of one empty name both print nothing … -/
theorem normField_nil_vs_empty_name : normField [] = normField [[]] ∧ ([] : List Str) ≠ [[]] := ⟨rfl, by decide⟩

/-- … and a name that itself contains ", " prints like two names -/
theorem normField_comma_names : normField [['a', ',', ' ', 'b']] = normField [['a'], ['b']] ∧ [['a', ',', ' ', 'b']] ≠ [['a'], ['b']] := ⟨by decide, by decide⟩

/-- the D39 witnesses: `compressions = 007` against `7`, `macs = 1_0` against `+10` — the two values shown differ -/
theorem d39_witnesses_shown_apart :
    normField [['0', '0', '7']] ≠ normField [['7']] ∧ normField [['1', '_', '0']] ≠ normField [['+', '1', '0']] ∧
    normField [['0', '0', '7']] = ['0', '0', '7'] ∧ normField [['+', '1', '0']] = ['+', '1', '0'] := by decide

/-! ### C. the outdated-policy notice -/

/-- text form: an outdated built-in policy adds exactly one call, the note, after everything else -/
theorem outdated_adds_only_the_note (cfg : Cfg) (c : Conf) (pi : PolicyInfo) (res : Pol.St) (hj : cfg.json = false) :
    evalOpsOf cfg c { pi with outdated := true } res = evalOpsOf cfg c { pi with outdated := false } res ++ [Op.print .warn noteText true false] := by
  unfold evalOpsOf verdictOps noteOps errorsText policyLine
  simp [hj]

/-- JSON form: only the `warnings` list differs -/
theorem outdated_json_only_warnings (c : Conf) (pi : PolicyInfo) (res : Pol.St) (b : Bool) :
    docOf c { pi with outdated := b } res = { docOf c { pi with outdated := false } res with warnings := warningsOf b } := rfl

/-- **the notice never changes verdict or status** -/
theorem outdated_changes_nothing_else (cfg : Cfg) (vmsgs : List Str) (c : Conf) (pi : PolicyInfo) (e : Ending) (b b' : Bool) (peer : Peer) :
    (policyAudit cfg vmsgs c { pi with outdated := b } e).status = (policyAudit cfg vmsgs c { pi with outdated := b' } e).status ∧
    passed { pi with outdated := b } peer = passed { pi with outdated := b' } peer ∧
    (verdictOf { pi with outdated := b } peer).2 = (verdictOf { pi with outdated := b' } peer).2 :=
  ⟨status_presentation_free cfg cfg vmsgs vmsgs c c _ _ e rfl, rfl, rfl⟩

/-! ### D. labels -/

theorem host_line_port_22 (c : Conf) (hc : c.clientAudit = false) (hp : c.port = 22) : hostLine c = s "Host:   " ++ c.host := by
  simp [hostLine, hc, Target.labelText, hp, s]

theorem host_line_other_port (c : Conf) (hc : c.clientAudit = false) (hp : c.port ≠ 22) (h6 : Target.isIPv6 c.host = false) :
    hostLine c = s "Host:   " ++ c.host ++ [':'] ++ Target.showInt c.port := by
  simp [hostLine, hc, Target.labelText, hp, Target.bracketed, h6, s]

theorem host_line_ipv6_other_port (c : Conf) (hc : c.clientAudit = false) (hp : c.port ≠ 22) (h6 : Target.isIPv6 c.host = true) :
    hostLine c = s "Host:   " ++ ['['] ++ c.host ++ [']'] ++ [':'] ++ Target.showInt c.port := by
  simp [hostLine, hc, Target.labelText, hp, Target.bracketed, h6, s]

/-- a client audit shows the client's address and pads the other two fields by three blanks -/
theorem client_lines (c : Conf) (pi : PolicyInfo) (hc : c.clientAudit = true) :
    hostLine c = s "Client IP: " ++ c.clientHost ∧ policyLine c pi = s "Policy:    " ++ pi.nameAndVersion ∧ resultLead c = s "Result:    " := by
  simp [hostLine, policyLine, resultLead, spacing, hc, s]

/-- JSON: host and port as given, separately, no brackets; in a client audit this is not the client's address -/
theorem json_host_port (c : Conf) (pi : PolicyInfo) (res : Pol.St) :
    (docOf c pi res).host = c.host ∧ (docOf c pi res).port = c.port ∧ (docOf c pi res).policy = pi.nameAndVersion := ⟨rfl, rfl, rfl⟩

/-! ### E. output options -/

/-- JSON form: one entry, the document, whatever the level, batch, verbose, debug and colour options are -/
theorem json_entries (cfg : Cfg) (c : Conf) (pi : PolicyInfo) (peer : Peer) (hj : cfg.json = true) :
    evalEntries cfg c pi peer = [docText cfg (docOf c pi (verdictOf pi peer))] := by
  rw [entries_closed]; simp [closedEntriesOf, hj]

/-- `-l warn`: the three `info` lines are gone; a failed audit keeps `Failed!` (on a line of its own) and the Errors block; the note survives -/
theorem text_entries_warn (cfg : Cfg) (c : Conf) (pi : PolicyInfo) (peer : Peer) (hj : cfg.json = false) (hl : cfg.level = 1) :
    evalEntries cfg c pi peer =
      (if passed pi peer then [] else [paint cfg.colors .fail (failedText c.windows), paint cfg.colors .warn (errorsText pi (verdictOf pi peer).2)]) ++ noteEntries cfg pi := by
  rw [entries_closed]; cases h : (verdictOf pi peer).1 <;> simp [closedEntriesOf, hj, hl, passed, h]

/-- `-l fail`: only `Failed!` is left of a failed audit, nothing of a passed one -/
theorem text_entries_fail (cfg : Cfg) (c : Conf) (pi : PolicyInfo) (peer : Peer) (hj : cfg.json = false) (hl : cfg.level = 2) :
    evalEntries cfg c pi peer = (if passed pi peer then [] else [paint cfg.colors .fail (failedText c.windows)]) := by
  rw [entries_closed]; cases h : (verdictOf pi peer).1 <;> simp [closedEntriesOf, hj, hl, passed, h]

/-- a passed audit of an up-to-date policy above level `info` prints one empty line — and still exits 0 -/
theorem passed_quiet_above_info (cfg : Cfg) (vmsgs : List Str) (c : Conf) (pi : PolicyInfo) (peer : Peer) (hj : cfg.json = false) (hl : cfg.level = 1 ∨ cfg.level = 2)
    (hp : passed pi peer = true) (ho : pi.outdated = false) :
    (policyAudit cfg vmsgs c pi (.completed peer)).stdout = vWrites cfg vmsgs ++ [[]] ∧ (policyAudit cfg vmsgs c pi (.completed peer)).status = 0 := by
  refine ⟨?_, (status_zero_iff_passed cfg vmsgs c pi peer).mpr hp⟩
  rw [stdout_closed]
  unfold passed at hp
  rcases hl with hl | hl <;> simp [closedEntriesOf, hj, hl, hp, noteEntries, ho]

/-- batch, verbose and debug do not change what `evaluate_policy` leaves in the buffer (verbose only adds the earlier "Starting audit" write) -/
theorem batch_verbose_debug_free (cfg : Cfg) (b v d : Bool) (c : Conf) (pi : PolicyInfo) (peer : Peer) :
    evalEntries { cfg with batch := b, verbose := v, debug := d } c pi peer = evalEntries cfg c pi peer := by
  rw [entries_closed, entries_closed]; rfl

/-- colours only wrap the verdict, the Errors block and the note; the three `info` lines and the JSON document are never painted -/
theorem colours_off_plain (cfg : Cfg) (c : Conf) (pi : PolicyInfo) (peer : Peer) (hj : cfg.json = false) (hl : cfg.level = 0) (hc : cfg.colors = false) :
    evalEntries cfg c pi peer =
      [hostLine c, policyLine c pi, resultLead c ++ (if passed pi peer then passedText c.windows else failedText c.windows)] ++
      (if passed pi peer then [] else [errorsText pi (verdictOf pi peer).2]) ++ (if pi.outdated then [noteText] else []) := by
  rw [text_entries_info cfg c pi peer hj hl]
  unfold resultLine noteEntries
  cases passed pi peer <;> cases pi.outdated <;> simp [hc, paint, Output.colorOn]

/-! ### F. a policy audit whose handshake failed prints no verdict -/

/-- none of the lines `evaluate_policy` prints starts like a line of `output()` -/
theorem verdict_lines_not_report_lines (c : Conf) (pi : PolicyInfo) :
    ¬ reportHead (hostLine c) ∧ ¬ reportHead (policyLine c pi) ∧ ¬ reportHead (resultLead c) ∧
    ¬ reportHead (passedText c.windows) ∧ ¬ reportHead (failedText c.windows) ∧ ¬ reportHead noteText := by
  have hh : (hostLine c).head? = some 'C' ∨ (hostLine c).head? = some 'H' := by
    unfold hostLine; split
    · exact Or.inl rfl
    · exact Or.inr rfl
  have hp : (policyLine c pi).head? = some 'P' := rfl
  have hr : (resultLead c).head? = some 'R' := rfl
  have hn : noteText.head? = some 'N' := by decide
  refine ⟨?_, ?_, ?_, ?_, ?_, ?_⟩
  · unfold reportHead; rcases hh with h | h <;> rw [h] <;> decide
  · unfold reportHead; rw [hp]; decide
  · unfold reportHead; rw [hr]; decide
  · unfold reportHead passedText iconGood; cases c.windows <;> decide
  · unfold reportHead failedText iconFail; cases c.windows <;> decide
  · unfold reportHead; rw [hn]; decide

/-- **after a banner but without a parsed KEXINIT: every text handed to the buffer is a verbose message, a line of the (banner-only)
    report — first character `(`, blank, `#` or newline —, the JSON document of that report, or the error message; status 1** -/
theorem incomplete_after_banner (cfg : Cfg) (vmsgs : List Str) (c : Conf) (pi : PolicyInfo) (inp : Output.Input) (err : Str) :
    (policyAudit cfg vmsgs c pi (.afterBanner inp err)).status = 1 ∧
    (policyAudit cfg vmsgs c pi (.afterBanner inp err)).stdout = (exec cfg (Output.auditErrorOps cfg vmsgs inp err) {}).out ∧
    ∀ op ∈ Output.auditErrorOps cfg vmsgs inp err, ∀ t, opText op = some t → t ∈ vmsgs ∨ t = err ∨ t = Output.jsonDoc cfg inp ∨ reportHead t := by
  refine ⟨rfl, rfl, ?_⟩
  intro op hop t ht
  unfold Output.auditErrorOps at hop
  simp only [List.mem_append, List.mem_map, List.mem_cons, List.not_mem_nil, or_false] at hop
  rcases hop with (⟨m, hm, h⟩ | h) | h | h
  · subst h; simp only [opText, Option.some.injEq] at ht; subst ht; exact Or.inl hm
  · rcases outputOps_texts cfg inp op h t ht with h | h
    · exact Or.inr (Or.inr (Or.inl h))
    · exact Or.inr (Or.inr (Or.inr h))
  · subst h; simp only [opText, Option.some.injEq] at ht; exact Or.inr (Or.inl ht.symm)
  · subst h; cases ht

/-- **so no Result line (nor Host / Policy line, nor Passed / Failed!) is printed** unless the peer-independent texts (the verbose
    message, the error message, the report's JSON document) are such a line themselves -/
theorem incomplete_prints_no_verdict (cfg : Cfg) (vmsgs : List Str) (c c' : Conf) (pi : PolicyInfo) (inp : Output.Input) (err : Str)
    (line : Str) (hline : line = hostLine c' ∨ line = policyLine c' pi ∨ line = resultLead c' ∨ line = passedText c'.windows ∨ line = failedText c'.windows)
    (hv : line ∉ vmsgs) (he : line ≠ err) (hjd : line ≠ Output.jsonDoc cfg inp) :
    ∀ op ∈ Output.auditErrorOps cfg vmsgs inp err, opText op ≠ some line := by
  intro op hop hl
  obtain ⟨h1, h2, h3, h4, h5, _⟩ := verdict_lines_not_report_lines c' pi
  rcases (incomplete_after_banner cfg vmsgs c pi inp err).2.2 op hop line hl with h | h | h | h
  · exact hv h
  · exact he h
  · exact hjd h
  · rcases hline with e | e | e | e | e <;> subst e
    · exact h1 h
    · exact h2 h
    · exact h3 h
    · exact h4 h
    · exact h5 h

/-- the two endings without a banner report: the only calls are the verbose messages and one failure line -/
theorem incomplete_without_report (cfg : Cfg) (vmsgs : List Str) (c : Conf) (pi : PolicyInfo) (t : Str) :
    (policyAudit cfg vmsgs c pi (.connectFailed t)).stdout = (exec cfg (vOps vmsgs ++ [Op.print .fail t true false, .write]) {}).out ∧
    (policyAudit cfg vmsgs c pi (.parseFailed t)).stdout = (exec cfg (vOps vmsgs ++ [Op.print .fail (parseFailedText t) true false, .write]) {}).out ∧
    (policyAudit cfg vmsgs c pi (.connectFailed t)).status = 1 ∧ (policyAudit cfg vmsgs c pi (.parseFailed t)).status = 1 := ⟨rfl, rfl, rfl, rfl⟩

/-! ### G. `-M` and `-L` -/

/-- `-M` never judges: the status is 0 whether the file was written, existed already or could not be created -/
theorem make_status_zero (c : Conf) (path today : Str) (peer : Peer) (fs : FileState) : (makePolicy c path today peer fs).status = 0 := by
  cases fs <;> rfl

/-- what is written: `Policy.create` for the host (server audit) or the client's address (client audit) — and only into a new file -/
theorem make_written (c : Conf) (path today : Str) (peer : Peer) (fs : FileState) :
    (makePolicy c path today peer fs).written =
      (if fs = .absent then some (PolicyFile.create (if c.clientAudit then c.clientHost else c.host) today peer c.clientAudit) else none) := by
  cases fs <;> simp [makePolicy, makeSource]

/-- **-M then -P on the same target exits 0**: the file `-M` writes parses, and the policy audit of the same peer against it passes
    (peers within the text format's reach: `C05File.WfPeer` / `WfText`), under every option set -/
theorem make_then_audit_exits_zero (c : Conf) (path today : Str) (peer : Peer) (hw : C05File.WfPeer peer) (ht : C05File.WfText (makeSource c) today peer) :
    ∃ text r, (makePolicy c path today peer .absent).written = some text ∧ PolicyFile.parse text = .ok r ∧
      ∀ (cfg : Cfg) (vmsgs : List Str) (c' : Conf) (od : Bool),
        (policyAudit cfg vmsgs c' { policy := r.pol, nameAndVersion := nameAndVersion r.name r.version, outdated := od } (.completed peer)).status = 0 := by
  obtain ⟨r, hr, hp, _⟩ := C05File.made_text_policy_passes (makeSource c) today peer c.clientAudit hw ht
  refine ⟨_, r, rfl, hr, ?_⟩
  intro cfg vmsgs c' od
  rw [status_zero_iff_passed]
  exact hp

/-- `-L` exits 0 whatever is listed -/
theorem list_status_zero (sv cl : List Str) : listStatus sv cl = 0 := rfl

/-- what `-L` prints: when there is nothing to list, the failure line and none of the hints -/
theorem list_empty (cfg : Cfg) : listOps [] [] = [Op.sep, .print .fail (s "Error: no built-in policies found!") true false, .write] := by
  simp [listOps]

/-! ### the regenerated table of built-in policies (kernel-evaluated) -/

/-- what `load_builtin_policy` returns for a name of the table: the rules and the role of the entry of that name, the name cut at its
    last `" ("` and the entry's version put back together as "name (version v)" — for every table -/
theorem loadBuiltin_spec (tbl : List BuiltinPolicy) (n : Str) (l : Loaded) (h : loadBuiltin tbl n = some (.ok l)) :
    ∃ b ∈ tbl, b.name = n ∧ l.info.policy = ofBuiltin b ∧ l.server = b.serverPolicy ∧
      l.info.nameAndVersion = nameAndVersion (sliceTo n (rfindSub (s " (") n)) b.version := by
  unfold loadBuiltin at h
  cases hf : tbl.find? (·.name = n) with
  | none => rw [hf] at h; cases h
  | some b0 =>
    rw [hf] at h
    refine ⟨b0, List.mem_of_find?_eq_some hf, by simpa using List.find?_some hf, ?_⟩
    cases hn : nextVersionName n b0.version with
    | none => simp only [hn] at h; cases h
    | some nxt =>
      simp only [hn] at h
      injection h with h; injection h with h
      subst h
      exact ⟨rfl, rfl, rfl⟩

/-- per entry of the regenerated table (kernel-evaluated): the version is a numeral, and name + version reassemble to the table key -/
def entryOk (b : BuiltinPolicy) : Bool :=
  (Target.pyInt b.version).isSome && nameAndVersion (sliceTo b.name (rfindSub (s " (") b.name)) b.version == b.name

theorem gen_entries_ok : ∀ b ∈ Gen.builtinPolicies, entryOk b = true := by decide +kernel

/-- **every built-in policy loads (no exception), and the `Policy:` line / JSON `policy` field of an audit with `-P "<name>"` shows exactly
    the name the user typed** -/
theorem gen_builtin_loads (n : Str) (hn : ∃ b ∈ Gen.builtinPolicies, b.name = n) :
    ∃ l, loadBuiltin Gen.builtinPolicies n = some (.ok l) ∧ l.info.nameAndVersion = n := by
  obtain ⟨b, hb, hbn⟩ := hn
  cases hf : Gen.builtinPolicies.find? (·.name = n) with
  | none =>
    rw [List.find?_eq_none] at hf
    exact absurd (by simpa using hbn) (hf b hb)
  | some b0 =>
    have hm := List.mem_of_find?_eq_some hf
    have hname : b0.name = n := by simpa using List.find?_some hf
    have hok := gen_entries_ok b0 hm
    simp only [entryOk, Bool.and_eq_true, beq_iff_eq] at hok
    obtain ⟨hv, hnv⟩ := hok
    obtain ⟨v, hv⟩ := Option.isSome_iff_exists.mp hv
    have hex : ∃ l, loadBuiltin Gen.builtinPolicies n = some (.ok l) := by
      unfold loadBuiltin
      rw [hf]
      simp only [nextVersionName, hv, Option.map_some]
      exact ⟨_, rfl⟩
    obtain ⟨l, hl⟩ := hex
    obtain ⟨b1, hb1, hb1n, _, _, hnv1⟩ := loadBuiltin_spec _ n l hl
    refine ⟨l, hl, ?_⟩
    have hok1 := gen_entries_ok b1 hb1
    simp only [entryOk, Bool.and_eq_true, beq_iff_eq] at hok1
    rw [hnv1, ← hb1n]
    exact hok1.2

/-- **the "newer version available" flag of a loaded built-in policy: set iff the table has an entry named
    `<name up to "(version ">(version <int(version) + 1>)`** — for every table and every name -/
theorem outdated_iff_successor (tbl : List BuiltinPolicy) (n : Str) (l : Loaded) (h : loadBuiltin tbl n = some (.ok l)) :
    ∃ b0 ∈ tbl, b0.name = n ∧ ∃ nxt, nextVersionName n b0.version = some nxt ∧ (l.info.outdated = true ↔ ∃ b ∈ tbl, b.name = nxt) := by
  unfold loadBuiltin at h
  cases hf : tbl.find? (·.name = n) with
  | none => rw [hf] at h; cases h
  | some b0 =>
    rw [hf] at h
    have hmem := List.mem_of_find?_eq_some hf
    have hname : b0.name = n := by simpa using List.find?_some hf
    refine ⟨b0, hmem, hname, ?_⟩
    cases hn : nextVersionName n b0.version with
    | none => simp only [hn] at h; cases h
    | some nxt =>
      simp only [hn] at h
      injection h with h; injection h with h
      refine ⟨nxt, rfl, ?_⟩
      subst h
      simp [List.any_eq_true]

/-- a name outside the table is not a built-in policy (the caller then opens a file of that name); the file's policy is never "outdated" -/
theorem not_builtin (tbl : List BuiltinPolicy) (n : Str) (h : ∀ b ∈ tbl, b.name ≠ n) : loadBuiltin tbl n = none := by
  unfold loadBuiltin
  have : tbl.find? (·.name = n) = none := by
    rw [List.find?_eq_none]; intro b hb; simpa using h b hb
  rw [this]

def outdatedOf (tbl : List BuiltinPolicy) (b : Str) : Option Bool :=
  match loadBuiltin tbl b with
  | some (.ok l) => some l.info.outdated
  | _ => none

/-- the descriptions `-L` (without `-v`) shows, before sorting -/
def latestNames (tbl : List BuiltinPolicy) : Except Exn (List Str × List Str) :=
  match latestFold [] (tbl.filter (·.serverPolicy)), latestFold [] (tbl.filter (fun b => !b.serverPolicy)) with
  | .ok sv, .ok cl => .ok (sv.map (·.2.2), cl.map (·.2.2))
  | .error e, _ => .error e
  | _, .error e => .error e

/-- `list_builtin_policies(False)` returns those descriptions, each list sorted: the same names, none lost or added -/
theorem listBuiltin_perm (tbl : List BuiltinPolicy) (cl : Str → Str) (sv0 cl0 : List Str) (h : latestNames tbl = .ok (sv0, cl0)) :
    ∃ sv cv, listBuiltin tbl false cl = .ok (sv, cv) ∧ sv.Perm sv0 ∧ cv.Perm cl0 := by
  unfold latestNames at h
  unfold listBuiltin
  simp only [Bool.false_eq_true, if_false]
  cases h1 : latestFold [] (tbl.filter (·.serverPolicy)) with
  | error e => rw [h1] at h; cases h
  | ok a =>
    cases h2 : latestFold [] (tbl.filter (fun b => !b.serverPolicy)) with
    | error e => rw [h1, h2] at h; cases h
    | ok b =>
      rw [h1, h2] at h
      injection h with h
      injection h with ha hb
      subst ha; subst hb
      exact ⟨_, _, rfl, Output.sortStr_perm _, Output.sortStr_perm _⟩

theorem filter_partition_length {α} (p : α → Bool) (l : List α) : (l.filter p).length + (l.filter (fun x => !p x)).length = l.length := by
  induction l with
  | nil => rfl
  | cons x rest ih => cases hx : p x <;> simp [List.filter_cons, hx] <;> omega

/-- with `-v` every entry is listed -/
theorem list_verbose_all (tbl : List BuiltinPolicy) (cl : Str → Str) :
    ∃ sv cv, listBuiltin tbl true cl = .ok (sv, cv) ∧ sv.length + cv.length = tbl.length := by
  refine ⟨Output.sortStr ((tbl.filter (·.serverPolicy)).map (fun b => quoted b.name ++ s ": " ++ cl b.name)),
    Output.sortStr ((tbl.filter (fun b => !b.serverPolicy)).map (fun b => quoted b.name ++ s ": " ++ cl b.name)), by simp [listBuiltin], ?_⟩
  have h1 := (Output.sortStr_perm ((tbl.filter (·.serverPolicy)).map (fun b => quoted b.name ++ s ": " ++ cl b.name))).length_eq
  have h2 := (Output.sortStr_perm ((tbl.filter (fun b => !b.serverPolicy)).map (fun b => quoted b.name ++ s ": " ++ cl b.name))).length_eq
  simp only [List.length_map] at h1 h2
  rw [h1, h2]
  exact filter_partition_length (·.serverPolicy) tbl

/-! ### non-vacuity -/

def exPolicy : PolicyInfo := { policy := { ciphers := some [s "aes256-ctr"], macs := some [s "x"] }, nameAndVersion := nameAndVersion (s "t") (s "1") }
def exPeerBad : Peer := { bannerStr := s "SSH-2.0-X", enc := [s "aes128-ctr"], mac := [s "x"] }
def exPeerGood : Peer := { bannerStr := s "SSH-2.0-X", enc := [s "aes256-ctr"], mac := [s "x"] }

example : (policyAudit {} [] { host := s "h" } exPolicy (.completed exPeerBad)).status = 3 := by decide
example : (policyAudit {} [] { host := s "h" } exPolicy (.completed exPeerGood)).status = 0 := by decide
example : (policyAudit { level := 2 } [] { host := s "h" } exPolicy (.completed exPeerGood)).stdout = [[]] := by decide
example : (verdictOf exPolicy exPeerBad).2.length = 1 := by decide
example : errorStr false (verdictOf exPolicy exPeerBad).2 = s "  * Ciphers did not match.\n    - Expected: aes256-ctr\n    - Actual:   aes128-ctr\n" := by
  have h : (verdictOf exPolicy exPeerBad).2 = [{ field := s "Ciphers", expectedRequired := [s "aes256-ctr"], expectedOptional := [[]], actual := [s "aes128-ctr"] }] := by decide
  rw [h]
  simp only [errorStr, errorBlocks, List.map, Output.sortStr, List.mergeSort, Text.join]
  decide
example : dumpDoc (docOf { host := s "h" } exPolicy (verdictOf exPolicy exPeerGood)) =
    s "{\"errors\": [], \"host\": \"h\", \"passed\": true, \"policy\": \"t (version 1)\", \"port\": 22, \"warnings\": []}" := by
  simp [dumpDoc, docOf, Target.showInt, Target.showNat]; decide
example : outdatedOf Gen.builtinPolicies (s "Hardened Amazon Linux 2023 (version 1)") = some true := by decide +kernel
example : outdatedOf Gen.builtinPolicies (s "Hardened Amazon Linux 2023 (version 2)") = some false := by decide +kernel
example : outdatedOf Gen.builtinPolicies (s "Hardened Amazon Linux 2023") = none := by decide +kernel

end SshAudit.C02PolicyAudit
