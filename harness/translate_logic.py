#!/venv/bin/python
"""Logic translator (pilot): small pure functions of /repo/src/ssh_audit  ->  lean/SshAudit/Gen/Logic.lean (+ Gen/LogicCrc.lean)

`translate.py` regenerates the DATA of the model from the source on every run; this file does the same for a handful of small
pure FUNCTIONS: each function of the table below is read with `ast` (nothing is imported or executed), translated to a Lean `def`
in namespace `SshAudit.Gen.Logic`, and `lean/SshAudit/Props/GenLogic.lean` proves `<name>_eq_model : Gen.Logic.<name> = <hand model>`.
So a change of the Python function changes the Lean definition the theorem is about.

The subset is deliberately strict: whatever is not listed here makes the function *untranslatable* (reported, never guessed).

  types        int -> Int, str -> List Char, bool -> Bool, bytes -> List UInt8, List[int] / List[str], Optional[...] of those
               (parameters need annotations of exactly these forms; locals are inferred)
  constants    int / str / bool / bytes literals; lists / tuples of them; module-level and class-level NAME = <such a literal>,
               also of a class or module imported with `from ssh_audit.x import Y` / `from ssh_audit import x`
  statements   return, assignment to locals (SSA-renamed; tuple assignment `a, b = x, y`), augmented assignment, `xs[i] = v`,
               if / elif / else (a branch that returns takes the rest of the block with it, otherwise the assigned locals are merged),
               `X is None [or ...]` / `X is not None [and ...]` as an `if` test narrows an Optional local (a `match`),
               `for x in <list>` / `for i in range(n)` whose body only updates locals (a fold over the updated locals), pass, docstrings
  expressions  and / or / not on bools, comparisons (== != on equal types, < <= > >= on ints, chains), `in` / `not in` a literal list,
               + - * on ints, // % (positive literal divisor: Int `/` `%`, which is floor there; negative literal: Int.fdiv / Int.fmod;
               otherwise Py.floordiv / Py.mod, which raise on 0), << >> (literal count, or Py.shl / Py.shr raising on a negative one),
               & | ^ ~ (two's complement on unbounded ints: Py.band / Py.bor / Py.bxor), unary -, conditional expressions,
               len, ord (of a str / bytes of length 1, raising otherwise), bool(<bool>), s.startswith(t) / s.endswith(t) with str t,
               <str>.join(<List[str]>), '<text with {} only>'.format(<str>, ...), + on str / bytes / lists, `[v] * n`,
               xs[i] (raising outside the range, negative indices as Python), xs[a:b] (clamped as Python; no step)
  partiality   an operation that can raise makes the function `Option`-valued (`none` = an exception); it must not sit under a
               short-circuit (`and` / `or` / conditional expression), where evaluation order would matter
  statements+  (round 15) chained assignment `a = b = v` (v not a list), `xs.append(v)` / `xs.extend(ys)` on a list local (a rebinding; a
               list local is never bound to another list *name*, so no two names can share one list), `'..%d..%s..' % v` / `% (v, w)` with
               %d / %u on ints and %s on strs, `<` `<=` `>` `>=` on strs (code-point order, `Text.ltStr`), `xs.index(v)` (raising when absent),
               `min(a, b)` / `max(a, b)` on ints
  extraction   besides whole functions, these patterns pick a piece of a bigger function (`block`: the statements chosen by the selectors
               of the table, in source order, as a function from the typed free variables to the tuple of the `out` locals; `lambda`: the
               only lambda expression of a function): the test of the `if` inside the only `for`
               of a nested function (`for-if-test`), an `if/elif` chain whose tests read one local only (`if-chain`: the index of the
               branch taken), the right-hand side of the only assignment to a local (`assign-expr`); the free variables are typed by the table.

`try: int(s) except ValueError` is NOT translated: `int()` accepts any Unicode decimal digit, Unicode white space, a sign and
underscores between digits; modelling that exactly needs the Unicode Nd table, which this pilot does not carry.

Output: one JSON line {"ok": true, "translated": [...], "untranslatable": {name: reason}, "changed": [files rewritten],
"units": {name: generated file without .lean; its theorems are in lean/SshAudit/Props/Gen<unit>.lean}}.
"""
import ast
import json
import os
import sys

REPO = os.environ.get('VERIF_REPO', '/repo')
HERE = os.path.dirname(os.path.abspath(__file__))
GEN = os.path.join(HERE, '..', 'lean', 'SshAudit', 'Gen')

# (Lean name, module file, qualified function name, options)
FUNCTIONS = [
    ('adjust_key_size', 'kexdh.py', 'KexDH.__adjust_key_size', {}),
    ('normalize_error_field', 'policy.py', 'Policy._normalize_error_field', {}),
    ('is_chacha', 'ssh_audit.py', 'post_process_findings._get_chacha_ciphers_enabled', {'extract': 'for-if-test', 'params': ['str']}),
    ('is_cbc', 'ssh_audit.py', 'post_process_findings._get_cbc_ciphers_enabled', {'extract': 'for-if-test', 'params': ['str']}),
    ('is_etm', 'ssh_audit.py', 'post_process_findings._get_etm_macs_enabled', {'extract': 'for-if-test', 'params': ['str']}),
    ('fix_date', 'software.py', 'Software._fix_date', {}),
    ('get_ssh_version', 'algorithm.py', 'Algorithm.get_ssh_version', {}),
    # 'unit': these go to Gen/LogicCrc.lean: the theorem about the table evaluates 2048 list updates in the kernel (~40 s), which is
    # paid again only when one of these two functions changes, not when any other function of the table does
    ('ssh1_crc32_table', 'ssh1_crc32.py', 'SSH1_CRC32.__init__', {'result_attr': '_table', 'unit': 'LogicCrc'}),
    ('ssh1_crc32_calc', 'ssh1_crc32.py', 'SSH1_CRC32.calc', {'attrs': {'_table': 'ssh1_crc32_table'}, 'unit': 'LogicCrc'}),
    ('gex_size_class', 'gextest.py', 'GEXTest.run', {'extract': 'if-chain', 'var': 'smallest_modulus', 'params': ['int']}),
    ('mpint_length', 'writebuf.py', 'WriteBuf._create_mpint', {'extract': 'assign-expr', 'var': 'length', 'free': {'bits': 'int', 'n': 'int'}}),
    # ---- round 15: blocks and lambdas (unit Logic2: theorems in Props/GenLogic2.lean)
    ('hostkey_comments', 'hostkeytest.py', 'HostKeyTest.perform_test', {'unit': 'Logic2', 'extract': 'block', 'select': [('if', 'hostkey_min_good', ['hostkey_modulus_size', 'ca_modulus_size'])],
        'free': {'host_key_type': 'str', 'cert': 'bool', 'hostkey_modulus_size': 'int', 'ca_key_type': 'str', 'ca_modulus_size': 'int',
                 'key_fail_comments': 'List[str]', 'key_warn_comments': 'List[str]'},
        'out': ['key_fail_comments', 'key_warn_comments']}),
    ('send_packet_framing', 'ssh_socket.py', 'SSH_Socket.send_packet', {'unit': 'Logic2', 'extract': 'block',
        'select': [('assign', 'padding', 0, 2), ('if-assigning', 'padding'), ('assign', 'plen')], 'free': {'payload': 'bytes'}, 'out': ['padding', 'plen']}),
    ('status_step', 'ssh_audit.py', 'output_algorithm', {'unit': 'Logic2', 'extract': 'block', 'select': [('if', 'program_retval', ['level'])],
        'free': {'level': 'str', 'program_retval': 'int'}, 'out': ['program_retval']}),
    ('rank_step', 'ssh_audit.py', 'main', {'unit': 'Logic2', 'extract': 'block',
        'select': [('assign', 'ranked_return_codes'), ('if', 'ret', ['ranked_return_codes', 'worker_ret', 'ret'])],
        'free': {'worker_ret': 'int', 'ret': 'int'}, 'out': ['ret']}),
    ('gex_early_exit', 'gextest.py', 'GEXTest.run', {'unit': 'Logic2', 'extract': 'if-test', 'names': ['bits', 'smallest_modulus'],
        'free': {'bits': 'int', 'smallest_modulus': 'int'}}),
    ('gex_followup_updated', 'gextest.py', 'GEXTest.run', {'unit': 'Logic2', 'extract': 'assign-expr', 'var': 'openssh_test_updated', 'count': 2, 'nth': 1,
        'free': {'smallest_modulus': 'int'}}),
    ('port_out_of_range', 'auditconf.py', 'AuditConf.__setattr__', {'unit': 'Logic2', 'extract': 'if-test', 'names': ['port'], 'free': {'port': 'int'}}),
    ('read_packet2_lengths', 'ssh_socket.py', 'SSH_Socket.read_packet', {'unit': 'Logic2', 'extract': 'block',
        'select': [('assign', 'payload_length', 1, 2), ('assign', 'check_size', 1, 2)], 'free': {'packet_length': 'int', 'padding_length': 'int'},
        'out': ['payload_length', 'check_size']}),
    ('read_packet1_lengths', 'ssh_socket.py', 'SSH_Socket.read_packet', {'unit': 'Logic2', 'extract': 'block',
        'select': [('assign', 'padding_length', 0, 2), ('assign', 'payload_length', 0, 2), ('assign', 'check_size', 0, 2)], 'free': {'packet_length': 'int'},
        'out': ['padding_length', 'payload_length', 'check_size']}),
    ('read_packet_bad_block', 'ssh_socket.py', 'SSH_Socket.read_packet', {'unit': 'Logic2', 'extract': 'if-test', 'names': ['check_size', 'self'],
        'free': {'check_size': 'int', 'self.__block_size': 'int'}}),
    ('read_packet_bad_length', 'ssh_socket.py', 'SSH_Socket.read_packet', {'unit': 'Logic2', 'extract': 'if-test', 'names': ['payload_length', 'sshv'],
        'free': {'payload_length': 'int', 'sshv': 'int'}}),
    ('is_print_ascii_char', 'utils.py', 'Utils.is_print_ascii', {'unit': 'Logic2', 'extract': 'lambda', 'params': ['int']}),
    # candidates that are outside the subset (kept in the table so that the reason is reported on every run)
    ('ctoi', 'utils.py', 'Utils.ctoi', {}),
    ('parse_int', 'utils.py', 'Utils.parse_int', {}),
    ('parse_float', 'utils.py', 'Utils.parse_float', {}),
    ('fix_patch', 'software.py', 'Software._fix_patch', {}),
    ('bitlength', 'writebuf.py', 'WriteBuf._bitlength', {}),
    ('get_level', 'outputbuffer.py', 'OutputBuffer.get_level', {}),
]


class Untranslatable(Exception):
    pass


def bad(node, why):
    ln = getattr(node, 'lineno', None)
    raise Untranslatable('%s%s' % (why, ' (line %d)' % ln if ln else ''))


# ---------------------------------------------------------------- types

INT, STR, BOOL, BYTES = ('int',), ('str',), ('bool',), ('bytes',)
NONE = ('none',)


def tlist(t):
    return ('list', t)


def topt(t):
    return ('opt', t)


def ttuple(ts):
    return ('tuple',) + tuple(ts)


def lean_type(t):
    if t == INT:
        return 'Int'
    if t == STR:
        return 'Str'
    if t == BOOL:
        return 'Bool'
    if t == BYTES:
        return 'Bytes'
    if t[0] == 'list':
        return 'List %s' % lean_atom_type(t[1])
    if t[0] == 'opt':
        return 'Option %s' % lean_atom_type(t[1])
    if t[0] == 'tuple':
        return ' × '.join(lean_atom_type(x) for x in t[1:])
    raise Untranslatable('no Lean type for %r' % (t,))


def lean_atom_type(t):
    s = lean_type(t)
    return '(%s)' % s if ' ' in s else s


def parse_annotation(a):
    if a is None:
        raise Untranslatable('parameter without a type annotation')
    if isinstance(a, ast.Constant) and isinstance(a.value, str):
        a = ast.parse(a.value, mode='eval').body
    if isinstance(a, ast.Name):
        if a.id in ('int', 'str', 'bool', 'bytes'):
            return (a.id,)
        bad(a, 'type %s is outside the subset' % a.id)
    if isinstance(a, ast.Subscript) and isinstance(a.value, ast.Name):
        if a.value.id in ('List', 'list', 'Sequence'):
            inner = parse_annotation(a.slice)
            if inner in (INT, STR):
                return tlist(inner)
            bad(a, 'list element type outside the subset')
        if a.value.id == 'Optional':
            inner = parse_annotation(a.slice)
            if inner[0] == 'opt':
                bad(a, 'nested Optional')
            return topt(inner)
        bad(a, 'type %s[...] is outside the subset' % a.value.id)
    bad(a, 'type annotation outside the subset: %s' % ast.dump(a)[:60])


def type_of_name(s):
    return {'int': INT, 'str': STR, 'bool': BOOL, 'bytes': BYTES, 'List[str]': tlist(STR), 'List[int]': tlist(INT),
            'Optional[str]': topt(STR), 'Optional[int]': topt(INT)}[s]


# ---------------------------------------------------------------- Lean literals

def lchar(c):
    o = ord(c)
    if c == "'":
        return "'\\''"
    if c == '\\':
        return "'\\\\'"
    if 32 <= o < 127:
        return "'%s'" % c
    return '(Char.ofNat %d)' % o


def lit(v, node=None):
    """(Lean term, type) of a Python literal value"""
    if isinstance(v, bool):
        return ('true' if v else 'false'), BOOL
    if isinstance(v, int):
        return ('(%d : Int)' % v if v >= 0 else '(-%d : Int)' % -v), INT
    if isinstance(v, str):
        for c in v:
            if 0xd800 <= ord(c) <= 0xdfff:
                bad(node, 'surrogate code point in a string literal')
        return '([%s] : Str)' % ', '.join(lchar(c) for c in v), STR
    if isinstance(v, bytes):
        return '([%s] : Bytes)' % ', '.join('%d' % b for b in v), BYTES
    if isinstance(v, (list, tuple)):
        if len(v) == 0:
            bad(node, 'empty list literal (element type unknown)')
        items = [lit(x, node) for x in v]
        t = items[0][1]
        if any(i[1] != t for i in items) or t not in (INT, STR, BOOL):
            bad(node, 'list literal with mixed or unsupported element types')
        return '([%s] : List %s)' % (', '.join(i[0] for i in items), lean_atom_type(t)), tlist(t)
    bad(node, 'literal of type %s is outside the subset' % type(v).__name__)


def literal_value(node):
    """Python value of an AST that is a literal of the subset, else raises ValueError"""
    if isinstance(node, ast.Constant) and isinstance(node.value, (bool, int, str, bytes)) and not isinstance(node.value, float):
        return node.value
    if isinstance(node, ast.UnaryOp) and isinstance(node.op, ast.USub) and isinstance(node.operand, ast.Constant) \
            and type(node.operand.value) is int:
        return -node.operand.value
    if isinstance(node, (ast.List, ast.Tuple)):
        return [literal_value(e) for e in node.elts]
    raise ValueError('not a literal')


# ---------------------------------------------------------------- source access

class Source:
    _cache = {}

    @classmethod
    def tree(cls, fname):
        if fname not in cls._cache:
            path = os.path.join(REPO, 'src', 'ssh_audit', fname)
            cls._cache[fname] = ast.parse(open(path, encoding='utf-8').read())
        return cls._cache[fname]


def child_def(node, name):
    """the def / class called `name` directly inside `node` (searching nested blocks of a function, not other defs)"""
    hits = []

    def visit(n, top):
        for ch in ast.iter_child_nodes(n):
            if isinstance(ch, (ast.FunctionDef, ast.ClassDef)):
                if ch.name == name:
                    hits.append(ch)
                continue
            visit(ch, False)
    visit(node, True)
    if len(hits) != 1:
        raise Untranslatable('%d definitions called %s' % (len(hits), name))
    return hits[0]


def find_def(fname, qual):
    node = Source.tree(fname)
    chain = [node]
    for part in qual.split('.'):
        node = child_def(node, part)
        chain.append(node)
    return chain


def constants_of(scope_node):
    """NAME -> literal value for the `NAME = <literal>` / `NAME: T = <literal>` statements directly in a module or class body"""
    out = {}
    seen = {}
    for st in scope_node.body:
        tgt = val = None
        if isinstance(st, ast.Assign) and len(st.targets) == 1 and isinstance(st.targets[0], ast.Name):
            tgt, val = st.targets[0].id, st.value
        elif isinstance(st, ast.AnnAssign) and isinstance(st.target, ast.Name) and st.value is not None:
            tgt, val = st.target.id, st.value
        if tgt is None:
            continue
        seen[tgt] = seen.get(tgt, 0) + 1
        try:
            out[tgt] = literal_value(val)
        except ValueError:
            out.pop(tgt, None)
    return {k: v for k, v in out.items() if seen[k] == 1}     # a name bound twice is not a constant


def imports_of(module_tree):
    """local name -> ('class' | 'module', file, name) for `from ssh_audit.x import Y` and `from ssh_audit import x`"""
    out = {}
    for st in module_tree.body:
        if isinstance(st, ast.ImportFrom) and st.level == 0 and st.module:
            for al in st.names:
                local = al.asname or al.name
                if st.module == 'ssh_audit':
                    out[local] = ('module', al.name + '.py', None)
                elif st.module.startswith('ssh_audit.'):
                    out[local] = ('class', st.module.split('.', 1)[1] + '.py', al.name)
    return out


# ---------------------------------------------------------------- the translator of one function

KEYWORDS = {'at', 'by', 'do', 'end', 'from', 'fun', 'have', 'if', 'in', 'let', 'match', 'open', 'show', 'then', 'else', 'with', 'where',
            'def', 'theorem', 'instance', 'class', 'structure', 'namespace', 'section', 'variable', 'example', 'import', 'export',
            'return', 'for', 'unless', 'mut', 'try', 'catch', 'finally', 'nomatch', 'suffices', 'calc', 'using', 'deriving', 'local',
            'some', 'none', 'true', 'false', 'Type', 'Prop', 'Sort', 'universe', 'macro', 'syntax', 'notation', 'infix', 'prefix',
            'postfix', 'private', 'protected', 'partial', 'noncomputable', 'abbrev', 'inductive', 'mutual', 'extends', 'set_option'}


class Fn:
    """state of the translation of one function"""

    def __init__(self, fname, chain, opts, known):
        self.fname = fname
        self.chain = chain                     # [module, (class | function)..., the function]
        self.opts = opts
        self.known = known                     # name -> (lean type) of functions translated earlier (for opts['attrs'])
        self.module_consts = constants_of(chain[0])
        self.imports = imports_of(chain[0])
        self.classes = [n for n in chain[1:-1] if isinstance(n, ast.ClassDef)]
        self.counter = {}
        self.tmp = 0
        self.prelude = []                      # (lean name, lean term) evaluated before the body (references to other generated defs)

    # -- names
    def fresh(self, pyname):
        base = pyname.replace('.', '_')
        if base == '_':
            base = 'u'
        base = base.lstrip('_') or 'u'
        if base.endswith('_'):
            base += 'x'
        if base in KEYWORDS or not (base[0].isalpha() and all(c.isalnum() or c == '_' for c in base) and base.isascii()):
            base = 'v_' + ''.join(c if (c.isalnum() and c.isascii()) else '_' for c in base)
        k = self.counter.get(base, 0)
        self.counter[base] = k + 1
        return base if k == 0 else '%s_%d' % (base, k)

    def temp(self):
        self.tmp += 1
        return 't%d_' % self.tmp

    # -- constants
    def class_const(self, fname, cname, attr, node):
        tree = Source.tree(fname)
        try:
            cls = child_def(tree, cname)
        except Untranslatable:
            bad(node, 'class %s not found in %s' % (cname, fname))
        consts = constants_of(cls)
        if attr not in consts:
            bad(node, '%s.%s is not a literal class-level constant' % (cname, attr))
        return lit(consts[attr], node)


# IR of a block (continuation-passing; every leaf is a 'ret'):
#   ('ret', term, type)
#   ('let', name, term, body)                       pure binding
#   ('bind', name, optterm, body)                   partial operation: none = raises
#   ('if', cond, then, else)
#   ('matchopt', scrutinee, newname, some_tree, none_tree)
#   ('sub', names, types, subtree, body)            subtree's leaves return the tuple of `names`; body continues
#   ('loop', names, types, lamvar, lamtype, bodytree, inits, listterm, body)


def is_partial(t):
    k = t[0]
    if k == 'ret':
        return False
    if k == 'let':
        return is_partial(t[3])
    if k == 'bind':
        return True
    if k == 'if':
        return is_partial(t[2]) or is_partial(t[3])
    if k == 'matchopt':
        return is_partial(t[3]) or is_partial(t[4])
    if k == 'sub':
        return is_partial(t[3]) or is_partial(t[4])
    if k == 'loop':
        return is_partial(t[5]) or is_partial(t[8])
    raise AssertionError(k)


def leaves(t, acc):
    k = t[0]
    if k == 'ret':
        acc.append(t)
    elif k in ('let', 'bind'):
        leaves(t[3], acc)
    elif k == 'if':
        leaves(t[2], acc)
        leaves(t[3], acc)
    elif k == 'matchopt':
        leaves(t[3], acc)
        leaves(t[4], acc)
    elif k == 'sub':
        leaves(t[4], acc)
    elif k == 'loop':
        leaves(t[8], acc)
    return acc


def tuple_term(names):
    return names[0] if len(names) == 1 else '(' + ', '.join(names) + ')'


def proj(tmp, i, n):
    """i-th component of an n-tuple (right-nested pairs)"""
    if n == 1:
        return tmp
    s = tmp
    for _ in range(i):
        s += '.2'
    return s + '.1' if i < n - 1 else s


def render(t, monadic, ind, retconv=None):
    """Lean term of an IR tree.  monadic: the value is Option-valued (leaves are `some …`)."""
    pad = '  ' * ind
    k = t[0]
    if k == 'ret':
        term = retconv(t) if retconv else t[1]
        return pad + ('some (%s)' % term if monadic else term)
    if k == 'let':
        return '%slet %s := %s\n%s' % (pad, t[1], t[2], render(t[3], monadic, ind, retconv))
    if k == 'bind':
        assert monadic
        return '%sOption.bind (%s) fun %s =>\n%s' % (pad, t[2], t[1], render(t[3], monadic, ind, retconv))
    if k == 'if':
        return '%sif %s then\n%s\n%selse\n%s' % (pad, t[1], render(t[2], monadic, ind + 1, retconv), pad, render(t[3], monadic, ind + 1, retconv))
    if k == 'matchopt':
        return '%s(match %s with\n%s| some %s =>\n%s\n%s| none =>\n%s)' % (
            pad, t[1], pad, t[2], render(t[3], monadic, ind + 1, retconv), pad, render(t[4], monadic, ind + 1, retconv))
    if k == 'sub':
        names, types, sub, body = t[1], t[2], t[3], t[4]
        tmp = names[0] if len(names) == 1 else 'p_' + '_'.join(names)
        subp = is_partial(sub)
        s = render(sub, subp, ind + 2)
        if subp:
            assert monadic
            out = '%sOption.bind (\n%s) fun %s =>\n' % (pad, s, tmp)
        else:
            out = '%slet %s : %s :=\n%s\n' % (pad, tmp, lean_type(ttuple(types)) if len(types) > 1 else lean_type(types[0]), s)
        if len(names) > 1:
            for i, nm in enumerate(names):
                out += '%slet %s := %s\n' % (pad, nm, proj(tmp, i, len(names)))
        return out + render(body, monadic, ind, retconv)
    if k == 'loop':
        names, types, lamvar, lamtype, bodytree, inits, listterm, body = t[1:]
        accT = lean_type(ttuple(types)) if len(types) > 1 else lean_type(types[0])
        tmp = names[0] if len(names) == 1 else 'p_' + '_'.join(names)
        bp = is_partial(bodytree)
        lam = 'fun (acc_ : %s) (%s : %s) =>\n%s' % (accT, lamvar, lean_type(lamtype), render(bodytree, bp, ind + 2))
        init = tuple_term(inits)
        if bp:
            assert monadic
            out = '%sOption.bind (Py.foldlOpt (%s)\n%s  (%s) (%s)) fun %s =>\n' % (pad, lam, pad, init, listterm, tmp)
        else:
            out = '%slet %s : %s := List.foldl (%s)\n%s  (%s) (%s)\n' % (pad, tmp, accT, lam, pad, init, listterm)
        if len(names) > 1:
            for i, nm in enumerate(names):
                out += '%slet %s := %s\n' % (pad, nm, proj(tmp, i, len(names)))
        return out + render(body, monadic, ind, retconv)
    raise AssertionError(k)


class Tr:
    def __init__(self, fn):
        self.fn = fn

    # ------------------------------------------------------------ expressions
    # expr(node, env, binds) -> (lean term, type).  binds: list collecting (name, option term) of partial operations in evaluation
    # order, or None where a partial operation is not allowed (under a short-circuit).

    def partial(self, node, binds, optterm):
        if binds is None:
            bad(node, 'an operation that can raise under and / or / a conditional expression')
        nm = self.fn.temp()
        binds.append((nm, optterm))
        return nm

    def expr(self, node, env, binds):
        fn = self.fn
        if isinstance(node, ast.Constant):
            if node.value is None:
                return 'none', NONE
            if isinstance(node.value, float) or not isinstance(node.value, (bool, int, str, bytes)):
                bad(node, 'literal of type %s' % type(node.value).__name__)
            return lit(node.value, node)
        if isinstance(node, (ast.List, ast.Tuple)) and isinstance(node.ctx, ast.Load):
            try:
                return lit(literal_value(node), node)
            except ValueError:
                pass
            items = [self.expr(e, env, binds) for e in node.elts]
            if isinstance(node, ast.Tuple):
                if len(items) < 2:
                    bad(node, 'tuple of fewer than two values')
                return '(' + ', '.join(i[0] for i in items) + ')', ttuple([i[1] for i in items])
            if not items or any(i[1] != items[0][1] for i in items) or items[0][1] not in (INT, STR):
                bad(node, 'list display with mixed or unsupported element types')
            return '[' + ', '.join(i[0] for i in items) + ']', tlist(items[0][1])
        if isinstance(node, ast.Name):
            if node.id in env:
                return env[node.id]
            if node.id in fn.module_consts:
                return lit(fn.module_consts[node.id], node)
            bad(node, 'unknown name %s (not a local, not a literal module-level constant)' % node.id)
        if isinstance(node, ast.Attribute):
            return self.attribute(node, env)
        if isinstance(node, ast.BoolOp):
            parts = []
            for i, v in enumerate(node.values):
                c, t = self.expr(v, env, binds if i == 0 else None)
                if t != BOOL:
                    bad(v, 'operand of and / or that is not a bool')
                parts.append(c)
            op = ' && ' if isinstance(node.op, ast.And) else ' || '
            return '(' + op.join(parts) + ')', BOOL
        if isinstance(node, ast.UnaryOp):
            c, t = self.expr(node.operand, env, binds)
            if isinstance(node.op, ast.Not):
                if t != BOOL:
                    bad(node, '`not` of a value that is not a bool')
                return '(!%s)' % c, BOOL
            if t != INT:
                bad(node, 'unary operator on a value that is not an int')
            if isinstance(node.op, ast.USub):
                return '(-%s)' % c, INT
            if isinstance(node.op, ast.UAdd):
                return c, INT
            if isinstance(node.op, ast.Invert):
                return '(-%s - 1)' % c, INT
            bad(node, 'unary operator')
        if isinstance(node, ast.Compare):
            return self.compare(node, env, binds)
        if isinstance(node, ast.BinOp):
            return self.binop(node, env, binds)
        if isinstance(node, ast.IfExp):
            c, tc = self.expr(node.test, env, binds)
            if tc != BOOL:
                bad(node, 'condition that is not a bool')
            a, ta = self.expr(node.body, env, None)
            b, tb = self.expr(node.orelse, env, None)
            if ta != tb:
                bad(node, 'conditional expression with branches of different types')
            return '(if %s then %s else %s)' % (c, a, b), ta
        if isinstance(node, ast.Call):
            return self.call(node, env, binds)
        if isinstance(node, ast.Subscript):
            return self.subscript(node, env, binds)
        bad(node, 'expression %s is outside the subset' % type(node).__name__)

    def attribute(self, node, env):
        fn = self.fn
        if not isinstance(node.value, ast.Name):
            bad(node, 'attribute of an expression')
        base, attr = node.value.id, node.attr
        if base in ('self', 'cls') and base not in env:
            key = 'self.' + attr
            if key in env:
                return env[key]
            for cls in reversed(fn.classes):
                consts = constants_of(cls)
                if attr in consts:
                    return lit(consts[attr], node)
            bad(node, '%s.%s is neither a declared attribute nor a literal class-level constant' % (base, attr))
        if base in env:
            bad(node, 'attribute of a local')
        for cls in fn.classes:
            if cls.name == base:
                consts = constants_of(cls)
                if attr in consts:
                    return lit(consts[attr], node)
                bad(node, '%s.%s is not a literal class-level constant' % (base, attr))
        if base in fn.imports:
            kind, fname, cname = fn.imports[base]
            if kind == 'class':
                return fn.class_const(fname, cname, attr, node)
            try:
                consts = constants_of(Source.tree(fname))
            except OSError:
                bad(node, 'module %s not found' % fname)
            if attr in consts:
                return lit(consts[attr], node)
            bad(node, '%s.%s is not a literal module-level constant' % (base, attr))
        bad(node, 'attribute %s.%s' % (base, attr))

    def compare(self, node, env, binds):
        operands = [node.left] + list(node.comparators)
        vals = []
        for i, o in enumerate(operands):
            # in a chain the operands after the second are evaluated only if the earlier comparisons hold
            vals.append((o,) + self.expr(o, env, binds if i < 2 else None))
        parts = []
        for i, op in enumerate(node.ops):
            (na, a, ta), (nb, b, tb) = vals[i], vals[i + 1]
            if isinstance(op, (ast.Is, ast.IsNot)):
                pos = isinstance(op, ast.Is)
                if tb == NONE and ta[0] == 'opt':
                    parts.append('%s.%s' % (a, 'isNone' if pos else 'isSome'))
                elif tb == BOOL and ta == BOOL and isinstance(nb, ast.Constant):
                    parts.append('(%s %s %s)' % (a, '==' if pos else '!=', b))
                else:
                    bad(node, '`is` other than with None on an Optional or with True / False on a bool')
            elif isinstance(op, (ast.Eq, ast.NotEq)):
                if ta != tb or ta == NONE or ta[0] in ('opt', 'tuple'):
                    bad(node, '== / != between values of different or unsupported types')
                parts.append('(%s %s %s)' % (a, '==' if isinstance(op, ast.Eq) else '!=', b))
            elif isinstance(op, (ast.Lt, ast.LtE, ast.Gt, ast.GtE)) and ta == STR and tb == STR:
                parts.append({ast.Lt: '(Text.ltStr %s %s)', ast.Gt: '(Text.ltStr %s %s)', ast.LtE: '(!(Text.ltStr %s %s))', ast.GtE: '(!(Text.ltStr %s %s))'}[type(op)]
                             % ((a, b) if isinstance(op, (ast.Lt, ast.GtE)) else (b, a)))
            elif isinstance(op, (ast.Lt, ast.LtE, ast.Gt, ast.GtE)):
                if ta != INT or tb != INT:
                    bad(node, 'ordering comparison of values that are not ints')
                sym = {ast.Lt: '<', ast.LtE: '≤', ast.Gt: '>', ast.GtE: '≥'}[type(op)]
                parts.append('decide (%s %s %s)' % (a, sym, b))
            elif isinstance(op, (ast.In, ast.NotIn)):
                if tb[0] != 'list' or tb[1] != ta:
                    bad(node, '`in` whose right-hand side is not a list of the left-hand type')
                if not isinstance(nb, (ast.List, ast.Tuple, ast.Attribute, ast.Name)):
                    bad(node, '`in` a computed container')
                c = '(%s).contains %s' % (b, a)
                parts.append('(%s)' % c if isinstance(op, ast.In) else '(!(%s))' % c)
            else:
                bad(node, 'comparison operator')
        return (parts[0] if len(parts) == 1 else '(' + ' && '.join(parts) + ')'), BOOL

    def binop(self, node, env, binds):
        op = node.op
        # `[v] * n`
        if isinstance(op, ast.Mult) and isinstance(node.left, ast.List) and len(node.left.elts) == 1:
            v, tv = self.expr(node.left.elts[0], env, binds)
            n, tn = self.expr(node.right, env, binds)
            if tn != INT or tv not in (INT, STR):
                bad(node, 'list repetition outside the subset')
            return '(Py.replicate %s %s)' % (n, v), tlist(tv)
        if isinstance(op, ast.Mod) and isinstance(node.left, ast.Constant) and isinstance(node.left.value, str):
            return self.percent_format(node, env, binds)
        a, ta = self.expr(node.left, env, binds)
        b, tb = self.expr(node.right, env, binds)
        if isinstance(op, ast.Add) and ta == tb and (ta in (STR, BYTES) or ta[0] == 'list'):
            return '(%s ++ %s)' % (a, b), ta
        if ta != INT or tb != INT:
            bad(node, 'binary operator on operands that are not both ints (%s, %s)' % (ta[0], tb[0]))
        try:
            rlit = literal_value(node.right)
            rlit = rlit if type(rlit) is int else None
        except ValueError:
            rlit = None
        if isinstance(op, ast.Add):
            return '(%s + %s)' % (a, b), INT
        if isinstance(op, ast.Sub):
            return '(%s - %s)' % (a, b), INT
        if isinstance(op, ast.Mult):
            return '(%s * %s)' % (a, b), INT
        if isinstance(op, (ast.FloorDiv, ast.Mod)):
            div = isinstance(op, ast.FloorDiv)
            if rlit is not None and rlit > 0:
                # Int `/` and `%` round toward minus infinity for a positive divisor, as Python does
                return '(%s %s %s)' % (a, '/' if div else '%', b), INT
            if rlit is not None and rlit < 0:
                return '(%s %s %s)' % ('Int.fdiv' if div else 'Int.fmod', a, b), INT
            return self.partial(node, binds, '%s %s %s' % ('Py.floordiv' if div else 'Py.mod', a, b)), INT
        if isinstance(op, (ast.LShift, ast.RShift)):
            left = isinstance(op, ast.LShift)
            if rlit is not None and rlit >= 0:
                return '(%s %s (%d : Nat))' % (a, '<<<' if left else '>>>', rlit), INT
            return self.partial(node, binds, '%s %s %s' % ('Py.shl' if left else 'Py.shr', a, b)), INT
        if isinstance(op, ast.BitAnd):
            return '(Py.band %s %s)' % (a, b), INT
        if isinstance(op, ast.BitOr):
            return '(Py.bor %s %s)' % (a, b), INT
        if isinstance(op, ast.BitXor):
            return '(Py.bxor %s %s)' % (a, b), INT
        bad(node, 'binary operator %s' % type(op).__name__)

    def percent_format(self, node, env, binds):
        tmpl = node.left.value
        argn = list(node.right.elts) if isinstance(node.right, ast.Tuple) else [node.right]
        args = [self.expr(a, env, binds) for a in argn]
        out, i, n, lit_run = [], 0, 0, ''
        while i < len(tmpl):
            ch = tmpl[i]
            if ch != '%':
                lit_run += ch
                i += 1
                continue
            if i + 1 >= len(tmpl):
                bad(node, 'format template ending in %')
            spec = tmpl[i + 1]
            i += 2
            if spec == '%':
                lit_run += '%'
                continue
            if spec not in 'dus':
                bad(node, 'format specification %%%s is outside the subset (only %%d %%u %%s %%%%)' % spec)
            if n >= len(args):
                bad(node, 'more format fields than arguments')
            c, t = args[n]
            n += 1
            if lit_run:
                out.append(lit(lit_run, node)[0])
                lit_run = ''
            if spec in 'du':
                if t != INT:
                    bad(node, '%%%s of a value that is not an int' % spec)
                out.append('(Py.fmtD %s)' % c)
            else:
                if t != STR:
                    bad(node, '%s of a value that is not a str')
                out.append(c)
        if n != len(args):
            bad(node, 'more arguments than format fields')
        if lit_run:
            out.append(lit(lit_run, node)[0])
        return ('(' + ' ++ '.join(out) + ')' if out else '([] : Str)'), STR

    def call(self, node, env, binds):
        if node.keywords:
            bad(node, 'keyword arguments')
        f = node.func
        if isinstance(f, ast.Name) and f.id not in env:
            args = [self.expr(a, env, binds) for a in node.args]
            if f.id == 'len' and len(args) == 1 and (args[0][1] in (STR, BYTES) or args[0][1][0] == 'list'):
                return '(Int.ofNat (%s).length)' % args[0][0], INT
            if f.id == 'ord' and len(args) == 1 and args[0][1] in (STR, BYTES):
                return self.partial(node, binds, '%s %s' % ('Py.ordS' if args[0][1] == STR else 'Py.ordB', args[0][0])), INT
            if f.id == 'bool' and len(args) == 1 and args[0][1] == BOOL:
                return args[0][0], BOOL
            if f.id in ('min', 'max') and len(args) == 2 and args[0][1] == INT and args[1][1] == INT:
                return '(%s %s %s)' % (f.id, args[0][0], args[1][0]), INT
            if f.id == 'int':
                bad(node, 'int(): parsing as CPython does (Unicode digits, white space, sign, underscores) is not modelled')
            bad(node, 'call of %s' % f.id)
        if isinstance(f, ast.Attribute):
            meth = f.attr
            if meth == 'format' and isinstance(f.value, ast.Constant) and isinstance(f.value.value, str):
                tmpl = f.value.value
                pieces = tmpl.split('{}')
                if '{' in ''.join(pieces) or '}' in ''.join(pieces):
                    bad(node, 'format template with anything but plain {} fields')
                args = [self.expr(a, env, binds) for a in node.args]
                if len(args) != len(pieces) - 1 or any(t != STR for _, t in args):
                    bad(node, 'format arguments that are not exactly one str per {} field')
                out = []
                for i, p in enumerate(pieces):
                    if p:
                        out.append(lit(p, node)[0])
                    if i < len(args):
                        out.append(args[i][0])
                return ('(' + ' ++ '.join(out) + ')' if out else '([] : Str)'), STR
            recv, tr_ = self.expr(f.value, env, binds)
            args = [self.expr(a, env, binds) for a in node.args]
            if meth in ('startswith', 'endswith') and tr_ in (STR,) and len(args) == 1 and args[0][1] == STR:
                return '(Text.%s %s %s)' % ('startsWith' if meth == 'startswith' else 'endsWith', recv, args[0][0]), BOOL
            if meth == 'join' and tr_ == STR and len(args) == 1 and args[0][1] == tlist(STR):
                return '(Text.join %s %s)' % (recv, args[0][0]), STR
            if meth == 'index' and tr_[0] == 'list' and len(args) == 1 and args[0][1] == tr_[1]:
                return self.partial(node, binds, 'Py.indexOf %s %s' % (recv, args[0][0])), INT
            bad(node, 'method call .%s(...) is outside the subset' % meth)
        bad(node, 'call')

    def subscript(self, node, env, binds):
        xs, tx = self.expr(node.value, env, binds)
        if not (tx in (STR, BYTES) or tx[0] == 'list'):
            bad(node, 'subscript of a value that is not a str / bytes / list')
        sl = node.slice
        if isinstance(sl, ast.Slice):
            if sl.step is not None:
                bad(node, 'slice with a step')
            lo = self.expr(sl.lower, env, binds) if sl.lower is not None else None
            hi = self.expr(sl.upper, env, binds) if sl.upper is not None else None
            for b_ in (lo, hi):
                if b_ is not None and b_[1] != INT:
                    bad(node, 'slice bound that is not an int')
            if lo is None and hi is None:
                return xs, tx
            if hi is None:
                return '(Py.sliceFrom %s %s)' % (xs, lo[0]), tx
            if lo is None:
                return '(Py.sliceTo %s %s)' % (xs, hi[0]), tx
            return '(Py.slice %s %s %s)' % (xs, lo[0], hi[0]), tx
        i, ti = self.expr(sl, env, binds)
        if ti != INT:
            bad(node, 'index that is not an int')
        got = self.partial(node, binds, 'Py.getItem %s %s' % (xs, i))
        if tx == STR:
            return '[%s]' % got, STR
        if tx == BYTES:
            return '(Int.ofNat (%s).toNat)' % got, INT
        return got, tx[1]

    # ------------------------------------------------------------ statements

    @staticmethod
    def wrap(binds, tree):
        for nm, term in reversed(binds):
            tree = ('bind', nm, term, tree)
        return tree

    @staticmethod
    def contains_return(stmts):
        for s in stmts:
            for n in ast.walk(s):
                if isinstance(n, ast.Return):
                    return True
        return False

    def assigned(self, stmts):
        """names (and self.attr keys) assigned anywhere in the statements, in first-assignment order"""
        out = []

        def add(t):
            if isinstance(t, ast.Name):
                if t.id not in out:
                    out.append(t.id)
            elif isinstance(t, ast.Attribute) and isinstance(t.value, ast.Name) and t.value.id == 'self':
                if 'self.' + t.attr not in out:
                    out.append('self.' + t.attr)
            elif isinstance(t, ast.Tuple):
                for e in t.elts:
                    add(e)
            elif isinstance(t, ast.Subscript):
                add(t.value)
        for s in stmts:
            for n in ast.walk(s):
                if isinstance(n, ast.Assign):
                    for t in n.targets:
                        add(t)
                elif isinstance(n, (ast.AugAssign, ast.AnnAssign)):
                    add(n.target)
                elif isinstance(n, ast.For):
                    add(n.target)
                elif isinstance(n, ast.Expr) and isinstance(n.value, ast.Call) and isinstance(n.value.func, ast.Attribute) \
                        and n.value.func.attr in ('append', 'extend') and isinstance(n.value.func.value, ast.Name):
                    add(n.value.func.value)
        return out

    def target_key(self, t):
        if isinstance(t, ast.Name):
            return t.id
        if isinstance(t, ast.Attribute) and isinstance(t.value, ast.Name) and t.value.id == 'self' and ('self.' + t.attr) in self.fn.opts.get('_selfattrs', ()):
            return 'self.' + t.attr
        bad(t, 'assignment target outside the subset')

    def bind_var(self, key, term, typ, env, rest_tree_fn):
        """let <fresh> := term; continue with env[key] = (fresh, typ)"""
        if typ == NONE:
            raise Untranslatable('a local bound to None only (type unknown)')
        nm = self.fn.fresh(key)
        env2 = dict(env)
        env2[key] = (nm, typ)
        return ('let', nm, term, rest_tree_fn(env2))

    def block(self, stmts, env, k):
        if not stmts:
            return k(env)
        s, rest = stmts[0], stmts[1:]
        if isinstance(s, ast.Expr) and isinstance(s.value, ast.Constant) and isinstance(s.value.value, str):
            return self.block(rest, env, k)
        if isinstance(s, ast.Pass):
            return self.block(rest, env, k)
        if isinstance(s, ast.Expr) and isinstance(s.value, ast.Call) and isinstance(s.value.func, ast.Attribute) \
                and s.value.func.attr in ('append', 'extend') and isinstance(s.value.func.value, ast.Name):
            call = s.value
            key = call.func.value.id
            if key not in env or env[key][1][0] != 'list' or len(call.args) != 1 or call.keywords:
                bad(s, '.%s() on something that is not a list local' % call.func.attr)
            binds = []
            v, tv = self.expr(call.args[0], env, binds)
            lt = env[key][1]
            if call.func.attr == 'append':
                if tv != lt[1]:
                    bad(s, 'append of a value of another type')
                term = '(%s ++ [%s])' % (env[key][0], v)
            else:
                if tv != lt:
                    bad(s, 'extend by a value of another type')
                term = '(%s ++ %s)' % (env[key][0], v)
            return self.wrap(binds, self.bind_var(key, term, lt, env, lambda e: self.block(rest, e, k)))
        if isinstance(s, ast.Return):
            if s.value is None:
                bad(s, 'return without a value')
            binds = []
            c, t = self.expr(s.value, env, binds)
            return self.wrap(binds, ('ret', c, t))
        if isinstance(s, ast.AnnAssign):
            if s.value is None:
                return self.block(rest, env, k)
            s2 = ast.Assign(targets=[s.target], value=s.value)
            ast.copy_location(s2, s)
            want = parse_annotation(s.annotation)
            binds = []
            c, t = self.expr(s.value, env, binds)
            if t != want and not (want[0] == 'opt' and (t == NONE or t == want[1])):
                bad(s, 'annotated assignment whose value has another type')
            if want[0] == 'opt' and t != want:
                c, t = ('none' if t == NONE else '(some %s)' % c), want
            key = self.target_key(s.target)
            return self.wrap(binds, self.bind_var(key, c, t, env, lambda e: self.block(rest, e, k)))
        if isinstance(s, ast.AugAssign):
            s2 = ast.Assign(targets=[s.target], value=ast.BinOp(left=self.as_load(s.target), op=s.op, right=s.value))
            ast.copy_location(s2, s)
            ast.fix_missing_locations(s2)
            return self.block([s2] + rest, env, k)
        if isinstance(s, ast.Assign):
            if len(s.targets) != 1:
                # a = b = v: v is evaluated once, then bound left to right
                if not all(isinstance(t, ast.Name) for t in s.targets):
                    bad(s, 'chained assignment to something other than plain names')
                binds = []
                c, t = self.expr(s.value, env, binds)
                if t[0] == 'list' or t == NONE:
                    bad(s, 'chained assignment of a list (two names would share it) or of None')
                keys = [self.target_key(t_) for t_ in s.targets]
                for key in keys:
                    if key in env and env[key][1] != t:
                        bad(s, 'local %s changes its type' % key)

                def chain2(i, e):
                    if i == len(keys):
                        return self.block(rest, e, k)
                    return self.bind_var(keys[i], c, t, e, lambda e2: chain2(i + 1, e2))
                return self.wrap(binds, chain2(0, env))
            tgt = s.targets[0]
            if isinstance(tgt, ast.Tuple):
                if not isinstance(s.value, ast.Tuple) or len(s.value.elts) != len(tgt.elts):
                    bad(s, 'tuple assignment whose right-hand side is not a tuple display of the same length')
                binds = []
                vals = [self.expr(v, env, binds) for v in s.value.elts]      # all right-hand sides in the old environment
                keys = [self.target_key(t) for t in tgt.elts]
                if len(set(keys)) != len(keys):
                    bad(s, 'tuple assignment with a repeated target')

                def chain(i, e):
                    if i == len(keys):
                        return self.block(rest, e, k)
                    return self.bind_var(keys[i], vals[i][0], vals[i][1], e, lambda e2: chain(i + 1, e2))
                # the fresh names never clash with the names the right-hand sides mention (SSA)
                return self.wrap(binds, chain(0, env))
            if isinstance(tgt, ast.Subscript):
                key = self.target_key(tgt.value)
                if key not in env or env[key][1][0] != 'list':
                    bad(s, 'item assignment to something that is not a list local')
                if isinstance(tgt.slice, ast.Slice):
                    bad(s, 'slice assignment')
                binds = []
                i, ti = self.expr(tgt.slice, env, binds)
                v, tv = self.expr(s.value, env, binds)
                if ti != INT or tv != env[key][1][1]:
                    bad(s, 'item assignment with an index that is not an int or a value of another type')
                nm = self.fn.fresh(key)
                env2 = dict(env)
                env2[key] = (nm, env[key][1])
                return self.wrap(binds, ('bind', nm, 'Py.setItem %s %s %s' % (env[key][0], i, v), self.block(rest, env2, k)))
            key = self.target_key(tgt)
            binds = []
            c, t = self.expr(s.value, env, binds)
            if t[0] == 'list' and isinstance(s.value, ast.Name) and s.value.id in env:
                bad(s, 'a list local bound to another list local (the two names would share one list)')
            if key in env and env[key][1] != t:
                old = env[key][1]
                if old[0] == 'opt' and (t == NONE or t == old[1]):
                    c, t = ('none' if t == NONE else '(some %s)' % c), old
                else:
                    bad(s, 'local %s changes its type' % key)
            return self.wrap(binds, self.bind_var(key, c, t, env, lambda e: self.block(rest, e, k)))
        if isinstance(s, ast.If):
            return self.if_stmt(s, rest, env, k)
        if isinstance(s, ast.For):
            return self.for_stmt(s, rest, env, k)
        bad(s, 'statement %s is outside the subset' % type(s).__name__)

    @staticmethod
    def as_load(t):
        import copy
        t2 = copy.deepcopy(t)
        for n in ast.walk(t2):
            if hasattr(n, 'ctx'):
                n.ctx = ast.Load()
        return t2

    def narrowing(self, test, env):
        """('some' | 'none' | 'none_or', key, remaining test or None) if the test is `X is not None [and ...]` / `X is None [or ...]` for an Optional local X"""
        first, more, conn = test, None, None
        if isinstance(test, ast.BoolOp):
            conn = type(test.op)
            first = test.values[0]
            more = test.values[1] if len(test.values) == 2 else ast.BoolOp(op=test.op, values=test.values[1:])
        if isinstance(first, ast.Compare) and len(first.ops) == 1 and isinstance(first.ops[0], (ast.Is, ast.IsNot)) \
                and isinstance(first.comparators[0], ast.Constant) and first.comparators[0].value is None \
                and isinstance(first.left, ast.Name) and first.left.id in env and env[first.left.id][1][0] == 'opt':
            pos = isinstance(first.ops[0], ast.IsNot)
            if more is None:
                return ('some' if pos else 'none'), first.left.id, None
            if pos and conn is ast.And:
                return 'some', first.left.id, more
            if not pos and conn is ast.Or:
                return 'none_or', first.left.id, more
        return None

    def if_stmt(self, s, rest, env, k):
        if self.contains_return([s]):
            then_fn = lambda e: self.block(list(s.body) + rest, e, k)
            else_fn = lambda e: self.block(list(s.orelse) + rest, e, k)
            return self.branch(s, env, then_fn, else_fn)
        # no return inside: the locals assigned in the branches are merged
        names = self.assigned([s])
        merged, types = [], []
        for key in names:
            in_body = key in self.assigned(s.body)
            in_else = key in self.assigned(s.orelse)
            if key in env or (in_body and in_else):
                merged.append(key)
            # a local bound in one branch only and not before is dropped: a later use of it is an unknown name (untranslatable)
        if not merged:
            if all(isinstance(x, ast.Pass) for x in list(s.body) + list(s.orelse)):
                return self.block(rest, env, k)
            bad(s, 'an if that neither returns nor assigns a local that is defined afterwards')

        def leaf(e):
            vals = []
            for key in merged:
                if key not in e:
                    raise Untranslatable('local %s may be unbound after an if' % key)
                vals.append(e[key])
            leaf.types.append([v[1] for v in vals])
            return ('ret', tuple_term([v[0] for v in vals]), ttuple([v[1] for v in vals]) if len(vals) > 1 else vals[0][1])
        leaf.types = []
        sub = self.branch(s, env, lambda e: self.block(list(s.body), e, leaf), lambda e: self.block(list(s.orelse), e, leaf))
        ts = leaf.types[0]
        if any(t != ts for t in leaf.types):
            bad(s, 'a local has different types in the branches of an if')
        fresh = [self.fn.fresh(key) for key in merged]
        env2 = dict(env)
        for key, nm, t in zip(merged, fresh, ts):
            env2[key] = (nm, t)
        return ('sub', fresh, ts, sub, self.block(rest, env2, k))

    def branch(self, s, env, then_fn, else_fn):
        nar = self.narrowing(s.test, env)
        if nar is not None:
            kind, key, more = nar
            old, ot = env[key]
            nm = self.fn.fresh(key)
            env_some = dict(env)
            env_some[key] = (nm, ot[1])
            if kind == 'some':
                if more is None:
                    return ('matchopt', old, nm, then_fn(env_some), else_fn(env))
                binds = []
                c, t = self.expr(more, env_some, binds)
                if t != BOOL:
                    bad(s, 'if test that is not a bool')
                return ('matchopt', old, nm, self.wrap(binds, ('if', c, then_fn(env_some), else_fn(env_some))), else_fn(env))
            if kind == 'none_or':
                # `X is None or REST`: X is None -> body; otherwise REST (which may read X) decides
                binds = []
                c, t = self.expr(more, env_some, binds)
                if t != BOOL:
                    bad(s, 'if test that is not a bool')
                return ('matchopt', old, nm, self.wrap(binds, ('if', c, then_fn(env_some), else_fn(env_some))), then_fn(env))
            return ('matchopt', old, nm, else_fn(env_some), then_fn(env))
        binds = []
        c, t = self.expr(s.test, env, binds)
        if t != BOOL:
            bad(s, 'if test that is not a bool')
        return self.wrap(binds, ('if', c, then_fn(env), else_fn(env)))

    def for_stmt(self, s, rest, env, k):
        if s.orelse:
            bad(s, 'for ... else')
        for n in ast.walk(s):
            if isinstance(n, (ast.Return, ast.Break, ast.Continue)):
                bad(n, 'return / break / continue inside a loop')
        if not isinstance(s.target, ast.Name):
            bad(s, 'loop target that is not a plain name')
        if s.target.id in env:
            bad(s, 'loop target that re-uses the name of a local')
        binds = []
        it = s.iter
        if isinstance(it, ast.Call) and isinstance(it.func, ast.Name) and it.func.id == 'range' and 'range' not in env:
            if len(it.args) != 1 or it.keywords:
                bad(s, 'range with more than one argument')
            n, tn = self.expr(it.args[0], env, binds)
            if tn != INT:
                bad(s, 'range of a value that is not an int')
            listterm, elt = 'Py.range %s' % n, INT
        else:
            c, t = self.expr(it, env, binds)
            if t[0] != 'list':
                bad(s, 'loop over something that is not a list / range')
            listterm, elt = c, t[1]
        body_assigned = self.assigned(s.body)
        if s.target.id in body_assigned:
            bad(s, 'loop variable assigned in the loop body')
        carried = [key for key in body_assigned if key in env]
        if not carried:
            bad(s, 'loop that updates no local defined before it')
        if s.target.id in carried:
            bad(s, 'loop variable shadows an updated local')
        types = [env[key][1] for key in carried]
        lamvar = self.fn.fresh(s.target.id)
        env_b = dict(env)
        env_b[s.target.id] = (lamvar, elt)
        pre = []
        for i, key in enumerate(carried):
            nm = self.fn.fresh(key)
            env_b[key] = (nm, types[i])
            pre.append((nm, proj('acc_', i, len(carried))))

        def leaf(e):
            vals = [e[key] for key in carried]
            if [v[1] for v in vals] != types:
                raise Untranslatable('a local changes its type inside a loop')
            return ('ret', tuple_term([v[0] for v in vals]), None)
        body = self.block(list(s.body), env_b, leaf)
        for nm, term in reversed(pre):
            body = ('let', nm, term, body)
        fresh = [self.fn.fresh(key) for key in carried]
        env2 = dict(env)
        # the loop variable and the locals first bound inside the body are dropped after the loop (a later use is untranslatable)
        env2.pop(s.target.id, None)
        for key, nm, t in zip(carried, fresh, types):
            env2[key] = (nm, t)
        inits = [env[key][0] for key in carried]
        return self.wrap(binds, ('loop', fresh, types, lamvar, elt, body, inits, listterm, self.block(rest, env2, k)))


# ---------------------------------------------------------------- statement selectors of the `block` extraction

def statement_lists(func):
    """every statement list inside the function (bodies of if / for / while / with / try), not those of nested defs / classes"""
    out = []

    def visit(stmts):
        out.append(stmts)
        for st in stmts:
            if isinstance(st, (ast.FunctionDef, ast.ClassDef, ast.AsyncFunctionDef)):
                continue
            for field in ('body', 'orelse', 'finalbody'):
                sub = getattr(st, field, None)
                if isinstance(sub, list) and sub and isinstance(sub[0], ast.stmt):
                    visit(sub)
            for h in getattr(st, 'handlers', []) or []:
                visit(h.body)
    visit(func.body)
    return out


def directly_assigns(st, var):
    if isinstance(st, ast.Assign):
        return any(isinstance(t, ast.Name) and t.id == var for t in st.targets) or \
            any(isinstance(t, ast.Tuple) and any(isinstance(e, ast.Name) and e.id == var for e in t.elts) for t in st.targets)
    if isinstance(st, (ast.AugAssign, ast.AnnAssign)):
        return isinstance(st.target, ast.Name) and st.target.id == var
    return False


def names_in(node):
    return {x.id for x in ast.walk(node) if isinstance(x, ast.Name)}


def select_statements(func, selectors):
    """the statements picked by the selectors, which must come out in source order:
         ('assign', var)                    the only statement of the function that assigns the plain name var (any depth)
         ('assign', var, nth, count)        the nth (from 0, in source order) of exactly `count` such statements
         ('if', var, [names])               the only `if` statement (an `elif` is part of its `if`) with a direct assignment to var in its body
                                            and whose test reads exactly the given names
         ('if-assigning', var)              the only `if` statement whose body directly assigns var"""
    lists = statement_lists(func)
    elifs = set()
    for sl in lists:
        for st in sl:
            if isinstance(st, ast.If) and len(st.orelse) == 1 and isinstance(st.orelse[0], ast.If):
                elifs.add(id(st.orelse[0]))
    picked = []
    for sel in selectors:
        hits = []
        for sl in lists:
            for st in sl:
                if sel[0] == 'assign' and directly_assigns(st, sel[1]):
                    hits.append(st)
                elif sel[0] in ('if', 'if-assigning') and isinstance(st, ast.If) and id(st) not in elifs \
                        and any(directly_assigns(b, sel[1]) for b in st.body):
                    if sel[0] == 'if-assigning' or names_in(st.test) == set(sel[2]):
                        hits.append(st)
        hits.sort(key=lambda st: (st.lineno, st.col_offset))
        if sel[0] == 'assign' and len(sel) == 4:
            # ('assign', var, nth, count): the nth of exactly `count` statements assigning var
            if len(hits) != sel[3]:
                raise Untranslatable('selector %r matches %d statements (expected %d)' % (tuple(sel), len(hits), sel[3]))
            picked.append(hits[sel[2]])
            continue
        if len(hits) != 1:
            raise Untranslatable('selector %r matches %d statements (expected exactly one)' % (tuple(sel), len(hits)))
        picked.append(hits[0])
    lines = [st.lineno for st in picked]
    if lines != sorted(lines) or len(set(lines)) != len(lines):
        raise Untranslatable('the selected statements are not in source order')
    return picked


# ---------------------------------------------------------------- one table entry -> Lean def

def unify_returns(tree):
    """the common type of the leaves; returns (type, converter of a leaf to a term of that type)"""
    ls = leaves(tree, [])
    ts = [l[2] for l in ls]
    base = None
    optional = False
    for t in ts:
        if t == NONE:
            optional = True
            continue
        if t[0] == 'opt':
            optional = True
            t = t[1]
        if base is None:
            base = t
        elif base != t:
            raise Untranslatable('return values of different types (%s, %s)' % (base[0], t[0]))
    if base is None:
        raise Untranslatable('the function returns None only')
    if not optional:
        return base, None
    full = topt(base)

    def conv(leaf):
        if leaf[2] == NONE:
            return 'none'
        if leaf[2][0] == 'opt':
            return leaf[1]
        return 'some %s' % leaf[1]
    return full, conv


def fall_off(env):
    raise Untranslatable('a path reaches the end of the function without a return')


def translate_entry(name, fname, qual, opts, known):
    chain = find_def(fname, qual)
    func = chain[-1]
    if not isinstance(func, ast.FunctionDef):
        raise Untranslatable('%s is not a function' % qual)
    opts = dict(opts)
    fn = Fn(fname, chain, opts, known)
    tr = Tr(fn)
    env = {}
    params = []
    kind = opts.get('extract')

    def add_param(pyname, typ):
        nm = fn.fresh(pyname)
        env[pyname] = (nm, typ)
        params.append((nm, typ))

    if kind is None:
        a = func.args
        if a.vararg or a.kwarg or a.kwonlyargs or a.posonlyargs:
            raise Untranslatable('*args / **kwargs / keyword-only parameters')
        plist = list(a.args)
        decos = [d.id for d in func.decorator_list if isinstance(d, ast.Name)]
        if len(decos) != len(func.decorator_list) or any(d not in ('staticmethod', 'classmethod') for d in decos):
            raise Untranslatable('decorator outside the subset')
        in_class = len(chain) >= 3 and isinstance(chain[-2], ast.ClassDef)
        if in_class and 'staticmethod' not in decos:
            if not plist:
                raise Untranslatable('method without self / cls')
            plist = plist[1:]
        for p in plist:
            add_param(p.arg, parse_annotation(p.annotation))
        selfattrs = set()
        for attr, ref in opts.get('attrs', {}).items():
            if ref not in known:
                raise Untranslatable('self.%s is bound to %s, which is not translated' % (attr, ref))
            rt, rpartial = known[ref]
            nm = fn.fresh('self.' + attr)
            env['self.' + attr] = (nm, rt)
            fn.prelude.append((nm, ref, rpartial))
        if 'result_attr' in opts:
            selfattrs.add('self.' + opts['result_attr'])
        opts['_selfattrs'] = selfattrs
        fn.opts = opts
        if 'result_attr' in opts:
            key = 'self.' + opts['result_attr']

            def k(e):
                if key not in e:
                    raise Untranslatable('%s is not assigned' % key)
                return ('ret', e[key][0], e[key][1])
        else:
            k = fall_off
        tree = tr.block(list(func.body), env, k)
    elif kind == 'for-if-test':
        fors = [n for n in ast.walk(func) if isinstance(n, ast.For)]
        if len(fors) != 1:
            raise Untranslatable('expected exactly one for loop, found %d' % len(fors))
        loop = fors[0]
        if not isinstance(loop.target, ast.Name) or len(loop.body) != 1 or not isinstance(loop.body[0], ast.If) or loop.body[0].orelse:
            raise Untranslatable('the loop body is not a single if without else')
        add_param(loop.target.id, type_of_name(opts['params'][0]))
        binds = []
        c, t = tr.expr(loop.body[0].test, env, binds)
        if t != BOOL:
            raise Untranslatable('the test is not a bool')
        tree = Tr.wrap(binds, ('ret', c, BOOL))
    elif kind == 'if-chain':
        var = opts['var']
        hits = []
        for n in ast.walk(func):
            if isinstance(n, ast.If):
                tests, cur = [], n
                while True:
                    tests.append(cur.test)
                    if len(cur.orelse) == 1 and isinstance(cur.orelse[0], ast.If):
                        cur = cur.orelse[0]
                    else:
                        break
                if len(tests) >= 2 and all({x.id for x in ast.walk(t_) if isinstance(x, ast.Name)} == {var} for t_ in tests):
                    hits.append(tests)
        hits = [h for h in hits if not any(len(o) > len(h) and o[-len(h):] == h for o in hits)]     # an elif is not a chain of its own
        if len(hits) != 1:
            raise Untranslatable('expected exactly one if/elif chain over %s alone, found %d' % (var, len(hits)))
        add_param(var, type_of_name(opts['params'][0]))
        tree = ('ret', lit(len(hits[0]))[0], INT)
        for i, t_ in reversed(list(enumerate(hits[0]))):
            binds = []
            c, t = tr.expr(t_, env, binds)
            if binds or t != BOOL:
                raise Untranslatable('a test of the chain can raise or is not a bool')
            tree = ('if', c, ('ret', lit(i)[0], INT), tree)
    elif kind == 'block':
        stmts = select_statements(func, opts['select'])
        for v, tn in opts['free'].items():
            add_param(v, type_of_name(tn))
        outs = opts['out']

        def k_out(e):
            vals = []
            for o in outs:
                if o not in e:
                    raise Untranslatable('%s is not bound at the end of the block' % o)
                vals.append(e[o])
            return ('ret', tuple_term([v[0] for v in vals]) if len(vals) > 1 else vals[0][0],
                    ttuple([v[1] for v in vals]) if len(vals) > 1 else vals[0][1])
        for st in stmts:
            for n in ast.walk(st):
                if isinstance(n, ast.Return):
                    raise Untranslatable('return inside the selected block')
        tree = tr.block(stmts, env, k_out)
    elif kind == 'if-test':
        # the test of the only `if` / `elif` / `while` statement whose test reads exactly the names of the table (`self.x` counts as `self`)
        want = set(opts['names'])
        hits = [n for n in ast.walk(func) if isinstance(n, (ast.If, ast.While)) and names_in(n.test) == want]
        if len(hits) != 1:
            raise Untranslatable('expected exactly one if / while test over %s, found %d' % (sorted(want), len(hits)))
        for v, tn in opts['free'].items():
            if v.startswith('self.'):
                nm = fn.fresh(v)
                env[v] = (nm, type_of_name(tn))
                params.append((nm, type_of_name(tn)))
            else:
                add_param(v, type_of_name(tn))
        binds = []
        c, t = tr.expr(hits[0].test, env, binds)
        if t != BOOL:
            raise Untranslatable('the test is not a bool')
        tree = Tr.wrap(binds, ('ret', c, BOOL))
    elif kind == 'lambda':
        lams = [n for n in ast.walk(func) if isinstance(n, ast.Lambda)]
        if len(lams) != 1:
            raise Untranslatable('expected exactly one lambda, found %d' % len(lams))
        la = lams[0].args
        if la.vararg or la.kwarg or la.kwonlyargs or la.posonlyargs or la.defaults or len(la.args) != len(opts['params']):
            raise Untranslatable('the lambda does not take exactly the %d plain parameters of the table' % len(opts['params']))
        for a_, tn in zip(la.args, opts['params']):
            add_param(a_.arg, type_of_name(tn))
        binds = []
        c, t = tr.expr(lams[0].body, env, binds)
        tree = Tr.wrap(binds, ('ret', c, t))
    elif kind == 'assign-expr':
        var = opts['var']
        hits = [n for n in ast.walk(func) if isinstance(n, ast.Assign) and len(n.targets) == 1 and isinstance(n.targets[0], ast.Name) and n.targets[0].id == var]
        hits += [n for n in ast.walk(func) if isinstance(n, (ast.AugAssign, ast.AnnAssign)) and isinstance(n.target, ast.Name) and n.target.id == var]
        hits.sort(key=lambda n: (n.lineno, n.col_offset))
        want = opts.get('count', 1)
        if len(hits) != want or not all(isinstance(h, ast.Assign) for h in hits):
            raise Untranslatable('expected exactly %d plain assignment(s) to %s, found %d' % (want, var, len(hits)))
        value = hits[opts.get('nth', 0)].value
        free = sorted({x.id for x in ast.walk(value) if isinstance(x, ast.Name)} - {'bool', 'len', 'ord', 'min', 'max'})
        for v in free:
            if v not in opts['free']:
                raise Untranslatable('the right-hand side reads %s, which the table does not type' % v)
        for v in opts['free']:
            add_param(v, type_of_name(opts['free'][v]))
        binds = []
        c, t = tr.expr(value, env, binds)
        tree = Tr.wrap(binds, ('ret', c, t))
    else:
        raise Untranslatable('unknown extraction kind %s' % kind)
    rtype, conv = unify_returns(tree)
    for nm, ref, rpartial in reversed(fn.prelude):
        tree = ('bind', nm, ref, tree) if rpartial else ('let', nm, ref, tree)
    partial = is_partial(tree)
    full = topt(rtype) if partial else rtype
    if partial and rtype[0] == 'opt':
        pass        # Option (Option T): outer none = raises, inner none = returns None
    body = render(tree, partial, 1, conv)
    sig = ' '.join('(%s : %s)' % (nm, lean_type(t)) for nm, t in params)
    src = '%s %s' % (fname, qual) + (' [%s]' % kind if kind else '')
    text = '/-- `%s` -/\ndef %s %s: %s :=\n%s\n' % (src, name, sig + ' ' if sig else '', lean_type(full), body)
    return text, (rtype, partial)


HEADER = '''/- GENERATED by harness/translate_logic.py from the functions of /repo/src/ssh_audit named in its table — do not edit.
   Regenerated on every check that declares GEN_LOGIC; `SshAudit.Props.GenLogic` relates each definition to the hand-written model. -/
import SshAudit.Model.Py
set_option linter.unusedVariables false
namespace SshAudit.Gen.Logic
open SshAudit

'''


def generate():
    """{file name: content}, translated, untranslatable"""
    units = {'Logic': [HEADER]}
    translated, untranslatable, known = [], {}, {}
    for name, fname, qual, opts in FUNCTIONS:
        out = units.setdefault(opts.get('unit', 'Logic'), [HEADER])
        try:
            text, info = translate_entry(name, fname, qual, opts, known)
            known[name] = info
            translated.append(name)
            out.append(text)
        except Untranslatable as e:
            untranslatable[name] = str(e)
        except (OSError, SyntaxError) as e:
            untranslatable[name] = 'source not readable: %s' % type(e).__name__
        except RecursionError:
            untranslatable[name] = 'source too deeply nested'
        if name in untranslatable:
            import re as _re
            # without the line number: an edit elsewhere in the file must not rewrite (and rebuild) the generated module
            out.append('/-- `%s` %s: untranslatable -/\ndef %s : Py.Untranslatable := ⟨%s⟩\n'
                       % (fname, qual, name, json.dumps(_re.sub(r' \(line \d+\)', '', untranslatable[name]))))
    return {u + '.lean': '\n'.join(parts + ['end SshAudit.Gen.Logic\n']) for u, parts in units.items()}, translated, untranslatable


def write_if_changed(path, content):
    try:
        if open(path, encoding='utf-8').read() == content:
            return False
    except FileNotFoundError:
        pass
    with open(path, 'w', encoding='utf-8') as f:
        f.write(content)
    return True


def main():
    files, translated, untranslatable = generate()
    changed = [n for n, text in sorted(files.items()) if write_if_changed(os.path.join(GEN, n), text)]
    units = {name: opts.get('unit', 'Logic') for name, _, _, opts in FUNCTIONS}
    print(json.dumps({'ok': True, 'translated': translated, 'untranslatable': untranslatable, 'changed': changed, 'units': units}))


if __name__ == '__main__':
    main()
