/-
  `audit()` in ssh_audit.py as decision logic: how an audit ends, given how the initial
  handshake went.  (The byte-level session model — receive loops, packet reader, probe
  connections — builds on this in later sections.)  Import-free.
-/
import SshAudit.Model.Wire
import SshAudit.Model.Banner
namespace SshAudit
namespace Session

/-- how the first connection's handshake ended -/
inductive Handshake where
  | connectFailed       -- resolve / connect error (`s.connect()` returned an error string)
  | noBanner            -- no banner line (closed, timed out, only header text)
  | readError           -- `read_packet` returned −1 (closed / timed out before a whole packet)
  | badFraming          -- block-size or length check of `read_packet` failed (`sys.exit(CONNECTION_ERROR)`)
  | wrongPacketType     -- first packet is not KEXINIT / SMSG_PUBLIC_KEY
  | parseFailed         -- `SSH2_Kex.parse` / `SSH1_PublicKeyMessage.parse` raised
  | ok                  -- algorithm lists obtained and parsed
deriving Repr, DecidableEq

inductive Mode where
  | standard | policy | makePolicy
deriving Repr, DecidableEq

structure AuditCfg where
  mode : Mode := .standard
  multiTarget : Bool := false     -- `len(aconf.target_list) > 0`
deriving Repr, DecidableEq

/-- what the later phases computed (only read when the handshake was ok) -/
structure AuditResult where
  reportStatus : Nat      -- `output()`'s return value
  policyPassed : Bool     -- `evaluate_policy()`'s return value
deriving Repr, DecidableEq

structure AuditEnd where
  status : Nat            -- value returned by `audit()` or passed to `sys.exit`
  algReport : Bool        -- an algorithm report (or policy verdict) was produced
  viaSysExit : Bool       -- ended through `sys.exit` rather than `return`
deriving Repr, DecidableEq

/-- `exitcodes.CONNECTION_ERROR` -/
def connectionError : Nat := 1

def auditEnd (cfg : AuditCfg) (h : Handshake) (res : AuditResult) : AuditEnd :=
  match h with
  | .connectFailed => { status := connectionError, algReport := false, viaSysExit := !cfg.multiTarget }
  | .noBanner => { status := connectionError, algReport := false, viaSysExit := false }
  | .readError => { status := connectionError, algReport := false, viaSysExit := false }
  | .badFraming => { status := connectionError, algReport := false, viaSysExit := true }
  | .wrongPacketType => { status := connectionError, algReport := false, viaSysExit := false }
  | .parseFailed => { status := connectionError, algReport := false, viaSysExit := false }
  | .ok =>
    match cfg.mode with
    | .standard => { status := res.reportStatus, algReport := true, viaSysExit := false }
    | .policy => { status := if res.policyPassed then 0 else 3, algReport := true, viaSysExit := false }
    | .makePolicy => { status := 0, algReport := true, viaSysExit := false }

/-! ### the receive side of `SSH_Socket` over an arbitrary finite peer

A peer is, per connection, a finite list of receive events; when the list is exhausted the
connection is closed in an orderly way (`recv` returns `b''`).  Every finite behaviour of a peer
(any bytes, any segmentation, stalls, resets, early close) is such a list. -/

inductive RecvEvent where
  | data (bs : Bytes)      -- `recv` returns these bytes (an empty chunk is what an orderly close looks like)
  | timeout                -- `socket.timeout`
  | error                  -- any other `socket.error`
deriving Repr, DecidableEq

structure Sock where
  buf : Bytes := []                  -- unread bytes (`_buf` from the read position)
  events : List RecvEvent            -- what the peer will still do on this connection
  recvs : Nat := 0                   -- number of `recv()` calls made so far
  stalls : Nat := 0                  -- number of those that ended in a timeout or error
deriving Repr, DecidableEq

inductive RecvRes where
  | got | closed | timedOut | failed
deriving Repr, DecidableEq

/-- `SSH_Socket.recv()` -/
def recv (s : Sock) : RecvRes × Sock :=
  match s.events with
  | [] => (.closed, { s with recvs := s.recvs + 1 })
  | .data bs :: rest =>
    if bs.isEmpty then (.closed, { s with events := rest, recvs := s.recvs + 1 })
    else (.got, { s with buf := s.buf ++ bs, events := rest, recvs := s.recvs + 1 })
  | .timeout :: rest => (.timedOut, { s with events := rest, recvs := s.recvs + 1, stalls := s.stalls + 1 })
  | .error :: rest => (.failed, { s with events := rest, recvs := s.recvs + 1, stalls := s.stalls + 1 })

/-- `ensure_read(size)`: `while unread_len < size: recv()`, raising `InsufficientReadException` when `recv` reports < 0.
    Structural recursion on the peer's remaining events; `fuel` is their number. -/
def ensureReadAux : Nat → Nat → Sock → Option RecvRes × Sock
  | 0, n, s => if s.buf.length ≥ n then (none, s) else (recv s)  |> fun (r, s') => (some r, s')
  | fuel + 1, n, s =>
    if s.buf.length ≥ n then (none, s)
    else
      let (r, s') := recv s
      match r with
      | .got => ensureReadAux fuel n s'
      | other => (some other, s')

/-- `none` = enough bytes are buffered; `some r` = the read could not be satisfied (why) -/
def ensureRead (n : Nat) (s : Sock) : Option RecvRes × Sock := ensureReadAux s.events.length n s

/-- result of `read_packet(2)` -/
inductive PacketRes where
  | packet (type : Nat) (body : Bytes)
  | insufficient (why : RecvRes)       -- the `(-1, message)` return
  | framingExit                        -- block-size / length check failed: message printed, `sys.exit(CONNECTION_ERROR)`
  | typeError                          -- `ord(payload[0:1])` on an empty payload (shown unreachable after the D16 repair)
deriving Repr, DecidableEq

/-- `read_packet(sshv=2)` on a live connection (after the D16 repair): incremental version of `Wire.readPacket` -/
def readPacketS (s : Sock) : PacketRes × Sock :=
  match ensureRead 4 s with
  | (some r, s1) => (.insufficient r, s1)
  | (none, s1) =>
    let plen := Wire.ofBE (Wire.natsOf (s1.buf.take 4))
    let s2 := { s1 with buf := s1.buf.drop 4 }
    match ensureRead 1 s2 with
    | (some r, s3) => (.insufficient r, s3)
    | (none, s3) =>
      match s3.buf with
      | [] => (.insufficient .closed, s3)        -- unreachable: ensureRead 1 succeeded
      | padB :: rest =>
        let pad := padB.toNat
        let s4 := { s3 with buf := rest }
        if (plen + 4) % 8 ≠ 0 ∨ plen < pad + 2 then (.framingExit, s4) else
        let payLen := plen - pad - 1
        match ensureRead payLen s4 with
        | (some r, s5) => (.insufficient r, s5)
        | (none, s5) =>
          let payload := s5.buf.take payLen
          let s6 := { s5 with buf := s5.buf.drop payLen }
          match payload with
          | [] => (.typeError, s6)                        -- unreachable: payLen ≥ 1
          | t :: body =>
            match ensureRead pad s6 with
            | (some r, s7) => (.insufficient r, s7)
            | (none, s7) => (.packet t.toNat body, { s7 with buf := s7.buf.drop pad })

/-- `get_banner()` after the D17 repair: one `recv` at a time; complete lines are consumed as they become available, a
    fragment without LF stays buffered; once the peer has stopped (stall, error, close) what is left is read as final lines -/
def getBannerAux : Nat → List Str → Sock → Option Banner.Banner × List Str × Option RecvRes × Sock
  | 0, h, s => (none, h, some .closed, s)
  | fuel + 1, h, s =>
    let (r, s') := recv s
    match r with
    | .got =>
      match Banner.scan h (Banner.cutLines s'.buf).1 with
      | (some b, h', rest) => (some b, h', none, { s' with buf := rest.flatten ++ (Banner.cutLines s'.buf).2 })
      | (none, h', _) => getBannerAux fuel h' { s' with buf := (Banner.cutLines s'.buf).2 }
    | other =>
      match Banner.scan h (Banner.splitLines s'.buf) with
      | (some b, h', rest) => (some b, h', none, { s' with buf := rest.flatten })
      | (none, h', _) => (none, h', some other, { s' with buf := [] })

def getBannerS (s : Sock) : Option Banner.Banner × List Str × Option RecvRes × Sock := getBannerAux (s.events.length + 1) [] s

/-- the handshake on the first connection, classified as `audit()` distinguishes it -/
def handshakeS (s : Sock) : Handshake × Option Wire.Kex × Sock :=
  match getBannerS s with
  | (none, _, _, s1) => (.noBanner, none, s1)
  | (some _, _, _, s1) =>
    match readPacketS s1 with
    | (.framingExit, s2) => (.badFraming, none, s2)
    | (.typeError, s2) => (.badFraming, none, s2)
    | (.insufficient _, s2) => (.readError, none, s2)
    | (.packet t body, s2) =>
      if t ≠ 20 then (.wrongPacketType, none, s2)
      else match Wire.kexParse body with
        | .ok k => (.ok, some k, s2)
        | .error _ => (.parseFailed, none, s2)

/-! ### probe phases: containment of peer-controlled failures -/

/-- the handlers around the probe exchanges after the D15 repair: `except (Exception, SystemExit)` — every
    exception class the model knows, `sysExit` included, ends the probe and nothing else -/
def catchProbe {α : Type} (r : Except Exn α) : Option α :=
  match r with
  | .ok a => some a
  | .error _ => none

end Session
end SshAudit
