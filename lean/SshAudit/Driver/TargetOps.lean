import SshAudit.Driver.WireOps
import SshAudit.Model.Target
namespace SshAudit.Driver
open SshAudit SshAudit.Target

/-- `-4`/`-6` options in the order written: a token of the characters `4`/`6` (`-` = none) -/
def decFlags (tok : String) : Option (List Nat) :=
  if tok = "-" then some [] else
    tok.toList.mapM (fun c => if c = '4' then some 4 else if c = '6' then some 6 else none)

def decOptInt (tok : String) : Option (Option Int) :=
  if tok = "~" then some none else (decInt tok).map some

/-- resolver table rows `host;af;socktype;ip` -/
def decRow (s : Str) : Option (Str × Nat × Nat × Str) :=
  match Text.splitOn ';' s with
  | [h, af, st, ip] => do
    let af ← Text.parseNat? af
    let st ← Text.parseNat? st
    pure (h, af, st, ip)
  | _ => none

/-- the synthetic resolver of the harness: rows of the asked host, filtered by family when one is
    given; no row = `gaierror`; the sockaddr carries the asked port -/
def tableResolver (tab : List (Str × Nat × Nat × Str)) : Resolver := fun host port fam =>
  let rows := tab.filter (fun r => r.1 == host && (fam == 0 || r.2.1 == fam))
  if rows.isEmpty then none
  else some (rows.map (fun r => { af := r.2.1, stype := r.2.2.1, ip := r.2.2.2, port := port }))

def jevent : Event → J
  | .resolve h p f => .arr [.str "r".toList, .str h, .num p, .nat f]
  | .connect af ip p => .arr [.str "c".toList, .nat af, .str ip, .num p]

def connErrName : ConnErr → String
  | .gai => "gai" | .noRecords => "norecords" | .refused => "refused"

def jreport (r : Report) : J := .obj [
  ("host", .str r.host), ("port", .num r.port), ("text", .str r.text), ("verbose", .str r.verbose),
  ("json", .str r.json), ("err", J.ofOpt (fun e => .str (connErrName e).toList) r.err)]

def jconf (c : Conf) : J := .obj [
  ("host", .str c.host), ("port", .num c.port), ("pref", .arr (c.pref.map J.nat)),
  ("client", .bool c.clientAudit), ("targets", J.ofStrs c.targetList)]

def decArgs (host oport flags client targets : String) : Option Args := do
  let host ← decStr host
  let oport ← decOptInt oport
  let flags ← decFlags flags
  let client ← decBool client
  let targets ← decOptStr targets
  pure { host := host, oport := oport, flags := flags, clientAudit := client, targets := targets }

def targetOp (op : String) (args : List String) : Option J :=
  match op, args with
  | "target.parse", [s, d] => do
      let s ← decStr s; let d ← decInt d
      pure (jres (fun (hp : Str × Int) => .arr [.str hp.1, .num hp.2]) (parseHostPort s d))
  | "target.int", [s] => do
      let s ← decStr s
      pure (match pyInt s with | some i => jok (.str (toString i).toList) | none => jerr .value)
  | "target.strip", [s] => do let s ← decStr s; pure (jok (.str (pyStrip s)))
  | "target.isv6", [s] => do let s ← decStr s; pure (jok (.bool (isIPv6 s)))
  | "target.file", [s] => do let s ← decStr s; pure (jok (J.ofStrs (fileTargets s)))
  | "target.label", [h, p] => do
      let h ← decStr h; let p ← decInt p
      pure (jok (.arr [.str (labelText h p), .str (labelVerbose h p), .str (labelJson h p)]))
  | "target.pref", [f] => do
      let f ← decFlags f
      pure (jok (.arr [.arr ((ipPref f).map J.nat), .nat (familyArg (ipPref f))]))
  | "target.order", [f, rows] => do      -- f: the ip_version_preference list itself (API level)
      let f ← decFlags f
      let rows ← decStrs rows
      let tab ← rows.mapM decRow
      let ans : List AddrInfo := tab.map (fun r => { af := r.2.1, stype := r.2.2.1, ip := r.2.2.2, port := 0 })
      pure (jok (.arr ((resolveOrder f ans).map (fun a => .arr [.nat a.af, .str a.ip]))))
  | "target.cmdline", [host, oport, flags, client, targets] => do
      let a ← decArgs host oport flags client targets
      pure (jres jconf (cmdline a))
  | "target.run", [host, oport, flags, client, targets, rows, ups] => do
      let a ← decArgs host oport flags client targets
      let rows ← decStrs rows
      let tab ← rows.mapM decRow
      let ups ← decStrs ups
      let (evs, r) := mainRun a (tableResolver tab) (fun ai => ups.contains ai.ip)
      pure (.obj [("events", .arr (evs.map jevent)),
                  ("result", jres (fun l => .arr (l.map (jres jreport))) r)])
  | _, _ => none

end SshAudit.Driver
