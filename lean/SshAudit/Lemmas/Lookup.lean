/- Helper lemmas for the `--lookup` model (C03 extension).  Core Lean only. -/
import SshAudit.Model.Lookup
import SshAudit.Lemmas.Report
import SshAudit.Lemmas.Output
import SshAudit.Props.C02
namespace SshAudit.Lookup
open SshAudit.Report
open Output (Cfg Op Item Sec Meth Buf)

/-! ### text primitives -/

theorem splitOn_no_sep (c : Char) : ∀ p : Str, c ∉ p → Text.splitOn c p = [p]
  | [], _ => rfl
  | x :: xs, h => by
    have hx : x ≠ c := by intro e; apply h; simp [e]
    have hxs : c ∉ xs := by intro e; apply h; simp [e]
    simp [Text.splitOn, hx, splitOn_no_sep c xs hxs]

theorem splitOn_append_sep (c : Char) (rest : Str) : ∀ p : Str, c ∉ p → Text.splitOn c (p ++ c :: rest) = p :: Text.splitOn c rest
  | [], _ => by simp [Text.splitOn]
  | x :: xs, h => by
    have hx : x ≠ c := by intro e; apply h; simp [e]
    have hxs : c ∉ xs := by intro e; apply h; simp [e]
    simp [Text.splitOn, hx, splitOn_append_sep c rest xs hxs]

theorem splitOn_ne_nil (c : Char) : ∀ t : Str, Text.splitOn c t ≠ []
  | [] => by simp [Text.splitOn]
  | x :: xs => by
    unfold Text.splitOn
    split
    · simp
    · split <;> simp

theorem isPrefixOf_iff (a b : Str) : a.isPrefixOf b = true ↔ ∃ q, b = a ++ q := by
  rw [List.isPrefixOf_iff_prefix]
  constructor
  · rintro ⟨q, h⟩; exact ⟨q, h.symm⟩
  · rintro ⟨q, h⟩; exact ⟨q, h.symm⟩

/-- Python's `a in b` on strings -/
theorem hasSub_iff (a : Str) : ∀ b : Str, Text.hasSub a b = true ↔ ∃ p q, b = p ++ a ++ q
  | [] => by
    simp only [Text.hasSub, List.isEmpty_iff]
    constructor
    · intro h; exact ⟨[], [], by simp [h]⟩
    · rintro ⟨p, q, h⟩
      have := congrArg List.length h
      simp at this
      exact List.eq_nil_of_length_eq_zero (by omega)
  | x :: xs => by
    simp only [Text.hasSub, Bool.or_eq_true, isPrefixOf_iff, hasSub_iff a xs]
    constructor
    · rintro (⟨q, h⟩ | ⟨p, q, h⟩)
      · exact ⟨[], q, by simpa using h⟩
      · exact ⟨x :: p, q, by simp [h]⟩
    · rintro ⟨p, q, h⟩
      cases p with
      | nil => left; exact ⟨q, by simpa using h⟩
      | cons y p =>
        right
        simp only [List.cons_append, List.cons.injEq] at h
        exact ⟨p, q, h.2⟩

theorem hasSub_nil (b : Str) : Text.hasSub [] b = true := (hasSub_iff [] b).mpr ⟨[], b, rfl⟩
theorem hasSub_self (b : Str) : Text.hasSub b b = true := (hasSub_iff b b).mpr ⟨[], [], by simp⟩

/-! ### database access -/

theorem contains_false_iff (l : List Str) (n : Str) : l.contains n = false ↔ n ∉ l := by
  rw [← List.contains_iff_mem, Bool.not_eq_true]

theorem mem_dedup (a : Str) : ∀ l : List Str, a ∈ dedup l ↔ a ∈ l
  | [] => by simp [dedup]
  | x :: xs => by
    unfold dedup
    split
    · next h =>
      have hx : x ∈ xs := List.contains_iff_mem.mp h
      rw [mem_dedup a xs]
      constructor
      · exact List.mem_cons_of_mem _
      · intro h'
        rcases List.mem_cons.mp h' with rfl | h''
        · exact hx
        · exact h''
    · simp [mem_dedup a xs]

theorem nodup_dedup : ∀ l : List Str, (dedup l).Nodup
  | [] => List.nodup_nil
  | x :: xs => by
    unfold dedup
    split
    · exact nodup_dedup xs
    · next h =>
      have hx : x ∉ xs := by
        intro hm; exact h (List.contains_iff_mem.mpr hm)
      exact List.nodup_cons.mpr ⟨fun hm => hx ((mem_dedup x xs).mp hm), nodup_dedup xs⟩

/-- as far as `--lookup` is concerned `n` belongs to category `c`: it is a key of `c`, or (`kex`) a gss name whose wildcard form is a key -/
def covers (db : DB) (c n : Str) : Prop := n ∈ DBm.keys db c ∨ (c = kexC ∧ gssKnown db n = true)

theorem mem_gssExtra (db : DB) (names : List Str) (k : Str) : k ∈ gssExtra db names ↔ k ∈ names ∧ gssKnown db k = true ∧ k ∉ DBm.keys db kexC := by
  unfold gssExtra
  rw [mem_dedup, List.mem_filter]
  simp only [Bool.and_eq_true, Bool.not_eq_true', contains_false_iff]

theorem mem_found (db : DB) (names : List Str) (c k : Str) : k ∈ found db names c ↔ k ∈ names ∧ covers db c k := by
  unfold found covers
  rw [List.mem_append, List.mem_filter, List.contains_iff_mem]
  by_cases hc : c = kexC
  · subst hc
    simp only [if_true, mem_gssExtra, true_and]
    constructor
    · rintro (⟨h1, h2⟩ | ⟨h1, h2, _⟩)
      · exact ⟨h2, Or.inl h1⟩
      · exact ⟨h1, Or.inr h2⟩
    · rintro ⟨h1, h2 | h2⟩
      · exact Or.inl ⟨h2, h1⟩
      · by_cases hk : k ∈ DBm.keys db kexC
        · exact Or.inl ⟨hk, h1⟩
        · exact Or.inr ⟨h1, h2, hk⟩
  · simp only [hc, if_false, List.not_mem_nil, or_false, false_and]
    constructor
    · rintro ⟨h1, h2⟩; exact ⟨h2, h1⟩
    · rintro ⟨h1, h2⟩; exact ⟨h2, h1⟩

theorem cat_ne_nil_mem_cats (db : DB) (c : Str) (h : DBm.cat db c ≠ []) : c ∈ cats db := by
  unfold DBm.cat at h
  cases hf : db.find? (fun x => decide (x.1 = c)) with
  | none => rw [hf] at h; exact absurd rfl h
  | some ce =>
    have hm := List.mem_of_find?_eq_some hf
    have hp := List.find?_some hf
    have : ce.1 = c := by simpa using hp
    unfold cats
    exact List.mem_map.mpr ⟨ce, hm, this⟩

theorem mem_keys_mem_cats (db : DB) (c k : Str) (h : k ∈ DBm.keys db c) : c ∈ cats db := by
  apply cat_ne_nil_mem_cats
  intro h0
  unfold DBm.keys at h
  rw [h0] at h
  simp at h

theorem lookup_isSome_of_mem_keys (db : DB) (c k : Str) (h : k ∈ DBm.keys db c) : ∃ e, DBm.lookup db c k = some e := by
  unfold DBm.keys at h
  obtain ⟨e, he, hn⟩ := List.mem_map.mp h
  unfold DBm.lookup
  cases hf : (DBm.cat db c).find? (fun x => decide (x.name = k)) with
  | some e' => exact ⟨e', rfl⟩
  | none =>
    have := List.find?_eq_none.mp hf e he
    simp [hn] at this

theorem mem_keys_of_lookup (db : DB) (c k : Str) (e : Entry) (h : DBm.lookup db c k = some e) : k ∈ DBm.keys db c := by
  unfold DBm.lookup at h
  have hm := List.mem_of_find?_eq_some h
  have hp := List.find?_some h
  have : e.name = k := by simpa using hp
  unfold DBm.keys
  exact List.mem_map.mpr ⟨e, hm, this⟩

theorem gssKnown_lookup (db : DB) (n : Str) (h : gssKnown db n = true) :
    Text.startsWith n (s "gss-") = true ∧ ∃ e, DBm.lookup db kexC (gssNormalize kexC n) = some e := by
  unfold gssKnown at h
  simp only [Bool.and_eq_true, List.contains_iff_mem] at h
  exact ⟨h.1, lookup_isSome_of_mem_keys db kexC _ h.2⟩

theorem covers_mem_cats (db : DB) (c n : Str) (h : covers db c n) : c ∈ cats db := by
  rcases h with h | ⟨rfl, h⟩
  · exact mem_keys_mem_cats db c n h
  · unfold gssKnown at h
    simp only [Bool.and_eq_true, List.contains_iff_mem] at h
    exact mem_keys_mem_cats db kexC _ h.2

/-- a covered name is rated from a database entry unless it is a literal key that the gss rewriting maps away from the keys -/
theorem covers_lookup (db : DB) (c n : Str) (h : covers db c n) (hg : gssNormalize c n = n ∨ n ∉ DBm.keys db c) :
    ∃ e, DBm.lookup db c (gssNormalize c n) = some e := by
  rcases h with h | ⟨rfl, h⟩
  · rcases hg with hg | hg
    · rw [hg]; exact lookup_isSome_of_mem_keys db c n h
    · exact absurd h hg
  · exact (gssKnown_lookup db n h).2

/-! ### lines -/

theorem shownName_unmeasured (rf : List Str) (c n : Str) : shownName rf c n [] [] = n := by
  unfold shownName
  split
  · simp
  · split <;> simp

theorem mem_algLines (rf : List Str) (db : DB) (c : Str) (ns : List Str) (hk : List (Str × HostKeyInfo)) (dh : List (Str × Nat)) (l : AlgLine) :
    l ∈ algLines rf db c ns hk dh ↔
      ∃ n ∈ ns, ∃ ts unk, algTexts db c n = some (ts, unk) ∧ l = { cat := c, name := n, shown := shownName rf c n hk dh, notes := ts, unknown := unk } := by
  unfold algLines
  simp only [List.mem_filterMap, Option.map_eq_some_iff]
  constructor
  · rintro ⟨n, hn, ⟨ts, unk⟩, ht, rfl⟩
    exact ⟨n, hn, ts, unk, ht, rfl⟩
  · rintro ⟨n, hn, ts, unk, ht, rfl⟩
    exact ⟨n, hn, (ts, unk), ht, rfl⟩

theorem mem_sectionLines (o : SetOrder) (ho : o.ok) (db : DB) (names : List Str) (c : Str) (l : AlgLine) :
    l ∈ sectionLines o db names c ↔
      l.name ∈ names ∧ covers db c l.name ∧ algTexts db c l.name = some (l.notes, l.unknown) ∧ l.cat = c ∧ l.shown = l.name := by
  unfold sectionLines
  rw [mem_algLines]
  constructor
  · rintro ⟨n, hn, ts, unk, ht, rfl⟩
    have hn' := (mem_found db names c n).mp ((ho c _).mem_iff.mp hn)
    exact ⟨hn'.1, hn'.2, ht, rfl, shownName_unmeasured [] c n⟩
  · rintro ⟨h1, h2, h3, h4, h5⟩
    refine ⟨l.name, (ho c _).mem_iff.mpr ((mem_found db names c l.name).mpr ⟨h1, h2⟩), l.notes, l.unknown, h3, ?_⟩
    cases l
    simp only [shownName_unmeasured] at *
    simp_all

/-- without any assumption on the order: a line is determined by its category and name -/
theorem sectionLines_line (o : SetOrder) (db : DB) (names : List Str) (c : Str) (l : AlgLine) (h : l ∈ sectionLines o db names c) :
    algTexts db c l.name = some (l.notes, l.unknown) ∧ l.cat = c ∧ l.shown = l.name := by
  unfold sectionLines at h
  rw [mem_algLines] at h
  obtain ⟨n, _, ts, unk, ht, rfl⟩ := h
  exact ⟨ht, rfl, shownName_unmeasured [] c n⟩

/-! ### sections -/

theorem filterMap_fst {α β : Type} (l : List (Str × α)) (p : Str → Bool) (f : Str × α → β) (g : β → Str) (hg : ∀ x, g (f x) = x.1) :
    (l.filterMap (fun ct => if p ct.1 = true then some (f ct) else none)).map g = (l.map (·.1)).filter p := by
  induction l with
  | nil => rfl
  | cons x xs ih =>
    by_cases hp : p x.1 = true
    · simp [hp, hg, ih]
    · simp [hp, ih]

theorem mem_sections (o : SetOrder) (db : DB) (names : List Str) (sc : Section) :
    sc ∈ sections o db names ↔
      ∃ t, (sc.cat, t) ∈ algTypes ∧ found db names sc.cat ≠ [] ∧ sc.title = s "# " ++ t ∧ sc.lines = sectionLines o db names sc.cat := by
  unfold sections
  simp only [List.mem_filterMap]
  constructor
  · rintro ⟨ct, hct, h⟩
    split at h
    · next hl =>
      have hne : found db names ct.1 ≠ [] := by intro h0; rw [h0] at hl; simp at hl
      cases h
      exact ⟨ct.2, hct, hne, rfl, rfl⟩
    · cases h
  · rintro ⟨t, ht, hne, h1, h2⟩
    refine ⟨(sc.cat, t), ht, ?_⟩
    have hl : (found db names sc.cat).length > 0 := List.length_pos_iff.mpr hne
    simp only [hl, if_true]
    cases sc
    simp_all

/-! ### any / membership -/

theorem any_congr_mem {α : Type} (p : α → Bool) (l₁ l₂ : List α) (h : ∀ x, x ∈ l₁ ↔ x ∈ l₂) : l₁.any p = l₂.any p := by
  rw [Bool.eq_iff_iff]
  simp only [List.any_eq_true]
  constructor
  · rintro ⟨x, hx, hp⟩; exact ⟨x, (h x).mp hx, hp⟩
  · rintro ⟨x, hx, hp⟩; exact ⟨x, (h x).mpr hx, hp⟩

/-- boolean duplicate check (cheap to evaluate in the kernel) -/
def nodupB : List Str → Bool
  | [] => true
  | x :: xs => !xs.contains x && nodupB xs

theorem nodupB_spec : ∀ l : List Str, nodupB l = true → l.Nodup
  | [], _ => List.nodup_nil
  | x :: xs, h => by
    simp only [nodupB, Bool.and_eq_true, Bool.not_eq_true', contains_false_iff] at h
    exact List.nodup_cons.mpr ⟨h.1, nodupB_spec xs h.2⟩

/-! ### the buffer machine outside a section -/

/-- items printed outside a section (all with `line_ended=True`) append their painted texts, filtered by level, to the buffer -/
theorem exec_items_out (cfg : Cfg) (items : List Item) (buf : List Str) (w : List (List Str)) :
    Output.exec cfg (items.map Item.op) ⟨buf, [], false, true, w, none⟩ = ⟨buf ++ Output.bodyOf cfg items, [], false, true, w, none⟩ := by
  induction items generalizing buf with
  | nil => simp [Output.exec_nil, Output.bodyOf]
  | cons it rest ih =>
    rw [List.map_cons, Output.exec_cons, Output.bodyOf_cons]
    by_cases h : Output.keep cfg.level it = true
    · have hs : Output.stepG cfg ⟨buf, [], false, true, w, none⟩ it.op = ⟨buf ++ [Output.paint cfg.colors it.meth it.text], [], false, true, w, none⟩ := by
        simp only [Output.keep] at h
        simp [Output.stepG, Output.step, Item.op, Output.doPrint, h]
      rw [hs, ih, if_pos h, List.append_assoc]
    · have hs : Output.stepG cfg ⟨buf, [], false, true, w, none⟩ it.op = ⟨buf, [], false, true, w, none⟩ := by
        simp only [Output.keep, Bool.not_eq_true] at h
        simp [Output.stepG, Output.step, Item.op, Output.doPrint, h]
      rw [hs, ih, if_neg h, List.nil_append]

theorem exec_head (cfg : Cfg) (t : Str) (buf : List Str) (w : List (List Str)) :
    Output.exec cfg [Op.head t true] ⟨buf, [], false, true, w, none⟩ = ⟨buf ++ headLine cfg t, [], false, true, w, none⟩ := by
  cases hb : cfg.batch <;>
    simp [Output.exec_cons, Output.exec_nil, Output.stepG, Output.step, Output.doHead, Output.doPrint, headLine, hb, Output.passes_head]

theorem exec_sep (cfg : Cfg) (buf : List Str) (w : List (List Str)) :
    Output.exec cfg [Op.sep] ⟨buf, [], false, true, w, none⟩ = ⟨buf ++ sepLine cfg, [], false, true, w, none⟩ := by
  cases hb : cfg.batch
  · by_cases hp : Output.passes cfg.level .info false = true
    · simp [Output.exec_cons, Output.exec_nil, Output.stepG, Output.step, Output.doSep, Output.doPrint, sepLine, hb, hp, Output.paint_nil]
    · simp only [Bool.not_eq_true] at hp
      simp [Output.exec_cons, Output.exec_nil, Output.stepG, Output.step, Output.doSep, Output.doPrint, sepLine, hb, hp]
  · simp [Output.exec_cons, Output.exec_nil, Output.stepG, Output.step, Output.doSep, sepLine, hb]

/-- a headed block outside a section -/
theorem exec_block (cfg : Cfg) (t : Str) (items : List Item) (buf : List Str) (w : List (List Str)) :
    Output.exec cfg (Op.head t true :: items.map Item.op) ⟨buf, [], false, true, w, none⟩ =
      ⟨buf ++ (headLine cfg t ++ Output.bodyOf cfg items), [], false, true, w, none⟩ := by
  have : Op.head t true :: items.map Item.op = [Op.head t true] ++ items.map Item.op := rfl
  rw [this, Output.exec_append, exec_head, exec_items_out, List.append_assoc]

end SshAudit.Lookup
