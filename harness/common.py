"""Shared machinery of the checks: translate, build, axiom audit, driver, evidence, ledger."""
import hashlib
import glob
import json
import os
import random
import re
import subprocess
import sys
import time

HERE = os.path.dirname(os.path.abspath(__file__))
VERIF = os.path.dirname(HERE)
LEAN = os.path.join(VERIF, 'lean')
REPO = os.environ.get('VERIF_REPO', '/repo')
DRIVER = os.path.join(LEAN, '.lake', 'build', 'bin', 'driver')
ALLOWED_AXIOMS = {'propext', 'Classical.choice', 'Quot.sound'}
FORBIDDEN = re.compile(r'\bsorry\b|\badmit\b|^axiom |native_decide|bv_decide|implemented_by|\bunsafe |maxHeartbeats 0', re.M)

TRUSTED_BASE = [
    'Lean 4.33 kernel (thorough tier: also leanchecker on the compiled Props module)',
    'axioms allowed: propext, Classical.choice, Quot.sound (audited by #print axioms on every listed theorem; no native_decide/bv_decide/sorry)',
    'harness/translate.py (tables -> Lean literals), validated each run by the dump-tables round trip',
    'harness/translate_logic.py + lean/SshAudit/Model/Py.lean (Python functions -> Lean definitions, for the functions a plugin lists in GEN_LOGIC): the translator and the Python semantics of its primitives are trusted, not validated',
    'correspondence harness: adapters, generators, fakenet, Lean driver printing; the tie between hand-written model logic and code is differential testing bounded by generator coverage',
    'CPython built-ins/stdlib behaviour (struct, io.BytesIO, re, json, hashlib, socket) is modelled, not verified',
]


def sh(cmd, cwd=None, timeout=None, env=None):
    p = subprocess.run(cmd, cwd=cwd, stdout=subprocess.PIPE, stderr=subprocess.STDOUT, text=True, timeout=timeout, env=env)
    return p.returncode, p.stdout


def repo_src():
    src = os.path.join(REPO, 'src')
    if src not in sys.path:
        sys.path.insert(0, src)
    _start_line_coverage()


_cov_state = {}


def _start_line_coverage():
    """Development aid (VERIF_COV=<directory>): records which lines of /repo/src/ssh_audit the check executes (sys.monitoring, Python 3.12), one
    JSON file per process; `harness/covreport.py` merges them and lists the executable lines no check reaches — the blind spots of the generators."""
    d = os.environ.get('VERIF_COV')
    if not d or _cov_state or not hasattr(sys, 'monitoring'):
        return
    import atexit
    mon = sys.monitoring
    tool = mon.COVERAGE_ID
    try:
        mon.use_tool_id(tool, 'verifcov')
    except ValueError:
        return
    seen = set()
    _cov_state['seen'] = seen

    def on_line(code, line):
        fn = code.co_filename
        if '/ssh_audit/' in fn:
            seen.add((fn, line))
        return mon.DISABLE
    mon.register_callback(tool, mon.events.LINE, on_line)
    mon.set_events(tool, mon.events.LINE)

    def dump():
        os.makedirs(d, exist_ok=True)
        by = {}
        for fn, ln in seen:
            by.setdefault(os.path.basename(fn), []).append(ln)
        json.dump({k: sorted(v) for k, v in by.items()}, open(os.path.join(d, 'cov-%d.json' % os.getpid()), 'w'))
    atexit.register(dump)


# ---------------------------------------------------------------- change-aware budgets

BASELINE_SRC = os.path.join(HERE, 'baseline_src.json')
_src_state = {}


def source_fingerprint(repo=None):
    """{file: sha256 of the comment- and layout-free AST} of /repo/src/ssh_audit/*.py (and the wrapper script)"""
    import ast
    import hashlib
    repo = repo or REPO
    out = {}
    files = sorted(glob.glob(os.path.join(repo, 'src', 'ssh_audit', '*.py'))) + [os.path.join(repo, 'ssh-audit.py')]
    for f in files:
        try:
            tree = ast.parse(open(f, encoding='utf-8').read())
            out[os.path.relpath(f, repo)] = hashlib.sha256(ast.dump(tree, annotate_fields=False, include_attributes=False).encode()).hexdigest()
        except Exception as e:     # a file that does not parse is certainly a change
            out[os.path.relpath(f, repo)] = 'unparsable: %s' % type(e).__name__
    return out


def source_changed():
    """files of the code under test whose AST differs from the baseline this framework was last validated against (harness/baseline_src.json).
    A change is not a violation; it only makes every check spend a larger budget (see Ctx.scale), because a tree that differs from the validated
    one is exactly where a deeper search pays."""
    if os.environ.get('VERIF_FORCE_ESCALATE') == '1':
        return ['<forced by VERIF_FORCE_ESCALATE>']
    if 'changed' not in _src_state:
        try:
            base = json.load(open(BASELINE_SRC))
        except Exception:
            base = None
        cur = source_fingerprint()
        _src_state['changed'] = sorted(k for k in set(cur) | set(base or {}) if base is None or cur.get(k) != base.get(k)) if base is not None else []
    return _src_state['changed']


def scaled(tier, quick, thorough):
    if tier == 'thorough':
        return thorough
    if os.environ.get('VERIF_NO_ESCALATE') != '1' and source_changed() and isinstance(quick, int) and isinstance(thorough, int) and thorough > quick:
        return min(thorough, quick * 4)
    return quick


def translate():
    rc, out = sh([sys.executable, os.path.join(HERE, 'translate.py')], timeout=120)
    if rc != 0:
        return {'ok': False, 'log': out}
    try:
        info = json.loads(out.strip().splitlines()[-1])
    except Exception:
        return {'ok': False, 'log': out}
    info['ok'] = True
    return info


def lake_build(targets, timeout=1500):
    t0 = time.time()
    rc, out = sh(['lake', 'build'] + list(targets), cwd=LEAN, timeout=timeout)
    return {'ok': rc == 0, 'log': out, 'wall_s': time.time() - t0, 'cmd': 'cd lean && lake build ' + ' '.join(targets)}


def theorem_lines(module):
    """name -> (first line, last line) of each theorem in the Props source file (for mapping build errors)."""
    path = os.path.join(LEAN, *module.split('.')) + '.lean'
    src = open(path).read().split('\n')
    decl = re.compile(r'^(?:@\[[^\]]*\]\s*)?(?:private\s+|protected\s+)?(theorem|lemma|def|example|instance|abbrev|structure|inductive)\b\s*([^\s:({\[]*)')
    marks = []
    for i, l in enumerate(src, 1):
        m = decl.match(l)
        if m:
            marks.append((i, m.group(1), m.group(2)))
    spans = {}
    for k, (ln, kind, nm) in enumerate(marks):
        end = marks[k + 1][0] - 1 if k + 1 < len(marks) else len(src)
        if kind == 'theorem':
            spans[nm] = (ln, end)
    return spans, '\n'.join(src)


def grep_forbidden(module_files):
    hits = []
    for path in module_files:
        txt = open(path).read()
        # drop comments
        txt2 = re.sub(r'/-.*?-/', lambda m: '\n' * m.group(0).count('\n'), txt, flags=re.S)
        txt2 = re.sub(r'--[^\n]*', '', txt2)
        for m in FORBIDDEN.finditer(txt2):
            hits.append('%s:%d: %s' % (os.path.relpath(path, VERIF), txt2[:m.start()].count('\n') + 1, m.group(0)))
    return hits


def lean_sources():
    out = []
    for root, _, files in os.walk(os.path.join(LEAN, 'SshAudit')):
        for f in files:
            if f.endswith('.lean'):
                out.append(os.path.join(root, f))
    out.append(os.path.join(LEAN, 'Driver.lean'))
    return out


def audit_theorems(module, namespace, theorems, build):
    """Returns {theorem: {'ok', 'axioms', 'why'}}: compiled? axioms within the allowed set?"""
    res = {t: {'ok': False, 'axioms': None, 'why': 'not checked'} for t in theorems}
    spans, _ = theorem_lines(module)
    for t in theorems:
        if t not in spans:
            res[t]['why'] = 'theorem missing from ' + module
    if not build['ok']:
        relpath = os.path.join(*module.split('.')) + '.lean'
        errs = [(int(m.group(1)), m.group(2)) for m in re.finditer(re.escape(relpath) + r':(\d+):\d+: error:([^\n]*)', build['log'])]
        mod_failed = bool(errs) or (module in build['log'])
        for t in theorems:
            if t in spans:
                a, b = spans[t]
                mine = [e for e in errs if a <= e[0] <= b]
                if mine:
                    res[t]['why'] = 'proof fails: ' + mine[0][1].strip()[:200]
                elif errs:
                    res[t]['why'] = 'module does not build (error elsewhere in the file)'
                    res[t]['collateral'] = True
                elif mod_failed:
                    res[t]['why'] = 'module does not build (a dependency fails)'
                    res[t]['collateral'] = True
                else:
                    res[t]['why'] = 'build failed'
        return res
    # module built: ask Lean for the axioms of each theorem
    names = [t for t in theorems if t in spans]
    tmp = os.path.join(LEAN, '.lake', 'audit_%s_%d.lean' % (module.split('.')[-1], os.getpid()))
    with open(tmp, 'w') as f:
        f.write('import %s\n' % module)
        for t in names:
            f.write('#print axioms %s.%s\n' % (namespace, t))
    rc, out = sh(['lake', 'env', 'lean', tmp], cwd=LEAN, timeout=600)
    os.unlink(tmp)
    for t in names:
        full = '%s.%s' % (namespace, t)
        m = re.search(r"'%s' depends on axioms: \[([^\]]*)\]" % re.escape(full), out)
        m2 = re.search(r"'%s' does not depend on any axioms" % re.escape(full), out)
        if m:
            ax = [a.strip() for a in m.group(1).replace('\n', ' ').split(',') if a.strip()]
        elif m2:
            ax = []
        else:
            res[t]['why'] = 'no #print axioms answer: ' + out[-300:]
            continue
        res[t]['axioms'] = ax
        bad = [a for a in ax if a not in ALLOWED_AXIOMS]
        if bad:
            res[t]['why'] = 'uses axioms outside the allowed set: ' + ', '.join(bad)
        else:
            res[t]['ok'] = True
            res[t]['why'] = 'kernel-checked'
    return res


def audit_file_directly(module, namespace, theorems):
    """Like audit_theorems for a module that does not build as a whole: elaborates a copy of the source followed by `#print axioms` of each
    theorem, so that one failing theorem does not take the others of the file with it (a failed proof shows as an error inside the theorem's
    lines, or as the axiom the elaborator puts in its place)."""
    res = {t: {'ok': False, 'axioms': None, 'why': 'not checked'} for t in theorems}
    spans, src = theorem_lines(module)
    names = [t for t in theorems if t in spans]
    for t in theorems:
        if t not in spans:
            res[t]['why'] = 'theorem missing from ' + module
    tmp = os.path.join(LEAN, '.lake', 'audit_direct_%s_%d.lean' % (module.split('.')[-1], os.getpid()))
    with open(tmp, 'w') as f:
        f.write(src + '\n' + ''.join('#print axioms %s.%s\n' % (namespace, t) for t in names))
    try:
        rc, out = sh(['lake', 'env', 'lean', tmp], cwd=LEAN, timeout=1500)
    finally:
        os.unlink(tmp)
    errs = [(int(m.group(1)), m.group(2)) for m in re.finditer(re.escape(os.path.basename(tmp)) + r':(\d+):\d+: error[^:]*:([^\n]*)', out)]
    first = min(a for a, _ in spans.values()) if spans else 0
    for t in names:
        a, b = spans[t]
        mine = [e for e in errs if a <= e[0] <= b]
        full = '%s.%s' % (namespace, t)
        m = re.search(r"'%s' depends on axioms: \[([^\]]*)\]" % re.escape(full), out)
        m2 = re.search(r"'%s' does not depend on any axioms" % re.escape(full), out)
        if mine:
            res[t]['why'] = 'proof fails: ' + mine[0][1].strip()[:200]
        elif [e for e in errs if e[0] < first]:
            res[t]['why'] = 'the file does not elaborate: ' + [e for e in errs if e[0] < first][0][1].strip()[:200]
        elif m or m2:
            ax = [x.strip() for x in m.group(1).replace('\n', ' ').split(',') if x.strip()] if m else []
            res[t]['axioms'] = ax
            bad = [x for x in ax if x not in ALLOWED_AXIOMS]
            if bad:
                res[t]['why'] = 'depends on a statement that no longer checks (%s)' % ', '.join(bad)
            else:
                res[t]['ok'] = True
                res[t]['why'] = 'kernel-checked'
        else:
            res[t]['why'] = 'no #print axioms answer: ' + out[-300:]
    return res


# corollaries that combine regenerated functions with theorems of the hand-written model: corollary -> the regenerated functions it is about.
# It is audited with the first of them (its owner); when any of them is no longer in the translatable subset the corollary is a lost tie as well
# (benign change A4: `SSH2_Kex.write` rewritten as a loop made `regenerated_kexinit_roundtrip`, owned by `kex_parse`, uncheckable)
GEN_LOGIC_COROLLARIES = {
    'regenerated_reader_inverts_writer': ['parse_mpint', 'mpint2_pad_fmt'],
    'regenerated_roundtrip': ['create_mpint', 'parse_mpint', 'mpint2_pad_fmt'],
    'regenerated_roundtrip_ssh1': ['create_mpint', 'parse_mpint'],
    'regenerated_kexinit_roundtrip': ['kex_parse', 'kex_write'],
    'regenerated_pkm_roundtrip': ['pkm_parse', 'pkm_write'],
}


def gen_logic_audit(names, corollaries=True):
    """The regenerated-logic tie of a plugin that declares GEN_LOGIC = [function names of harness/translate_logic.py]: regenerate
    lean/SshAudit/Gen/Logic*.lean from the source, build the theorem file(s) of the units concerned (Props/GenLogic.lean, Props/GenLogicCrc.lean)
    and audit `<name>_eq_model` of each name.  Returns ({'GenLogic.<name>_eq_model': {'ok', 'axioms', 'why'}}, info of the translator)."""
    out = {}
    rc, txt = sh([sys.executable, os.path.join(HERE, 'translate_logic.py')], timeout=120)
    try:
        info = json.loads(txt.strip().splitlines()[-1])
    except Exception:
        info = None
    if rc != 0 or not info or not info.get('ok'):
        for n in names:
            out['GenLogic.%s_eq_model' % n] = {'ok': False, 'axioms': None, 'why': 'logic translator failed: ' + txt[-300:]}
        return out, {'ok': False, 'log': txt[-600:]}
    by_unit = {}
    for n in names:
        by_unit.setdefault(info['units'].get(n, 'Logic'), []).append(n)
    for unit, ns in sorted(by_unit.items()):
        module = 'SshAudit.Props.Gen' + unit
        ths = [n + '_eq_model' for n in ns]
        cors = {c: deps for c, deps in GEN_LOGIC_COROLLARIES.items() if deps[0] in ns} if corollaries else {}
        ths += sorted(cors)
        b = lake_build([module])
        res = audit_theorems(module, 'SshAudit.GenLogic', ths, b)
        if not b['ok']:
            # one theorem of the file that no longer checks must not take the others (other properties) with it
            res = audit_file_directly(module, 'SshAudit.GenLogic', ths)
        for n in ns:
            r = res[n + '_eq_model']
            if n in info['untranslatable']:
                # structural: the statements the table selects are no longer there in a form the translator reads (moved, renamed, outside
                # the subset).  Nothing says the behaviour changed; what is lost is this tie, not the correspondence tie of the same model function
                r = {'ok': False, 'axioms': None, 'structural': True,
                     'why': 'the function is no longer in the translatable subset: ' + info['untranslatable'][n]}
            out['GenLogic.%s_eq_model' % n] = r
        for c, deps in sorted(cors.items()):
            gone = [d for d in deps if d in info['untranslatable']]
            out['GenLogic.' + c] = ({'ok': False, 'axioms': None, 'structural': True,
                                     'why': 'a function the corollary is about is no longer in the translatable subset: ' + ', '.join(gone)} if gone else res[c])
    return out, info


def run_driver(lines, timeout=900):
    """Feeds operation lines to the compiled Lean driver; returns the parsed JSON answers."""
    if not lines:
        return []
    p = subprocess.run([DRIVER], input='\n'.join(lines) + '\n', stdout=subprocess.PIPE, stderr=subprocess.PIPE, text=True, timeout=timeout)
    outs = p.stdout.split('\n')
    if outs and outs[-1] == '':
        outs.pop()
    if p.returncode != 0 or len(outs) != len(lines):
        raise RuntimeError('driver failed: rc=%s, %d answers for %d lines; stderr=%s' % (p.returncode, len(outs), len(lines), p.stderr[-500:]))
    return [json.loads(o) for o in outs]


# ---- token encoding of the line protocol (see lean/SshAudit/Driver/Json.lean)

def tstr(s):
    return '-' if s == '' else '.'.join('%x' % ord(c) for c in s)


def tstrs(xs):
    return '_' if len(xs) == 0 else ','.join(tstr(x) for x in xs)


def toptstrs(xs):
    return '~' if xs is None else tstrs(xs)


def toptstr(s):
    return '~' if s is None else tstr(s)


def tbytes(b):
    return '-' if len(b) == 0 else bytes(b).hex()


def tbool(b):
    return '1' if b else '0'


def tables_roundtrip():
    """Translation validation of translate.py: Lean-side tables == live Python tables."""
    want = json.load(open(os.path.join(LEAN, 'SshAudit', 'Gen', 'tables.json')))
    got = run_driver(['dump-tables'])[0]
    diffs = [k for k in want if want[k] != got.get(k)]
    return {'ok': not diffs, 'differing_tables': diffs, 'tables': len(want)}


def load_ledger():
    path = os.path.join(VERIF, 'known_findings.json')
    if not os.path.exists(path):
        return {'findings': [], 'fixed': []}
    return json.load(open(path))


def sig_matches(entry_match, sig):
    return all(sig.get(k) == v for k, v in entry_match.items())


def write_replay(prop, obj):
    d = os.path.join(VERIF, 'evidence', 'replay')
    os.makedirs(d, exist_ok=True)
    blob = json.dumps(obj, sort_keys=True, indent=1, default=str)
    h = hashlib.sha1(blob.encode()).hexdigest()[:12]
    path = os.path.join(d, '%s-%s.json' % (prop, h))
    with open(path, 'w') as f:
        f.write(blob)
    return os.path.relpath(path, VERIF)


def write_evidence(prop, ev):
    d = os.path.join(VERIF, 'evidence')
    os.makedirs(d, exist_ok=True)
    with open(os.path.join(d, prop + '.json'), 'w') as f:
        json.dump(ev, f, indent=1, sort_keys=True, default=str)


class Rng(random.Random):
    """Single PRNG for every random choice of a run (seeded from VERIF_SEED and the property id)."""
    def __init__(self, seed, prop):
        super().__init__('%s/%s' % (seed, prop))


class Coverage:
    """Counts evaluations and distinct non-trivial cases, keeps samples and a branch histogram."""
    def __init__(self, rule):
        self.rule = rule
        self.evaluations = 0
        self.nontrivial = set()
        self.samples = []
        self.hist = {}

    def add(self, case_key, nontrivial=True, sample=None, tags=()):
        self.evaluations += 1
        if nontrivial:
            self.nontrivial.add(hashlib.sha1(repr(case_key).encode()).digest()[:8])
        for t in tags:
            self.hist[t] = self.hist.get(t, 0) + 1
        if sample is not None and len(self.samples) < 6:
            self.samples.append(sample)

    def as_dict(self):
        return {'evaluations': self.evaluations, 'distinct_nontrivial': len(self.nontrivial), 'rule': self.rule,
                'samples': self.samples, 'distribution': dict(sorted(self.hist.items()))}


class ReplayCtx:
    """what a plugin's run() needs when it is re-run from a replay (no model driver: only the oracle on the real code)"""
    def __init__(self, prop, seed=0, tier='quick'):
        self.prop, self.tier, self.seed = prop, tier, seed
        self.rng = Rng(seed, prop)
        self.driver_ok = False
        self.broken = False
        self.deadline = None

    def scale(self, quick, thorough):
        return scaled(self.tier, quick, thorough)

    def driver(self, lines):
        return []


def rerun_for_signature(plugin, failure, seeds=(0, 1)):
    """Fallback of a replay: re-runs the plugin's own oracle on the current tree and says whether a failure with the recorded signature
    occurs again (1) or not (0)."""
    import json as _json
    sig = failure.get('sig')
    for sd in seeds:
        res = plugin.run(ReplayCtx(plugin.ID, sd))
        hit = [f for f in res.get('failures', []) if f.get('sig') == sig]
        if hit:
            print('the oracle reports the recorded signature again: %s' % _json.dumps({k: hit[0].get(k) for k in ('sig', 'input', 'observed', 'expected')}, default=str)[:900])
            return 1
    print('the oracle does not report signature %s on the current tree' % _json.dumps(sig))
    return 0
