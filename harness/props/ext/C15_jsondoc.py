"""C15 extension — the JSON document of a standard audit: build_struct(...) and json.dumps(..., indent=4 | None, sort_keys=True) as printed by -j / -jj.

Theorems: SshAudit.Props.C15JsonDoc over the model SshAudit.Model.JsonDoc (value type, exact json.dumps in both layouts, the value tree of
build_struct for an SSH-2 peer and for the else-branch) and the modelled json.loads of Model/PolicyFile.lean.
Tie (correspondence, byte for byte):
  (A) json.dumps itself: generated values (every escape class, non-BMP, code-point key order, nesting, empty containers, negative / large ints)
      -> real json.dumps(v, sort_keys=True) / (…, indent=4) vs `jd.dumps`; what the model's json.loads makes of either text vs the real json.loads;
      mutated documents (malformed stream) through `jd.loads` vs json.loads.
  (B) real main() with -j and -jj over scripted peers (fakenet): names with quotes, backslashes, control characters, non-BMP characters, invalid
      UTF-8, blank names; RSA / Ed25519 / ECDSA host keys, certificates with odd CA key types, measured group-exchange moduli; banners with
      comments -> stdout vs the model document (`jd.doc`) + "\n".
  (C) real output() on constructed peers (size maps, client audits), SSH-1 public-key messages and the no-peer error path -> the buffer entry vs
      `jd.doc` / `jd.doc1` / `jd.docnone`.
Oracle (no model involved), on (B) and (C): stdout of -j is one line; both forms are ASCII only; each is exactly one JSON document; both parse to
the same value; keys ascend at every level and none repeats; writing the parsed value again with json.dumps gives the same bytes; the names listed
are the names on the wire (independent KEXINIT reader, utf-8 'replace'), in order, once each — so are compression methods, CA key types and
banner comments; for names the database knows the failure / warning / info texts equal those of the text report of the same peer; the exit status
does not depend on the form; a second audit of the same peer (database reset, as for every target of a run) prints the same bytes.
"""
import json
import re
import struct

from common import Coverage, tstr, tstrs, toptstr, tbool
from props import report_common as rc
from props import peergen as pg

ID = 'C15'
MODULE = 'SshAudit.Props.C15JsonDoc'
NAMESPACE = 'SshAudit.C15JsonDoc'
THEOREMS = ['loads_dumps', 'loads_compact', 'loads_indented', 'compact_indented_same_value', 'sorted_items_perm', 'sorted_keys_ascending', 'sorted_keys_top',
            'sorted_noDup', 'python_value', 'dup_keys_written', 'dup_keys_python', 'dumps_sorted', 'insertion_order_irrelevant',
            'compact_printable', 'compact_single_line', 'indented_chars', 'ascii_only', 'string_body_printable',
            'dumps_injective', 'dumps_injective_sorted', 'compact_determines_indented',
            'doc_noDup', 'docElse_noDup', 'docElse_ssh1_noDup', 'doc_keys', 'doc_round_trip', 'doc_get_lists', 'algList_names', 'algEntry_notes', 'notesAt_levels',
            'entry_notes_eq_text', 'entry_notes_unknown', 'docNames_algList', 'doc_names_eq_report', 'doc_entry_local', 'kex_keysize_eq_shown', 'key_size_fields', 'key_no_size_fields',
            'doc_get_rest', 'recs_listed', 'docElse_lists', 'printed_text', 'printed_option_free', 'stdout_is_document']

HOW = 'harness/props/ext/C15_jsondoc.py: real main() -j / -jj over an in-process scripted peer, or real output() on a constructed peer'
CATS = ('kex', 'key', 'enc', 'mac')
STARTABLE = ['curve25519-sha256', 'diffie-hellman-group14-sha256', 'diffie-hellman-group14-sha1', 'ecdh-sha2-nistp256']
GEX = 'diffie-hellman-group-exchange-sha256'


# ---------------------------------------------------------------- token encoding of a value (Driver/JsonDocOps.lean: decVal)

def tval(v):
    if v is None:
        return 'n'
    if v is True:
        return 't'
    if v is False:
        return 'f'
    if isinstance(v, int):
        return 'i%d' % v
    if isinstance(v, str):
        return 's' + tstr(v)
    if isinstance(v, list):
        return '/'.join(['a%d' % len(v)] + [tval(x) for x in v])
    if isinstance(v, dict):
        return '/'.join(['o%d' % len(v)] + ['s' + tstr(k) + '/' + tval(x) for k, x in v.items()])
    raise TypeError(type(v))


def canon_loads(text):
    """json.loads with every member of every object kept, in source order, and floats without their value — the shape `jd.loads` answers"""
    try:
        v = json.loads(text, object_pairs_hook=lambda p: {'obj': [[k, x] for k, x in p]}, parse_float=lambda s: {'float': None},
                       parse_constant=lambda s: {'float': None})
    except ValueError:
        return {'err': 'json'}
    except RecursionError:
        return {'err': 'recursion'}
    return {'ok': v}


def has_lone_surrogate(x):
    if isinstance(x, str):
        return any(0xD800 <= ord(c) <= 0xDFFF for c in x)
    if isinstance(x, list):
        return any(has_lone_surrogate(y) for y in x)
    if isinstance(x, dict):
        return any(has_lone_surrogate(k) or has_lone_surrogate(y) for k, y in x.items())
    return False


# ---------------------------------------------------------------- (A) generated values

ODD_CHARS = ['"', '\\', '/', '\n', '\r', '\t', '\b', '\f', '\x00', '\x01', '\x1f', ' ', '~', '\x7f', '\x80', '\x85', '\xa0', '\xe9', '\u07ff', '\u0800', '\u2028', '\u2029',
             '\ud7ff', '\ue000', '\ufffd', '\ufffe', '\uffff', '\U00010000', '\U0001f600', '\U0010ffff', '<', '>', '&', "'", ',', ':', '{', '}', '[', ']', 'u', '0']

FIXED_VALUES = [
    None, True, False, 0, -1, 1, 10, -10, 255, 65536, 10 ** 20, -(10 ** 20), '', 'a', [], {}, [[]], [{}], {'': ''}, {'a': []}, {'a': {}},
    ''.join(ODD_CHARS), [c for c in ODD_CHARS], {c: i for i, c in enumerate(ODD_CHARS)},
    {'b': 1, 'a': 2, 'ab': 3, 'B': 4, 'a\x00': 5, '': 6, '\uffff': 7, '\U00010000': 8, '\xe9': 9, 'aa': 10, 'a ': 11},     # code-point order, prefixes, BMP vs astral
    {'z': {'y': {'x': {'w': [1, [2, [3, [4, []]]], {}]}}}},
    [None, True, False, 0, '', [], {}],
    {'notes': {'warn': ['x'], 'fail': ['y', None], 'info': []}, 'algorithm': 'a"b\\c'},
    [1, [2, 3], [[4]], [[], []], [[[], [5]]]],
    {'k': [{'b': 1, 'a': 2}, {'d': [], 'c': {}}]},
    '\\u0041', '\\"', '\\\\', 'a\\', '"', '\\n', 'null', 'true', '1', '-', '[]',
]


def gen_str(r):
    n = r.choice([0, 1, 1, 2, 3, 5, 8, 20])
    return ''.join(r.choice(ODD_CHARS) if r.random() < 0.4 else r.choice('abcxyzABC019-@._') for _ in range(n))


def gen_value(r, depth=0):
    x = r.random()
    if depth >= 4 or x < 0.45:
        k = r.random()
        if k < 0.45:
            return gen_str(r)
        if k < 0.7:
            return r.choice([0, 1, -1, 7, 22, 256, 2048, 3072, 4096, -4096, r.randint(-10 ** 6, 10 ** 6), r.randint(0, 10 ** 30)])
        return r.choice([None, True, False])
    if x < 0.72:
        return [gen_value(r, depth + 1) for _ in range(r.choice([0, 1, 2, 3, 5]))]
    d = {}
    for _ in range(r.choice([0, 1, 2, 3, 6])):
        d[gen_str(r)] = gen_value(r, depth + 1)
    return d


def mutate(r, text):
    k = r.choice(['trunc', 'del', 'ins', 'dup', 'junk', 'swap', 'two'])
    if not text:
        return text
    i = r.randrange(len(text))
    if k == 'trunc':
        return text[:i]
    if k == 'del':
        return text[:i] + text[i + 1:]
    if k == 'ins':
        return text[:i] + r.choice(['{', '}', '[', ']', ',', ':', '"', ' ', '\n', '\t', '\\', 'u', '0', '1', '-', '.', 'e', '\x00', '\x1f', 'null', 'NaN', '\\u00', '\\ud800', '\\udc00', '/*']) + text[i:]
    if k == 'dup':
        j = min(len(text), i + r.randint(1, 12))
        return text[:j] + text[i:j] + text[j:]
    if k == 'junk':
        return text + r.choice([' ', '\n', '}', ']', ',', 'x', '{}', ' 1', '\n\n{}'])
    if k == 'swap' and i + 1 < len(text):
        return text[:i] + text[i + 1] + text[i] + text[i + 2:]
    return text + text


# ---------------------------------------------------------------- (B) scripted peers for main()

ODD_NAMES = [b'aes"256"-ctr', b'back\\slash-cbc', b'new\nline@example.org', b'tab\there', b'nul\x00byte', b'bell\x07', b'del\x7f', b'esc\x1b[0m',
             'caf\xe9-ctr'.encode(), 'emoji-\U0001f600-mac'.encode(), '\uffff-bmp-last'.encode(), '\U00010000-astral-first'.encode(), 'ls\u2028ps\u2029'.encode(),
             b'bad-utf8-\xff\xfe', b'trunc-\xe2\x82', b'lone-\xed\xa0\x80-surrogate-bytes', b'over\xc0\xaflong', b'\xf4\x90\x80\x80-beyond', b'/slash/', b'<script>', b"quote'",
             b'chacha20-poly1305@odd"quote', b'weird\\-cbc', b'x"y-etm@openssh.com', b' ', b'', b'  lead', b'trail  ', b'{"a": 1}', b'[]', b'null', b'\\u0041', b'a=b']
ODD_CA_TYPES = [b'ssh-rsa', b'rsa-sha2-512', b'ssh-"rsa"', b'ssh\\rsa', b'ssh\nrsa', b'ssh-rsa\x00', b'x\x7f', b'ecdsa-sha2-nistp256', b'ssh-ed25519', b'CA key']
BANNERS_B = [b'SSH-2.0-OpenSSH_8.0', b'SSH-2.0-OpenSSH_9.9p1 Debian-3', b'SSH-2.0-OpenSSH_7.4 "quoted" comment', b'SSH-2.0-OpenSSH_8.9 back\\slash', b'SSH-2.0-dropbear_2022.83',
             b'SSH-2.0-libssh_0.9.6 {json: [1]}', b'SSH-2.0-FooServer_1.0 caf\xc3\xa9', b'SSH-2.0-OpenSSH_8.0 tab\there', b'SSH-1.99-OpenSSH_3.9p1', b'SSH-2.0-X']
CERT_RSA = 'ssh-rsa-cert-v01@openssh.com'
CERT_ED = 'ssh-ed25519-cert-v01@openssh.com'


def hexl(names):
    return [bytes(n).hex() for n in names]


def mk_spec(kex, key, enc, mac, comp=(b'none',), banner=b'SSH-2.0-OpenSSH_8.0', hostkeys=None, gex=None):
    return {'kex': hexl(kex), 'key': hexl(key), 'enc': hexl(enc), 'mac': hexl(mac), 'comp': hexl(comp), 'banner': bytes(banner).hex(),
            'hostkeys': hostkeys or {}, 'gex': gex}


def b(s):
    return s if isinstance(s, bytes) else s.encode()


FIXED_SPECS = [
    mk_spec([b'curve25519-sha256', b'diffie-hellman-group14-sha1'], [b'ssh-ed25519'], [b'aes256-ctr', b'3des-cbc'], [b'hmac-sha2-256', b'hmac-md5'],
            hostkeys={'ssh-ed25519': ['ed25519']}),
    mk_spec([b'curve25519-sha256'] + ODD_NAMES[:12], [b'ssh-ed25519', b'rsa-sha2-512'] + ODD_NAMES[12:20], [b'aes256-ctr'] + ODD_NAMES[20:28], [b'hmac-sha2-256'] + ODD_NAMES[28:],
            comp=[b'none', b'zlib"x', b'z\\y'], banner=BANNERS_B[2], hostkeys={'ssh-ed25519': ['ed25519'], 'rsa-sha2-512': ['rsa', 3072]}),
    mk_spec([b'diffie-hellman-group14-sha256', GEX.encode(), b'kex-strict-s-v00@openssh.com'], [b'rsa-sha2-256', CERT_RSA.encode(), CERT_ED.encode()],
            [b'chacha20-poly1305@openssh.com', b'aes128-cbc', b'chacha20-poly1305@odd"quote', b'weird\\-cbc'], [b'hmac-sha2-256-etm@openssh.com', b'x"y-etm@openssh.com'],
            banner=BANNERS_B[1], hostkeys={'rsa-sha2-256': ['rsa', 2048], CERT_RSA: ['cert', CERT_RSA, ['rsa', 3072], b'ssh-"rsa"'.hex(), 4096],
                                           CERT_ED: ['cert', CERT_ED, ['ed25519'], b'ssh\\rsa'.hex(), 1024]}, gex=2048),
    mk_spec([b''], [b''], [b''], [b''], comp=[b'']),
    # a small measured modulus: the scan *replaces* the failure note of group-exchange-sha1 in the database before output() runs
    mk_spec([b'diffie-hellman-group-exchange-sha1', GEX.encode(), b'curve25519-sha256'], [b'ssh-ed25519', b'rsa-sha2-512'], [b'aes256-ctr'], [b'hmac-sha2-256'],
            hostkeys={'ssh-ed25519': ['ed25519'], 'rsa-sha2-512': ['rsa', 1024]}, gex=1024),
    mk_spec([b'curve25519-sha256', b'curve25519-sha256', b' ', b''], [b'ssh-ed25519', b'ssh-ed25519'], [b'aes256-ctr', b'', b'aes256-ctr'], [b'hmac-sha1', b'  '],
            hostkeys={'ssh-ed25519': ['ed25519']}),
]


def gen_names(r, cat, n_odd):
    names = [b(x) for x in pg.gen_list(r, cat)]
    for _ in range(n_odd):
        names.insert(r.randint(0, len(names)), r.choice(ODD_NAMES))
    return [x for x in names if b',' not in x]


def gen_spec(r, i):
    n_odd = r.choice([0, 0, 1, 2, 4])
    kex = gen_names(r, 'kex', n_odd)
    if r.random() < 0.75:
        kex.insert(r.randint(0, len(kex)), b(r.choice(STARTABLE)))
    key = gen_names(r, 'key', n_odd)
    hostkeys = {}
    for t in ['ssh-ed25519', 'rsa-sha2-512', 'ssh-rsa', 'ecdsa-sha2-nistp256', CERT_RSA, CERT_ED]:
        if r.random() < 0.3 and b(t) not in key:
            key.insert(r.randint(0, len(key)), b(t))
    for n in key:
        t = n.decode('latin-1')
        if t in hostkeys:
            continue
        if t in ('ssh-rsa', 'rsa-sha2-256', 'rsa-sha2-512'):
            hostkeys[t] = ['rsa', r.choice([1024, 2047, 2048, 3072, 4096])]
        elif t == 'ssh-ed25519':
            hostkeys[t] = ['ed25519']
        elif t.startswith('ecdsa-sha2-nistp') and '-cert-' not in t:
            hostkeys[t] = ['ecdsa', t[len('ecdsa-sha2-'):]]
        elif t == CERT_RSA:
            hostkeys[t] = ['cert', t, ['rsa', r.choice([2048, 3072])], r.choice(ODD_CA_TYPES).hex(), r.choice([1024, 2048, 4096])]
        elif t == CERT_ED:
            hostkeys[t] = ['cert', t, ['ed25519'], r.choice(ODD_CA_TYPES).hex(), r.choice([1024, 3072])]
    gex = None
    if i % 9 == 4:
        kex.insert(r.randint(0, len(kex)), GEX.encode())
        gex = r.choice([1024, 2048, 3072, 4096])
    comp = r.choice([[b'none'], [b'none', b'zlib@openssh.com'], [b'zlib@openssh.com', b'zlib', b'none'], [b''], [b'zlib"q', b'none'], [b'z\xff']])
    return mk_spec(kex, key, gen_names(r, 'enc', n_odd), gen_names(r, 'mac', n_odd), comp=comp, banner=r.choice(BANNERS_B), hostkeys=hostkeys, gex=gex)


def blob_of(h):
    import fakenet as fn
    if h[0] == 'rsa':
        return fn.rsa_blob(h[1])
    if h[0] == 'ed25519':
        return fn.ed25519_blob()
    if h[0] == 'ecdsa':
        return fn.ecdsa_blob(h[1], {'nistp256': 65, 'nistp384': 97, 'nistp521': 133}.get(h[1], 65))
    if h[0] == 'cert':
        kind, inner, ca_type, ca_bits = h[1], h[2], bytes.fromhex(h[3]), h[4]
        pub = (fn.mpint(65537) + fn.mpint((1 << (inner[1] - 1)) | 1)) if inner[0] == 'rsa' else fn.sstr(b'\x42' * 32)
        if ca_type == b'ssh-ed25519':
            ca = fn.sstr(ca_type) + fn.sstr(b'\x44' * 32)
        else:
            ca = fn.sstr(ca_type) + fn.mpint(65537) + fn.mpint((1 << (ca_bits - 1)) | 1)
        return fn.cert_blob(kind, pub, ca, key_id=b'key "id" \\ \xff', principals=fn.sstr(b'host"name'))
    raise ValueError(h)


def server_of(spec):
    import fakenet as fn
    names = {k: [bytes.fromhex(x) for x in spec[k]] for k in ('kex', 'key', 'enc', 'mac', 'comp')}
    payload = fn.kexinit(names['kex'], names['key'], names['enc'], names['mac'], comp=names['comp'])
    gex = (lambda mn, pf, mx: spec['gex']) if spec.get('gex') else None
    return fn.Server(banner=bytes.fromhex(spec['banner']), kexinit_payload=payload, hostkeys={t: blob_of(h) for t, h in spec['hostkeys'].items()}, gex=gex), payload


def run_main(spec, args, fresh=True):
    """real main() over fakenet with output() observed; returns (exit code, stdout, captured arguments of output() or None)"""
    import fakenet as fn
    from ssh_audit import ssh_audit as sa
    cap = {}
    real_output = sa.output

    def spy(out, aconf, banner, header, client_host=None, kex=None, pkm=None, print_target=False, dh_rate_test_notes=''):
        # snapshot now: build_struct renames the RSA host keys inside kex.host_keys() while it runs
        cap.update(banner=banner, header=list(header), client_host=client_host, kex=kex, peer=(peer_of_kex(kex) if kex is not None else None), pkm=pkm, rate=dh_rate_test_notes,
                   host=aconf.host, port=aconf.port, edits=db_edits())
        return real_output(out, aconf, banner, header, client_host=client_host, kex=kex, pkm=pkm, print_target=print_target, dh_rate_test_notes=dh_rate_test_notes)
    sa.output = spy
    try:
        srv, payload = server_of(spec)
        code, text = fn.run_main(['--skip-rate-test', '-n'] + list(args) + ['10.0.0.5'], fn.FakeNet({'10.0.0.5': srv}), fresh=fresh)
    finally:
        sa.output = real_output
    return code, text, (cap if 'banner' in cap else None), payload


def peer_of_kex(kex):
    return {'kex': list(kex.kex_algorithms), 'key': list(kex.key_algorithms), 'encC': list(kex.client.encryption), 'encS': list(kex.server.encryption),
            'macC': list(kex.client.mac), 'macS': list(kex.server.mac), 'comp': list(kex.server.compression),
            'host_keys': {k: dict(v) for k, v in kex.host_keys().items() if v is not None}, 'dh': dict(kex.dh_modulus_sizes())}


def json_fingerprints_of(host_keys):
    """(type, SHA256:…, MD5:…) per host-key type as build_struct lists them (hashlib / base64 only): every RSA-family entry is moved to
    'ssh-rsa' in insertion order (`del host_keys[t]; host_keys['ssh-rsa'] = val`), certificates are skipped, types are sorted.  (The text
    report keeps the *last* RSA-family entry instead; the two agree whenever the family shares one key, which is what a scan stores.)"""
    import base64
    import hashlib
    from ssh_audit.hostkeytest import HostKeyTest
    hk = {t: (None if v is None else (v['raw_hostkey_bytes'] if 'raw_hostkey_bytes' in v else v.get('raw', b'blob-' + t.encode()))) for t, v in host_keys.items()}
    for t in list(hk.keys()):
        if t in HostKeyTest.RSA_FAMILY:
            val = hk[t]
            del hk[t]
            hk['ssh-rsa'] = val
    out = []
    for t in sorted(hk):
        raw = hk[t]
        if raw is None or '-cert-' in t:
            continue
        h = hashlib.md5(raw).hexdigest()
        out.append((t, 'SHA256:' + base64.b64encode(hashlib.sha256(raw).digest()).decode().rstrip('='), 'MD5:' + ':'.join(h[i:i + 2] for i in range(0, 32, 2))))
    return out


def fps_token(host_keys):
    fps = json_fingerprints_of(host_keys)
    return '_' if not fps else ';'.join('%s:%s:%s' % (tstr(a), tstr(x), tstr(y)) for a, x, y in fps)


def banner_tokens(banner):
    if banner is None:
        return '~'
    return '%s %s %s %s' % (tstr(str(banner)), tstr('.'.join(str(x) for x in banner.protocol)), toptstr(banner.software), toptstr(banner.comments))


def db_edits():
    """the entries of this thread's copy of the database that differ from the master copy right now (the scan records the size findings of the
    host-key and group-exchange tests there): [(cat, name, desc)]; None when names were added or removed"""
    from ssh_audit.ssh2_kexdb import SSH2_KexDB
    db, master = SSH2_KexDB.get_db(), SSH2_KexDB.MASTER_DB
    edits = []
    for cat in db:
        if list(db[cat]) != list(master[cat]):
            return None
        for name, desc in db[cat].items():
            if desc != master[cat][name]:
                if len(desc) == 0 or not all(isinstance(s, list) and all(x is None or isinstance(x, str) for x in s) for s in desc):
                    return None
                edits.append((cat, name, [list(s) for s in desc]))
    return edits


def edits_token(edits):
    def slot(s):
        return '_' if not s else ','.join(toptstr(x) for x in s)
    return '_' if not edits else ';'.join('%s:%s:%s' % (tstr(c), tstr(n), '|'.join(slot(s) for s in d)) for c, n, d in edits)


def doc_line(peer, banner, host_port, client_host=None, rate_notes='', edits=()):
    """driver line `jd.doc …` (peer: the lists / size maps the real code holds when output() is called; banner: parsed Banner or None)"""
    sw, cm = (banner.software, banner.comments) if banner is not None else (None, None)
    rep = rc.report_line(peer, client_host is not None, banner, rate_notes).split(' ')      # report <client> <sw> <cm> <rate> <9 peer tokens>
    return 'jd.doc %s %s %s %s %s %s %s %s %s %s' % (tstr(host_port), toptstr(client_host), fps_token(peer['host_keys']), tbool(client_host is not None), toptstr(sw), toptstr(cm),
                                                 tstr(rate_notes), ' '.join(rep[5:]), edits_token(edits), banner_tokens(banner))


# ---------------------------------------------------------------- the oracle (no model involved)

def pairs_tree(text):
    return json.loads(text, object_pairs_hook=lambda p: ('obj', list(p)))


def key_order_problems(t, path='$'):
    out = []
    if isinstance(t, tuple):
        keys = [k for k, _ in t[1]]
        if len(set(keys)) != len(keys):
            out.append('%s: a key occurs twice (%r)' % (path, keys))
        elif keys != sorted(keys):
            out.append('%s: keys not in ascending order (%r)' % (path, keys))
        for k, v in t[1]:
            out.extend(key_order_problems(v, path + '.' + k))
    elif isinstance(t, list):
        for i, v in enumerate(t):
            out.extend(key_order_problems(v, '%s[%d]' % (path, i)))
    return out


SIZE_SUFFIX = re.compile(r' \(\d+-bit( cert/\d+-bit .* CA)?\)$', re.S)


def text_notes(stdout):
    """{(cat, name): [notes per occurrence]} re-read from a batch, no-colour text report (`(cat) name -- [lvl] text` / `  `- [lvl] text`)"""
    recs = rc.parse_alg_records([(None, l, None, None) for l in stdout.split('\n')], verbose=False)
    out = {}
    for c in CATS:
        for shown, notes, _ in recs[c]:
            name = SIZE_SUFFIX.sub('', shown.rstrip(' '))
            out.setdefault((c, name), []).append(sorted((a, t) for a, t in notes if not (a == 'info' and t == '')))
    return out


def doc_notes(doc):
    out = {}
    for c in CATS:
        for e in doc.get(c) or []:
            if not isinstance(e, dict):
                continue
            notes = [(lvl, t) for lvl in ('fail', 'warn', 'info') for t in (e['notes'].get(lvl) or []) if t is not None]
            out.setdefault((c, e['algorithm']), []).append(sorted(notes))
    return out


def oracle_texts(inp, compact, indented, fails, where):
    """clauses on the two printed forms alone; returns the parsed document or None"""
    def fail(kind, observed, expected, **extra):
        fails.append({'sig': dict({'kind': kind, 'where': where}, **extra), 'input': inp, 'observed': observed, 'expected': expected, 'how': HOW})
    docs = {}
    for form, text in (('compact', compact), ('indented', indented)):
        if text is None:
            continue
        if not text.endswith('\n'):
            fail('json_no_final_newline', text[-60:], 'the document followed by one line feed', form=form)
        body = text[:-1] if text.endswith('\n') else text
        if form == 'compact' and ('\n' in body or '\r' in body):
            fail('json_compact_not_one_line', {'lines': body.count('\n') + 1, 'head': body[:80]}, '-j prints the document on one line', form=form)
        bad = sorted({c for c in body if ord(c) > 126 or (ord(c) < 32 and c != '\n')})
        if bad:
            fail('json_not_ascii', {'characters': [hex(ord(c)) for c in bad[:8]]}, 'printable ASCII only (and line feeds in the indented form)', form=form)
        try:
            docs[form] = json.loads(body)
            tree = pairs_tree(body)
        except ValueError as e:
            fail('json_not_one_document', {'error': str(e)[:100], 'head': body[:80], 'tail': body[-80:]}, 'stdout is exactly one well-formed JSON document', form=form)
            continue
        probs = key_order_problems(tree)
        if probs:
            fail('json_keys_not_sorted', probs[:3], 'keys in ascending order, each once, at every level', form=form)
        again = json.dumps(docs[form], sort_keys=True, indent=(4 if form == 'indented' else None))
        if again != body:
            i = next((k for k, (x, y) in enumerate(zip(again, body)) if x != y), min(len(again), len(body)))
            fail('json_not_canonical', {'at': i, 'printed': body[max(0, i - 20):i + 40], 'json.dumps of the parsed value': again[max(0, i - 20):i + 40]},
                 'the text json.dumps writes for the value it parses to', form=form)
        if has_lone_surrogate(docs[form]):
            fail('json_lone_surrogate', 'a string of the document holds a lone UTF-16 surrogate', 'Unicode scalar values only', form=form)
    if 'compact' in docs and 'indented' in docs and docs['compact'] != docs['indented']:
        diff = [k for k in set(docs['compact']) | set(docs['indented']) if docs['compact'].get(k) != docs['indented'].get(k)] if isinstance(docs['compact'], dict) and isinstance(docs['indented'], dict) else '?'
        fail('json_compact_vs_indented', {'keys that differ': sorted(diff)[:5] if diff != '?' else diff}, 'the compact and the indented form parse to the same value')
    return docs.get('compact', docs.get('indented'))


def wire_names(payload):
    """the name-lists of a KEXINIT payload, decoded the way the documentation of the JSON output promises (utf-8, undecodable bytes replaced)"""
    lists = pg.independent_kexinit_reader(payload[1:])
    dec = [[x.decode('utf-8', 'replace') for x in l] for l in lists]
    return {'kex': dec[0], 'key': dec[1], 'enc': dec[3], 'mac': dec[5], 'compression': dec[7]}


ORACLE_COUNTS = {}


def count(k, n=1):
    ORACLE_COUNTS[k] = ORACLE_COUNTS.get(k, 0) + n


def oracle_main(spec, runs, payload, fails):
    """runs: {'j': (code, stdout), 'jj': …, 'text': …, 'j2': second audit in the same process}"""
    inp = {'what': 'main()', 'spec': spec}

    def fail(kind, observed, expected, **extra):
        fails.append({'sig': dict({'kind': kind, 'where': 'main'}, **extra), 'input': inp, 'observed': observed, 'expected': expected, 'how': HOW})
    doc = oracle_texts(inp, runs['j'][1], runs['jj'][1], fails, 'main')
    codes = {k: runs[k][0] for k in ('j', 'jj', 'text')}
    if len(set(codes.values())) != 1:
        fail('status_depends_on_json_form', codes, 'one exit status for -j, -jj and the text report')
    if runs['j2'][1] != runs['j'][1]:
        a, c = runs['j'][1], runs['j2'][1]
        i = next((k for k, (x, y) in enumerate(zip(a, c)) if x != y), min(len(a), len(c)))
        fail('json_repeated_audit_differs', {'at': i, 'first': a[max(0, i - 40):i + 60], 'second': c[max(0, i - 40):i + 60]}, 'a second audit of the same peer (from a pristine database, as every target of a run starts) prints the same bytes')
    if not isinstance(doc, dict):
        return
    want = wire_names(payload)
    for c in CATS:
        got = [e.get('algorithm') if isinstance(e, dict) else e for e in (doc.get(c) or [])]
        count('oracle-wire-names-compared', len(want[c]))
        if got != want[c]:
            j = next((k for k, (x, y) in enumerate(zip(got, want[c])) if x != y), min(len(got), len(want[c])))
            fail('json_names_differ_from_wire', {'category': c, 'index': j, 'json': got[j:j + 2], 'wire': want[c][j:j + 2], 'n_json': len(got), 'n_wire': len(want[c])},
                 'the advertised names, in order, once per occurrence, unchanged', category=c)
    if doc.get('compression') != want['compression']:
        fail('json_names_differ_from_wire', {'json': doc.get('compression'), 'wire': want['compression']}, 'the advertised compression methods', category='compression')
    # the CA key type of a certificate the peer presented
    for e in doc.get('key') or []:
        h = spec['hostkeys'].get(e.get('algorithm'))
        if h and h[0] == 'cert' and e.get('algorithm') in (CERT_RSA, CERT_ED) and 'casize' in e:
            ca = bytes.fromhex(h[3]).decode('ascii')
            count('oracle-ca-types-compared')
            if e.get('ca_algorithm') != ca:
                fail('json_ca_type_altered', {'json': e.get('ca_algorithm'), 'certificate': ca}, 'the CA key type of the certificate, unchanged')
    # banner comments (printable ASCII banners of the usual shape)
    line = bytes.fromhex(spec['banner'])
    m = re.match(rb'^SSH-\d\.\d+-([^ ]+)(?: (.*))?$', line)
    if m and all(32 <= x <= 126 for x in line) and isinstance(doc.get('banner'), dict):
        count('oracle-banners-compared')
        if doc['banner'].get('raw') != line.decode() or doc['banner'].get('comments') != (m.group(2).decode() if m.group(2) is not None else None):
            fail('json_banner_altered', {'raw': doc['banner'].get('raw'), 'comments': doc['banner'].get('comments')}, {'raw': line.decode()})
    # JSON notes == text notes for database names
    tn, jn = text_notes(runs['text'][1]), doc_notes(doc)
    for (c, name), jl in jn.items():
        if not name.strip() or not all(32 < ord(x) < 127 for x in name):
            continue
        try:
            from props import C15 as base
            known = base.db_knows(c, name)
        except Exception:
            known = False
        if not known:
            continue
        tl = tn.get((c, name))
        if tl is None or len(tl) != len(jl):
            continue      # the text side could not be re-read for this name (odd neighbours); C15's output()-level oracle covers it
        count('oracle-known-names-notes-compared', len(jl))
        if tl != jl:
            fail('json_findings_differ_from_text', {'category': c, 'name': name, 'json': jl[0][:4], 'text': tl[0][:4]}, 'the same notes for a name the database knows')


def oracle_output(case, entries_by_form, rets, fails):
    inp = {'what': 'output()', 'case': case}
    texts = {}
    for form in ('compact', 'indented'):
        e = entries_by_form[form]
        if len(e) != 1:
            fails.append({'sig': {'kind': 'json_not_one_document', 'where': case['what'], 'form': form}, 'input': inp, 'observed': {'buffer entries': len(e)},
                          'expected': 'one buffer entry: the document', 'how': HOW})
            texts[form] = None
        else:
            texts[form] = e[0] + '\n'
    doc = oracle_texts(inp, texts['compact'], texts['indented'], fails, case['what'])
    if len(set(rets)) != 1:
        fails.append({'sig': {'kind': 'status_depends_on_json_form', 'where': case['what']}, 'input': inp, 'observed': rets, 'expected': 'one status', 'how': HOW})
    return doc


# ---------------------------------------------------------------- (C) output() on constructed peers

CLIENT_BANNERS = ['SSH-2.0-OpenSSH_8.0', 'SSH-2.0-PuTTY_Release_0.78', 'SSH-2.0-dropbear_2022.83', 'SSH-2.0-libssh_0.9.6 a "b" \\c', None, 'SSH-2.0-FooServer_1.0 x y', 'SSH-1.99-OpenSSH_3.9p1']


def real_output(case, form, fresh=True):
    """the real output() in JSON mode for one constructed case; returns (retval, buffer entries, banner)"""
    from ssh_audit import ssh_audit as sa
    from ssh_audit.auditconf import AuditConf
    from ssh_audit.banner import Banner
    import fakenet as fn
    if fresh:
        fn.reset_dbs()
    out = rc.recording_buffer()
    out.batch, out.verbose, out.level, out.use_colors = case.get('batch', False), False, case.get('level', 'info'), False
    aconf = AuditConf(case.get('host', 'h'), case.get('port', 22))
    aconf.batch, aconf.level, aconf.colors = out.batch, out.level, False
    aconf.json, aconf.json_print_indent = True, form == 'indented'
    banner = Banner.parse(case['banner']) if case.get('banner') is not None else None
    kex = pkm = None
    if case['what'] == 'ssh2':
        kex = rc.mk_kex(case['peer'])
    elif case['what'] == 'ssh1':
        from ssh_audit.ssh1_publickeymessage import SSH1_PublicKeyMessage
        from props.ext import C01_ssh1 as s1
        pkm = SSH1_PublicKeyMessage.parse(s1.pkm_bytes(case['pkm']))
    ret = sa.output(out, aconf, banner, [], client_host=case.get('client'), kex=kex, pkm=pkm, dh_rate_test_notes=case.get('rate', ''))
    out.flush_section()
    return ret, list(out.buffer), banner


def banner1_tokens(bn):
    return '~' if bn is None else '%d %d %s %s %s' % (bn.protocol[0], bn.protocol[1], toptstr(bn.software), toptstr(bn.comments), tbool(bn.valid_ascii))


def model_line_output(case, banner):
    hp = '%s:%d' % (case.get('host', 'h'), case.get('port', 22))
    if case['what'] == 'ssh2':
        p = dict(case['peer'])
        p['host_keys'] = {k: dict(v) for k, v in p['host_keys'].items()}
        return doc_line(p, banner, hp, case.get('client'), case.get('rate', ''))
    if case['what'] == 'ssh1':
        from props.ext import C01_ssh1 as s1
        q = case['pkm']
        sha, _, _ = s1.fp_texts(q)
        return 'jd.doc1 %d %d %d %d %d %s %s %s %s %s' % (q['cmask'], q['amask'], q['hbits'], q['he'], int(q['hn'], 16), toptstr(case.get('client')), tstr(case.get('rate', '')),
                                                        tstr(hp), tstr(sha), banner1_tokens(banner))
    notes = [case['rate']] if case.get('rate') else []
    return 'jd.docnone %s %s %s %s' % (toptstr(case.get('client')), tstr(hp), tstrs(notes), banner1_tokens(banner))


def gen_output_cases(ctx):
    from props.ext import C01_ssh1 as s1
    r = ctx.rng
    cases = []
    # fixed corners: the witnesses of the size / CA fields, a client audit, both rate-note shapes
    p = rc.mk_peer(['curve25519-sha256', GEX, 'zz-unknown"x'], ['rsa-sha2-512', CERT_RSA, CERT_ED, 'ssh-ed25519', 'ssh-rsa-cert-v00@openssh.com'], ['aes256-ctr', 'caf\xe9'], ['hmac-sha2-256', ''],
                   comp=['none', 'zlib@openssh.com'],
                   host_keys={'rsa-sha2-512': {'hostkey_size': 3072, 'ca_key_type': '', 'ca_key_size': 0},
                              CERT_RSA: {'hostkey_size': 2048, 'ca_key_type': 'ssh-"rsa"\\', 'ca_key_size': 4096},
                              CERT_ED: {'hostkey_size': 256, 'ca_key_type': 'ssh-ed25519', 'ca_key_size': 256},
                              'ssh-ed25519': {'hostkey_size': 256, 'ca_key_type': 'x', 'ca_key_size': 0},
                              'ssh-rsa-cert-v00@openssh.com': {'hostkey_size': 1024, 'ca_key_type': '', 'ca_key_size': 0}}, dh={GEX: 2048})
    cases.append({'what': 'ssh2', 'peer': p, 'banner': 'SSH-2.0-OpenSSH_8.0', 'client': None, 'rate': ''})
    cases.append({'what': 'ssh2', 'peer': p, 'banner': 'SSH-2.0-OpenSSH_7.4 "c"', 'client': '10.1.1.1', 'rate': 'rate "note" \\ \u2028', 'port': 2222})
    cases.append({'what': 'ssh2', 'peer': rc.mk_peer([''], [''], [''], [''], comp=['']), 'banner': None, 'client': None, 'rate': ''})
    for i in range(ctx.scale(120, 2000)):
        peer = pg.gen_peer(r, sizes=True, client_lists=True)
        if i % 3 == 0:
            for c in ('kex', 'key', 'encS', 'macS'):
                peer[c].insert(r.randint(0, len(peer[c])), r.choice(ODD_NAMES).decode('utf-8', 'replace'))
            for k in list(peer['host_keys']):
                if peer['host_keys'][k]['ca_key_size'] and r.random() < 0.5:
                    peer['host_keys'][k]['ca_key_type'] = r.choice(ODD_CA_TYPES).decode('ascii')
        cases.append({'what': 'ssh2', 'peer': peer, 'banner': r.choice(CLIENT_BANNERS + pg.BANNERS), 'client': ('10.1.1.1' if i % 4 == 1 else None),
                      'rate': ('Potentially insufficient connection throttling detected' if i % 7 == 3 else ''), 'port': (22 if i % 5 else 2222), 'batch': i % 2 == 0,
                      'level': ['info', 'warn', 'fail'][i % 3]})
    for i in range(ctx.scale(24, 256)):
        q = s1.mk_case(r.randrange(128), r.randrange(128) & 0x7e, hbits=r.choice([768, 1024, 2048]), banner='x')
        cases.append({'what': 'ssh1', 'pkm': q, 'banner': r.choice(s1.BANNERS + [None, 'SSH-1.5-OpenSSH_3.9 "c" \\']), 'client': ('10.1.1.1' if i % 5 == 2 else None),
                      'rate': ('rate test note' if i % 4 == 1 else '')})
    for i, bn in enumerate(CLIENT_BANNERS + ['SSH-1.5-OpenSSH_3.9', 'SSH-2.0-OpenSSH_8.0 a "q" \\b']):
        cases.append({'what': 'none', 'banner': bn, 'client': ('10.1.1.1' if i % 3 == 1 else None), 'rate': ''})
    return cases


# ---------------------------------------------------------------- run

def first_diff(a, c):
    i = next((k for k, (x, y) in enumerate(zip(a, c)) if x != y), min(len(a), len(c)))
    return {'at': i, 'model': a[max(0, i - 30):i + 50], 'impl': c[max(0, i - 30):i + 50], 'len_model': len(a), 'len_impl': len(c)}


def run(ctx):
    import fakenet as fn
    r = ctx.rng
    cov = Coverage('JSON document: one evaluation = one printed document (or one json.dumps / json.loads call) compared byte for byte with the model; non-trivial = distinct documents with at '
                   'least one algorithm entry or distinct values with a container. (A) %d fixed + generated values over every escape class (quotes, backslashes, C0 controls, DEL, Latin-1, BMP edge, '
                   'astral, U+2028), code-point key order incl. U+FFFF vs U+10000, nesting to depth 5, empty containers, ints to 10^30; mutated documents. (B) main() -j / -jj / text over scripted peers: '
                   'odd names (quotes, backslashes, control characters, invalid UTF-8, astral), blank and repeated names, RSA / Ed25519 / ECDSA keys, certificates with odd CA key types, group-exchange '
                   'moduli, banners with comments. (C) output() on constructed peers (size maps, client audits, rate notes, every level), SSH-1 public-key messages, no peer.' % len(FIXED_VALUES))
    failures, mismatches = [], []
    corr = 0

    # ---- (A) json.dumps / json.loads
    values = list(FIXED_VALUES) + [gen_value(r) for _ in range(ctx.scale(1500, 20000))]
    lines, expect = [], []
    docs_for_mutation = []
    for v in values:
        c, i = json.dumps(v, sort_keys=True), json.dumps(v, sort_keys=True, indent=4)
        lines.append('jd.dumps ' + tval(v))
        expect.append((v, c, i))
        docs_for_mutation += [c, i]
        cov.add(('value', c), isinstance(v, (list, dict)) and len(v) > 0, tags=['dumps-' + type(v).__name__], sample={'value': c[:120]} if len(cov.samples) < 1 and len(c) > 40 else None)
    model = ctx.driver(lines) if ctx.driver_ok else []
    corr += len(model)
    for line, m, (v, c, i) in zip(lines, model, expect):
        k = m.get('ok') or {}
        if k.get('compact') != c or k.get('indented') != i:
            which = 'compact' if k.get('compact') != c else 'indented'
            mismatches.append({'stream': 'jd.dumps', 'op': line[:300], 'model': first_diff(k.get(which) or '', c if which == 'compact' else i), 'impl': which})
        elif k.get('loadsCompact') != canon_loads(c) or k.get('loadsIndented') != canon_loads(i):
            mismatches.append({'stream': 'jd.dumps/loads', 'op': line[:300], 'model': str(k.get('loadsCompact'))[:300], 'impl': str(canon_loads(c))[:300]})
    lines, expect = [], []
    for _ in range(ctx.scale(2500, 30000)):
        t = mutate(r, r.choice(docs_for_mutation))
        if len(t) > 3000:
            continue
        want = canon_loads(t)
        if want.get('err') == 'recursion':
            continue
        lines.append('jd.loads ' + tstr(t))
        expect.append((t, want))
        cov.add(('loads', t), 'ok' in want, tags=['loads-accepted' if 'ok' in want else 'loads-rejected'])
    model = ctx.driver(lines) if ctx.driver_ok else []
    corr += len(model)
    skipped = 0
    for line, m, (t, want) in zip(lines, model, expect):
        if m.get('err') == 'out-of-model' or ('ok' in want and has_lone_surrogate(json.loads(t))):
            skipped += 1       # a lone \uD800-\uDFFF escape: accepted by Python, not representable as List Char
            continue
        if m != want:
            mismatches.append({'stream': 'jd.loads', 'op': repr(t)[:300], 'model': str(m)[:300], 'impl': str(want)[:300]})

    # ---- (B) main()
    specs = list(FIXED_SPECS) + [gen_spec(r, i) for i in range(ctx.scale(110, 1500))]
    lines, expect = [], []
    for spec in specs:
        runs, cap, payload = {}, None, None
        for key, args, fresh in (('j', ['-j'], True), ('j2', ['-j'], True), ('jj', ['-jj'], True), ('text', ['-b'], True)):
            code, text, cp, payload = run_main(spec, args, fresh=fresh)
            runs[key] = (code, text)
            if key == 'j':
                cap = cp
        oracle_main(spec, runs, payload, failures)
        odd = any(not all(32 < x < 127 for x in bytes.fromhex(n)) or b'"' in bytes.fromhex(n) or b'\\' in bytes.fromhex(n) for c in CATS for n in spec[c])
        for form in ('j', 'jj'):
            cov.add(('main', form, runs[form][1]), any(spec[c] != [''] for c in CATS), tags=['main-' + form, 'main-exit-%s' % runs[form][0]] + (['main-odd-names'] if odd else []) +
                    (['main-cert'] if any(h[0] == 'cert' for h in spec['hostkeys'].values()) else []) + (['main-gex'] if spec.get('gex') else []),
                    sample={'args': form, 'stdout_head': runs[form][1][:160]} if odd and form == 'j' and len(cov.samples) < 3 else None)
        if cap is None or cap.get('kex') is None:
            mismatches.append({'stream': 'jd.doc/main', 'op': json.dumps(spec)[:300], 'model': 'expected a completed audit', 'impl': runs['j'][1][:200]})
            continue
        if cap['edits'] is None:
            mismatches.append({'stream': 'jd.doc/main', 'op': json.dumps(spec)[:300], 'model': 'the scan added or removed database entries', 'impl': ''})
            continue
        lines.append(doc_line(cap['peer'], cap['banner'], '%s:%d' % (cap['host'], cap['port']), cap['client_host'], cap['rate'], cap['edits']))
        for c_, n_, d_ in cap['edits']:
            cov.add(('edit', c_, n_, str(d_)), True, tags=['main-scan-edited-entry'])
        expect.append((spec, runs['j'][1], runs['jj'][1]))
    model = ctx.driver(lines) if ctx.driver_ok else []
    corr += 2 * len(model)
    for line, m, (spec, cj, cjj) in zip(lines, model, expect):
        k = m.get('ok')
        if k is None:
            mismatches.append({'stream': 'jd.doc/main', 'op': line[:300], 'model': m, 'impl': cj[:200]})
            continue
        for form, got, want in (('-j', k['compact'] + '\n', cj), ('-jj', k['indented'] + '\n', cjj)):
            if got != want:
                mismatches.append({'stream': 'jd.doc/main ' + form, 'op': line[:300], 'model': first_diff(got, want), 'impl': {'spec': {c: spec[c][:4] for c in CATS}}})

    # ---- (C) output()
    lines, expect = [], []
    for case in gen_output_cases(ctx):
        ents, rets, banner = {}, [], None
        for form in ('compact', 'indented'):
            ret, entries, banner = real_output(case, form)
            ents[form] = entries
            rets.append(ret)
        oracle_output({k: v for k, v in case.items()}, ents, rets, failures)
        for form in ('compact', 'indented'):
            cov.add(('output', case['what'], form, ents[form][0] if ents[form] else ''), True, tags=['output-%s-%s' % (case['what'], form)] + (['output-client'] if case.get('client') else []))
        lines.append(model_line_output(case, banner))
        expect.append((case, ents))
    model = ctx.driver(lines) if ctx.driver_ok else []
    corr += 2 * len(model)
    for line, m, (case, ents) in zip(lines, model, expect):
        k = m.get('ok')
        if k is None:
            mismatches.append({'stream': 'jd.doc/output', 'op': line[:300], 'model': m, 'impl': case['what']})
            continue
        for form in ('compact', 'indented'):
            if [k[form]] != ents[form]:
                mismatches.append({'stream': 'jd.doc/output %s %s' % (case['what'], form), 'op': line[:300], 'model': first_diff(k[form], ents[form][0] if ents[form] else ''), 'impl': case['what']})
    fn.reset_dbs()
    for k_, n_ in sorted(ORACLE_COUNTS.items()):
        cov.hist[k_] = cov.hist.get(k_, 0) + n_
    ORACLE_COUNTS.clear()
    return {'failures': failures, 'mismatches': mismatches, 'coverage': cov, 'corr_cases': corr,
            'assumptions': ['JSON document: strings are Unicode scalar values (List Char); %d mutated texts with a lone \\uD800-\\uDFFF escape were not compared with the model (Python accepts them, the model answers '
                            'out-of-model). Nothing that reaches the document can hold a lone surrogate: name-lists and banner lines are decoded with utf-8/replace (U+FFFD), host-key and CA key types with ascii/strict; '
                            'the oracle checks every printed document for it' % skipped,
                            'JSON document: the fingerprint hashes are inputs of the model (hashlib values supplied by the harness, as in C15; the list is formed by build_struct\'s own rule: RSA-family entries moved to ssh-rsa in insertion order); '
                            'banner fields come from the real Banner.parse (C16); the database the model starts from is the thread\'s copy when output() is called (the entries the scan edited — size findings — are passed to the model as they are)'],
            'observations': ['what can reach the JSON document from the peer: algorithm and compression names (utf-8/replace: any scalar value incl. C0 controls, quotes, backslashes, astral characters; a raw line '
                             'feed or ANSI escape inside a name is written as \\n / \\u001b), the CA key type of a certificate (ASCII incl. controls and quotes), banner software / comments (printable ASCII only: '
                             'Banner.parse maps the rest to "?"). Header lines and certificate key IDs / principals do not enter the document',
                             'build_struct renames the RSA-family entries of kex.host_keys() to ssh-rsa inside the SSH2_Kex object (a second output() on the same object would list rsa-sha2-* without keysize); with different '
                             'raw keys per RSA type (not producible by a scan: set_host_key stores one key for the family) the JSON fingerprint of ssh-rsa is the first family member\'s, the text report\'s the last one\'s']}


# ---------------------------------------------------------------- replay

def replay(obj):
    from common import rerun_for_signature
    import sys
    f = obj.get('failure', obj)
    inp = f.get('input') or {}
    fails = []
    if inp.get('what') == 'main()':
        spec = inp['spec']
        runs, payload = {}, None
        for key, args, fresh in (('j', ['-j'], True), ('j2', ['-j'], True), ('jj', ['-jj'], True), ('text', ['-b'], True)):
            code, text, _, payload = run_main(spec, args, fresh=fresh)
            runs[key] = (code, text)
        oracle_main(spec, runs, payload, fails)
        print('main() -j on the recorded peer: exit %s, stdout %r…' % (runs['j'][0], runs['j'][1][:200]))
    elif inp.get('what') == 'output()':
        case = inp['case']
        ents, rets = {}, []
        for form in ('compact', 'indented'):
            ret, entries, _ = real_output(case, form)
            ents[form] = entries
            rets.append(ret)
        oracle_output(case, ents, rets, fails)
        print('output() in JSON mode on the recorded case: %d / %d buffer entries' % (len(ents['compact']), len(ents['indented'])))
    else:
        print(json.dumps(f, indent=1, default=str)[:1500])
        return rerun_for_signature(sys.modules[__name__], f)
    bad = 0
    for x in fails:
        same = x['sig'].get('kind') == (f.get('sig') or {}).get('kind')
        print('PROPERTY FAILS%s (%s): observed %s, expected %s' % ('' if same else ' (another clause)', json.dumps(x['sig'], sort_keys=True), json.dumps(x['observed'], default=str)[:400], json.dumps(x['expected'], default=str)[:200]))
        bad = 1
    if not bad:
        print('the property holds on this input: one document per form, ASCII, sorted keys, equal values, names as on the wire')
    return bad
