import SshAudit.Driver.Tables
import SshAudit.Driver.WireOps
import SshAudit.Driver.BannerOps
import SshAudit.Driver.VersionOps
import SshAudit.Driver.TargetOps
import SshAudit.Driver.PolicyOps
import SshAudit.Driver.GexOps
import SshAudit.Driver.ReportOps
import SshAudit.Driver.HostKeyOps
import SshAudit.Driver.SessionOps
import SshAudit.Driver.MultiOps
import SshAudit.Driver.OutputOps
import SshAudit.Driver.FootprintOps
import SshAudit.Driver.PolicyFileOps
import SshAudit.Driver.Ssh1ReportOps
import SshAudit.Driver.LookupOps
import SshAudit.Driver.JsonDocOps
import SshAudit.Driver.PolicyAuditOps
import SshAudit.Driver.CompatOps
namespace SshAudit.Driver

def badOp : J := .obj [("err", .str "bad-op".toList)]

def firstSome (fs : List (String → List String → Option J)) (op : String) (args : List String) : Option J :=
  fs.findSome? (fun f => f op args)

def dispatch (op : String) (args : List String) : J :=
  if op = "dump-tables" then dumpTables else
  match firstSome [wireOp, bannerOp, versionOp, targetOp, policyOp, gexOp, reportOp, hostKeyOp, sessionOp, multiOp, outputOp, footprintOp, policyFileOp, ssh1ReportOp, lookupOp, jsonDocOp, policyAuditOp, compatOp] op args with
  | some j => j
  | none => badOp

end SshAudit.Driver
