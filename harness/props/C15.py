"""C15 — Output options change presentation only, never findings or verdict.

Theorems: SshAudit.Props.C15 (the buffer machine of outputbuffer.py run on the call sequence of
output() equals a closed form; raising the level only deletes lines (sub-list, and exactly the
filter image section by section); the findings shown and their filter level are functions of the
report alone under batch / verbose / colour / level; colour escapes strip to the plain output; JSON
mode leaves exactly one buffer entry — the document — at every level; negations with witnesses for
the known deviations D32 (blank line), C15-VJ (-v -j) and D05 (error path)).
Tie: (1) random operation sequences on the real OutputBuffer vs. the model machine; (2) the real
output() on generated peers over the full 72-point option grid vs. the model's render (entry by
entry), its closed form and its finding/method pairs; (3) the real main() over scripted peers vs.
the model's stdout; (4) sortStr / stripAnsi vs. sorted() / an independent regular expression.
Oracle: the property itself on the real code, independent of the model — records re-parsed from the
captured text of every option set, sub-sequence test between levels, JSON notes vs. text notes for
database names, exit codes; runtime part (testing): subprocess runs under PYTHONHASHSEED 0/1/2/random.
"""
import base64
import hashlib
import io
import ipaddress
import itertools
import json
import os
import re
import subprocess
import sys
import tempfile

from common import Coverage, tstr, tstrs, toptstr, tbool, REPO, HERE
from props import report_common as rc
from props import peergen as pg
import fakenet as fn

ID = 'C15'
MODULE = 'SshAudit.Props.C15'
NAMESPACE = 'SshAudit.C15'
THEOREMS = []
TECHNIQUE = ''
LEVEL_TEXT = ''
LEVEL_NOTE = ''

LEVELS = ('info', 'warn', 'fail')
ANSI_RX = re.compile('\x1b\\[0(;[0-9][0-9])?m')
GRID = [dict(batch=b, verbose=v, colors=c, level=l, json=j) for b in (False, True) for v in (False, True) for c in (False, True)
        for l in LEVELS for j in (0, 1, 2)]


def cfg_token(o, debug=False):
    return '%s%s%s%s%s%s:%d' % (tbool(o['batch']), tbool(o['verbose']), tbool(debug), tbool(o['colors']), tbool(o['json'] > 0), tbool(o['json'] > 1),
                                LEVELS.index(o['level']))


# ---------------------------------------------------------------- running the real output()

def real_output(peer, o, client=False, banner_line='SSH-2.0-OpenSSH_8.0', rate_notes='', header=(), print_target=False, host='h', port=22, has_kex=True):
    """The real output() on a recording OutputBuffer configured like audit() does; returns (retval, buffer entries, records, banner)."""
    from ssh_audit import ssh_audit as sa
    from ssh_audit.auditconf import AuditConf
    from ssh_audit.banner import Banner
    fn.reset_dbs()
    out = rc.recording_buffer()
    out.batch, out.verbose, out.level, out.use_colors = o['batch'], o['verbose'], o['level'], o['colors']
    aconf = AuditConf(host, port)
    aconf.batch, aconf.verbose, aconf.level, aconf.colors = o['batch'], o['verbose'], o['level'], o['colors']
    aconf.json, aconf.json_print_indent = o['json'] > 0, o['json'] > 1
    banner = Banner.parse(banner_line) if banner_line is not None else None
    kex = rc.mk_kex(peer) if has_kex else None
    ret = sa.output(out, aconf, banner, list(header), client_host=('10.1.1.1' if client else None), kex=kex, print_target=print_target, dh_rate_test_notes=rate_notes)
    out.flush_section()
    return ret, list(out.buffer), list(out.records), banner


def fingerprints_of(host_keys):
    """(type, SHA256:…, MD5:…) triples the report walks — computed with hashlib/base64 only."""
    from ssh_audit.hostkeytest import HostKeyTest
    fps = {}
    for t, v in host_keys.items():
        if v is None:
            continue
        raw = v['raw_hostkey_bytes'] if 'raw_hostkey_bytes' in v else v.get('raw', b'blob-' + t.encode())
        if t in HostKeyTest.RSA_FAMILY:
            t = 'ssh-rsa'
        if '-cert-' in t:
            continue
        h = hashlib.md5(raw).hexdigest()
        fps[t] = ('SHA256:' + base64.b64encode(hashlib.sha256(raw).digest()).decode().rstrip('='), 'MD5:' + ':'.join(h[i:i + 2] for i in range(0, 32, 2)))
    return [(t,) + fps[t] for t in sorted(fps)]


def target_text(host, port):
    if port == 22:
        return host
    try:
        if ipaddress.ip_address(host).version == 6:
            return '[%s]:%d' % (host, port)
    except ValueError:
        pass
    return '%s:%d' % (host, port)


def compat_text(peer, client):
    """the text of the (gen) compatibility line, from the real output_compatibility (data input of the presentation layer)"""
    from ssh_audit import ssh_audit as sa
    from ssh_audit.algorithms import Algorithms
    fn.reset_dbs()
    b = rc.recording_buffer()
    sa.output_compatibility(b, Algorithms(None, rc.mk_kex(peer)), client)
    for _, s, _, _ in b.records:
        if s.startswith('(gen) compatibility: '):
            return s[len('(gen) compatibility: '):]
    return None


def run_line(o, peer, banner, client=False, rate_notes='', header=(), print_target=False, host='h', port=22, has_kex=True, docs=('', ''), vmsgs=(), err=None,
             compat=None, debug=False):
    """driver line `output.run …` for one option set and one peer (banner: parsed Banner or None)"""
    from ssh_audit.software import Software
    from ssh_audit.product import Product
    sw = Software.parse(banner) if banner is not None else None
    fps = fingerprints_of(peer['host_keys']) if has_kex else []
    toks = [cfg_token(o, debug), tbool(has_kex), toptstr(target_text(host, port) if print_target else None), toptstr('10.1.1.1' if client else None),
            toptstr('\n'.join(header) if len(header) > 0 else None), toptstr(str(banner) if banner is not None else None),
            tbool(banner is not None and banner.protocol[0] == 1), tbool(banner.valid_ascii if banner is not None else True),
            toptstr(str(sw) if sw is not None else None), toptstr(sw.display(False) if sw is not None else None), toptstr(compat),
            ('_' if not fps else ';'.join('%s:%s:%s' % (tstr(a), tstr(b), tstr(c)) for a, b, c in fps)),
            tbool(client and sw is not None and sw.product == Product.PuTTY), tstr(docs[0]), tstr(docs[1]), tstrs(list(vmsgs)), toptstr(err)]
    return 'output.run ' + ' '.join(toks) + ' ' + rc.report_line(peer, client, banner, rate_notes)[len('report '):]
