import SshAudit.Driver.WireOps
import SshAudit.Driver.ReportOps
import SshAudit.Driver.GexOps
import SshAudit.Model.HostKey
import SshAudit.Gen.KexDB
import SshAudit.Gen.Tables
namespace SshAudit.Driver
open SshAudit SshAudit.HostKey

/-- the tables of /repo (translated on every run) as the model's configuration -/
def hkCfg : Cfg :=
  { types := Gen.hostKeyTypes, rsaFamily := Gen.rsaFamily, two2k := Gen.two2kWarning, smallEcc := Gen.smallEccWarning,
    kexGroups := Gen.kexToDhgroupKeys }

def jparsed (blob : Option Bytes) (p : Parsed) : J :=
  .obj ([("type", .str p.keyType), ("nLen", .nat p.nLen), ("nBits", .nat p.nBits), ("size", .nat p.size), ("caType", .str p.caType),
         ("caNLen", .nat p.caNLen), ("caNBits", .nat p.caNBits), ("caSize", .nat p.caSize)] ++
        (match blob with | some b => [("blob", J.ofBytes b)] | none => []))

/-- outcome map token: `name=c | name=x | name=n | name=r<hex>` joined by `;` (`_` = empty) -/
def decOutcome (tok : String) : Option Outcome :=
  if tok = "c" then some .connFail else if tok = "x" then some .raised else if tok = "n" then some .noReply
  else if tok.startsWith "r" then (decBytes (let h := (tok.drop 1).toString; if h = "" then "-" else h)).map Outcome.reply else none

def decOutcomes (tok : String) : Option (List (Str × Outcome)) :=
  if tok = "_" then some [] else
  (tok.splitOn ";").mapM fun (e : String) =>
    match e.splitOn "=" with
    | [n, o] => do let n ← decStr n; let o ← decOutcome o; pure (n, o)
    | _ => none

/-- a scripted server: the outcome listed for the requested type (unlisted = the connection is closed before the reply);
    connections with index ≥ `refuseAfter` are refused (the state is the number of connections so far) -/
def mapSrv (m : List (Str × Outcome)) (refuseAfter : Option Nat) : Nat → Str → Outcome × Nat := fun i n =>
  (if (match refuseAfter with | some k => decide (k ≤ i) | none => false) then .connFail
   else match m.find? (·.1 = n) with | some (_, o) => o | none => .noReply, i + 1)

def jhkrec (e : Str × HKRec) : J := .arr [.str e.1, J.ofBytes e.2.raw, .nat e.2.info.size, .str e.2.info.caType, .nat e.2.info.caSize]
def jfp (e : Str × Bytes) : J := .arr [.str e.1, J.ofBytes e.2]
def jhalt : Option Halt → J
  | none => .null | some .connFail => .str "connFail".toList | some .keyError => .str "keyError".toList

def decRecs (tok : String) : Option (List (Str × HKRec)) :=
  if tok = "_" then some [] else
  (tok.splitOn ";").mapM fun (e : String) =>
    match e.splitOn ":" with
    | [n, raw, sz, ct, cs] => do
      let n ← decStr n; let raw ← decBytes raw; let sz ← decNat sz; let ct ← decStr ct; let cs ← decNat cs
      pure (n, ({ raw := raw, info := { size := sz, caType := ct, caSize := cs } } : HKRec))
    | _ => none

def jview (keys : List Str) (db : DB) (hk : List (Str × HKRec)) : List (String × J) :=
  [("hostKeys", .arr (hk.map jhkrec)),
   ("keyLines", .arr ((Report.algLines Gen.rsaFamily db Report.keyC keys (toReport hk) []).map jline)),
   ("jsonNotes", .arr (keys.map fun n => .arr [.str n, jjn (Report.jsonNotes db Gen.failUnknown Report.keyC n)])),
   ("jsonFields", .arr (keys.map fun n =>
      let f := jsonKeyFields Gen.rsaFamily n hk
      .arr [.str n, J.ofOpt J.nat f.1, J.ofOpt (fun (c : Str × Nat) => .arr [.str c.1, .nat c.2]) f.2])),
   ("textFps", .arr ((textFps Gen.rsaFamily hk).map jfp)),
   ("textShown", .arr (((textFps Gen.rsaFamily hk).filter (fun e => fpShown false e.1)).map jfp)),
   ("jsonFps", .arr ((jsonFps Gen.rsaFamily hk).map jfp))]

def decNats (tok : String) : Option (List Nat) := (tok.splitOn ",").mapM (fun (x : String) => x.toNat?)

def hostKeyOp (op : String) (args : List String) : Option J :=
  match op, args with
  | "hk.parse", [h] => do
    let b ← decBytes h
    pure (jres (fun (r : Bytes × Parsed) => jparsed (some r.1) r.2) (recvReply b))
  | "hk.blob", [h] => do
    let b ← decBytes h
    pure (jres (jparsed none) (parseHostKey b))
  | "hk.getbytes", [h] => do
    let b ← decBytes h
    pure (jres (fun (r : Bytes × Nat × Bytes) => .arr [J.ofBytes r.1, .nat r.2.1, J.ofBytes r.2.2]) (getBytes b))
  | "hk.comments", [n, c, sz, ct, cs] => do
    let n ← decStr n; let c ← decBool c; let sz ← decNat sz; let ct ← decStr ct; let cs ← decNat cs
    let fw := comments hkCfg n c sz ct cs
    pure (jok (.arr [J.ofStrs fw.1, J.ofStrs fw.2]))
  | "hk.extend", [d, f, w] => do
    let d ← decDesc d; let f ← decStrs f; let w ← decStrs w
    pure (jok (jdesc (extendDesc f w d)))
  | "hk.audit", [k, key, o, ra] => do
    let kex ← decStrs k; let keys ← decStrs key; let m ← decOutcomes o
    let ra ← if ra = "~" then some none else (decNat ra).map some
    let st := run hkCfg (mapSrv m ra) 0 Gen.ssh2db kex keys
    pure (jok (.obj ([("probes", J.ofStrs st.probes), ("halt", jhalt st.halt), ("parsed", J.ofStrs st.parsed),
      ("descs", .arr (Gen.hostKeyTypes.map fun t => .arr [.str t.name, J.ofOpt (fun (e : Entry) => jdesc e.desc) (DBm.lookup st.db Report.keyC t.name)]))]
      ++ jview keys st.db st.hostKeys)))
  | "hk.view", [key, recs] => do
    let keys ← decStrs key; let hk ← decRecs recs
    pure (jok (.obj (jview keys Gen.ssh2db hk)))
  | "hk.fpfmt", [a, b] => do
    let a ← decBytes a; let b ← decBytes b
    pure (jok (.arr [.str (sha256Text a), .str (md5Text b)]))
  | "hk.adjust", [n] => do let n ← decNat n; pure (jok (.arr [.nat (adjustKeySize n)]))
  | "hk.enc.rsa", [e, n] => do let e ← hexNat e; let n ← hexNat n; pure (jok (J.ofBytes (Spec.rsaBlob e n)))
  | "hk.enc.ed25519", [pk] => do let pk ← decBytes pk; pure (jok (J.ofBytes (Spec.ed25519Blob pk)))
  | "hk.enc.ed448", [pk] => do let pk ← decBytes pk; pure (jok (J.ofBytes (Spec.ed448Blob pk)))
  | "hk.enc.ecdsa", [c, x, y] => do let c ← decStr c; let x ← decBytes x; let y ← decBytes y; pure (jok (J.ofBytes (Spec.ecdsaBlob c x y)))
  | "hk.enc.reply", [b, f, sg] => do let b ← decBytes b; let f ← decBytes f; let sg ← decBytes sg; pure (jok (J.ofBytes (Spec.kexReply b f sg)))
  | "hk.enc.cert", [kind, pub, ct, nonce, nums, keyId, princ, crit, ext, resv, sg, ca] => do
    -- kind: `r` (pub = `e,n` in hex) or `e` (pub = public key hex); nums = `serial,validAfter,validBefore`
    let ct ← decNat ct; let nonce ← decBytes nonce; let nums ← decNats nums
    let keyId ← decBytes keyId; let princ ← decBytes princ; let crit ← decBytes crit; let ext ← decBytes ext
    let resv ← decBytes resv; let sg ← decBytes sg; let ca ← decBytes ca
    match nums with
    | [serial, va, vb] =>
      let f : Spec.CertFields := { nonce := nonce, serial := serial, keyId := keyId, principals := princ, validAfter := va, validBefore := vb,
                                   crit := crit, ext := ext, reserved := resv, sig := sg }
      if kind = "r" then do
        let en ← (pub.splitOn ",").mapM hexNat
        match en with
        | [e, n] => pure (jok (J.ofBytes (Spec.rsaCert e n ct f ca)))
        | _ => none
      else if kind = "e" then do
        let pk ← decBytes pub
        pure (jok (J.ofBytes (Spec.edCert pk ct f ca)))
      else none
    | _ => none
  | _, _ => none

end SshAudit.Driver
