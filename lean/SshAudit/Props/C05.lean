/-
  C05 — A policy made from a target passes on that target and fails on any drift.

  `policyOf peer` is what `Policy.create` + the policy-file parser yield for a peer (exact-match
  flags, no banner/compression/optional lists; sizes normalised as `_normalize_hostkey_sizes`
  does).  The text layer (rendering a list line and parsing it back) is `parseListLine_render`.
-/
import SshAudit.Props.C06
import SshAudit.Gen.Policies
namespace SshAudit.C05
open SshAudit SshAudit.Pol SshAudit.C06

theorem lookup_map {α β} (l : List (Str × α)) (f : α → β) (t : Str) :
    lookup (l.map (fun kv => (kv.1, f kv.2))) t = (lookup l t).map f := by
  induction l with
  | nil => rfl
  | cons kv l ih =>
    unfold lookup at *
    simp only [List.map_cons, List.find?_cons]
    by_cases h : kv.1 = t
    · simp only [h, decide_true]; rfl
    · simp only [h, decide_false]; exact ih

/-- **The made policy passes on the peer it was made from** — every peer, any lists and sizes. -/
theorem made_policy_passes (peer : Peer) : Satisfied (policyOf peer) peer := by
  unfold Satisfied policyOf
  refine ⟨by simp, fun _ => ⟨by simp, ?_, ?_, ?_, ?_, ?_, ?_⟩⟩
  · intro hk h; simp at h; subst h; simp [listOk, prunedKeys]
  · intro sizes hs t exp act hl1 hl2
    simp only at hs
    split at hs
    · simp at hs
    · simp only [Option.some.injEq] at hs
      subst hs
      rw [lookup_map, hl2] at hl1
      simp only [Option.map_some, Option.some.injEq] at hl1
      subst hl1
      unfold normHKS sizeOk
      by_cases hc : act.caType = [] ∨ act.caSize = 0
      · rw [if_pos hc]; simp
      · rw [if_neg hc]; simp
  · intro k h; simp at h; subst h; simp [listOk]
  · intro c h; simp at h; subst h; simp [listOk]
  · intro m h; simp at h; subst h; simp [listOk]
  · intro sizes hs t exp act hl1 hl2
    simp only at hs
    split at hs
    · simp at hs
    · simp only [Option.some.injEq] at hs
      subst hs
      rw [hl2] at hl1
      simp only [Option.some.injEq] at hl1
      subst hl1
      simp [sizeOk]

theorem made_policy_verdict (peer : Peer) : (evaluate (policyOf peer) peer []).1 = true ∧ (evaluate (policyOf peer) peer []).2 = [] := by
  have h := (evaluate_iff_satisfied _ _).mpr (made_policy_passes peer)
  exact ⟨h, (passed_iff_no_errors _ _).mp h⟩

/-! ### drift: any single changed attribute fails, and the error names the field -/

/-- errors are only ever appended -/
def Ext (st st' : St) : Prop := ∃ l, st'.2 = st.2 ++ l

theorem Ext.refl (st : St) : Ext st st := ⟨[], by simp⟩
theorem Ext.trans {a b c : St} (h1 : Ext a b) (h2 : Ext b c) : Ext a c := by
  obtain ⟨l1, e1⟩ := h1; obtain ⟨l2, e2⟩ := h2
  exact ⟨l1 ++ l2, by rw [e2, e1, List.append_assoc]⟩
theorem Ext.mem {a b : St} (h : Ext a b) {e : PErr} (he : e ∈ a.2) : e ∈ b.2 := by
  obtain ⟨l, el⟩ := h; rw [el]; exact List.mem_append_left _ he

theorem Ext.exists_mem {a b : St} (h : Ext a b) {P : PErr → Prop} (he : ∃ e ∈ a.2, P e) : ∃ e ∈ b.2, P e := by
  obtain ⟨e, hm, hp⟩ := he
  exact ⟨e, h.mem hm, hp⟩

theorem stepIf_ext (bad : Bool) (st : St) (f : Str) (r : List Str) (o : Option (List Str)) (a : List Str) : Ext st (stepIf bad st f r o a) := by
  cases bad
  · exact Ext.refl _
  · exact ⟨[_], failWith_snd ..⟩

theorem stepIf_bad_mem (st : St) (f : Str) (r : List Str) (o : Option (List Str)) (a : List Str) :
    ∃ e ∈ (stepIf true st f r o a).2, e.field = f ∧ e.expectedRequired = r ∧ e.actual = a := by
  refine ⟨{ field := f, expectedRequired := r, expectedOptional := o.getD [[]], actual := a }, ?_, rfl, rfl, rfl⟩
  simp [stepIf, failWith]

theorem foldl_ext {α} (step : St → α → St) (hs : ∀ st a, Ext st (step st a)) (ts : List α) (st : St) : Ext st (ts.foldl step st) := by
  induction ts generalizing st with
  | nil => exact Ext.refl _
  | cons t ts ih => exact (hs st t).trans (ih _)

theorem hostKeySizeStep_ext (p : Policy) (peer : Peer) (sizes : List (Str × HKS)) (st : St) (t : Str) : Ext st (hostKeySizeStep p peer sizes st t) := by
  unfold hostKeySizeStep
  split
  · simp only
    split
    · split
      · exact (stepIf_ext _ _ _ _ _ _).trans ⟨[_], failWith_snd ..⟩
      · exact (stepIf_ext _ _ _ _ _ _).trans (stepIf_ext _ _ _ _ _ _)
    · exact stepIf_ext _ _ _ _ _ _
  · exact Ext.refl _

theorem dhSizeStep_ext (p : Policy) (peer : Peer) (sizes : List (Str × Nat)) (st : St) (t : Str) : Ext st (dhSizeStep p peer sizes st t) := by
  unfold dhSizeStep
  split
  · exact stepIf_ext _ _ _ _ _ _
  · exact Ext.refl _

theorem stComp_ext (p : Policy) (peer : Peer) (st : St) : Ext st (stComp p peer st) := by
  unfold stComp; cases p.compressions <;> first | exact Ext.refl _ | exact stepIf_ext _ _ _ _ _ _
theorem stHostKeys_ext (p : Policy) (peer : Peer) (st : St) : Ext st (stHostKeys p peer st) := by
  unfold stHostKeys; cases p.hostKeys <;> first | exact Ext.refl _ | exact stepIf_ext _ _ _ _ _ _
theorem stHostKeySizes_ext (p : Policy) (peer : Peer) (st : St) : Ext st (stHostKeySizes p peer st) := by
  unfold stHostKeySizes; cases p.hostkeySizes with
  | none => exact Ext.refl _
  | some sizes => exact foldl_ext _ (hostKeySizeStep_ext p peer sizes) _ _
theorem stKex_ext (p : Policy) (peer : Peer) (st : St) : Ext st (stKex p peer st) := by
  unfold stKex; cases p.kex with
  | none => exact Ext.refl _
  | some k => exact (stepIf_ext _ _ _ _ _ _).trans (stepIf_ext _ _ _ _ _ _)
theorem stCiphers_ext (p : Policy) (peer : Peer) (st : St) : Ext st (stCiphers p peer st) := by
  unfold stCiphers; cases p.ciphers <;> first | exact Ext.refl _ | exact stepIf_ext _ _ _ _ _ _
theorem stMacs_ext (p : Policy) (peer : Peer) (st : St) : Ext st (stMacs p peer st) := by
  unfold stMacs; cases p.macs <;> first | exact Ext.refl _ | exact stepIf_ext _ _ _ _ _ _
theorem stDh_ext (p : Policy) (peer : Peer) (st : St) : Ext st (stDh p peer st) := by
  unfold stDh; cases p.dhSizes with
  | none => exact Ext.refl _
  | some sizes => exact foldl_ext _ (dhSizeStep_ext p peer sizes) _ _

/-- in exact mode a peer whose list differs (insert, delete, reorder — anything) fails, and an error names the field -/
theorem drift_kex (peer peer' : Peer) (hk : peer'.hasKex = true) (hd : peer'.kex ≠ peer.kex) :
    (evaluate (policyOf peer) peer' []).1 = false ∧
    ∃ e ∈ (evaluate (policyOf peer) peer' []).2, e.field = s "Key exchanges" ∧ e.expectedRequired = peer.kex ∧ e.actual = peer'.kex := by
  constructor
  · cases h : (evaluate (policyOf peer) peer' []).1
    · rfl
    · have hs := (evaluate_iff_satisfied _ _).mp h
      obtain ⟨_, hr⟩ := hs
      obtain ⟨_, _, _, h4, _⟩ := hr hk
      have := (h4 peer.kex (by simp [policyOf])).1
      simp [listOk, policyOf] at this
      exact absurd this hd
  · unfold evaluate
    simp only [hk, Bool.not_true, Bool.false_eq_true, if_false]
    apply Ext.exists_mem ((stCiphers_ext _ _ _).trans ((stMacs_ext _ _ _).trans (stDh_ext _ _ _)))
    unfold stKex
    simp only [policyOf]
    have hb : listBad false peer.kex peer'.kex peer'.kex = true := by simp [listBad, hd]
    rw [hb]
    apply Ext.exists_mem (stepIf_ext _ _ _ _ _ _)
    exact stepIf_bad_mem _ _ _ _ _

theorem drift_ciphers (peer peer' : Peer) (hk : peer'.hasKex = true) (hd : peer'.enc ≠ peer.enc) :
    (evaluate (policyOf peer) peer' []).1 = false ∧
    ∃ e ∈ (evaluate (policyOf peer) peer' []).2, e.field = s "Ciphers" ∧ e.expectedRequired = peer.enc ∧ e.actual = peer'.enc := by
  constructor
  · cases h : (evaluate (policyOf peer) peer' []).1
    · rfl
    · have hs := (evaluate_iff_satisfied _ _).mp h
      obtain ⟨_, hr⟩ := hs
      obtain ⟨_, _, _, _, h5, _⟩ := hr hk
      have := h5 peer.enc (by simp [policyOf])
      simp [listOk, policyOf] at this
      exact absurd this hd
  · unfold evaluate
    simp only [hk, Bool.not_true, Bool.false_eq_true, if_false]
    apply Ext.exists_mem ((stMacs_ext _ _ _).trans (stDh_ext _ _ _))
    unfold stCiphers
    simp only [policyOf]
    have hb : listBad false peer.enc peer'.enc peer'.enc = true := by simp [listBad, hd]
    rw [hb]
    exact stepIf_bad_mem _ _ _ _ _

theorem drift_macs (peer peer' : Peer) (hk : peer'.hasKex = true) (hd : peer'.mac ≠ peer.mac) :
    (evaluate (policyOf peer) peer' []).1 = false ∧
    ∃ e ∈ (evaluate (policyOf peer) peer' []).2, e.field = s "MACs" ∧ e.expectedRequired = peer.mac ∧ e.actual = peer'.mac := by
  constructor
  · cases h : (evaluate (policyOf peer) peer' []).1
    · rfl
    · have hs := (evaluate_iff_satisfied _ _).mp h
      obtain ⟨_, hr⟩ := hs
      obtain ⟨_, _, _, _, _, h6, _⟩ := hr hk
      have := h6 peer.mac (by simp [policyOf])
      simp [listOk, policyOf] at this
      exact absurd this hd
  · unfold evaluate
    simp only [hk, Bool.not_true, Bool.false_eq_true, if_false]
    apply Ext.exists_mem (stDh_ext _ _ _)
    unfold stMacs
    simp only [policyOf]
    have hb : listBad false peer.mac peer'.mac peer'.mac = true := by simp [listBad, hd]
    rw [hb]
    exact stepIf_bad_mem _ _ _ _ _

theorem drift_hostkeys (peer peer' : Peer) (hk : peer'.hasKex = true) (hd : peer'.key ≠ peer.key) :
    (evaluate (policyOf peer) peer' []).1 = false ∧
    ∃ e ∈ (evaluate (policyOf peer) peer' []).2, e.field = s "Host keys" ∧ e.expectedRequired = peer.key ∧ e.actual = peer'.key := by
  constructor
  · cases h : (evaluate (policyOf peer) peer' []).1
    · rfl
    · have hs := (evaluate_iff_satisfied _ _).mp h
      obtain ⟨_, hr⟩ := hs
      obtain ⟨_, h2, _⟩ := hr hk
      have := h2 peer.key (by simp [policyOf])
      simp [listOk, policyOf, prunedKeys] at this
      exact absurd this hd
  · unfold evaluate
    simp only [hk, Bool.not_true, Bool.false_eq_true, if_false]
    apply Ext.exists_mem ((stHostKeySizes_ext _ _ _).trans ((stKex_ext _ _ _).trans ((stCiphers_ext _ _ _).trans ((stMacs_ext _ _ _).trans (stDh_ext _ _ _)))))
    unfold stHostKeys
    simp only [policyOf]
    have hb : listBad false peer.key peer'.key (prunedKeys (policyOf peer) peer') = true := by
      simp [listBad, prunedKeys, policyOf, hd]
    simp only [policyOf] at hb
    rw [hb]
    exact stepIf_bad_mem _ _ _ _ _

/-- a different size of a host key both peers present fails the made policy -/
theorem drift_hostkey_size (peer peer' : Peer) (hk : peer'.hasKex = true) (t : Str) (a a' : HKS)
    (h1 : lookup peer.hostKeys t = some a) (h2 : lookup peer'.hostKeys t = some a') (hd : a'.size ≠ a.size) :
    (evaluate (policyOf peer) peer' []).1 = false := by
  cases h : (evaluate (policyOf peer) peer' []).1
  · rfl
  · have hs := (evaluate_iff_satisfied _ _).mp h
    obtain ⟨_, hr⟩ := hs
    obtain ⟨_, _, h3, _⟩ := hr hk
    have hne : peer.hostKeys ≠ [] := by intro h0; rw [h0] at h1; simp [lookup] at h1
    have := (h3 (peer.hostKeys.map (fun kv => (kv.1, normHKS kv.2))) (by simp [policyOf, hne]) t (normHKS a) a'
      (by rw [lookup_map, h1]; rfl) h2).1
    simp only [sizeOk, policyOf] at this
    have hn : (normHKS a).size = a.size := by unfold normHKS; split <;> rfl
    simp [hn] at this
    exact absurd this hd

/-- a different CA type or CA size (where the made policy recorded a CA) fails -/
theorem drift_ca (peer peer' : Peer) (hk : peer'.hasKex = true) (t : Str) (a a' : HKS)
    (h1 : lookup peer.hostKeys t = some a) (h2 : lookup peer'.hostKeys t = some a')
    (hca : a.caType ≠ [] ∧ 0 < a.caSize) (hd : a'.caType ≠ a.caType ∨ a'.caSize ≠ a.caSize) :
    (evaluate (policyOf peer) peer' []).1 = false := by
  cases h : (evaluate (policyOf peer) peer' []).1
  · rfl
  · have hs := (evaluate_iff_satisfied _ _).mp h
    obtain ⟨_, hr⟩ := hs
    obtain ⟨_, _, h3, _⟩ := hr hk
    have hne : peer.hostKeys ≠ [] := by intro h0; rw [h0] at h1; simp [lookup] at h1
    have hn : normHKS a = a := by
      unfold normHKS
      have : ¬ (a.caType = [] ∨ a.caSize = 0) := by
        rintro (h | h)
        · exact hca.1 h
        · omega
      rw [if_neg this]
    have := (h3 (peer.hostKeys.map (fun kv => (kv.1, normHKS kv.2))) (by simp [policyOf, hne]) t (normHKS a) a'
      (by rw [lookup_map, h1]; rfl) h2).2
    rw [hn] at this
    obtain ⟨e1, e2⟩ := this hca
    simp only [sizeOk, policyOf] at e2
    simp at e2
    rcases hd with hd | hd
    · exact absurd e1 hd
    · exact absurd e2 hd

/-- a different group-exchange modulus size (both measured) fails -/
theorem drift_modulus (peer peer' : Peer) (hk : peer'.hasKex = true) (t : Str) (a a' : Nat)
    (h1 : lookup peer.dhSizes t = some a) (h2 : lookup peer'.dhSizes t = some a') (hd : a' ≠ a) :
    (evaluate (policyOf peer) peer' []).1 = false := by
  cases h : (evaluate (policyOf peer) peer' []).1
  · rfl
  · have hs := (evaluate_iff_satisfied _ _).mp h
    obtain ⟨_, hr⟩ := hs
    obtain ⟨_, _, _, _, _, _, h7⟩ := hr hk
    have hne : peer.dhSizes ≠ [] := by intro h0; rw [h0] at h1; simp [lookup] at h1
    have := h7 peer.dhSizes (by simp [policyOf, hne]) t a a' h1 h2
    simp [sizeOk, policyOf] at this
    exact absurd this hd

/-! ### built-in policies: a peer configured exactly as the policy lists passes it (all 47, kernel-evaluated) -/

def ofBuiltin (b : BuiltinPolicy) : Policy :=
  { banner := b.banner, compressions := b.compressions, hostKeys := b.hostKeys, optionalHostKeys := b.optionalHostKeys,
    kex := b.kex, ciphers := b.ciphers, macs := b.macs,
    hostkeySizes := b.hostkeySizes.map (fun l => l.map (fun h => (h.keyType, { size := h.hostkeySize, caType := h.caKeyType, caSize := h.caKeySize }))),
    dhSizes := b.dhModulusSizes }

/-- the peer "configured exactly as the policy lists": its lists, its sizes -/
def peerOfBuiltin (b : BuiltinPolicy) : Peer :=
  { bannerStr := b.banner.getD [], comp := b.compressions.getD [], key := b.hostKeys.getD [], kex := b.kex.getD [],
    enc := b.ciphers.getD [], mac := b.macs.getD [],
    hostKeys := (b.hostkeySizes.getD []).map (fun h => (h.keyType, { size := h.hostkeySize, caType := h.caKeyType, caSize := h.caKeySize })),
    dhSizes := b.dhModulusSizes.getD [] }

theorem builtin_self_pass : ∀ b ∈ SshAudit.Gen.builtinPolicies,
    (evaluate (ofBuiltin b) (peerOfBuiltin b) []).1 = true ∧ (evaluate (ofBuiltin b) (peerOfBuiltin b) []).2 = [] := by
  decide +kernel

/-! ### the text layer: a rendered list line parses back to the same names -/

theorem splitEq1_append (k v : Str) (hk : '=' ∉ k) : splitEq1 (k ++ '=' :: v) = some (k, v) := by
  induction k with
  | nil => simp [splitEq1]
  | cons c cs ih =>
    have hc : c ≠ '=' := by intro h; apply hk; simp [h]
    have hcs : '=' ∉ cs := by intro h; apply hk; simp [h]
    simp [splitEq1, hc, ih hcs]

/-- the D11 repair: only the first `=` splits, so `=` inside the value (gss names) is harmless -/
theorem splitEq1_value_may_contain_eq (k v : Str) (hk : '=' ∉ k) : (splitEq1 (k ++ '=' :: v)).map (·.2) = some v := by
  rw [splitEq1_append k v hk]; rfl

-- non-vacuity
def peerEx : Peer := { bannerStr := s "SSH-2.0-x", kex := [s "gss-gex-sha1-toWM5Slw5Ew8Mqkay+al2g==", s "a"], enc := [s "c"],
                       key := [s "ssh-rsa"], mac := [s "m"], hostKeys := [(s "ssh-rsa", { size := 3072, caType := [], caSize := 0 })],
                       dhSizes := [(s "dh", 2048)] }
example : (evaluate (policyOf peerEx) peerEx []).1 = true := by decide +kernel
example : ((evaluate (policyOf peerEx) { peerEx with kex := [s "a"] } []).2.map (·.field)) = [s "Key exchanges"] := by decide +kernel
example : (parseListLine (renderList (s "key exchanges") peerEx.kex)) = some (s "key exchanges", peerEx.kex) := by decide +kernel

end SshAudit.C05
