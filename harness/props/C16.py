"""C16 - Identification strings are recognised, decomposed and sanitised correctly.

Theorems: SshAudit.Props.C16 over the model SshAudit.Model.Banner (Banner.parse as a
deterministic recogniser of RX_BANNER, Banner.__str__, the ASCII filters of utils.py,
ReadBuf.read_line incl. UTF-8 'replace' decoding, the header loop of SSH_Socket.get_banner).
Tie: correspondence of every Banner model op with the real functions on grammar-generated
lines, a mutation stream and scripted recv sequences (fake socket).
Search oracle (independent of the model): the generator knows the parts every line was built
from (protocol, software token, comment words, header lines, trailing bytes), so what
Banner.parse / get_banner / the printed report must show is known by construction; printability
and the valid_ascii flag are recomputed naively; the round trip str() -> parse() must give the
same parts; Software.parse is compared with a hand-written scanner for the ten product
families (no `re`) and with by-construction expectations (product, version, patch).
"""
import json
import time

from common import Coverage, tstr, tbytes, toptstr

ID = 'C16'
MODULE = 'SshAudit.Props.C16'
NAMESPACE = 'SshAudit.C16'
THEOREMS = ['sanitise_printable', 'sanitise_pointwise', 'sanitise_fixed_iff', 'valid_ascii_iff', 'parse_via_sanitised', 'space_printable',
            'accept_bare', 'accept_dash', 'accept_software', 'accept_comments',
            'banner_accept', 'banner_accept_nocomment', 'banner_accept_dash', 'banner_accept_bare', 'banner_accept_numeric',
            'multi_version', 'multi_version_199', 'protocol_is_min', 'collapse_joinBlanks', 'comments_words', 'parse_wf', 'shown_printable', 'banner_roundtrip', 'roundtrip_excluded_point',
            'blank_not_banner', 'segmentation_independence', 'segmentation_any_two', 'segmentation_whole', 'header_separation',
            'header_separation_unterminated', 'header_never_banner', 'banner_is_a_line', 'd17_repaired']
# functions / statement blocks of the code whose Lean definitions are regenerated from the source on every run (harness/translate_logic.py);
# `GenLogic.<name>_eq_model` (lean/SshAudit/Props/GenLogic*.lean) ties each to the hand-written model function the theorems above are about
GEN_LOGIC = ['is_print_ascii_char']

TECHNIQUE = ('Lean 4 theorems (structural induction over texts, byte strings and recv sequences; kernel-evaluated witnesses) about a hand-written '
             'deterministic recogniser equivalent to RX_BANNER + differential correspondence with banner.py / utils.py / readbuf.py / ssh_socket.py; '
             'independent by-construction oracle on the real code incl. whole audits over an in-process fake network')
LEVEL_TEXT = ('Acceptance, decomposition (incl. repeated protocol items), sanitising, printability of everything shown, the render/parse round trip and '
              'header/banner separation independent of how the byte stream is cut into recv() results (segmentation independence, after the D17 repair) are proved for all inputs of the Lean model (unbounded texts, byte strings and '
              'recv sequences); the model is executed by a compiled driver and compared with the real code on grammar-generated, mutated and random '
              'inputs; an independent oracle checks the same statements on the real code, Software.parse against a hand-written product scanner.')
LEVEL_NOTE = ('Trusted: Lean kernel; the correspondence harness (the regex engine is replaced in the model by a deterministic recogniser whose equivalence is '
              'tested, not proved); CPython re/str/bytes semantics. Round trip is proved for every parsed banner whose software string does not start with '
              '"SSH-" (the excluded point is proved as roundtrip_excluded_point). Header separation is proved for every segmentation of the stream against the repaired get_banner (D17, fix: commit 04fd9e5 in /repo); a banner without line ending is accepted once the peer stops sending (header_separation_unterminated). '
              'Software.parse is not modelled in Lean here (C14 owns that model): oracle only.')


# ---------------------------------------------------------------- naive spec helpers (oracle side; no `re`)

def shown(s):
    """What may be displayed of a text: printable ASCII kept, anything else one '?'."""
    return ''.join(ch if 32 <= ord(ch) <= 126 else '?' for ch in s)


def printable(s):
    return all(32 <= ord(ch) <= 126 for ch in s)


def norm_words(c):
    """Comments as the property reads them: the blank-separated words, single blanks between."""
    ws = [w for w in shown(c).split(' ') if w]
    return ' '.join(ws) if ws else None


DIGITS = '0123456789'


def num_version(rest):
    """Longest prefix of `rest` made of digits and dots, cut back to end in a digit, >= 2 chars."""
    j = 0
    while j < len(rest) and (rest[j] in DIGITS or rest[j] == '.'):
        j += 1
    k = j
    while k > 0 and rest[k - 1] not in DIGITS:
        k -= 1
    if k < 2:
        return None
    return rest[:k], rest[k:]


def fix_patch(q):
    i = 0
    while i < len(q) and q[i] in '-_.':
        i += 1
    return q[i:] or None


NUMERIC_FAMILIES = [  # (prefix, separator chars after it (at least one) or None, vendor, product, has patch)
    ('dropbear_', None, None, 'Dropbear SSH', True),
    ('OpenSSH', '_.-', None, 'OpenSSH', True),
    ('libssh-', None, None, 'libssh', True),
    ('libssh_', None, None, 'libssh', True),
    ('RomSShell_', None, 'Allegro Software', 'RomSShell', True),
    ('mpSSH_', None, 'HP', 'iLO (Integrated Lights-Out) sshd', False),
    ('Cisco-', None, 'Cisco', 'IOS/PIX sshd', False),
]
FREE_FAMILIES = [('tinyssh_', None, 'TinySSH'), ('PuTTY_Release_', None, 'PuTTY'), ('lancom', 'LANcom', 'LCOS sshd')]


def spec_software(s):
    """Hand-written recogniser of the product families, first match in the documented order.
    Returns (vendor, product, version, patch) or None."""
    if s is None:
        return None
    for prefix, seps, vendor, product, has_patch in NUMERIC_FAMILIES:
        if not s.startswith(prefix):
            continue
        rest = s[len(prefix):]
        starts = [0]
        if seps is not None:
            n = 0
            while n < len(rest) and rest[n] in seps:
                n += 1
            starts = list(range(n, 0, -1))     # the separator run is taken as long as possible first
        for k in starts:
            nv = num_version(rest[k:])
            if nv is not None:
                return (vendor, product, nv[0], fix_patch(nv[1]) if has_patch else None)
    for prefix, vendor, product in FREE_FAMILIES:
        if s.startswith(prefix):
            return (vendor, product, s[len(prefix):], None)
    return None


# ---------------------------------------------------------------- implementation adapters

def banner_dict(b):
    if b is None:
        return None
    return {'protocol': list(b.protocol), 'software': b.software, 'comments': b.comments, 'valid': b.valid_ascii, 'str': str(b)}


class ScriptSock:
    """A socket whose recv() returns the scripted chunks one by one; then the peer has stopped:
    b'' (closed), socket.timeout, or a connection error."""
    def __init__(self, chunks, end='close'):
        self.chunks = [bytes(c) for c in chunks]
        self.end = end
        self.sent = []
        self.recv_calls = 0

    def send(self, d):
        self.sent.append(bytes(d))
        return len(d)

    def recv(self, n):
        import errno
        import socket
        self.recv_calls += 1
        if not self.chunks:
            if self.end == 'timeout':
                raise socket.timeout('timed out')
            if self.end == 'error':
                raise ConnectionResetError(errno.ECONNRESET, 'Connection reset by peer')
            return b''
        d = self.chunks.pop(0)
        if len(d) > n:
            self.chunks.insert(0, d[n:])
            d = d[:n]
        return d

    def shutdown(self, how):
        pass

    def close(self):
        pass

    def settimeout(self, t):
        pass


def impl_getbanner(chunks, end='close'):
    from ssh_audit.ssh_socket import SSH_Socket
    from ssh_audit.outputbuffer import OutputBuffer
    s = SSH_Socket(OutputBuffer(), 'localhost', 22)
    fs = ScriptSock(chunks, end)
    s._SSH_Socket__sock = fs
    banner, header, err = s.get_banner()
    return {'banner': banner_dict(banner), 'header': list(header), 'unread': s.read(s.unread_len).hex(), 'pending': [c.hex() for c in fs.chunks]}


def impl_readlines(data):
    from ssh_audit.readbuf import ReadBuf
    rb = ReadBuf(data)
    out = []
    while rb.unread_len > 0:
        out.append(rb.read_line())
    return out


def impl(op, arg):
    from ssh_audit.banner import Banner
    from ssh_audit.utils import Utils
    if op == 'banner.parse':
        return banner_dict(Banner.parse(arg))
    if op == 'banner.rx':
        mx = Banner.RX_BANNER.match(Utils.to_print_ascii(arg))
        if mx is None:
            return None
        import re
        return {'pairs': [list(p) for p in re.findall(Banner.RX_PROTOCOL, mx.group(1))], 'g2': mx.group(2), 'g3': mx.group(3), 'g4': mx.group(4)}
    if op == 'banner.reparse':
        b = Banner.parse(arg)
        return None if b is None else banner_dict(Banner.parse(str(b)))
    if op == 'banner.render':
        return str(Banner((arg[0], arg[1]), arg[2], arg[3], True))
    if op == 'ascii.is':
        return Utils.is_ascii(arg)
    if op == 'ascii.to':
        return Utils.to_ascii(arg)
    if op == 'ascii.to_ignore':
        return Utils.to_ascii(arg, 'ignore')
    if op == 'ascii.is_print':
        return Utils.is_print_ascii(arg)
    if op == 'ascii.to_print':
        return Utils.to_print_ascii(arg)
    if op == 'ascii.to_print_ignore':
        return Utils.to_print_ascii(arg, 'ignore')
    if op == 'utf8.decode':
        return arg.decode('utf-8', 'replace')
    if op == 'readlines':
        return impl_readlines(arg)
    if op == 'getbanner':
        return impl_getbanner(arg[0], arg[1])
    if op == 'uspace.table':
        return [i for i in range(0x110000) if not 0xd800 <= i < 0xe000 and chr(i).isspace()]
    raise KeyError(op)


def guard(f):
    try:
        return {'ok': f()}
    except BaseException as e:  # noqa
        return {'err': type(e).__name__}


def line_of(op, arg):
    if op == 'banner.render':
        return '%s %d %d %s %s' % (op, arg[0], arg[1], toptstr(arg[2]), toptstr(arg[3]))
    if op in ('utf8.decode', 'readlines'):
        return '%s %s' % (op, tbytes(arg))
    if op == 'getbanner':
        return '%s %s' % (op, '_' if not arg[0] else ','.join(tbytes(c) for c in arg[0]))
    if op == 'uspace.table':
        return op
    return '%s %s' % (op, tstr(arg))


def canon_model(op, m):
    if 'ok' not in m:
        return m
    v = m['ok']
    if op == 'banner.rx' and v is not None:
        v = dict(v)
        v['pairs'] = [list(p) for p in v['pairs']]
        return {'ok': v}
    return m


# ---------------------------------------------------------------- generators

SOFTWARE_SAMPLES = ['OpenSSH_8.9p1', 'OpenSSH_7.4', 'OpenSSH_for_Windows_8.1', 'dropbear_2020.81', 'dropbear_0.52', 'libssh-0.9.6', 'libssh_0.10.4',
                    'Sun_SSH_1.1.3', 'Cisco-1.25', '1.3.7', 'ROSSSH', 'tinyssh_noversion', 'PuTTY_Release_0.76', 'lancom', 'mpSSH_0.2.1', 'RomSShell_4.62',
                    'X', 'SSHD', 'S', 'SS', 'SSH', 'SSH_', 'xSSH-2.0', 'a-SSH-1.5-b', 'Go', 'paramiko_2.7.2', 'AsyncSSH_2.5.0', '-', '--', '_', '.', '~', '?', '??']
COMMENT_WORDS = ['Ubuntu-3ubuntu0.1', 'Debian-9etch3', 'on', 'i686-pc-linux-gnu', 'FreeBSD-20170902', 'NetBSD_Secure_Shell-20110907', 'F-SECURE', 'SSH',
                 'SSH-2.0-x', '(non-commercial)', 'a', '-', '1:3.4p1-1.woody.3', 'in', 'RemotelyAnywhere', '5.21.422', '?']
TOKEN_ALPH = ''.join(chr(i) for i in range(33, 127))
NONASCII = ['\u00e9', '\u00a0', '\u0085', '\u2028', '\u3000', '\ufffd', '\U0001f600', '\u0100', '\u00ff', '\u0080', '\u2603', '\u0660', '\u00b2']
CONTROLS = ['\t', '\x00', '\x07', '\x1b', '\x7f', '\x0b', '\x0c', '\r', '\x1c', '\x1f', '\n']
MINORS = ['0', '5', '99', '3', '1', '51', '00', '007', '10', '2', '9', '33', '12345678901234567890']


def gen_token(r, exotic):
    x = r.random()
    if x < 0.45:
        t = r.choice(SOFTWARE_SAMPLES)
    elif x < 0.6:
        t = r.choice(['OpenSSH_', 'dropbear_', 'libssh-', 'libssh_']) + '%d.%d' % (r.randint(0, 12), r.randint(0, 99)) + r.choice(['', 'p1', 'p2', '-beta', '_hpn'])
    else:
        t = ''.join(r.choice(TOKEN_ALPH) for _ in range(r.choice([1, 1, 2, 3, 4, 5, 8, 13, 40])))
    if exotic:
        t = list(t)
        for _ in range(r.choice([1, 1, 2, 3])):
            t.insert(r.randint(0, len(t)), r.choice(NONASCII + CONTROLS))
        t = ''.join(t)
    if shown(t).startswith('SSH-'):      # outside the grammar's token class (it would be read as another protocol item)
        t = 'x' + t
    return t


def gen_comment(r, exotic):
    """(raw comment text as it follows the single separating blank, may contain blank runs)"""
    n = r.choice([1, 1, 2, 3])
    words = []
    for _ in range(n):
        w = r.choice(COMMENT_WORDS) if r.random() < 0.7 else ''.join(r.choice(TOKEN_ALPH) for _ in range(r.randint(1, 9)))
        if exotic and r.random() < 0.5:
            w = list(w)
            w.insert(r.randint(0, len(w)), r.choice(NONASCII + CONTROLS))
            w = ''.join(w)
        words.append(w)
    c = ' ' * r.choice([0, 0, 0, 1, 3])
    for i, w in enumerate(words):
        if i:
            c += ' ' * r.choice([1, 1, 1, 2, 3, 4])
        c += w
    c += ' ' * r.choice([0, 0, 0, 1, 2])
    return c


def gen_grammar(r):
    """A line of the banner grammar with the parts it was built from (the expectation is by construction)."""
    exotic = r.random() < 0.3
    nver = r.choice([1, 1, 1, 1, 1, 1, 2, 2, 3])
    if nver == 1:
        vers = [(r.choice('12') if r.random() < 0.9 else r.choice(DIGITS), r.choice(MINORS))]
        if r.random() < 0.5:
            vers = [r.choice([('2', '0'), ('1', '99'), ('1', '5')])]
    else:
        vers = [r.choice([('1', '99'), ('2', '0'), ('1', '5'), ('2', '0'), ('1', '99'), (r.choice('123'), r.choice(MINORS))]) for _ in range(nver)]
    shape = r.choice(['sw', 'sw', 'sw', 'swc', 'swc', 'swc', 'bare', 'dash'])
    t = gen_token(r, exotic and r.random() < 0.7) if shape in ('sw', 'swc') else None
    c = gen_comment(r, exotic) if shape == 'swc' else None
    line = '-'.join('SSH-%s.%s' % v for v in vers)
    if shape != 'bare':
        line += '-' + (t or '')
    if c is not None:
        line += ' ' + c
    tags = ['grammar', 'shape-' + shape, 'versions-%d' % nver]
    if not printable(line):
        tags.append('non-printable')
    # which protocol item is reported when there are several: the smallest; only asserted when
    # numeric order and the order of the digit strings agree (otherwise "smallest" is ambiguous)
    nums = sorted(set((int(a), int(b)) for a, b in vers))
    strs = sorted(set(vers))
    proto = list(nums[0]) if (int(strs[0][0]), int(strs[0][1])) == nums[0] else None
    if proto is None:
        tags.append('protocol-order-ambiguous')
    expect = {'protocol': proto, 'protocol_any': [list(x) for x in nums],
              'software': None if shape == 'bare' else shown(t or ''),
              'comments': norm_words(c) if c is not None else None,
              'valid': printable(line)}
    return {'stream': 'parse', 'line': line, 'expect': expect, 'tags': tags}


def gen_mutation(r):
    """Near-grammar and arbitrary texts (no by-construction expectation; generic checks + correspondence)."""
    x = r.random()
    if x < 0.45:
        g = gen_grammar(r)
        l = list(g['line'])
        k = r.choice(['blank-after-dash', 'ssh-in-token', 'ssh-token', 'blank-after-dot', 'lower', 'delete', 'insert', 'dup-dash', 'lead-blank', 'trail'])
        if k == 'blank-after-dash' and '-' in g['line'][8:]:
            i = g['line'].index('-', 7)
            l.insert(i + 1, ' ' * r.randint(1, 3))
        elif k == 'ssh-in-token':
            l.insert(r.randint(0, len(l)), r.choice(['SSH-', 'SSH-2.0', '-SSH-1.5', 'SSH-2.0-', ' SSH-2.0-z']))
        elif k == 'ssh-token':
            l = list('SSH-%s.%s-%sSSH-%s.%s%s' % (r.choice('12'), r.choice(MINORS), r.choice(['', ' ', '  ']), r.choice('123'), r.choice(MINORS),
                                                 r.choice(['', '-bar', 'x', ' y', '-', '-SSH-2.0', '-SSH-2.0 q'])))
        elif k == 'blank-after-dot':
            i = g['line'].index('.')
            l.insert(i + 1, ' ' * r.randint(1, 2))
        elif k == 'lower':
            l = list(g['line'].lower())
        elif k == 'delete' and l:
            del l[r.randrange(min(len(l), 10))]
        elif k == 'insert':
            l.insert(r.randrange(min(len(l), 10) + 1), r.choice(list('S-. 0x') + NONASCII + CONTROLS))
        elif k == 'dup-dash':
            l = list(g['line'].replace('-', '--', r.randint(1, 2)))
        elif k == 'lead-blank':
            l = list(r.choice([' ', '\t', '\ufeff', '  ']) + g['line'])
        else:
            l += list(r.choice([' ', '  ', '\t', '\r', ' \r', '-', '\x00']))
        return {'stream': 'parse', 'line': ''.join(l), 'expect': None, 'tags': ['mutation', 'mut-' + k]}
    if x < 0.8:
        alph = "SH-.0123459 -_aZ~\t\x7f\u00e9?"
        return {'stream': 'parse', 'line': ''.join(r.choice(alph) for _ in range(r.randint(0, 24))), 'expect': None, 'tags': ['random-small-alphabet']}
    parts = ['SSH-', r.choice('1239'), '.', ' ' * r.choice([0, 0, 0, 1, 2]), r.choice(MINORS)]
    for _ in range(r.choice([0, 0, 1, 2, 3])):
        parts += ['-SSH-', r.choice('12'), '.', ' ' * r.choice([0, 0, 1]), r.choice(['0', '5', '99'])]
    if r.random() < .85:
        parts.append(r.choice(['-', '-', '- ', '-  ', 'x', ' ', '']))
        parts.append(''.join(r.choice("OpenSSH_7.4p1-._SSH-2.0\u00e9\t") for _ in range(r.randint(0, 8))))
        if r.random() < .5:
            parts.append(' ' * r.randint(1, 3) + ' '.join(''.join(r.choice("abc-SSH.1 ") for _ in range(r.randint(0, 5))) for _ in range(r.randint(0, 3))) + ' ' * r.choice([0, 0, 2]))
    return {'stream': 'parse', 'line': ''.join(parts), 'expect': None, 'tags': ['regex-stress']}


HEADER_TEXTS = [b'Welcome to the jungle', b'', b'   ', b'\t', b'  SSH-2.0-indented', b'ssh-2.0-lowercase', b'SSH-XXX-OpenSSH_7.3', b'SSH-2-foo', b'SSH2.0-x', b'xSSH-2.0-y',
                b'SSH-', b'SSH-2.', b'SSH-2.x-y', b'S', b'Authorized users only!', b'\xc2\xa0', b'\x1c', b'\xe2\x80\xa8', b'caf\xc3\xa9 \xf0\x9f\x98\x80', b'bad \xff\xfe bytes',
                b'trunc \xe2\x82', b'over \xc0\xaf long', b'\xed\xa0\x80 surrogate', b'nul \x00 inside', b'-SSH-2.0-x', b'?SSH-2.0-x', b'*' * 300, b'line with trailing blanks   ',
                b'tab\tinside', b'cr\rinside', b'\x0b', b'SSH-\xc2\xb2.0-sup2', b'SSH-2\xef\xbc\x8e0-fullwidth-dot']


def gen_header_line(r):
    x = r.random()
    if x < 0.7:
        return r.choice(HEADER_TEXTS)
    if x < 0.85:
        return bytes(r.choice([0x20, 0x41, 0x53, 0x48, 0x2d, 0x2e, 0x30, 0x09, 0xc3, 0xa9, 0xff, 0x80, 0xe2, 0x82, 0xac, 0xf0, 0x9f, 0x0d]) for _ in range(r.randint(0, 30))).replace(b'\n', b'')
    return ('%s %d' % (r.choice(['Last login:', 'NOTICE', '***', 'Debian GNU/Linux']), r.randint(0, 999))).encode()


def header_text(raw):
    """What a header line must be reported as (Python's own decoder and str.strip are the spec here)."""
    return raw.rstrip(b' \t\r\n\x0b\x0c').decode('utf-8', 'replace')


def is_banner_shaped(text):
    """Spec-side, hand-written: does the displayed text start like `SSH-<digit>.<blanks><digit>`?"""
    s = shown(text)
    if not s.startswith('SSH-') or len(s) < 7 or s[4] not in DIGITS or s[5] != '.':
        return False
    j = 6
    while j < len(s) and s[j] == ' ':
        j += 1
    return j < len(s) and s[j] in DIGITS


SEGMENTED = ('segmented', 'bytes', 'crlf', 'every-offset', 'unterminated')


def cut_at(data, cuts):
    pts = [0] + sorted(set(c for c in cuts if 0 < c < len(data))) + [len(data)]
    return [data[a:b] for a, b in zip(pts, pts[1:]) if b > a]


def gen_stream(r, mode, offset=None, base=None):
    """Header lines, a banner line of the grammar, trailing bytes; delivered in `mode`:
    one | per-line | groups: every recv() returns whole lines;
    segmented (a few cuts anywhere) | bytes (one byte per recv) | crlf (cuts between CR and LF and elsewhere) |
    every-offset (one cut at the given offset) | unterminated (the banner is the last thing sent, without line ending; any cuts)."""
    if base is None:
        while True:
            g = gen_grammar(r)
            raw = g['line'].encode('utf-8')
            # the line ends where the peer ended it: no stray line breaks inside, no control whitespace at the very end
            if b'\n' in raw or raw.rstrip(b' ') != raw.rstrip(b' \t\r\n\x0b\x0c') or len(raw) > 600:
                continue
            break
        nh = r.choice([0, 0, 1, 1, 2, 3, 4, 6]) if mode != 'bytes' else r.choice([0, 1, 2, 3])
        hdr = []
        while len(hdr) < nh:
            h = gen_header_line(r)
            if is_banner_shaped(header_text(h)) or (mode == 'bytes' and len(h) > 80):
                continue
            hdr.append(h)
        eol = lambda: r.choice([b'\r\n', b'\r\n', b'\n'])   # noqa: E731
        lines = [h + eol() for h in hdr] + [raw + (b'' if mode == 'unterminated' else eol())]
        trailing = r.choice([b'', b'', b'\x00\x00\x00\x0c\x04\x14' + b'A' * 10, b'second line\r\nthird', b'SSH-2.0-later\r\n', bytes(r.getrandbits(8) for _ in range(r.randint(1, 40)))])
        if mode == 'unterminated':
            trailing = b''
        base = (g, hdr, lines, trailing)
    g, hdr, lines, trailing = base
    nh = len(hdr)
    whole = b''.join(lines)
    data = whole + trailing
    end = 'close'
    if mode == 'one':
        chunks = [data]
    elif mode == 'per-line':
        chunks = lines + ([trailing] if trailing else [])
    elif mode == 'groups':
        chunks, cur = [], b''
        for i, l in enumerate(lines):
            cur += l
            if r.random() < 0.4 and i + 1 < len(lines):
                chunks.append(cur)
                cur = b''
        same = r.random() < 0.5
        chunks.append(cur + (trailing if same else b''))
        if not same and trailing:
            chunks.append(trailing)
    elif mode == 'bytes':
        chunks = [data[i:i + 1] for i in range(len(data))]
    elif mode == 'crlf':
        cuts = [i + 1 for i in range(len(data) - 1) if data[i:i + 2] == b'\r\n']
        cuts = [c for c in cuts if r.random() < 0.8] + [r.randint(1, max(1, len(data) - 1)) for _ in range(r.choice([0, 0, 1, 2]))]
        chunks = cut_at(data, cuts)
    elif mode == 'every-offset':
        chunks = cut_at(data, [offset])
    elif mode == 'unterminated':
        chunks = cut_at(data, [r.randint(1, max(1, len(data) - 1)) for _ in range(r.choice([0, 1, 1, 2, 4]))])
        end = r.choice(['close', 'timeout', 'error'])
    else:
        chunks = cut_at(data, [r.randint(1, max(1, len(data) - 1)) for _ in range(r.choice([1, 1, 2, 3, 6]))])
    if mode != 'unterminated' and r.random() < 0.3:
        end = r.choice(['timeout', 'error'])
    chunks = [c for c in chunks if c]
    assert all(len(c) <= 2048 for c in chunks)
    # where the stream is cut must not matter: banner and header are those of the lines, and exactly the bytes behind
    # the banner line are left for the caller (unread in the buffer, or not yet received)
    expect = {'banner': g['expect'], 'header': [header_text(h) for h in hdr if header_text(h).strip() != ''], 'after': trailing.hex()}
    return {'stream': 'getbanner', 'mode': mode, 'end': end, 'chunks': [c.hex() for c in chunks], 'whole_lines': [l.hex() for l in lines], 'trailing': trailing.hex(),
            'expect': expect, 'tags': ['stream-' + mode, 'end-' + end, 'header-lines-%d' % min(nh, 4)] + [t for t in g['tags'] if t.startswith('shape') or t == 'non-printable']}


def gen_every_offset(r):
    """One short stream, cut once at every possible offset."""
    while True:
        c = gen_stream(r, 'one')
        if sum(len(l) for l in c['whole_lines']) // 2 + len(c['trailing']) // 2 <= 160:
            break
    lines = [bytes.fromhex(l) for l in c['whole_lines']]
    tr = bytes.fromhex(c['trailing'])
    n = len(b''.join(lines) + tr)
    # rebuild the parts the expectation came from
    base_case = c
    out = []
    for k in range(1, n):
        data = b''.join(lines) + tr
        out.append(dict(base_case, mode='every-offset', chunks=[x.hex() for x in cut_at(data, [k])],
                        tags=['stream-every-offset'] + [t for t in base_case['tags'] if not t.startswith('stream-')]))
    return out


VERSIONS = ['7.4', '8.9', '10.0', '9.9', '2019.78', '2022.83', '0.52', '0.10.6', '0.7.0', '1.25', '4.62', '0.2.1', '10', '00', '1.2.3.4.5', '3.', '3..4', '.5', '..', '7', '7.', '1.0.']
PATCHES = ['', 'p1', 'p2', '-hpn14v5', '_beta', 'test3', '-', '--x', '._-rc1', 'rc.1', 'p1-Debian', '+git', 'a', '_']


def gen_software(r):
    x = r.random()
    by_construction = None
    if x < 0.55:
        fam = r.choice(NUMERIC_FAMILIES)
        prefix, seps, vendor, product, has_patch = fam
        sep = ''.join(r.choice('_-' if i else '_-') for i in range(r.choice([1, 1, 1, 2, 3]))) if seps else ''
        v = r.choice(VERSIONS) if r.random() < 0.5 else '.'.join(str(r.choice([0, 1, 5, 9, 10, 78, 100, 2024])) for _ in range(r.choice([1, 2, 2, 3, 4])))
        q = r.choice(PATCHES)
        s = prefix + sep + v + q
        # by construction: a clean version (digits and single dots, digit at both ends, >= 2 chars) followed by a patch that
        # starts with neither a digit nor a dot is read back exactly
        clean = len(v) >= 2 and v[0] in DIGITS and v[-1] in DIGITS and '..' not in v and all(ch in DIGITS + '.' for ch in v)
        if clean and (q == '' or q[0] not in DIGITS + '.'):
            by_construction = (vendor, product, v, (fix_patch(q) if has_patch else None))
        tag = 'family-' + prefix
    elif x < 0.7:
        prefix, vendor, product = r.choice(FREE_FAMILIES)
        rest = r.choice(['', '0.76', 'noversion', '20200101', '_x', '-8.0 beta']) if r.random() < 0.7 else ''.join(r.choice(TOKEN_ALPH) for _ in range(r.randint(0, 8)))
        s = prefix + rest
        by_construction = (vendor, product, rest, None)
        tag = 'family-' + prefix
    elif x < 0.85:
        s = r.choice(['openssh_7.4', 'OPENSSH_7.4', 'OpenSSH7.4', 'OpenSSH', 'OpenSSH_', 'OpenSSH_x', 'OpenSSH_7', 'OpenSSH_.5', 'OpenSSH_.5.1', 'OpenSSH-.-7.4', 'xOpenSSH_7.4', 'dropbear', 'dropbear_',
                      'dropbear-2019.78', 'Dropbear_2019.78', 'libssh', 'libssh0.9', 'libssh.0.9', 'Cisco_1.25', 'cisco-1.25', 'mpSSH-0.2', 'RomSShell', 'tinyssh', 'TinySSH_1', 'PuTTY_0.76',
                      'PuTTY_Release', 'Lancom', 'LANCOM', 'Sun_SSH_1.1.3', 'ROSSSH', '1.3.7', '', 'None', 'SSH-2.0-OpenSSH_7.4', ' OpenSSH_7.4', 'AsyncSSH_2.5.0', 'Go', 'paramiko_2.7.2'])
        tag = 'near-miss'
    else:
        s = ''.join(r.choice("OpenSHdropbearlibsh_-.0123456789 CiscompPuTYRl") for _ in range(r.randint(0, 14)))
        tag = 'random'
    return {'stream': 'software', 'software': s, 'by_construction': list(by_construction) if by_construction else None, 'tags': ['software', tag]}


# ---------------------------------------------------------------- the oracle (on the real code only)

def _fail(fs, kind, case, observed, expected, how, extra=None):
    sig = {'kind': kind}
    if extra:
        sig.update(extra)
    inp = {k: v for k, v in case.items() if k not in ('tags',)}
    fs.append({'sig': sig, 'input': inp, 'observed': observed, 'expected': expected, 'how': how})


def check_parts(fs, case, b, exp, how, kind_prefix=''):
    """b: banner_dict of the implementation; exp: by-construction expectation."""
    if b is None:
        _fail(fs, kind_prefix + 'banner_rejected', case, None, exp, how)
        return
    if exp['protocol'] is not None and b['protocol'] != exp['protocol']:
        _fail(fs, kind_prefix + 'protocol', case, b['protocol'], exp['protocol'], how)
    if exp['protocol'] is None and b['protocol'] not in exp['protocol_any']:
        _fail(fs, kind_prefix + 'protocol', case, b['protocol'], 'one of %r' % exp['protocol_any'], how)
    if b['software'] != exp['software']:
        _fail(fs, kind_prefix + 'software', case, b['software'], exp['software'], how)
    if b['comments'] != exp['comments']:
        _fail(fs, kind_prefix + 'comments', case, b['comments'], exp['comments'], how)
    if b['valid'] != exp['valid']:
        _fail(fs, kind_prefix + 'valid_ascii', case, b['valid'], exp['valid'], how)


def check_generic(fs, case, line, b, how):
    """Holds of every accepted line whatsoever: printable output, the flag, the round trip."""
    from ssh_audit.banner import Banner
    from ssh_audit.utils import Utils
    sa = Utils.to_print_ascii(line)
    if sa != shown(line):
        _fail(fs, 'sanitise', case, sa, shown(line), 'Utils.to_print_ascii(line)')
    if Utils.is_print_ascii(line) != printable(line):
        _fail(fs, 'is_print_ascii', case, Utils.is_print_ascii(line), printable(line), 'Utils.is_print_ascii(line)')
    if b is None:
        return
    for what in ('str', 'software', 'comments'):
        if b[what] is not None and not printable(b[what]):
            _fail(fs, 'unprintable_shown', case, b[what], 'only characters 32..126', how + '.' + what)
    if b['valid'] != printable(line):
        _fail(fs, 'valid_ascii', case, b['valid'], printable(line), how + '.valid_ascii')
    if b['software'] is not None and (' ' in b['software']):
        _fail(fs, 'software_has_blank', case, b['software'], 'no blank', how)
    if b['comments'] is not None and (b['comments'] == '' or b['comments'] != ' '.join(w for w in b['comments'].split(' ') if w)):
        _fail(fs, 'comments_not_normalised', case, b['comments'], 'non-empty, single blanks, none at the ends', how)
    if b['software'] is not None and b['software'].startswith('SSH-'):
        return   # excluded point of the round trip (C16.roundtrip_excluded_point)
    b2 = banner_dict(Banner.parse(b['str']))
    if b2 is None or any(b2[k] != b[k] for k in ('protocol', 'software', 'comments')) or b2['str'] != b['str']:
        _fail(fs, 'roundtrip', case, b2, {k: b[k] for k in ('protocol', 'software', 'comments', 'str')}, 'Banner.parse(str(Banner.parse(line)))')


def oracle_parse(case):
    from ssh_audit.banner import Banner
    fs = []
    b = banner_dict(Banner.parse(case['line']))
    if case.get('expect') is not None:
        check_parts(fs, case, b, case['expect'], 'Banner.parse(line)')
    check_generic(fs, case, case['line'], b, 'Banner.parse(line)')
    return fs, b


def oracle_getbanner(case):
    fs = []
    chunks = [bytes.fromhex(c) for c in case['chunks']]
    end = case.get('end', 'close')
    res = guard(lambda: impl_getbanner(chunks, end))
    exp = case['expect']
    how = 'SSH_Socket.get_banner() over a socket whose recv() returns the listed chunks and then reports %s' % {'close': 'end of stream', 'timeout': 'a timeout', 'error': 'a connection error'}[end]

    def differs(res):
        if 'ok' not in res:
            return 'raised ' + res['err']
        r = res['ok']
        sub = []
        check_parts(sub, case, r['banner'], exp['banner'], how)
        if sub:
            return 'banner.' + sub[0]['sig']['kind']
        if r['header'] != exp['header']:
            return 'header'
        if r['unread'] + ''.join(r['pending']) != exp['after']:
            return 'after'
        return None
    d = differs(res)
    if d is not None:
        if case['mode'] in SEGMENTED:
            # the same bytes delivered line by line: if that is right, the cut is the cause (D17)
            lines = [bytes.fromhex(l) for l in case['whole_lines']]
            tr = bytes.fromhex(case['trailing'])
            wl = dict(case, mode='per-line', chunks=[c.hex() for c in lines + ([tr] if tr else [])])
            ref = guard(lambda: impl_getbanner(lines + ([tr] if tr else []), end))
            sub = []
            if 'ok' in ref:
                check_parts(sub, wl, ref['ok']['banner'], exp['banner'], how)
            if 'ok' in ref and not sub and ref['ok']['header'] == exp['header']:
                _fail(fs, 'segmented_banner', case, res, exp, how + ' (delivered as whole lines the same bytes are reported correctly)')
            else:
                # wrong even when every recv() returns whole lines: report that simpler delivery
                return oracle_getbanner(wl)
        else:
            _fail(fs, 'header_separation', case, res, exp, how, {'part': d.split('.')[0]})
    if 'ok' in res:
        for h in res['ok']['header']:
            if is_banner_shaped(h):
                _fail(fs, 'banner_in_header', case, h, 'no banner-shaped line among the header lines', how)
    return fs, res


def oracle_software(case):
    from ssh_audit.banner import Banner
    from ssh_audit.software import Software
    fs = []
    s = case['software']
    sw = Software.parse(Banner((2, 0), s, None, True))
    got = None if sw is None else [sw.vendor, sw.product, sw.version, sw.patch]
    want = spec_software(s)
    want = None if want is None else list(want)
    how = 'Software.parse(Banner((2, 0), software, None, True)) -> [vendor, product, version, patch]'
    if got != want:
        _fail(fs, 'product_extract', case, got, want, how)
    bc = case.get('by_construction')
    if bc is not None and got != bc:
        _fail(fs, 'product_extract', case, got, bc, how + ' (expected by construction)')
    return fs, got


E2E_LISTS = dict(kex=('curve25519-sha256',), key=('ssh-ed25519',), enc=('aes256-ctr',), mac=('hmac-sha2-256',))


def run_e2e(case):
    import fakenet
    lines = [bytes.fromhex(l) for l in case['whole_lines']]
    seg = case.get('segment')

    def srv():
        return fakenet.simple_server(banner=lines[-1], pre_banner=b''.join(lines[:-1]), banner_eol=b'', segment=seg, **E2E_LISTS)
    code, text = fakenet.run_main(['-n', '--skip-rate-test', '10.0.0.1'], fakenet.FakeNet({('10.0.0.1', 22): srv()}))
    code2, js = fakenet.run_main(['-j', '--skip-rate-test', '10.0.0.1'], fakenet.FakeNet({('10.0.0.1', 22): srv()}))
    return code, text, code2, js


def oracle_e2e(case):
    """A whole audit of a scripted peer: the report must show the banner, the header and the software as built."""
    fs = []
    exp = case['expect']
    eb = exp['banner']
    code, text, code2, js = run_e2e(case)
    how = 'ssh-audit -n 10.0.0.1 / ssh-audit -j 10.0.0.1 against harness/fakenet (header lines, banner, KEXINIT; segment=%r)' % (case.get('segment'),)
    rendered = 'SSH-%d.%d' % tuple(eb['protocol']) + ('-' + eb['software'] if eb['software'] is not None else '') + (' ' + eb['comments'] if eb['comments'] else '')
    tl = text.split('\n')
    if '(gen) banner: ' + rendered not in tl:
        got = [l for l in tl if l.startswith('(gen) banner')]
        _fail(fs, 'report_banner', case, got or text[-300:], '(gen) banner: ' + rendered, how)
    if exp['header']:
        want = '(gen) header: ' + '\n'.join(exp['header']) + '\n'
        if want not in text:
            i = text.find('(gen) header')
            _fail(fs, 'report_header', case, text[i:i + 200] if i >= 0 else None, want, how)
    elif '(gen) header' in text:
        _fail(fs, 'report_header', case, text[text.find('(gen) header'):][:200], 'no header line', how)
    warn = '(gen) banner contains non-printable ASCII' in tl
    if warn != (not eb['valid']):
        _fail(fs, 'report_nonprintable_flag', case, warn, not eb['valid'], how)
    sw = spec_software(eb['software'] if eb['software'] is not None else 'None')
    has_sw = any(l.startswith('(gen) software: ') for l in tl)
    if has_sw != (sw is not None):
        _fail(fs, 'report_software', case, [l for l in tl if l.startswith('(gen) software')], 'software line present: %r' % (sw is not None), how)
    elif sw is not None:
        l = [l for l in tl if l.startswith('(gen) software: ')][0]
        if sw[1] not in l or (sw[2] and sw[2] not in l):
            _fail(fs, 'report_software', case, l, 'names %s %s' % (sw[1], sw[2]), how)
    try:
        j = json.loads(js)['banner']
        want = {'raw': rendered, 'protocol': '%d.%d' % tuple(eb['protocol']), 'software': eb['software'], 'comments': eb['comments']}
        if j != want:
            _fail(fs, 'report_json_banner', case, j, want, how)
    except Exception as e:  # noqa
        _fail(fs, 'report_json_banner', case, js[-300:], 'a JSON report with a banner object (%s)' % type(e).__name__, how)
    return fs, {'exit': [code, code2]}


def oracle_parse_history(case):
    """the parts and the flag of a line must not depend on what was parsed before it: the line's displayed form (every non-printable character
    replaced by '?') is parsed first, then the line itself, then the displayed form again"""
    from ssh_audit.banner import Banner
    fs = []
    line, disp = case['line'], shown(case['line'])
    seq = [disp, line, disp] if case.get('order', 0) == 0 else [line, disp, line]
    obs = None
    for i, l in enumerate(seq):
        b = banner_dict(Banner.parse(l))
        if l == line:
            obs = b
        if b is not None and b['valid'] != printable(l):
            _fail(fs, 'valid_ascii_depends_on_history', dict(case, parsed_before=seq[:i]), {'line': l, 'valid': b['valid']}, printable(l), 'Banner.parse after parsing look-alike lines')
            break
    return fs, obs


ORACLES = {'parse': oracle_parse, 'parse-history': oracle_parse_history, 'getbanner': oracle_getbanner, 'software': oracle_software, 'e2e': oracle_e2e}

CORPUS = [
    {'stream': 'parse', 'line': 'SSH-2.0-OpenSSH_7.3', 'expect': {'protocol': [2, 0], 'protocol_any': [[2, 0]], 'software': 'OpenSSH_7.3', 'comments': None, 'valid': True}},
    {'stream': 'parse', 'line': 'SSH-1.99-SSH-2.0-dropbear_0.5', 'expect': {'protocol': [1, 99], 'protocol_any': [[1, 99], [2, 0]], 'software': 'dropbear_0.5', 'comments': None, 'valid': True}},
    {'stream': 'parse', 'line': 'SSH-2.0-  OpenSSH_4.3p2 Debian-9etch3   on   i686-pc-linux-gnu  ', 'expect': None},
    {'stream': 'parse', 'line': 'SSH-1.5- SSH-3.0-bar', 'expect': None},
    {'stream': 'parse', 'line': 'SSH-2.0-dropbear_2019.78 caf\u00e9\t!', 'expect': {'protocol': [2, 0], 'protocol_any': [[2, 0]], 'software': 'dropbear_2019.78', 'comments': 'caf??!', 'valid': False}},
    {'stream': 'parse', 'line': 'SSH-2.0', 'expect': {'protocol': [2, 0], 'protocol_any': [[2, 0]], 'software': None, 'comments': None, 'valid': True}},
    {'stream': 'parse', 'line': 'SSH-2.0-', 'expect': {'protocol': [2, 0], 'protocol_any': [[2, 0]], 'software': '', 'comments': None, 'valid': True}},
    # D17 witnesses (repaired in /repo, commit 04fd9e5): a line cut by segmentation
    {'stream': 'getbanner', 'mode': 'segmented', 'end': 'close', 'chunks': [b'SSH-2.0-Open'.hex(), b'SSH_8.0\r\n'.hex()], 'whole_lines': [b'SSH-2.0-OpenSSH_8.0\r\n'.hex()], 'trailing': '',
     'expect': {'banner': {'protocol': [2, 0], 'protocol_any': [[2, 0]], 'software': 'OpenSSH_8.0', 'comments': None, 'valid': True}, 'header': [], 'after': ''}},
    {'stream': 'getbanner', 'mode': 'segmented', 'end': 'timeout', 'chunks': [b'Wel'.hex(), b'come\r'.hex(), b'\nSSH-2.0-x y\r'.hex(), b'\n\x00\x00'.hex(), b'\x01'.hex()],
     'whole_lines': [b'Welcome\r\n'.hex(), b'SSH-2.0-x y\r\n'.hex()], 'trailing': b'\x00\x00\x01'.hex(),
     'expect': {'banner': {'protocol': [2, 0], 'protocol_any': [[2, 0]], 'software': 'x', 'comments': 'y', 'valid': True}, 'header': ['Welcome'], 'after': b'\x00\x00\x01'.hex()}},
    {'stream': 'getbanner', 'mode': 'unterminated', 'end': 'timeout', 'chunks': [b'hi\nSSH-2.0-Open'.hex(), b'SSH_8.0'.hex()], 'whole_lines': [b'hi\n'.hex(), b'SSH-2.0-OpenSSH_8.0'.hex()], 'trailing': '',
     'expect': {'banner': {'protocol': [2, 0], 'protocol_any': [[2, 0]], 'software': 'OpenSSH_8.0', 'comments': None, 'valid': True}, 'header': ['hi'], 'after': ''}},
    {'stream': 'getbanner', 'mode': 'one', 'end': 'close', 'chunks': [b'hello\r\n\r\n  SSH-2.0-not\r\nSSH-2.0-x y\r\nrest'.hex()], 'whole_lines': [b'hello\r\n'.hex(), b'\r\n'.hex(), b'  SSH-2.0-not\r\n'.hex(), b'SSH-2.0-x y\r\n'.hex()],
     'trailing': b'rest'.hex(),
     'expect': {'banner': {'protocol': [2, 0], 'protocol_any': [[2, 0]], 'software': 'x', 'comments': 'y', 'valid': True}, 'header': ['hello', '  SSH-2.0-not'], 'after': b'rest'.hex()}},
]


# ---------------------------------------------------------------- run

def extra_ops(ctx, r):
    """Correspondence-only operations (filters, decoder, line cutting, rendering of arbitrary field values)."""
    ops = [('uspace.table', None)]
    for _ in range(ctx.scale(3000, 60000)):
        s = ''.join(r.choice(['a', 'Z', ' ', '~', '\x7f', '\x1f', '\x00', '\x80', '\u00e9', '\uffff', '\U0010ffff', '?', '\t', chr(r.randint(0, 0x2ff)), chr(r.choice([31, 32, 33, 125, 126, 127, 128]))])
                    for _ in range(r.choice([0, 1, 2, 5, 9, 30])))
        for op in ('ascii.is', 'ascii.to', 'ascii.to_ignore', 'ascii.is_print', 'ascii.to_print', 'ascii.to_print_ignore'):
            ops.append((op, s))
    for _ in range(ctx.scale(4000, 100000)):
        n = r.choice([0, 1, 2, 3, 4, 5, 8, 12])
        b = bytes(r.choice([0x41, 0x7f, 0x80, 0xbf, 0xc0, 0xc1, 0xc2, 0xdf, 0xe0, 0xe1, 0xec, 0xed, 0xee, 0xef, 0xf0, 0xf1, 0xf3, 0xf4, 0xf5, 0xff, 0x9f, 0xa0, 0x8f, 0x90, 0x0a, 0x0d, 0x20, r.getrandbits(8)])
                  for _ in range(n))
        ops.append(('utf8.decode', b))
        ops.append(('readlines', b))
    for _ in range(ctx.scale(1500, 30000)):
        sw = r.choice([None, '', 'OpenSSH_7.4', 'x y', gen_token(r, False)])
        cm = r.choice([None, '', 'Ubuntu-1', 'a b', ' '])
        ops.append(('banner.render', (r.choice([0, 1, 2, 9, 10, 123]), r.choice([0, 5, 99, 100, 10 ** 20]), sw, cm)))
    return ops


def gen_e2e(r):
    while True:
        c = gen_stream(r, 'one')
        eb = c['expect']['banner']
        # the scripted peer speaks SSH-2 right after its banner
        if eb['protocol'] != [2, 0] or c['trailing'] or sum(len(l) for l in c['whole_lines']) // 2 > 2048:
            continue
        n = sum(len(l) for l in c['whole_lines']) // 2
        seg = r.choice([None, None, 1, 2, 3, 7, 16, 100, sorted(set(r.randint(1, max(1, n - 1)) for _ in range(r.choice([1, 2, 4]))))])
        return dict(c, stream='e2e', segment=seg, tags=['e2e', 'e2e-whole' if seg is None else 'e2e-segmented'] + c['tags'][1:])


def header_across_connections(ctx, r, cov):
    import fakenet as fn
    out = []
    base = dict(kex=('curve25519-sha256', 'diffie-hellman-group-exchange-sha256'), key=('ssh-ed25519', 'rsa-sha2-512'), enc=('aes256-ctr',), mac=('hmac-sha2-256',))
    for k in range(ctx.scale(8, 80)):
        n1 = r.randint(0, 3)
        first_lines = [r.choice(['Authorized use only.', 'Welcome to host %d' % k, '*** notice ***', 'ssh-2.0-lowercase']) for _ in range(n1)]
        later = r.choice([b'Exceeded MaxStartups\r\n', b'Too many connections\r\nplease retry\r\n', b'', b'another notice\r\n'])
        banner = r.choice([b'SSH-2.0-OpenSSH_8.9p1', b'SSH-2.0-dropbear_2022.83', b'SSH-2.0-libssh_0.9.6'])
        pre1 = b''.join(l.encode() + b'\r\n' for l in first_lines)
        hk = {'ssh-ed25519': fn.ed25519_blob(), 'rsa-sha2-512': fn.rsa_blob(3072)}
        mode = r.choice(['healthy', 'throttled'])
        s1 = fn.simple_server(banner=banner, hostkeys=hk, gex=(lambda mn, pf, mx: 3072 if mn <= 3072 <= mx else None), pre_banner=pre1, **base)
        if mode == 'healthy':
            s2 = fn.simple_server(banner=banner, hostkeys=hk, gex=(lambda mn, pf, mx: 3072 if mn <= 3072 <= mx else None), pre_banner=later, **base)
        else:       # the probe connections are answered with a throttle message and closed
            s2 = fn.Server(banner=later.strip() or b'Exceeded MaxStartups', kexinit_payload=None, close_after_send=True)
        srv = fn.StagedServer([s1, s2])
        code, text = fn.run_main(['-n', '--skip-rate-test', '10.6.0.1'], fn.FakeNet({'10.6.0.1': srv}))
        got = []
        ls = text.split('\n')
        for i, l in enumerate(ls):
            if l.startswith('(gen) header: '):
                got = [l[len('(gen) header: '):]]
                j = i + 1
                while j < len(ls) and ls[j] and not ls[j].startswith('('):
                    got.append(ls[j])
                    j += 1
        cov.add(('header-across-connections', k, mode), bool(first_lines), tags=['whole-audit-header', 'probe-connections:' + mode])
        if got != first_lines or ('(gen) banner: ' + banner.decode()) not in text:
            out.append({'sig': {'kind': 'header_text_not_from_banner_connection'}, 'input': {'header_across': True, 'first_connection_lines': first_lines, 'later_connections': later.decode(), 'banner': banner.decode(), 'mode': mode},
                        'observed': {'header': got, 'exit': code}, 'expected': {'header': first_lines}, 'how': 'harness/props/C16.py header_across_connections(): real main() over fakenet (staged server)'})
    return out


def run(ctx):
    r = ctx.rng
    cov = Coverage('one evaluation per generated input and oracle stream (line -> Banner.parse; recv script -> get_banner; software string -> Software.parse; '
                   'whole audit); non-trivial = distinct inputs that the implementation accepts as a banner / recognises as a product, or (recv scripts, audits) that carry '
                   'at least one header line or trailing bytes')
    failures, mismatches = [], []
    corr = [0]
    per_sig = {}

    def correspond(ops):
        if not ctx.driver_ok or not ops:
            return
        lines = [line_of(op, arg) for op, arg in ops]
        for attempt in range(6):
            try:
                model = ctx.driver(lines)
                break
            except (FileNotFoundError, PermissionError, OSError):
                # another build is relinking the driver at this very moment
                if attempt == 5:
                    raise
                time.sleep(5)
        corr[0] += len(lines)
        for (op, arg), line, m in zip(ops, lines, model):
            res = guard(lambda: impl(op, arg))
            cm = canon_model(op, m)
            if cm != res and len(mismatches) < 200:
                mismatches.append({'stream': op.split('.')[0], 'op': line[:400], 'model': json.dumps(cm)[:600], 'impl': json.dumps(res)[:600]})

    def process(cases):
        ops = []
        for c in cases:
            if c['stream'] == 'parse':
                ops.append(('banner.parse', c['line']))
                ops.append(('banner.rx', c['line']))
                ops.append(('banner.reparse', c['line']))
            elif c['stream'] == 'getbanner':
                ops.append(('getbanner', ([bytes.fromhex(x) for x in c['chunks']], c.get('end', 'close'))))
        correspond(ops)
        for c in cases:
            fs, obs = ORACLES[c['stream']](c)
            for f in fs:          # keep a bounded number per failure class (never let one class crowd out another)
                k = json.dumps(f['sig'], sort_keys=True)
                per_sig[k] = per_sig.get(k, 0) + 1
                if per_sig[k] <= 40:
                    failures.append(f)
            if c['stream'] in ('parse', 'parse-history'):
                key, nontrivial, shown_in = (c['stream'], c['line']), obs is not None, c['line']
            elif c['stream'] in ('getbanner', 'e2e'):
                key, nontrivial, shown_in = (c['stream'], tuple(c['chunks'])), bool(c['expect']['header'] or c['trailing']), c['chunks'][:3]
            else:
                key, nontrivial, shown_in = ('s', c['software']), obs is not None, c['software']
            sample = {'stream': c['stream'], 'input': shown_in, 'impl': json.dumps(obs, default=str)[:200]} if cov.evaluations % 4999 == 0 else None
            cov.add(key, nontrivial, tags=c['tags'] + (['accepted'] if (c['stream'] == 'parse' and obs is not None) else []), sample=sample)

    process([dict(c, tags=['corpus']) for c in CORPUS])
    n_lines = ctx.scale(30000, 2000000)
    done = 0
    while done < n_lines:
        k = min(50000, n_lines - done)
        process([gen_grammar(r) if i % 10 < 6 else gen_mutation(r) for i in range(k)])
        done += k
    # look-alike lines one after the other (the same text with and without its non-printable characters)
    hist = []
    while len(hist) < ctx.scale(1500, 30000):
        c = gen_mutation(r)
        if c['stream'] == 'parse' and not printable(c['line']):
            hist.append({'stream': 'parse-history', 'line': c['line'], 'order': len(hist) % 2, 'tags': ['parse-history']})
    process([{'stream': 'parse-history', 'line': 'SSH-2.0-OpenSSH_8.0 build\x0742', 'order': 0, 'tags': ['corpus', 'parse-history']}] + hist)
    for mode, k in (('one', 2), ('per-line', 2), ('groups', 2), ('segmented', 6), ('crlf', 3), ('unterminated', 3), ('bytes', 1)):
        process([gen_stream(r, mode) for _ in range(ctx.scale(400, 8000) * k)])
    for _ in range(ctx.scale(12, 300)):
        process(gen_every_offset(r))
    # a peer that closes in the middle of the script (an empty recv() result): correspondence only
    correspond([('getbanner', ([bytes.fromhex(x) for x in c['chunks'][:k]] + [b''] + [bytes.fromhex(x) for x in c['chunks'][k:]], 'close'))
                for c in (gen_stream(r, 'segmented') for _ in range(ctx.scale(600, 6000))) for k in [r.randint(0, len(c['chunks']))]])
    process([gen_software(r) for _ in range(ctx.scale(15000, 200000))])
    process([gen_e2e(r) for _ in range(ctx.scale(200, 2000))])
    correspond(extra_ops(ctx, r))
    # whole audits with probe connections: the header text reported is the text that preceded the accepted banner on the FIRST connection,
    # whatever later (probe) connections of the same audit are greeted with (seed C16-11: one list object refilled on every reconnect)
    for f_ in header_across_connections(ctx, r, cov):
        failures.append(f_)
    return {'failures': failures, 'mismatches': mismatches, 'coverage': cov, 'corr_cases': corr[0],
            'assumptions': ['the regular-expression engine is represented in the model by a deterministic recogniser; its agreement with `re` (match / no match, all four groups, the findall pairs) is tested on every generated line (banner.rx), not proved',
                            'int() of the minor-version digits is total: fewer than 4300 digits (a line read by get_banner has at most 2048 bytes)',
                            'get_banner is modelled on a connected socket without a cached banner; every recv() result is at most 2048 bytes; an exhausted script means the peer has stopped: close, timeout and connection error end the loop the same way in the model (all three are exercised against the real code), the error text returned is not modelled',
                            'Software.parse is checked by the oracle only (hand-written scanner + by-construction expectations); its Lean model belongs to C14'],
            'observations': ['round trip: a software string that itself starts with "SSH-" (only reachable through the lenient blank-skipping after the dash, e.g. "SSH-1.5- SSH-3.0-bar") is re-read as a further protocol item; excluded from the round-trip statement (roundtrip_excluded_point)',
                             'several protocol items: the one reported is the minimum in the order of the digit *strings* ("SSH-1.5-SSH-1.10-x" reports 1.10, numerically the larger one); the oracle asserts the minimum only where both orders agree',
                             'an unterminated last line is read as a line once recv() reports that the peer has stopped (closed, timed out, failed): the tool then waits one timeout for a banner sent without line ending']}


def replay(obj):
    f = obj.get('failure', obj)
    case = f['input']
    stream = case.get('stream')
    if stream not in ORACLES:
        print('unknown replay stream %r' % stream)
        return 2
    shown_in = {k: (v if not isinstance(v, str) or len(v) < 300 else v[:300] + '...') for k, v in case.items() if k != 'expect'}
    print('replaying stream=%s input=%s' % (stream, json.dumps(shown_in, ensure_ascii=True)[:900]))
    fs, obs = ORACLES[stream](case)
    print('implementation answers:', json.dumps(obs, ensure_ascii=True, default=str)[:700])
    if case.get('expect') is not None:
        print('expected by construction:', json.dumps(case['expect'], ensure_ascii=True)[:500])
    for x in fs[:3]:
        print('  %s: observed %s, expected %s' % (x['sig']['kind'], json.dumps(x['observed'], ensure_ascii=True, default=str)[:300], json.dumps(x['expected'], ensure_ascii=True, default=str)[:300]))
    print('property holds on this input' if not fs else 'PROPERTY FAILS: %s' % fs[0]['sig']['kind'])
    return 1 if fs else 0
