/-
  Regenerated logic against the hand-written model, fourth unit (round 15): the Terrapin rule of `post_process_findings` (C04).

  `Gen.Logic.terrapin_rule` is the run of statements from `kex_strict_marker = False` to the advisory note, as `harness/translate_logic.py`
  reads it from the source on every run: `_add_terrapin_warning(db, category, name)` is the external call (over an abstract state: here the
  log of the marks made), the three helpers that list the enabled ChaCha20-Poly1305 ciphers / CBC ciphers / encrypt-then-MAC MACs are
  parameters (their per-name tests are `is_chacha` / `is_cbc` / `is_etm` of `Gen/Logic.lean`).  `terrapin_rule_eq_model` states the published
  rule outright for all lists; `terrapin_rule_postProcess` says it is what `Report.postProcess` computes.
-/
import SshAudit.Gen.Logic4
import SshAudit.Lemmas.Py
import SshAudit.Model.Report
import SshAudit.Model.Output
set_option linter.unusedSimpArgs false
namespace SshAudit.GenLogic
open SshAudit

/-- `_add_terrapin_warning(db, category, name)` as a log of the marks made, in order -/
def markLog (st : List (Str × Str)) (cat name : Str) : List (Str × Str) := st ++ [(cat, name)]

/-- one of the three marking loops: with the marker present the names go to the advisory list, otherwise each is marked -/
theorem foldl_mark (m : Bool) (cat : Str) (l note : List Str) (st : List (Str × Str)) :
    List.foldl (fun (acc : List Str × List (Str × Str)) (x : Str) => if m then (acc.1 ++ [x], acc.2) else (acc.1, markLog acc.2 cat x)) (note, st) l
      = if m then (note ++ l, st) else (note, st ++ l.map (fun x => (cat, x))) := by
  induction l generalizing note st with
  | nil => cases m <;> simp
  | cons a as ih =>
    simp only [List.foldl_cons]
    cases m
    · simp only [Bool.false_eq_true, if_false] at ih ⊢
      rw [ih]
      simp [markLog]
    · simp only [if_true] at ih ⊢
      rw [ih]
      simp

theorem foldl_mark' (m : Bool) (cat : Str) (l note : List Str) (st : List (Str × Str)) :
    List.foldl (fun (acc : List Str × List (Str × Str)) (x : Str) =>
        ((if m = true then (acc.1 ++ [x], acc.2) else (acc.1, markLog acc.2 cat x)).1,
         (if m = true then (acc.1 ++ [x], acc.2) else (acc.1, markLog acc.2 cat x)).2)) (note, st) l
      = if m then (note ++ l, st) else (note, st ++ l.map (fun x => (cat, x))) := by
  rw [← foldl_mark]

theorem rStrictS_lit : Report.strictS = ['k', 'e', 'x', '-', 's', 't', 'r', 'i', 'c', 't', '-', 's', '-', 'v', '0', '0', '@', 'o', 'p', 'e', 'n', 's', 's', 'h', '.', 'c', 'o', 'm'] := by decide
theorem rStrictC_lit : Report.strictC = ['k', 'e', 'x', '-', 's', 't', 'r', 'i', 'c', 't', '-', 'c', '-', 'v', '0', '0', '@', 'o', 'p', 'e', 'n', 's', 's', 'h', '.', 'c', 'o', 'm'] := by decide
theorem encC_lit : Report.encC = ['e', 'n', 'c'] := by decide
theorem macC_lit : Report.macC = ['m', 'a', 'c'] := by decide
theorem advisory_lit (names : List Str) : Report.advisory names =
    "Be aware that, while this target properly supports the strict key exchange method (via the kex-strict-?-v00@openssh.com marker) needed to protect against the Terrapin vulnerability (CVE-2023-48795), all peers must also support this feature as well, otherwise the vulnerability will still be present.  The following algorithms would allow an unpatched peer to create vulnerable SSH channels with this target: ".toList
      ++ Text.join [',', ' '] names ++ ".  If any CBC ciphers are in this list, you may remove them while leaving the *-etm@openssh.com MACs in place; these MACs are fine while paired with non-CBC cipher types.".toList := rfl

seal Report.advisory

/-- the published rule, for every key-exchange list, role and every three lists of enabled ChaCha20-Poly1305 ciphers, CBC ciphers and
    encrypt-then-MAC MACs: without the strict-key-exchange marker of the audited role exactly the ChaCha20 ciphers, and the CBC ciphers and
    EtM MACs when both kinds are offered, are marked (in that order, each under its own category) and nothing is noted; with it nothing is
    marked and the advisory names exactly those algorithms -/
theorem terrapin_rule_eq_model (kexAlgs chacha cbc etm : List Str) (client : Bool) :
    Gen.Logic.terrapin_rule markLog [] true kexAlgs client [] chacha cbc etm =
      (let marker := (client && kexAlgs.contains Report.strictC) || (!client && kexAlgs.contains Report.strictS)
       let both := !cbc.isEmpty && !etm.isEmpty
       let venc := chacha ++ (if both then cbc else [])
       let vmac := if both then etm else []
       (some (marker, (if marker then venc ++ vmac else []),
              (if marker && !(venc ++ vmac).isEmpty then [Report.advisory (venc ++ vmac)] else [])),
        if marker then [] else venc.map (fun x => (Report.encC, x)) ++ vmac.map (fun x => (Report.macC, x)))) := by
  simp only [Gen.Logic.terrapin_rule, ← rStrictS_lit, ← rStrictC_lit, ← encC_lit, ← macC_lit, Bool.true_and, -String.reduceToList]
  generalize ((client && kexAlgs.contains Report.strictC) || (!client && kexAlgs.contains Report.strictS)) = m
  have hm : (if m = true then true else false) = m := by cases m <;> rfl
  have hl (l : List Str) : decide (Int.ofNat l.length > 0) = !l.isEmpty := by cases l <;> simp <;> omega
  simp only [hm, hl, foldl_mark']
  cases m <;> cases hb : (!cbc.isEmpty && !etm.isEmpty) <;> simp [hb, advisory_lit, -String.reduceToList]

/-- … and this is what the report model's `postProcess` computes from a peer: the same marker, the same marks in the same order -/
theorem terrapin_rule_postProcess (db : DB) (peer : Report.Peer) (client : Bool) (sw : Option Str) (rate : Str) :
    let R := Report.postProcess db peer client sw rate
    let G := Gen.Logic.terrapin_rule markLog [] true peer.kex client []
      ((Report.ciphersOf peer client).filter Report.isChacha) ((Report.ciphersOf peer client).filter Report.isCbc)
      ((Report.macsOf peer client).filter Report.isEtm)
    G.2 = R.vulnerable ∧ G.1.map (fun r => r.1) = some R.marker := by
  simp only [terrapin_rule_eq_model, Report.postProcess, Report.markerFor, Report.Venc, Report.Vmac, Report.both]
  exact ⟨rfl, rfl⟩

/-! ### outputbuffer.py (C15): the level of a message, the filter of `_print`, the line buffer -/

/-- the name `_print` is called with for each method of the buffer -/
def methText : Output.Meth → Str
  | .good => "good".toList
  | .info => "info".toList
  | .warn => "warn".toList
  | .fail => "fail".toList
  | .head => "head".toList

/-- `OutputBuffer.get_level`: never raises; `good` counts as `info`, a name outside `LEVELS` is `sys.maxsize` -/
theorem get_level_eq_model (m : Output.Meth) :
    Gen.Logic.get_level (methText m) = some (match Output.getLevel m with | some k => (k : Int) | none => 9223372036854775807) := by
  cases m <;> decide

/-- the test that drops a message below the minimum level is the negation of `Output.passes` -/
theorem print_filtered_eq_model (always : Bool) (m : Output.Meth) (lv : Nat) (hlv : lv ≤ 3) :
    Gen.Logic.print_filtered always (methText m) (lv : Int) = some (!Output.passes lv m always) := by
  simp only [Gen.Logic.print_filtered, get_level_eq_model, Output.passes]
  cases always <;> cases m <;> simp [Output.getLevel] <;> try omega

/-- `buf[-1] = buf[-1] + t` on a non-empty list, one `cons` at a time -/
theorem last_update_cons (x y : Str) (r : List Str) (t : Str) :
    (Option.bind (Py.getItem (x :: y :: r) (-1)) fun e => Py.setItem (x :: y :: r) (-1) (e ++ t)) =
      (Option.bind (Py.getItem (y :: r) (-1)) fun e => Py.setItem (y :: r) (-1) (e ++ t)).map (x :: ·) := by
  have h1 : Py.getItem (x :: y :: r) (-1) = Py.getItem (y :: r) (-1) := by
    simp only [Py.getItem, List.length_cons]
    have a1 : ¬ ((0 : Int) ≤ -1) := by omega
    have a2 : -((r.length + 1 + 1 : Nat) : Int) ≤ -1 := by omega
    have a3 : -((r.length + 1 : Nat) : Int) ≤ -1 := by omega
    simp only [a1, a2, a3, if_true, if_false]
    have e1 : (((r.length + 1 + 1 : Nat) : Int) + -1).toNat = r.length + 1 := by omega
    have e2 : (((r.length + 1 : Nat) : Int) + -1).toNat = r.length := by omega
    rw [e1, e2]
    simp
  rw [h1]
  cases hg : Py.getItem (y :: r) (-1) with
  | none => simp
  | some e =>
    simp only [Option.bind_some, Py.setItem, List.length_cons]
    have a1 : ¬ ((0 : Int) ≤ -1) := by omega
    have a2 : -((r.length + 1 + 1 : Nat) : Int) ≤ -1 := by omega
    have a3 : -((r.length + 1 : Nat) : Int) ≤ -1 := by omega
    simp only [a1, a2, a3, if_true, if_false]
    have e1 : (((r.length + 1 + 1 : Nat) : Int) + -1).toNat = r.length + 1 := by omega
    have e2 : (((r.length + 1 : Nat) : Int) + -1).toNat = r.length := by omega
    rw [e1, e2]
    simp only [Py.setAt?]
    cases Py.setAt? (y :: r) r.length (e ++ t) <;> rfl

/-- appending to the line buffer: a new entry when the last line was ended, otherwise the text is added to the last entry (`IndexError` on an
    empty buffer) -/
theorem append_line_eq_model (buf : List Str) (t : Str) (ended : Bool) :
    Gen.Logic.append_line buf t ended = (if ended then some (buf ++ [t]) else Output.appendToLast buf t) := by
  cases ended
  · simp only [Gen.Logic.append_line, Bool.not_false, if_true, Bool.false_eq_true, if_false]
    have key : ∀ l : List Str, l ≠ [] → (Option.bind (Py.getItem l (-1)) fun e => Py.setItem l (-1) (e ++ t)) = Output.appendToLast l t := by
      intro l
      induction l with
      | nil => intro h; exact absurd rfl h
      | cons x xs ih =>
        intro _
        cases xs with
        | nil => simp [Py.getItem, Py.setItem, Py.setAt?, Output.appendToLast]
        | cons y r => rw [last_update_cons, ih (by simp)]; rfl
    cases buf with
    | nil => simp [Py.getItem, Output.appendToLast]
    | cons x xs =>
      have hpos : decide (Int.ofNat (x :: xs).length > 0) = true := by simp
      simp only [hpos, if_true]
      rw [← key (x :: xs) (by simp)]
      cases Py.getItem (x :: xs) (-1) with
      | none => rfl
      | some e => simp only [Option.bind_some]; cases Py.setItem (x :: xs) (-1) (e ++ t) <;> rfl
  · simp [Gen.Logic.append_line]

end SshAudit.GenLogic
