/-
  C15 — Output options change presentation only, never findings or verdict.

  Model: `SshAudit.Output` (`Model/Output.lean`): the `OutputBuffer` state machine and the call
  sequence of `ssh_audit.output()` for an SSH-2 peer.  The report *data* (`Report.Report`: lines with
  notes, status, recommendations, notes) is computed by `Report.report`, which takes no output option
  (`C02.report_status`); everything below is about the presentation of that data under
  `Cfg = (batch, verbose, debug, colors, level, json, jsonIndent)`.

  Parts: (1) the machine never raises on `output()` and equals a closed form; (2) level: raising the
  minimum level only deletes lines — exactly the lines below the level, plus the header and separator
  of a section that became empty; (3) findings: which findings are shown, and at which filter level,
  does not depend on batch / colours / level / JSON, and verbose shows the same findings; (4) colour
  escapes strip to the plain text; (5) JSON mode: exactly one entry, the document, at every level;
  (6) the remaining known deviations as negations with witnesses: D32-empty (a report with nothing
  left at the level is written as one blank line), D05 (error text after the JSON document).
  (D32 — a filtered verbose message flushed as a blank line — and C15-VJ — `-v -j` printing text
  before the document — were repaired in /repo, commits 97f1553 and 7081fa0; the model follows.)
-/
import SshAudit.Lemmas.Output
import SshAudit.Lemmas.Report
import SshAudit.Props.C03
namespace SshAudit.C15
open SshAudit SshAudit.Report SshAudit.Output

/-! ### (1) the buffer machine on `output()` -/

/-- **`output()` never trips the buffer** (no IndexError from `line_ended`, section closed, line ended) and leaves exactly the closed form,
    whatever was written to stdout before — every option set, every input. -/
theorem output_runs_clean (cfg : Cfg) (inp : Input) (o : List (List Str)) :
    exec cfg (outputOps cfg inp) ⟨[], [], false, true, o, none⟩ = ⟨renderClosed cfg inp, [], false, true, o, none⟩ :=
  exec_output cfg inp o

theorem render_eq_closed (cfg : Cfg) (inp : Input) : render cfg inp = renderClosed cfg inp := render_eq_closed' cfg inp

/-- stdout of a completed audit: one write per verbose message, then one write with the report -/
theorem stdout_eq (cfg : Cfg) (vmsgs : List Str) (inp : Input) : stdoutOf cfg vmsgs inp = vWrites cfg vmsgs ++ [renderClosed cfg inp] :=
  stdoutOf_eq cfg vmsgs inp

/-- the exit status is the report's: no option is consulted (the report itself takes none: `C02.report_status`) -/
theorem status_cfg_free (cfg cfg' : Cfg) (inp : Input) : exitStatus cfg inp = exitStatus cfg' inp := rfl

/-! ### (2) the minimum level -/

def atLevel (cfg : Cfg) (L : Nat) : Cfg := { cfg with level := L }

/-- which calls `output()` makes does not depend on the level -/
theorem sections_level_free (cfg : Cfg) (L : Nat) (inp : Input) : sections (atLevel cfg L) inp = sections cfg inp := rfl

def paintIt (colors : Bool) (it : Item) : Item := { it with text := paint colors it.meth it.text }

/-- every line of one section at level `info`, together with the method that printed it
    (header: `head`; separator: `info` with empty text) -/
def secLines (cfg : Cfg) (sc : Sec) : List Item :=
  if sc.items.isEmpty then []
  else
    (if cfg.batch then [] else [{ meth := .head, text := paint cfg.colors .head sc.title }]) ++
    (if sc.sort then (sc.items.map (paintIt cfg.colors)).mergeSort (fun a b => leStr a.text b.text) else sc.items.map (paintIt cfg.colors)) ++
    (if cfg.batch then [] else [{ meth := .info, text := [] }])

def tailLines (cfg : Cfg) (inp : Input) : List Item :=
  if inp.report.unknown.length > 0 then [{ meth := .warn, text := paint cfg.colors .warn (unknownText inp.report.unknown) }] else []

theorem keep_zero (it : Item) : keep 0 it = true := by
  unfold keep passes; cases it.always <;> cases getLevel it.meth <;> simp

theorem keep_paintIt (L : Nat) (c : Bool) (it : Item) : keep L (paintIt c it) = keep L it := rfl

theorem filter_paintIt (L : Nat) (c : Bool) (items : List Item) :
    (((items.map (paintIt c)).filter (keep L)).map (·.text)) = (items.filter (keep L)).map (fun it => paint c it.meth it.text) := by
  induction items with
  | nil => rfl
  | cons it rest ih =>
    by_cases h : keep L it = true
    · simp only [List.map_cons, List.filter_cons, keep_paintIt, h, if_true, ih]; rfl
    · simp only [Bool.not_eq_true] at h
      simp only [List.map_cons, List.filter_cons, keep_paintIt, h, Bool.false_eq_true, if_false]
      exact ih

theorem bodyOf_atLevel (cfg : Cfg) (L : Nat) (items : List Item) :
    bodyOf (atLevel cfg L) items = (items.filter (keep L)).map (fun it => paint cfg.colors it.meth it.text) := rfl

/-- **Level filter, section by section (all lines, headers and separators included).**  At minimum level `L` a section
    shows exactly those of its info-level lines whose method passes `L` (or that were printed with `always_print`) — texts
    unaltered, order unaltered, the sorted section still sorted — and nothing at all once none of its items passes. -/
theorem level_filter_section (cfg : Cfg) (L : Nat) (sc : Sec) :
    renderSec (atLevel cfg L) sc =
      if (sc.items.filter (keep L)).isEmpty then [] else ((secLines cfg sc).filter (keep L)).map (·.text) := by
  rw [renderSec_eq, bodyOf_atLevel]
  by_cases he : (sc.items.filter (keep L)).isEmpty = true
  · have : (sc.items.filter (keep L)) = [] := by simpa using he
    simp [this]
  · have hne : sc.items.filter (keep L) ≠ [] := by simpa using he
    have hne' : sc.items ≠ [] := by
      intro h; rw [h] at hne; exact hne rfl
    have h1 : ((sc.items.filter (keep L)).map (fun it => paint cfg.colors it.meth it.text)).isEmpty = false := by
      cases hf : sc.items.filter (keep L) with
      | nil => exact absurd hf hne
      | cons a b => rfl
    have h2 : sc.items.isEmpty = false := by
      cases hi : sc.items with
      | nil => exact absurd hi hne'
      | cons a b => rfl
    rw [h1, if_neg he]
    simp only [Bool.false_eq_true, if_false]
    unfold secLines
    rw [h2]
    simp only [Bool.false_eq_true, if_false, List.filter_append, List.map_append]
    have hhead : (atLevel cfg L).batch = cfg.batch := rfl
    have hcol : (atLevel cfg L).colors = cfg.colors := rfl
    have hlev : (atLevel cfg L).level = L := rfl
    rw [hhead, hcol, hlev]
    congr 1
    · congr 1
      · cases cfg.batch
        · simp [keep, passes_head]
        · simp
      · cases sc.sort
        · simp only [Bool.false_eq_true, if_false]; exact (filter_paintIt L cfg.colors sc.items).symm
        · simp only [if_true]
          rw [sort_filter_map (fun it : Item => it.text) (keep L) (sc.items.map (paintIt cfg.colors)), filter_paintIt]
    · cases cfg.batch
      · cases hp : passes L .info false
        · simp [keep, hp]
        · simp [keep, hp]
      · simp

/-- at level `info` the section shows all of `secLines` -/
theorem section_at_info (cfg : Cfg) (sc : Sec) : renderSec (atLevel cfg 0) sc = (secLines cfg sc).map (·.text) := by
  rw [level_filter_section]
  have hk : ∀ l : List Item, l.filter (keep 0) = l := fun l => List.filter_eq_self.mpr (fun a _ => keep_zero a)
  rw [hk, hk]
  by_cases he : sc.items.isEmpty = true
  · simp [he, secLines]
  · rw [if_neg he]

/-- the tagged lines of the whole report at level `L` -/
def levelLines (cfg : Cfg) (L : Nat) (inp : Input) : List Item :=
  (sections cfg inp).flatMap (fun sc => if (sc.items.filter (keep L)).isEmpty then [] else (secLines cfg sc).filter (keep L)) ++
  (tailLines cfg inp).filter (keep L)

/-- the tagged lines of the whole report at level `info` -/
def infoLines (cfg : Cfg) (inp : Input) : List Item := (sections cfg inp).flatMap (secLines cfg) ++ tailLines cfg inp

theorem renderTail_atLevel (cfg : Cfg) (L : Nat) (inp : Input) :
    renderTail (atLevel cfg L) inp = ((tailLines cfg inp).filter (keep L)).map (·.text) := by
  unfold renderTail tailLines
  by_cases hu : inp.report.unknown.length > 0
  · by_cases hp : passes L .warn false = true
    · have : (atLevel cfg L).level = L := rfl
      simp [hu, this, hp, keep]; rfl
    · have : (atLevel cfg L).level = L := rfl
      simp only [Bool.not_eq_true] at hp
      simp [hu, this, hp, keep]
  · simp [hu]

/-- **Level filter, whole report** (text mode): the output at minimum level `L` is `levelLines` — per section the filter image of
    the info-level lines, or nothing when the section has no item left. -/
theorem level_filter (cfg : Cfg) (hj : cfg.json = false) (L : Nat) (inp : Input) :
    render (atLevel cfg L) inp = (levelLines cfg L inp).map (·.text) := by
  rw [render_eq_closed]
  unfold renderClosed levelLines
  have : (atLevel cfg L).json = false := hj
  rw [this, sections_level_free]
  simp only [Bool.false_eq_true, if_false, List.map_append, renderTail_atLevel]
  congr 1
  induction (sections cfg inp) with
  | nil => rfl
  | cons sc rest ih =>
    rw [List.flatMap_cons, List.flatMap_cons, List.map_append, ih, level_filter_section]
    by_cases he : (sc.items.filter (keep L)).isEmpty = true
    · simp [he]
    · simp [he]

theorem flatMap_congr' {α β : Type} (f g : α → List β) (l : List α) (h : ∀ a ∈ l, f a = g a) : l.flatMap f = l.flatMap g := by
  induction l with
  | nil => rfl
  | cons a rest ih =>
    rw [List.flatMap_cons, List.flatMap_cons, h a (by simp), ih (fun b hb => h b (by simp [hb]))]

theorem render_at_info (cfg : Cfg) (hj : cfg.json = false) (inp : Input) :
    render (atLevel cfg 0) inp = (infoLines cfg inp).map (·.text) := by
  rw [level_filter cfg hj]
  unfold levelLines infoLines
  have hk : ∀ l : List Item, l.filter (keep 0) = l := fun l => List.filter_eq_self.mpr (fun a _ => keep_zero a)
  rw [hk]
  congr 2
  apply flatMap_congr'
  intro sc _
  rw [hk, hk]
  by_cases he : sc.items.isEmpty = true
  · simp [he, secLines]
  · rw [if_neg he]

theorem sublist_flatMap {α β : Type} (f g : α → List β) (l : List α) (h : ∀ a ∈ l, (f a).Sublist (g a)) : (l.flatMap f).Sublist (l.flatMap g) := by
  induction l with
  | nil => exact List.Sublist.refl _
  | cons a rest ih =>
    rw [List.flatMap_cons, List.flatMap_cons]
    exact List.Sublist.append (h a (by simp)) (ih (fun b hb => h b (by simp [hb])))

theorem levelLines_sublist (cfg : Cfg) (L : Nat) (inp : Input) : (levelLines cfg L inp).Sublist (infoLines cfg inp) := by
  unfold levelLines infoLines
  apply List.Sublist.append
  · apply sublist_flatMap
    intro sc _
    by_cases he : (sc.items.filter (keep L)).isEmpty = true
    · rw [if_pos he]; exact List.nil_sublist _
    · rw [if_neg he]; exact List.filter_sublist
  · exact List.filter_sublist

/-- **Raising the minimum level only deletes lines; it never adds or alters one** — every option set (JSON included), every input:
    the output at level `L` is a sub-list of the output at level `info`. -/
theorem level_only_deletes (cfg : Cfg) (L : Nat) (inp : Input) :
    (render (atLevel cfg L) inp).Sublist (render (atLevel cfg 0) inp) := by
  cases hj : cfg.json
  · rw [level_filter cfg hj, render_at_info cfg hj]
    exact (levelLines_sublist cfg L inp).map _
  · have h1 : (atLevel cfg L).json = true := hj
    have h2 : (atLevel cfg 0).json = true := hj
    rw [render_eq_closed, render_eq_closed]
    unfold renderClosed
    rw [h1, h2]
    exact List.Sublist.refl _

/-- every line kept at level `L` was printed by a method that passes `L` (or with `always_print`) -/
theorem level_lines_pass (cfg : Cfg) (L : Nat) (inp : Input) : ∀ it ∈ levelLines cfg L inp, keep L it = true := by
  intro it hit
  unfold levelLines at hit
  rw [List.mem_append] at hit
  rcases hit with h | h
  · rw [List.mem_flatMap] at h
    obtain ⟨sc, _, hsc⟩ := h
    by_cases he : (sc.items.filter (keep L)).isEmpty = true
    · rw [if_pos he] at hsc; cases hsc
    · rw [if_neg he] at hsc; exact (List.mem_filter.mp hsc).2
  · exact (List.mem_filter.mp h).2

/-- no item line that passes the level is lost: every non-header line of the info-level report that passes `L` is in the level-`L` report -/
theorem level_keeps_passing (cfg : Cfg) (L : Nat) (inp : Input) (it : Item) (hi : it ∈ infoLines cfg inp) (hk : keep L it = true)
    (hm : it.meth ≠ .head) : it ∈ levelLines cfg L inp := by
  unfold infoLines at hi
  unfold levelLines
  rw [List.mem_append] at hi ⊢
  rcases hi with h | h
  · left
    rw [List.mem_flatMap] at h ⊢
    obtain ⟨sc, hsc, hit⟩ := h
    refine ⟨sc, hsc, ?_⟩
    -- the section keeps an item: either `it` itself is an item, or it is the separator (then L = 0 and everything passes)
    have hne : (sc.items.filter (keep L)).isEmpty = false := by
      unfold secLines at hit
      by_cases he : sc.items.isEmpty = true
      · rw [if_pos he] at hit; cases hit
      · rw [if_neg he] at hit
        simp only [List.mem_append] at hit
        rcases hit with (hh | hb) | hs
        · exfalso
          by_cases hbt : cfg.batch = true
          · rw [if_pos hbt] at hh; cases hh
          · rw [if_neg hbt] at hh; rw [List.mem_singleton.mp hh] at hm; exact hm rfl
        · have hb' : it ∈ sc.items.map (paintIt cfg.colors) := by
            by_cases hsrt : sc.sort = true
            · rw [if_pos hsrt] at hb; exact List.mem_mergeSort.mp hb
            · rw [if_neg hsrt] at hb; exact hb
          obtain ⟨it0, hit0, rfl⟩ := List.mem_map.mp hb'
          have : it0 ∈ sc.items.filter (keep L) := List.mem_filter.mpr ⟨hit0, by rw [← keep_paintIt L cfg.colors it0]; exact hk⟩
          cases hf : sc.items.filter (keep L) with
          | nil => rw [hf] at this; cases this
          | cons a b => rfl
        · by_cases hbt : cfg.batch = true
          · rw [if_pos hbt] at hs; cases hs
          · rw [if_neg hbt] at hs
            rw [List.mem_singleton.mp hs] at hk
            have hL : L = 0 := by
              simp [keep, passes, getLevel] at hk; omega
            subst hL
            have hall : sc.items.filter (keep 0) = sc.items := List.filter_eq_self.mpr (fun a _ => keep_zero a)
            rw [hall]; simpa using he
    rw [hne]
    simp only [Bool.false_eq_true, if_false]
    exact List.mem_filter.mpr ⟨hit, hk⟩
  · right; exact List.mem_filter.mpr ⟨h, hk⟩

/-! #### stdout: the verbose messages and `main()`'s final `write()` -/

def nonBlank (l : List Str) : List Str := l.filter (fun t => !t.isEmpty)

/-- the verbose messages at level `L` are those of level `info`, or none (a message the level drops is not flushed: the D32 repair) -/
theorem vWrites_atLevel (cfg : Cfg) (L : Nat) (vmsgs : List Str) :
    vWrites (atLevel cfg L) vmsgs = vWrites (atLevel cfg 0) vmsgs ∨ vWrites (atLevel cfg L) vmsgs = [] := by
  have h0 : passes 0 .info false = true := by simp [passes, getLevel]
  have hl : (atLevel cfg L).level = L := rfl
  have hl0 : (atLevel cfg 0).level = 0 := rfl
  have hv : (atLevel cfg L).verbose = (atLevel cfg 0).verbose := rfl
  have hj : (atLevel cfg L).json = (atLevel cfg 0).json := rfl
  have hd : (atLevel cfg L).debug = (atLevel cfg 0).debug := rfl
  unfold vWrites
  rw [hl, hl0, hv, hj, hd, h0]
  cases hp : passes L .info false
  · right; simp
  · left; rfl

theorem vWrites_sublist (cfg : Cfg) (L : Nat) (vmsgs : List Str) :
    (outEntries (vWrites (atLevel cfg L) vmsgs)).Sublist (outEntries (vWrites (atLevel cfg 0) vmsgs)) := by
  rcases vWrites_atLevel cfg L vmsgs with h | h
  · rw [h]; exact List.Sublist.refl _
  · rw [h]; exact List.nil_sublist _

theorem outEntries_append (a b : List (List Str)) : outEntries (a ++ b) = outEntries a ++ outEntries b := by
  simp [outEntries]

theorem nonBlank_written (l : List Str) : nonBlank (outEntries [l]) = nonBlank l := by
  cases l with
  | nil => rfl
  | cons a b => simp [outEntries]

/-- **On non-blank lines** raising the level only deletes lines of stdout, verbose messages included — all option sets, all inputs. -/
theorem stdout_nonblank_only_deletes (cfg : Cfg) (L : Nat) (vmsgs : List Str) (inp : Input) :
    (nonBlank (outEntries (stdoutOf (atLevel cfg L) vmsgs inp))).Sublist (nonBlank (outEntries (stdoutOf (atLevel cfg 0) vmsgs inp))) := by
  rw [stdout_eq, stdout_eq, outEntries_append, outEntries_append]
  unfold nonBlank
  rw [List.filter_append, List.filter_append]
  apply List.Sublist.append ((vWrites_sublist cfg L vmsgs).filter _)
  have h := level_only_deletes cfg L inp
  rw [render_eq_closed, render_eq_closed] at h
  have h1 := nonBlank_written (renderClosed (atLevel cfg L) inp)
  have h2 := nonBlank_written (renderClosed (atLevel cfg 0) inp)
  unfold nonBlank at h1 h2
  rw [h1, h2]
  exact h.filter _

/-- **On all lines of stdout** — verbose and debug messages included — raising the level only deletes lines, whenever something of the
    report is left at that level (after the D32 repair; every option set, every input). -/
theorem stdout_only_deletes (cfg : Cfg) (L : Nat) (vmsgs : List Str) (inp : Input) (hne : render (atLevel cfg L) inp ≠ []) :
    (outEntries (stdoutOf (atLevel cfg L) vmsgs inp)).Sublist (outEntries (stdoutOf (atLevel cfg 0) vmsgs inp)) := by
  rw [stdout_eq, stdout_eq, outEntries_append, outEntries_append]
  apply List.Sublist.append (vWrites_sublist cfg L vmsgs)
  have h := level_only_deletes cfg L inp
  rw [render_eq_closed] at hne
  rw [render_eq_closed, render_eq_closed] at h
  have hne0 : renderClosed (atLevel cfg 0) inp ≠ [] := by
    intro h0; rw [h0] at h; exact hne (List.sublist_nil.mp h)
  simp only [outEntries, List.flatMap_cons, List.flatMap_nil, List.append_nil]
  have e1 : (renderClosed (atLevel cfg L) inp).isEmpty = false := by
    cases hh : renderClosed (atLevel cfg L) inp with
    | nil => exact absurd hh hne
    | cons a b => rfl
  have e2 : (renderClosed (atLevel cfg 0) inp).isEmpty = false := by
    cases hh : renderClosed (atLevel cfg 0) inp with
    | nil => exact absurd hh hne0
    | cons a b => rfl
  rw [e1, e2]
  exact h

/-- a peer with one warning and nothing else -/
def warnOnlyReport : Report.Report :=
  { kex := [{ cat := kexC, name := s "k", shown := s "k", notes := [{ level := .warn, text := s "w" }], unknown := false }],
    key := [], enc := [], mac := [], status := 2, compression := [], recs := [], notes := [], unknown := [] }

/-- the D32 witness after the repair: `-b -v -l warn` no longer starts with a blank line — stdout is a sub-list of the info-level stdout -/
theorem d32_repaired :
    ([] : Str) ∉ outEntries (stdoutOf (atLevel { batch := true, verbose := true } 1) [s "Starting audit of h:22..."] { report := warnOnlyReport }) := by
  rw [stdout_eq]
  decide

/-- **D32-empty (known finding):** when nothing of the report reaches the level, `main()`'s final `write()` prints the empty buffer as
    one blank line (`-b -l fail` on a peer with warnings only); the info-level batch output has no blank line. -/
theorem empty_report_blank_line :
    outEntries (stdoutOf (atLevel { batch := true } 2) [] { report := warnOnlyReport }) = [[]] ∧
    ([] : Str) ∉ outEntries (stdoutOf (atLevel { batch := true } 0) [] { report := warnOnlyReport }) := by
  rw [stdout_eq, stdout_eq]
  decide

/-- … hence without the non-emptiness hypothesis the all-lines statement is false -/
theorem stdout_all_lines_false :
    ¬ (∀ (cfg : Cfg) (L : Nat) (vmsgs : List Str) (inp : Input),
        (outEntries (stdoutOf (atLevel cfg L) vmsgs inp)).Sublist (outEntries (stdoutOf (atLevel cfg 0) vmsgs inp))) := by
  intro h
  have hs := h { batch := true } 2 [] { report := warnOnlyReport }
  have hw := empty_report_blank_line
  exact hw.2 (hs.subset (by rw [hw.1]; simp))

/-! ### (3) findings -/

/-- what the property counts: the finding and the method that prints it (its filter level and colour) -/
def key (p : Finding × Item) : Finding × Meth := (p.1, p.2.meth)

def keyOf (l : AlgLine) (n : Note) : Finding × Meth := (findingOf l n, if useGood l then .good else methOf n.level)

/-- the findings one algorithm line shows, as a function of `verbose` alone -/
def lineKeys (verbose : Bool) (l : AlgLine) : List (Finding × Meth) :=
  match l.notes with
  | [] => []
  | n :: rest => keyOf l n :: (rest.filter (fun m => verbose || !m.text.isEmpty)).map (keyOf l)

theorem notePair_key (cfg : Cfg) (inp : Input) (l : AlgLine) (first : Bool) (n : Note) :
    (notePair cfg inp l first n).map key = if first || cfg.verbose || !n.text.isEmpty then [keyOf l n] else [] := by
  unfold notePair noteLine
  by_cases h1 : (first || cfg.verbose) = true
  · simp only [h1, if_true, Bool.true_or]; rfl
  · simp only [Bool.not_eq_true] at h1
    simp only [h1, Bool.false_eq_true, if_false, Bool.false_or]
    by_cases h2 : n.text = []
    · simp [h2]
    · have : n.text.isEmpty = false := by cases hh : n.text with
        | nil => exact absurd hh h2
        | cons a b => rfl
      simp only [h2, ne_eq, not_false_eq_true, if_true, this, Bool.not_false]; rfl

theorem algPairs_key (cfg : Cfg) (inp : Input) (l : AlgLine) : (algPairs cfg inp l).map key = lineKeys cfg.verbose l := by
  unfold algPairs lineKeys
  cases l.notes with
  | nil => rfl
  | cons n rest =>
    simp only [List.map_append, notePair_key, Bool.true_or, if_true, List.singleton_append]
    congr 1
    induction rest with
    | nil => rfl
    | cons m ms ih =>
      rw [List.flatMap_cons, List.map_append, ih, notePair_key]
      by_cases h : (cfg.verbose || !m.text.isEmpty) = true
      · simp [List.filter_cons, h]
      · simp only [Bool.not_eq_true] at h
        simp [List.filter_cons, h]

/-- **The findings shown, each with the method that prints it, are a function of the report and of `verbose` only**:
    batch, colours, the minimum level, JSON flags and the padding width play no role. -/
theorem findings_cfg_free (cfg cfg' : Cfg) (hv : cfg.verbose = cfg'.verbose) (inp : Input) :
    (shownPairs cfg inp).map key = (shownPairs cfg' inp).map key := by
  unfold shownPairs
  simp only [List.map_flatMap, algPairs_key, hv]

theorem batch_same_findings (cfg : Cfg) (b : Bool) (inp : Input) :
    (shownPairs { cfg with batch := b } inp).map key = (shownPairs cfg inp).map key := findings_cfg_free { cfg with batch := b } cfg rfl inp

theorem colour_same_findings (cfg : Cfg) (c : Bool) (inp : Input) :
    (shownPairs { cfg with colors := c } inp).map key = (shownPairs cfg inp).map key := findings_cfg_free { cfg with colors := c } cfg rfl inp

/-- later notes of a line all carry text (true of every line the rating database produces: only a line with nothing to say has the empty note, and it is alone) -/
def LaterNotesNonEmpty (l : AlgLine) : Prop := ∀ n ∈ l.notes.tail, n.text ≠ []

theorem lineKeys_all (v : Bool) (l : AlgLine) (h : LaterNotesNonEmpty l) : lineKeys v l = l.notes.map (keyOf l) := by
  unfold lineKeys
  unfold LaterNotesNonEmpty at h
  cases hn : l.notes with
  | nil => rfl
  | cons n rest =>
    rw [hn] at h
    simp only [List.tail_cons] at h
    simp only [List.map_cons]
    congr 1
    have : rest.filter (fun m => v || !m.text.isEmpty) = rest := by
      apply List.filter_eq_self.mpr
      intro a ha
      have := h a ha
      cases hh : a.text with
      | nil => exact absurd hh this
      | cons x y => simp
    rw [this]

/-- **Verbose mode shows the same findings**: under every option set the findings shown are all findings of the report, in report order
    (verbose repeats the full line per note, non-verbose uses the continuation form). -/
theorem verbose_same_findings (cfg : Cfg) (inp : Input)
    (h : ∀ l ∈ inp.report.kex ++ inp.report.key ++ inp.report.enc ++ inp.report.mac, LaterNotesNonEmpty l) :
    (shownPairs cfg inp).map (·.1) = findingsOf inp.report := by
  have hk : (shownPairs cfg inp).map (·.1) = ((shownPairs cfg inp).map key).map (·.1) := by simp [key]
  rw [hk]
  unfold shownPairs findingsOf
  simp only [List.map_flatMap, algPairs_key]
  apply flatMap_congr'
  intro l hl
  rw [lineKeys_all cfg.verbose l (h l hl)]
  simp [keyOf]

/-- "first note `info` ⇒ all notes `info`" — the order in which `output_algorithm` collects notes (failures, warnings, infos) guarantees it -/
def InfoFirstAllInfo (l : AlgLine) : Prop := ∀ n0 rest, l.notes = n0 :: rest → n0.level = .info → ∀ n ∈ rest, n.level = .info

theorem getLevel_methOf (lv : Level) : getLevel (methOf lv) = some (match lv with | .info => 0 | .warn => 1 | .fail => 2) := by
  cases lv <;> rfl

/-- **A finding is filtered by its own severity**: the method that prints a finding has the filter level of the finding's severity
    (`good` counts as `info`), so at minimum level `L` exactly the findings of severity ≥ `L` remain (`level_filter_section`). -/
theorem finding_level (cfg : Cfg) (inp : Input) (l : AlgLine) (ho : InfoFirstAllInfo l) :
    ∀ p ∈ algPairs cfg inp l, getLevel p.2.meth = getLevel (methOf p.1.level) := by
  intro p hp
  have hk : key p ∈ lineKeys cfg.verbose l := by rw [← algPairs_key cfg inp l]; exact List.mem_map_of_mem hp
  unfold lineKeys at hk
  cases hn : l.notes with
  | nil => rw [hn] at hk; cases hk
  | cons n0 rest =>
    rw [hn] at hk
    have hmem : ∃ n ∈ n0 :: rest, key p = keyOf l n := by
      rcases List.mem_cons.mp hk with h | h
      · exact ⟨n0, by simp, h⟩
      · obtain ⟨n, hn', he⟩ := List.mem_map.mp h
        exact ⟨n, by simp [(List.mem_filter.mp hn').1], he.symm⟩
    obtain ⟨n, hnm, he⟩ := hmem
    have h1 : p.1 = findingOf l n := congrArg Prod.fst he
    have h2 : p.2.meth = (if useGood l then Meth.good else methOf n.level) := congrArg Prod.snd he
    rw [h1, h2]
    show getLevel (if useGood l then Meth.good else methOf n.level) = getLevel (methOf n.level)
    by_cases hg : useGood l = true
    · rw [if_pos hg]
      have h0 : n0.level = .info := by
        unfold useGood at hg; rw [hn] at hg; simpa using hg
      have : n.level = .info := by
        rcases List.mem_cons.mp hnm with h | h
        · rw [h]; exact h0
        · exact ho n0 rest hn h0 n h
      rw [this]; rfl
    · rw [if_neg hg]

theorem notesOf_level (lvl : Level) (l : List (Option Str)) : ∀ n ∈ notesOf lvl l, n.level = lvl := by
  intro n hn
  unfold notesOf at hn
  obtain ⟨t, _, rfl⟩ := List.mem_map.mp hn
  rfl

theorem sinceNote_level (e : Entry) : ∀ n ∈ sinceNote e, n.level = .info := by
  intro n hn
  unfold sinceNote at hn
  split at hn
  · split at hn
    · simp at hn; rw [hn]
    · cases hn
  · cases hn

theorem rawTexts_ordered (e : Entry) (n0 : Note) (rest : List Note) (h : rawTexts e = n0 :: rest) (h0 : n0.level = .info) :
    ∀ n ∈ rest, n.level = .info := by
  unfold rawTexts at h
  cases hf : notesOf .fail (DBm.slot e 1) with
  | cons a b =>
    rw [hf] at h
    simp only [List.cons_append, List.cons.injEq] at h
    have := notesOf_level .fail (DBm.slot e 1) a (by rw [hf]; simp)
    rw [h.1, h0] at this; cases this
  | nil =>
    rw [hf] at h
    cases hw : notesOf .warn (DBm.slot e 2) with
    | cons a b =>
      rw [hw] at h
      simp only [List.nil_append, List.cons_append, List.cons.injEq] at h
      have := notesOf_level .warn (DBm.slot e 2) a (by rw [hw]; simp)
      rw [h.1, h0] at this; cases this
    | nil =>
      rw [hw] at h
      simp only [List.nil_append] at h
      intro n hn
      have : n ∈ sinceNote e ++ notesOf .info (DBm.slot e 3) := by rw [h]; simp [hn]
      rcases List.mem_append.mp this with h1 | h1
      · exact sinceNote_level e n h1
      · exact notesOf_level .info _ n h1

/-- every line `output_algorithms` produces from any rating database is ordered that way -/
theorem algLines_ordered (rf : List Str) (db : DB) (cat : Str) (names : List Str) (hk : List (Str × HostKeyInfo)) (dh : List (Str × Nat)) :
    ∀ l ∈ algLines rf db cat names hk dh, InfoFirstAllInfo l := by
  intro l hl
  unfold algLines at hl
  obtain ⟨n, _, hn⟩ := List.mem_filterMap.mp hl
  unfold algTexts at hn
  by_cases hb : (Text.stripU (gssNormalize cat n)).isEmpty = true
  · simp [hb] at hn
  · simp only [hb, Bool.false_eq_true, if_false] at hn
    cases hlk : DBm.lookup db cat (gssNormalize cat n) with
    | none =>
      rw [hlk] at hn
      simp only [Option.map_some, Option.some.injEq] at hn
      subst hn
      intro n0 rest hnr h0
      simp only [List.cons.injEq] at hnr
      rw [← hnr.1] at h0; cases h0
    | some e =>
      rw [hlk] at hn
      simp only [Option.map_some, Option.some.injEq] at hn
      subst hn
      intro n0 rest hnr h0
      simp only at hnr
      unfold entryTexts at hnr
      by_cases hr : (rawTexts e).isEmpty = true
      · rw [if_pos hr] at hnr
        simp only [List.cons.injEq] at hnr
        rw [← hnr.2]; intro n hn; cases hn
      · rw [if_neg hr] at hnr
        exact rawTexts_ordered e n0 rest hnr h0

/-- … hence every algorithm line of a standard report -/
theorem report_lines_ordered (rf : List Str) (db : DB) (peer : Peer) (client : Bool) (bsw : Option Str) (sw : Option Version.Software) (rn : Str) :
    let r := report rf db peer client bsw sw rn
    ∀ l ∈ r.kex ++ r.key ++ r.enc ++ r.mac, InfoFirstAllInfo l := by
  intro r l hl
  simp only [List.mem_append] at hl
  rcases hl with ((h | h) | h) | h
  all_goals exact algLines_ordered _ _ _ _ _ _ l h

/-- **The printed text carries the finding**: the line of a finding is the algorithm's lead (`(cat) shown`) followed, when the note has
    text, by padding and ` -- [severity] text` — or, in non-verbose continuation form, blanks of the same width and `` `- [severity] text``. -/
theorem finding_text (cfg : Cfg) (inp : Input) (l : AlgLine) : ∀ p ∈ algPairs cfg inp l,
    let n : Note := { level := p.1.level, text := p.1.text }
    p.1.cat = l.cat ∧ p.1.shown = l.shown ∧
    (p.2.text = algLead l ++ (if n.text ≠ [] then algPad cfg inp l ++ s " -- " ++ tagText n else []) ∨
     (n.text ≠ [] ∧ cfg.verbose = false ∧ p.2.text = spaces (algLead l).length ++ algPad cfg inp l ++ s " `- " ++ tagText n)) := by
  intro p hp
  have hnp : ∀ first n, p ∈ notePair cfg inp l first n →
      p.1 = findingOf l n ∧
      (p.2.text = algLead l ++ (if n.text ≠ [] then algPad cfg inp l ++ s " -- " ++ tagText n else []) ∨
       (n.text ≠ [] ∧ cfg.verbose = false ∧ p.2.text = spaces (algLead l).length ++ algPad cfg inp l ++ s " `- " ++ tagText n)) := by
    intro first n hm
    unfold notePair noteLine at hm
    by_cases h1 : (first || cfg.verbose) = true
    · simp only [h1, if_true, List.mem_singleton] at hm
      subst hm; exact ⟨rfl, Or.inl rfl⟩
    · simp only [Bool.not_eq_true] at h1
      have hv : cfg.verbose = false := by
        cases hh : cfg.verbose
        · rfl
        · rw [hh] at h1; simp at h1
      simp only [h1, Bool.false_eq_true, if_false] at hm
      by_cases h2 : n.text ≠ []
      · rw [if_pos h2] at hm
        simp only [List.mem_singleton] at hm
        subst hm; exact ⟨rfl, Or.inr ⟨h2, hv, rfl⟩⟩
      · rw [if_neg h2] at hm; cases hm
  unfold algPairs at hp
  cases hn : l.notes with
  | nil => rw [hn] at hp; cases hp
  | cons n0 rest =>
    rw [hn] at hp
    rcases List.mem_append.mp hp with h | h
    · obtain ⟨e1, e2⟩ := hnp true n0 h
      rw [e1]; exact ⟨rfl, rfl, e2⟩
    · obtain ⟨n, _, hm⟩ := List.mem_flatMap.mp h
      obtain ⟨e1, e2⟩ := hnp false n hm
      rw [e1]; exact ⟨rfl, rfl, e2⟩

/-! ### (4) colours -/

def withColors (cfg : Cfg) (c : Bool) : Cfg := { cfg with colors := c }

/-- no ESC character in the section's own texts -/
def EscFreeSec (sc : Sec) : Prop := esc ∉ sc.title ∧ ∀ it ∈ sc.items, esc ∉ it.text

theorem body_strip (cfg : Cfg) (c : Bool) (items : List Item) (h : ∀ it ∈ items, esc ∉ it.text) :
    (bodyOf (withColors cfg c) items).map stripAnsi = bodyOf (withColors cfg false) items := by
  unfold bodyOf
  have hl : (withColors cfg c).level = (withColors cfg false).level := rfl
  rw [hl, List.map_map]
  apply List.map_congr_left
  intro it hit
  exact strip_paint c it.meth it.text (h it (List.mem_filter.mp hit).1)

/-- **Colour strip, section by section**: removing the colour escapes from the coloured section gives the uncoloured section —
    exactly for the unsorted sections; the sorted section (recommendations) holds the same lines, possibly in another order,
    because the coloured lines are sorted *with* their escape prefix. -/
theorem colour_strip_section (cfg : Cfg) (c : Bool) (sc : Sec) (h : EscFreeSec sc) :
    (sc.sort = false → (renderSec (withColors cfg c) sc).map stripAnsi = renderSec (withColors cfg false) sc) ∧
    ((renderSec (withColors cfg c) sc).map stripAnsi).Perm (renderSec (withColors cfg false) sc) := by
  have hb := body_strip cfg c sc.items h.2
  have hemp : (bodyOf (withColors cfg c) sc.items).isEmpty = (bodyOf (withColors cfg false) sc.items).isEmpty := by
    rw [← hb]; simp
  have hbat : (withColors cfg c).batch = (withColors cfg false).batch := rfl
  have hlev : (withColors cfg c).level = (withColors cfg false).level := rfl
  have hhead : stripAnsi (paint c .head sc.title) = paint false .head sc.title := strip_paint c .head sc.title h.1
  have hcol : (withColors cfg c).colors = c := rfl
  have hcol0 : (withColors cfg false).colors = false := rfl
  rw [renderSec_eq, renderSec_eq, hemp, hbat, hlev, hcol, hcol0]
  by_cases he : (bodyOf (withColors cfg false) sc.items).isEmpty = true
  · simp [he]
  · rw [if_neg he, if_neg he]
    have hsep : (if ((withColors cfg false).batch || !passes (withColors cfg false).level Meth.info false) = true then ([] : List Str) else [[]]).map stripAnsi
        = (if ((withColors cfg false).batch || !passes (withColors cfg false).level Meth.info false) = true then ([] : List Str) else [[]]) := by
      split <;> simp [stripAnsi, stripGo]
    have hhd : (if (withColors cfg false).batch = true then ([] : List Str) else [paint c .head sc.title]).map stripAnsi
        = (if (withColors cfg false).batch = true then ([] : List Str) else [paint false .head sc.title]) := by
      split <;> simp [hhead]
    constructor
    · intro hs
      rw [hs]
      simp only [Bool.false_eq_true, if_false, List.map_append, hsep, hhd, hb]
    · rw [List.map_append, List.map_append, hsep, hhd]
      apply List.Perm.append_right
      apply List.Perm.append_left
      cases sc.sort
      · simp only [Bool.false_eq_true, if_false]; rw [hb]
      · simp only [if_true]
        have p1 : ((sortStr (bodyOf (withColors cfg c) sc.items)).map stripAnsi).Perm ((bodyOf (withColors cfg c) sc.items).map stripAnsi) :=
          (sortStr_perm _).map _
        rw [hb] at p1
        exact p1.trans (sortStr_perm _).symm

theorem perm_flatMap {α β : Type} (f g : α → List β) (l : List α) (h : ∀ a ∈ l, (f a).Perm (g a)) : (l.flatMap f).Perm (l.flatMap g) := by
  induction l with
  | nil => exact List.Perm.refl _
  | cons a rest ih =>
    rw [List.flatMap_cons, List.flatMap_cons]
    exact List.Perm.append (h a (by simp)) (ih (fun b hb => h b (by simp [hb])))

/-- **Colour strip, whole report** (text mode, ESC-free texts): stripping the escapes from the coloured report gives the lines of the
    uncoloured report (same multiset; same order outside the sorted recommendation section). -/
theorem colour_strip (cfg : Cfg) (hj : cfg.json = false) (c : Bool) (inp : Input)
    (hs : ∀ sc ∈ sections cfg inp, EscFreeSec sc) (hu : esc ∉ unknownText inp.report.unknown) :
    ((render (withColors cfg c) inp).map stripAnsi).Perm (render (withColors cfg false) inp) := by
  rw [render_eq_closed, render_eq_closed]
  unfold renderClosed
  have j1 : (withColors cfg c).json = false := hj
  have j2 : (withColors cfg false).json = false := hj
  have hsec : sections (withColors cfg c) inp = sections cfg inp := rfl
  have hsec0 : sections (withColors cfg false) inp = sections cfg inp := rfl
  rw [j1, j2, hsec, hsec0]
  simp only [Bool.false_eq_true, if_false, List.map_append, List.map_flatMap]
  apply List.Perm.append
  · apply perm_flatMap
    intro sc hsc
    exact (colour_strip_section cfg c sc (hs sc hsc)).2
  · unfold renderTail
    have hl : (withColors cfg c).level = (withColors cfg false).level := rfl
    rw [hl]
    split
    · simp only [List.map_cons, List.map_nil]
      have := strip_paint c .warn (unknownText inp.report.unknown) hu
      have hc : (withColors cfg c).colors = c := rfl
      have hc0 : (withColors cfg false).colors = false := rfl
      rw [hc, hc0, this]
    · exact List.Perm.refl _

/-- without recommendations the coloured report strips to the uncoloured report line by line -/
theorem colour_strip_exact (cfg : Cfg) (hj : cfg.json = false) (c : Bool) (inp : Input)
    (hs : ∀ sc ∈ sections cfg inp, EscFreeSec sc) (hu : esc ∉ unknownText inp.report.unknown)
    (hns : ∀ sc ∈ sections cfg inp, sc.sort = true → sc.items = []) :
    (render (withColors cfg c) inp).map stripAnsi = render (withColors cfg false) inp := by
  rw [render_eq_closed, render_eq_closed]
  unfold renderClosed
  have j1 : (withColors cfg c).json = false := hj
  have j2 : (withColors cfg false).json = false := hj
  have hsec : sections (withColors cfg c) inp = sections cfg inp := rfl
  have hsec0 : sections (withColors cfg false) inp = sections cfg inp := rfl
  rw [j1, j2, hsec, hsec0]
  simp only [Bool.false_eq_true, if_false, List.map_append, List.map_flatMap]
  congr 1
  · apply flatMap_congr'
    intro sc hsc
    cases hsort : sc.sort
    · exact (colour_strip_section cfg c sc (hs sc hsc)).1 hsort
    · have := hns sc hsc hsort
      simp [renderSec_eq, bodyOf, this]
  · unfold renderTail
    have hl : (withColors cfg c).level = (withColors cfg false).level := rfl
    rw [hl]
    split
    · simp only [List.map_cons, List.map_nil]
      have := strip_paint c .warn (unknownText inp.report.unknown) hu
      have hc : (withColors cfg c).colors = c := rfl
      have hc0 : (withColors cfg false).colors = false := rfl
      rw [hc, hc0, this]
    · rfl

/-! ### (5) JSON mode -/

/-- **JSON mode prints exactly one entry — the document — at every minimum level**, whatever batch / verbose / colours are
    (the D14 repair: the document is emitted with `always_print=True`; the text sections never reach the buffer). -/
theorem json_once (cfg : Cfg) (hj : cfg.json = true) (inp : Input) : render cfg inp = [jsonDoc cfg inp] := by
  rw [render_eq_closed]; unfold renderClosed; rw [if_pos hj]

theorem json_every_level (cfg : Cfg) (hj : cfg.json = true) (L : Nat) (inp : Input) : render (atLevel cfg L) inp = render cfg inp := by
  have h : (atLevel cfg L).json = true := hj
  rw [json_once _ h, json_once _ hj]; rfl

/-- the document is not coloured, filtered, padded or reordered by any option: two JSON option sets with the same indentation print the same entry -/
theorem json_option_free (cfg cfg' : Cfg) (hj : cfg.json = true) (hj' : cfg'.json = true) (hi : cfg.jsonIndent = cfg'.jsonIndent) (inp : Input) :
    render cfg inp = render cfg' inp := by
  rw [json_once _ hj, json_once _ hj']; unfold jsonDoc; rw [hi]

/-- **stdout of a completed JSON audit is exactly the document and a newline — one write — for every option set without `-d`**:
    any level, with or without `-v` (the C15-VJ repair: `v()` is silent in JSON mode), batch, colours. -/
theorem json_stdout_single (cfg : Cfg) (hj : cfg.json = true) (hd : cfg.debug = false) (vmsgs : List Str) (inp : Input) :
    stdoutOf cfg vmsgs inp = [[jsonDoc cfg inp]] ∧ outEntries (stdoutOf cfg vmsgs inp) = [jsonDoc cfg inp] ∧
    outText (stdoutOf cfg vmsgs inp) = jsonDoc cfg inp ++ ['\n'] := by
  have : stdoutOf cfg vmsgs inp = [[jsonDoc cfg inp]] := by
    rw [stdout_eq]; unfold renderClosed; rw [if_pos hj]; simp [vWrites, hj, hd]
  rw [this]
  exact ⟨rfl, by simp [outEntries], by simp [outText, Text.join]⟩

/-- the former C15-VJ witness: `-v -j` now prints the document only -/
theorem json_verbose_repaired :
    outEntries (stdoutOf { json := true, verbose := true } [s "Starting audit of h:22..."] { report := warnOnlyReport, jsonCompact := s "{}" }) = [s "{}"] :=
  (json_stdout_single _ rfl rfl _ _).2.1

/-- **D05 (known finding): after a handshake error the document is followed by the raw error text** in the same write (any option set without `-d`). -/
theorem json_error_path (cfg : Cfg) (hj : cfg.json = true) (hl : cfg.level ≤ 2) (hd : cfg.debug = false)
    (vmsgs : List Str) (inp : Input) (err : Str) :
    stdoutOfError cfg vmsgs inp err = [[jsonDoc cfg inp, paint cfg.colors .fail err]] := by
  rw [stdoutOfError_eq]
  have hp : passes cfg.level .fail false = true := by
    simp [passes, getLevel]; omega
  unfold renderClosed
  rw [if_pos hj, hp]
  simp [vWrites, hj, hd]

theorem json_error_not_single :
    ¬ (∀ (cfg : Cfg) (vmsgs : List Str) (inp : Input) (err : Str), cfg.json = true → cfg.debug = false →
        outEntries (stdoutOfError cfg vmsgs inp err) = [jsonDoc cfg inp]) := by
  intro h
  have := h { json := true } [] { report := warnOnlyReport, hasKex := false, jsonCompact := s "{}" } (s "[exception] error reading packet (timed out)") rfl rfl
  rw [json_error_path _ rfl (by decide) rfl] at this
  revert this
  decide

/-- **JSON informational notes = text informational notes, for every name the database knows** (the same notes; the JSON document lists
    the "available since" text last, the text report first).  Failure and warning notes: `C03.json_eq_text_fail_warn` (equal lists). -/
theorem json_info_perm_text (db : DB) (fu : Str) (cat n : Str) (e : Entry) (hl : DBm.lookup db cat (gssNormalize cat n) = some e) :
    (((jsonNotes db fu cat n).info.getD []).filterMap id).Perm (((rawTexts e).filter (·.level = .info)).map (·.text)) := by
  have hsi : (sinceNote e).filter (·.level = .info) = sinceNote e := by
    apply List.filter_eq_self.mpr
    intro a ha; simp [sinceNote_level e a ha]
  have htext : ((rawTexts e).filter (·.level = .info)).map (·.text) = (sinceNote e).map (·.text) ++ (DBm.slot e 3).filterMap id := by
    unfold rawTexts
    simp only [List.filter_append, C03.notesOf_filter_same, C03.notesOf_filter_other .fail .info (by decide), C03.notesOf_filter_other .warn .info (by decide),
      hsi, List.nil_append, List.map_append, C03.map_text_notesOf]
  rw [htext]
  unfold jsonNotes
  simp only [hl]
  have hslot := C03.slot_json e 3
  unfold sinceNote
  cases hs : Version.getSinceText (DBm.versions e) with
  | none =>
    simp only [List.map_nil, List.nil_append]
    rw [hslot]
  | some t =>
    simp only
    by_cases ht : t.length > 0
    · simp only [ht, if_true, Option.getD_some, List.filterMap_append, List.map_cons, List.map_nil]
      rw [hslot]
      simp only [List.filterMap_cons, id, List.filterMap_nil]
      exact List.perm_append_comm
    · simp only [ht, if_false, List.map_nil, List.nil_append]
      rw [hslot]

/-! ### non-vacuity -/

def exInp : Input :=
  { report :=
      { kex := [{ cat := kexC, name := s "k1", shown := s "k1", notes := [⟨.fail, s "f"⟩, ⟨.warn, s "w"⟩, ⟨.info, s "i"⟩], unknown := false },
                { cat := kexC, name := s "k2", shown := s "k2", notes := [⟨.info, s "i2"⟩], unknown := false }],
        key := [], enc := [], mac := [], status := 3, compression := [],
        recs := [{ cat := kexC, action := .del, name := s "k1", points := 10 }], notes := [], unknown := [] },
    maxlen := 3 }

example : render { batch := true } exInp =
    [s "(gen) compression: disabled", s "(kex) k1 -- [fail] f", s "         `- [warn] w", s "         `- [info] i", s "(kex) k2 -- [info] i2",
     s "(rec) -k1-- kex algorithm to remove ", s "(nfo) For hardening guides on common OSes, please see: <https://www.ssh-audit.com/hardening_guides.html>"] := by
  rw [render_eq_closed]; decide +kernel

example : render { batch := true, level := 2 } exInp = [s "(kex) k1 -- [fail] f", s "(rec) -k1-- kex algorithm to remove "] := by
  rw [render_eq_closed]; decide +kernel

example : render { batch := true, verbose := true, level := 1 } exInp =
    [s "(kex) k1 -- [fail] f", s "(kex) k1 -- [warn] w", s "(rec) -k1-- kex algorithm to remove ",
     s "(nfo) For hardening guides on common OSes, please see: <https://www.ssh-audit.com/hardening_guides.html>"] := by
  rw [render_eq_closed]; decide +kernel

example : (exec { level := 1 } [.print .info (s "Result: ") false false, .print .fail (s "Failed!") true false] {}).buffer = [s "Failed!"] := by decide
example : (exec {} [.print .info (s "Result: ") false false, .print .fail (s "Failed!") true false] {}).buffer = [s "Result: Failed!"] := by decide
example : (exec {} [.enter, .print .info (s "x") false false, .exit, .print .info (s "y") true false] {}).err = some .index := by decide

end SshAudit.C15
