/-
  Multi-target runs (`main()` with `-T`, `target_worker_thread`, the per-thread database
  copies `DB_PER_THREAD` of ssh2_kexdb.py / ssh1_kexdb.py).  Import-free.

  Shared state between scans is the map thread-id ↦ private database copy.  A scan of one
  target by thread `t` is a sequence of atomic steps on slot `t`; an execution of the pool is
  any interleaving of the workers' step sequences.
-/
import SshAudit.Model.Types
namespace SshAudit
namespace Multi

abbrev Tid := Nat

/-- `DB_PER_THREAD`: thread id ↦ that thread's private copy (absent = not created yet) -/
abbrev Shared := Tid → Option DB

/-- atomic steps of a worker thread on the shared state -/
inductive Step where
  | threadExit (t : Tid)                 -- `SSH2_KexDB.thread_exit()`: drop the thread's copy
  | edit (t : Tid) (f : DB → DB)         -- `db = get_db(); …in-place edit…` (creates the copy from MASTER_DB on first use)
  | render (t : Tid) (target : Nat)      -- the report of `target` is rendered from `get_db()`

def Step.tid : Step → Tid
  | .threadExit t => t
  | .edit t _ => t
  | .render t _ => t

def setSlot (s : Shared) (t : Tid) (v : Option DB) : Shared := fun u => if u = t then v else s u

/-- `get_db()` as seen by thread `t` -/
def getDb (master : DB) (s : Shared) (t : Tid) : DB := (s t).getD master

/-- one step: new shared state, plus the observation (target, database the report is rendered from) if it is a render -/
def step (master : DB) (s : Shared) : Step → Shared × Option (Tid × Nat × DB)
  | .threadExit t => (setSlot s t none, none)
  | .edit t f => (setSlot s t (some (f (getDb master s t))), none)
  | .render t x => (setSlot s t (some (getDb master s t)), some (t, x, getDb master s t))

/-- run an execution, collecting the render observations in order -/
def exec (master : DB) : Shared → List Step → List (Tid × Nat × DB)
  | _, [] => []
  | s, st :: rest =>
    let (s', o) := step master s st
    match o with
    | some obs => obs :: exec master s' rest
    | none => exec master s' rest

def finalState (master : DB) : Shared → List Step → Shared
  | s, [] => s
  | s, st :: rest => finalState master (step master s st).1 rest

/-- what `target_worker_thread` does for one target after the D03 repair: drop the copy, run the
    scan's edits (Terrapin marks, size notes, …), render, drop the copy again -/
def targetSteps (t : Tid) (target : Nat) (edits : List (DB → DB)) : List Step :=
  [.threadExit t] ++ edits.map (.edit t) ++ [.render t target, .threadExit t]

/-- a worker thread processes its targets one after the other -/
def workerSteps (t : Tid) : List (Nat × List (DB → DB)) → List Step
  | [] => []
  | (x, es) :: rest => targetSteps t x es ++ workerSteps t rest

/-- the database a fresh single-target process renders `target` from -/
def singleRun (master : DB) (edits : List (DB → DB)) : DB := edits.foldl (fun d f => f d) master

/-! ### results, rank fold and framing of `main()` -/

/-- how `audit()` ended inside a worker -/
inductive Outcome where
  | returned (status : Int) (text : Str)    -- `audit` returned; `out.get_buffer()`
  | raised (msg : Str)                      -- an `Exception` escaped
  | sysExit (code : Int) (text : Str)       -- `sys.exit(code)` inside the scan (D04 repair: caught per target)
deriving Repr, DecidableEq

/-- `target_worker_thread`'s return value -/
def workerResult : Outcome → Int × Str
  | .returned st txt => (st, txt)
  | .raised msg => (-1, msg)
  | .sysExit code txt => (code, txt)

/-- `ranked_return_codes.index(x)`; `none` = ValueError -/
def rank (ranked : List Int) (x : Int) : Option Nat := ranked.findIdx? (· = x)

/-- `if ranked.index(worker_ret) > ranked.index(ret): ret = worker_ret` -/
def rankStep (ranked : List Int) (acc w : Int) : Int :=
  match rank ranked w, rank ranked acc with
  | some a, some b => if a > b then w else acc
  | _, _ => acc

/-- the fold of `main()`: keep the worker status whose rank is higher -/
def rankFold (ranked : List Int) (ret : Int) (rs : List Int) : Int := rs.foldl (rankStep ranked) ret

def dashes : Str := List.replicate 80 '-'

/-- stdout of `main()` for the per-target outputs, in completion order -/
def frameOutput (json : Bool) (outs : List Str) : Str :=
  if json then
    ['['] ++ (List.intercalate [',', ' '] outs) ++ [']', '\n']
  else
    List.intercalate (dashes ++ ['\n', '\n']) (outs.map (· ++ ['\n']))

def mainRun (ranked : List Int) (json : Bool) (outcomes : List Outcome) : Str × Int :=
  let rs := outcomes.map workerResult
  (frameOutput json (rs.map (·.2)), rankFold ranked 0 (rs.map (·.1)))

end Multi
end SshAudit
