/-
  Regenerated logic against the hand-written model, third unit (round 15): procedures.

  `Gen.Logic.gex_probe` is the probing part of `GEXTest.run` for one group-exchange algorithm as `harness/translate_logic.py` reads it from
  the Python source on every run: the calls of `GEXTest._send_init` are a parameter `ext_send_init : σ → Int → Int → Int → (Int × Bool) × σ`
  over an abstract connection state σ (threaded through the statements in execution order), the `for` loop with its `break` is a fold with
  a done flag, the `break` that leaves the per-algorithm body is the result `none`.  `gex_probe_eq_model` says that, for every server
  `srv : σ → Probe → Resp × σ` (any state machine), this is `Gex.run srv`, the function the C12 theorems are about: same final server
  state (hence the same probes in the same order — instantiate σ with a logging state), same measured size, same follow-up flag, same stop.

  `Gen.Logic.gex_rate` is the block that edits the database entry once a size was measured; `gex_rate_eq_model` says it is `Gex.rate`.
-/
import SshAudit.Gen.Logic3
import SshAudit.Lemmas.Py
import SshAudit.Model.Gex
import SshAudit.Model.Policy
set_option linter.unusedSimpArgs false
namespace SshAudit.GenLogic
open SshAudit

/-! ### the server of the model as the external call of the generated procedure -/

/-- what `_send_init` returns for an answer of the model's server: the size (−1 for none) and `reconnect_failed` -/
def encResp (r : Gex.Resp) : Int × Bool := (encSize r.bits, r.reconnectFailed)

/-- `GEXTest._send_init(…, min, pref, max)` against the model's server -/
def extOf {σ : Type} (srv : σ → Gex.Probe → Gex.Resp × σ) : σ → Int → Int → Int → (Int × Bool) × σ :=
  fun st a b c => (encResp (srv st (a.toNat, b.toNat, c.toNat)).1, (srv st (a.toNat, b.toNat, c.toNat)).2)

/-- `banner is not None and banner.software is not None and banner.software.find('OpenSSH') != -1` -/
def isOpenSSH (present : Bool) (software : Option Str) : Bool :=
  present && (match software with | some s => Text.hasSub "OpenSSH".toList s | none => false)

theorem findFrom_none_iff (t : Str) (s : Str) (k : Nat) : Py.findFrom t s k = none ↔ Text.hasSub t s = false := by
  induction s generalizing k with
  | nil => cases t <;> simp [Py.findFrom, Text.hasSub]
  | cons c cs ih =>
    simp only [Py.findFrom, Text.hasSub]
    by_cases h : t.isPrefixOf (c :: cs)
    · simp [h]
    · simp [h, ih]

theorem find_ne_neg_one (s t : Str) : (Py.find s t != -1) = Text.hasSub t s := by
  unfold Py.find
  cases h : Py.findFrom t s 0 with
  | none => rw [(findFrom_none_iff t s 0).1 h]; rfl
  | some k =>
    have : Text.hasSub t s = true := by
      cases h2 : Text.hasSub t s with
      | true => rfl
      | false => rw [(findFrom_none_iff t s 0).2 h2] at h; cases h
    rw [this]
    simp

/-! ### the loop: a fold with a done flag is `Gex.loop` -/

/-- one pass of the probe loop as the generated fold performs it -/
def loopStep {σ : Type} (ext : σ → Int → Int → Int → (Int × Bool) × σ) (acc : Bool × Int × Bool × σ) (bits : Int) : Bool × Int × Bool × σ :=
  if acc.1 then acc
  else if decide (bits ≥ acc.2.1) && decide (acc.2.1 > 0) then (true, acc.2.1, acc.2.2.1, acc.2.2.2)
  else (false, (ext acc.2.2.2 bits bits bits).1.1, (ext acc.2.2.2 bits bits bits).1.2, (ext acc.2.2.2 bits bits bits).2)

theorem foldl_done {σ : Type} (ext : σ → Int → Int → Int → (Int × Bool) × σ) (l : List Int) (a : Int) (b : Bool) (s : σ) :
    List.foldl (loopStep ext) (true, a, b, s) l = (true, a, b, s) := by
  induction l with
  | nil => rfl
  | cons x xs ih => simp [List.foldl_cons, loopStep, ih]

/-- the state of the fold that corresponds to a state of `Gex.loop` (the done flag is not part of the correspondence) -/
def accOf {σ : Type} (st : Gex.LoopSt σ) : Int × Bool × σ := (encSize st.smallest, st.reconnectFailed, st.srvSt)

theorem loop_fold {σ : Type} (srv : σ → Gex.Probe → Gex.Resp × σ) (bs : List Nat) (st : Gex.LoopSt σ) :
    (List.foldl (loopStep (extOf srv)) (false, accOf st) (bs.map Int.ofNat)).2 = accOf (Gex.loop srv bs st) := by
  induction bs generalizing st with
  | nil => rfl
  | cons b bs ih =>
    simp only [List.map_cons, List.foldl_cons, Gex.loop]
    cases hs : st.smallest with
    | none =>
      have h1 : loopStep (extOf srv) (false, accOf st) (Int.ofNat b) =
          (false, accOf { srvSt := (srv st.srvSt (b, b, b)).2, smallest := (srv st.srvSt (b, b, b)).1.bits,
                          reconnectFailed := (srv st.srvSt (b, b, b)).1.reconnectFailed, trace := st.trace ++ [((b, b, b), (srv st.srvSt (b, b, b)).1)] }) := by
        simp [loopStep, accOf, hs, encSize, extOf, encResp]
      rw [h1, ih]
    | some s =>
      by_cases hc : b ≥ s ∧ s > 0
      · have h1 : loopStep (extOf srv) (false, accOf st) (Int.ofNat b) = (true, accOf st) := by
          simp [loopStep, accOf, hs, encSize]
          omega
        rw [h1]
        simp only [accOf, foldl_done, hc, and_self, if_true]
      · have h1 : loopStep (extOf srv) (false, accOf st) (Int.ofNat b) =
            (false, accOf { srvSt := (srv st.srvSt (b, b, b)).2, smallest := (srv st.srvSt (b, b, b)).1.bits,
                            reconnectFailed := (srv st.srvSt (b, b, b)).1.reconnectFailed, trace := st.trace ++ [((b, b, b), (srv st.srvSt (b, b, b)).1)] }) := by
          have : ¬ (((b : Int) ≥ (s : Int)) ∧ ((s : Int) > 0)) := by omega
          simp [loopStep, accOf, hs, encSize, extOf, encResp]
          omega
        rw [h1, ih]
        simp only [hc, if_false]

theorem foldl_congr_fun {α β : Type} (f g : β → α → β) (h : ∀ acc b, f acc b = g acc b) (a : β) (l : List α) :
    List.foldl f a l = List.foldl g a l := by
  have : f = g := by funext acc b; exact h acc b
  rw [this]

theorem schedule_lit : ([(512 : Int), 768, 1024, 1536, 2048, 3072, 4096] : List Int) = Gex.schedule.map Int.ofNat := by decide

/-- the size `Gex.run` ends with before it discards a non-positive one (`reported = positive finalBits`) -/
def finalBits {σ : Type} (srv : σ → Gex.Probe → Gex.Resp × σ) (s0 : σ) (openssh : Bool) : Option Nat :=
  let L := Gex.loop srv Gex.schedule
    { srvSt := (srv s0 Gex.firstProbe).2, smallest := (srv s0 Gex.firstProbe).1.bits, reconnectFailed := false,
      trace := [(Gex.firstProbe, (srv s0 Gex.firstProbe).1)] }
  if L.smallest = some 2048 ∧ openssh then (srv L.srvSt Gex.secondPassProbe).1.bits else L.smallest

theorem run_reported {σ : Type} (srv : σ → Gex.Probe → Gex.Resp × σ) (s0 : σ) (openssh : Bool)
    (h : (srv s0 Gex.firstProbe).1.reconnectFailed = false) :
    (Gex.run srv s0 openssh).reported = Gex.positive (finalBits srv s0 openssh) := by
  simp only [Gex.run, finalBits, h, Bool.false_eq_true, if_false]
  generalize Gex.loop srv Gex.schedule _ = L
  by_cases hc : L.smallest = some 2048 ∧ openssh = true <;> simp [hc]

/-- `GEXTest.run`'s probing part, as read from the source, is `Gex.run` for every server: when the first connection cannot be made the
    per-algorithm body is left by `break` … -/
theorem gex_probe_eq_model_stop {σ : Type} (srv : σ → Gex.Probe → Gex.Resp × σ) (s0 : σ) (present : Bool) (software : Option Str)
    (h : (srv s0 Gex.firstProbe).1.reconnectFailed = true) :
    Gen.Logic.gex_probe (extOf srv) s0 present software = (none, (Gex.run srv s0 (isOpenSSH present software)).srvSt)
      ∧ (Gex.run srv s0 (isOpenSSH present software)).stop = true ∧ (Gex.run srv s0 (isOpenSSH present software)).reported = none := by
  have h0 : extOf srv s0 512 1024 1536 = (encResp (srv s0 Gex.firstProbe).1, (srv s0 Gex.firstProbe).2) := by
    simp [extOf, Gex.firstProbe]
  simp only [Gen.Logic.gex_probe, Gex.run, h0, encResp, h, if_true, and_self]

/-- … and otherwise it ends with the model's size (−1 for none), stop flag, follow-up flag and server state -/
theorem gex_probe_eq_model {σ : Type} (srv : σ → Gex.Probe → Gex.Resp × σ) (s0 : σ) (present : Bool) (software : Option Str)
    (h : (srv s0 Gex.firstProbe).1.reconnectFailed = false) :
    Gen.Logic.gex_probe (extOf srv) s0 present software =
      (some (encSize (finalBits srv s0 (isOpenSSH present software)), (Gex.run srv s0 (isOpenSSH present software)).stop,
             (Gex.run srv s0 (isOpenSSH present software)).fallbackNote),
       (Gex.run srv s0 (isOpenSSH present software)).srvSt) := by
  have h0 : extOf srv s0 512 1024 1536 = (encResp (srv s0 Gex.firstProbe).1, (srv s0 Gex.firstProbe).2) := by
    simp [extOf, Gex.firstProbe]
  have hf := loop_fold srv Gex.schedule
    { srvSt := (srv s0 Gex.firstProbe).2, smallest := (srv s0 Gex.firstProbe).1.bits, reconnectFailed := false,
      trace := [(Gex.firstProbe, (srv s0 Gex.firstProbe).1)] }
  rw [← schedule_lit] at hf
  simp only [accOf] at hf
  simp only [Gen.Logic.gex_probe, Gex.run, finalBits]
  rw [foldl_congr_fun _ (loopStep (extOf srv)) (by intro acc b; simp only [loopStep])]
  simp only [h0, encResp, h, hf, Bool.false_eq_true, if_false]
  generalize Gex.loop srv Gex.schedule _ = L
  have hlit : (['O', 'p', 'e', 'n', 'S', 'S', 'H'] : Str) = "OpenSSH".toList := by decide
  have hsm : (encSize L.smallest == 2048) = decide (L.smallest = some 2048) := by
    cases hL : L.smallest with
    | none => simp [encSize]
    | some n => simp [encSize]; first | omega | grind
  have h2 : extOf srv L.srvSt 2048 3072 4096 = (encResp (srv L.srvSt Gex.secondPassProbe).1, (srv L.srvSt Gex.secondPassProbe).2) := by
    simp [extOf, Gex.secondPassProbe]
  rw [hsm]
  have key : ∀ o : Bool, isOpenSSH present software = o →
      (present && match software with | some s => Py.find s ['O', 'p', 'e', 'n', 'S', 'S', 'H'] != -1 | none => false) = o := by
    intro o ho
    rw [← ho]
    unfold isOpenSSH
    cases software <;> simp [find_ne_neg_one, hlit]
  cases ho : isOpenSSH present software with
  | false =>
    cases software with
    | none => simp [h2, encResp]
    | some sw =>
      have := key false ho
      simp only [find_ne_neg_one] at this ⊢
      simp [this, h2, encResp]
  | true =>
    cases software with
    | none => simp [isOpenSSH] at ho
    | some sw =>
      have := key true ho
      simp only [find_ne_neg_one] at this ⊢
      simp only [this, Bool.and_true]
      by_cases hc : L.smallest = some 2048
      · simp only [hc, h2, encResp, and_self, if_true, decide_true]
        cases hb : (srv L.srvSt Gex.secondPassProbe).1.bits with
        | none => simp [encSize]
        | some n => simp [encSize]; first | omega | grind
      · simp [hc]

/-! ### the rating block -/

theorem gex_report_guard_eq_model (sm : Option Nat) : Gen.Logic.gex_report_guard (encSize sm) = (Gex.positive sm).isSome := by
  cases sm <;> simp [Gen.Logic.gex_report_guard, encSize, Gex.positive] <;> omega

theorem gexSmallText_lit (n : Nat) : Gex.smallText n = ['u', 's', 'i', 'n', 'g', ' ', 's', 'm', 'a', 'l', 'l', ' '] ++ Text.natToStr n ++ ['-', 'b', 'i', 't', ' ', 'm', 'o', 'd', 'u', 'l', 'u', 's'] := by
  simp [Gex.smallText, Gex.s]
theorem gexWarn_lit : Gex.warn2048 = ['2', '0', '4', '8', '-', 'b', 'i', 't', ' ', 'm', 'o', 'd', 'u', 'l', 'u', 's', ' ', 'o', 'n', 'l', 'y', ' ', 'p', 'r', 'o', 'v', 'i', 'd', 'e', 's', ' ', '1', '1', '2', '-', 'b', 'i', 't', 's', ' ', 'o', 'f', ' ', 's', 'y', 'm', 'm', 'e', 't', 'r', 'i', 'c', ' ', 's', 't', 'r', 'e', 'n', 'g', 't', 'h'] := by decide
theorem gexFallback_lit (n : Nat) : Gex.fallbackText n = "OpenSSH's GEX fallback mechanism was triggered during testing. Very old SSH clients will still be able to create connections using a 2048-bit modulus, though modern clients will use ".toList ++ Text.natToStr n ++ ". This can only be disabled by recompiling the code (see https://github.com/openssh/openssh-portable/blob/V_9_4/dh.c#L477).".toList := rfl
seal Gex.smallText Gex.warn2048 Gex.fallbackText Text.natToStr

/-- the edits `GEXTest.run` makes to the database entry of the algorithm once a positive size was measured (every entry has its versions
    list, so `d ≠ []`) are `Gex.rate` -/
theorem gex_rate_eq_model (d : List (List (Option Str))) (hd : d ≠ []) (n : Nat) (upd : Bool) :
    Gen.Logic.gex_rate d (n : Int) upd = some (Gex.rate d n upd) := by
  simp only [Gen.Logic.gex_rate, fmtD_natCast, ← gexSmallText_lit, ← gexWarn_lit, -String.reduceToList]
  rw [← gexFallback_lit]
  simp only [Gex.rate, Gex.rateSize]
  generalize Gex.fallbackText n = tf
  generalize Gex.smallText n = ts
  generalize Gex.warn2048 = tw
  have c1 : decide ((n : Int) < 2048) = decide (n < 2048) := decide_eq_decide.2 (by omega)
  have c2 : decide ((n : Int) < 3072) = decide (n < 3072) := decide_eq_decide.2 (by omega)
  rw [c1, c2]
  match d, hd with
  | [v], _ =>
    by_cases h1 : n < 2048 <;> by_cases h2 : n < 3072 <;> cases upd <;>
      simp [*, Py.padTo, Py.getItem, Py.setItem, Py.setAt?, Py.delItem, Py.insert, Py.normIdx, Gex.replaceFails, Gex.addWarn, Gex.addInfo, Gex.addTo] <;> grind
  | [v, f], _ =>
    by_cases h1 : n < 2048 <;> by_cases h2 : n < 3072 <;> cases upd <;>
      simp [*, Py.padTo, Py.getItem, Py.setItem, Py.setAt?, Py.delItem, Py.insert, Py.normIdx, Gex.replaceFails, Gex.addWarn, Gex.addInfo, Gex.addTo] <;> grind
  | [v, f, w], _ =>
    by_cases hw : some tw ∈ w <;>
    by_cases h1 : n < 2048 <;> by_cases h2 : n < 3072 <;> cases upd <;>
      simp [*, Py.padTo, Py.getItem, Py.setItem, Py.setAt?, Py.delItem, Py.insert, Py.normIdx, Gex.replaceFails, Gex.addWarn, Gex.addInfo, Gex.addTo] <;> grind
  | v :: f :: w :: i :: rest, _ =>
    have e : (Int.ofNat (v :: f :: w :: i :: rest).length == 1) = false := by
      simp only [List.length_cons, beq_eq_false_iff_ne, ne_eq, Int.ofNat_eq_natCast]
      omega
    simp only [e]
    by_cases hw : some tw ∈ w <;> by_cases hi : some tf ∈ i <;>
    by_cases h1 : n < 2048 <;> by_cases h2 : n < 3072 <;> cases upd <;>
      simp [*, Py.padTo, Py.getItem, Py.setItem, Py.setAt?, Py.delItem, Py.insert, Py.normIdx, Gex.replaceFails, Gex.addWarn, Gex.addInfo, Gex.addTo] <;> grind

/-! ### policy.py `Policy.evaluate` (C06): the list checks, with `self._append_error` as the external call -/

/-- `self._append_error(field, required, optional, actual)` on the model's error list -/
def appendErr (st : List Pol.PErr) (f : Str) (req : List Str) (opt : Option (List Str)) (act : List Str) : List Pol.PErr :=
  st ++ [{ field := f, expectedRequired := req, expectedOptional := opt.getD [[]], actual := act }]

/-- `for x in actual: if x not in pol: ret = False; <record the error>; break` — the first name outside the policy's list ends the loop -/
theorem foldl_first_bad {σ : Type} (pol actual : List Str) (ret : Bool) (st : σ) (g : σ → σ) :
    List.foldl (fun (acc : Bool × Bool × σ) (x : Str) =>
        if acc.1 then acc else if (!(pol.contains x)) then (true, false, g acc.2.2) else (false, acc.2.1, acc.2.2)) (false, ret, st) actual
      = if actual.any (fun x => !pol.contains x) then (true, false, g st) else (false, ret, st) := by
  induction actual with
  | nil => rfl
  | cons a as ih =>
    simp only [List.foldl_cons, List.any_cons]
    by_cases h : pol.contains a
    · simp only [h, Bool.not_true, Bool.false_eq_true, if_false, Bool.false_or]
      exact ih
    · have hdone : ∀ l : List Str, List.foldl (fun (acc : Bool × Bool × σ) (x : Str) =>
          if acc.1 then acc else if (!(pol.contains x)) then (true, false, g acc.2.2) else (false, acc.2.1, acc.2.2)) (true, false, g st) l
            = (true, false, g st) := by
        intro l
        induction l with
        | nil => rfl
        | cons b bs ihb => simp only [List.foldl_cons, if_true]; exact ihb
      have h' : pol.contains a = false := by simpa using h
      simp only [h', Bool.not_false, if_true, Bool.true_or, Bool.false_eq_true, if_false]
      exact hdone as

theorem kexField_lit : Pol.s "Key exchanges" = ['K', 'e', 'y', ' ', 'e', 'x', 'c', 'h', 'a', 'n', 'g', 'e', 's'] := by decide
theorem ciphersField_lit : Pol.s "Ciphers" = ['C', 'i', 'p', 'h', 'e', 'r', 's'] := by decide
theorem macsField_lit : Pol.s "MACs" = ['M', 'A', 'C', 's'] := by decide
theorem strictS_lit : Pol.strictS = ['k', 'e', 'x', '-', 's', 't', 'r', 'i', 'c', 't', '-', 's', '-', 'v', '0', '0', '@', 'o', 'p', 'e', 'n', 's', 's', 'h', '.', 'c', 'o', 'm'] := by decide
theorem strictC_lit : Pol.strictC = ['k', 'e', 'x', '-', 's', 't', 'r', 'i', 'c', 't', '-', 'c', '-', 'v', '0', '0', '@', 'o', 'p', 'e', 'n', 's', 's', 'h', '.', 'c', 'o', 'm'] := by decide

/-- the cipher check of `Policy.evaluate`, as read from the source, is `Pol.stCiphers` -/
theorem policy_check_ciphers_eq_model (p : Pol.Policy) (peer : Pol.Peer) (st : Pol.St) :
    Gen.Logic.policy_check_ciphers appendErr st.2 st.1 p.ciphers p.allowSubset peer.enc =
      (some (Pol.stCiphers p peer st).1, (Pol.stCiphers p peer st).2) := by
  simp only [Gen.Logic.policy_check_ciphers, Pol.stCiphers, ← ciphersField_lit]
  cases p.ciphers with
  | none => rfl
  | some c =>
    cases hs : p.allowSubset with
    | false => simp [Pol.stepIf, Pol.listBad, Pol.failWith, appendErr]
    | true =>
      simp only [if_true]
      rw [foldl_congr_fun _ (fun (acc : Bool × Bool × List Pol.PErr) (x : Str) =>
        if acc.1 then acc else if (!(c.contains x)) then (true, false, (fun e => appendErr e (Pol.s "Ciphers") c none peer.enc) acc.2.2) else (false, acc.2.1, acc.2.2))
        (by intro acc b; rfl)]
      rw [foldl_first_bad c peer.enc st.1 st.2 (fun e => appendErr e (Pol.s "Ciphers") c none peer.enc)]
      simp only [Pol.stepIf, Pol.listBad, Pol.failWith, appendErr, if_true]
      split <;> simp_all

/-- the MAC check is `Pol.stMacs` -/
theorem policy_check_macs_eq_model (p : Pol.Policy) (peer : Pol.Peer) (st : Pol.St) :
    Gen.Logic.policy_check_macs appendErr st.2 st.1 p.macs p.allowSubset peer.mac =
      (some (Pol.stMacs p peer st).1, (Pol.stMacs p peer st).2) := by
  simp only [Gen.Logic.policy_check_macs, Pol.stMacs, ← macsField_lit]
  cases p.macs with
  | none => rfl
  | some c =>
    cases hs : p.allowSubset with
    | false => simp [Pol.stepIf, Pol.listBad, Pol.failWith, appendErr]
    | true =>
      simp only [if_true]
      rw [foldl_congr_fun _ (fun (acc : Bool × Bool × List Pol.PErr) (x : Str) =>
        if acc.1 then acc else if (!(c.contains x)) then (true, false, (fun e => appendErr e (Pol.s "MACs") c none peer.mac) acc.2.2) else (false, acc.2.1, acc.2.2))
        (by intro acc b; rfl)]
      rw [foldl_first_bad c peer.mac st.1 st.2 (fun e => appendErr e (Pol.s "MACs") c none peer.mac)]
      simp only [Pol.stepIf, Pol.listBad, Pol.failWith, appendErr, if_true]
      split <;> simp_all

/-- the key-exchange check — subset mode with the strict-key-exchange markers staying mandatory, exact mode otherwise — is `Pol.stKex` -/
theorem policy_check_kex_eq_model (p : Pol.Policy) (peer : Pol.Peer) (st : Pol.St) :
    Gen.Logic.policy_check_kex appendErr st.2 st.1 p.kex p.allowSubset peer.kex =
      (some (Pol.stKex p peer st).1, (Pol.stKex p peer st).2) := by
  simp only [Gen.Logic.policy_check_kex, Pol.stKex, ← kexField_lit, ← strictS_lit, ← strictC_lit]
  cases p.kex with
  | none => rfl
  | some c =>
    cases hs : p.allowSubset with
    | false => simp [Pol.stepIf, Pol.listBad, Pol.failWith, appendErr]
    | true =>
      simp only [if_true]
      rw [foldl_congr_fun _ (fun (acc : Bool × Bool × List Pol.PErr) (x : Str) =>
        if acc.1 then acc else if (!(c.contains x)) then (true, false, (fun e => appendErr e (Pol.s "Key exchanges") c none peer.kex) acc.2.2) else (false, acc.2.1, acc.2.2))
        (by intro acc b; rfl)]
      rw [foldl_first_bad c peer.kex st.1 st.2 (fun e => appendErr e (Pol.s "Key exchanges") c none peer.kex)]
      simp only [Pol.stepIf, Pol.listBad, Pol.markerBad, Pol.failWith, appendErr, if_true, Bool.true_and]
      split <;> split <;> simp_all

theorem hostKeysField_lit : Pol.s "Host keys" = ['H', 'o', 's', 't', ' ', 'k', 'e', 'y', 's'] := by decide
theorem compField_lit : Pol.s "Compression" = ['C', 'o', 'm', 'p', 'r', 'e', 's', 's', 'i', 'o', 'n'] := by decide

/-- the compression check is `Pol.stComp` -/
theorem policy_check_compression_eq_model (p : Pol.Policy) (peer : Pol.Peer) (st : Pol.St) :
    Gen.Logic.policy_check_compression appendErr st.2 st.1 p.compressions peer.comp =
      (some (Pol.stComp p peer st).1, (Pol.stComp p peer st).2) := by
  simp only [Gen.Logic.policy_check_compression, Pol.stComp, ← compField_lit]
  cases p.compressions with
  | none => rfl
  | some c => simp [Pol.stepIf, Pol.failWith, appendErr]

/-- the host-key check — the policy's optional host keys removed from the peer's list before an exact comparison, the whole list in
    subset mode — is `Pol.stHostKeys` -/
theorem policy_check_hostkeys_eq_model (p : Pol.Policy) (peer : Pol.Peer) (st : Pol.St) :
    Gen.Logic.policy_check_hostkeys appendErr st.2 st.1 p.hostKeys p.optionalHostKeys p.allowSubset peer.key =
      (some (Pol.stHostKeys p peer st).1, (Pol.stHostKeys p peer st).2) := by
  simp only [Gen.Logic.policy_check_hostkeys, Pol.stHostKeys, ← hostKeysField_lit]
  cases hk : p.hostKeys with
  | none => rfl
  | some c =>
    cases hs : p.allowSubset with
    | false =>
      cases ho : p.optionalHostKeys <;> simp [Pol.stepIf, Pol.listBad, Pol.failWith, Pol.prunedKeys, appendErr, ho] <;> split <;> simp_all
    | true =>
      simp only [if_true]
      rw [foldl_congr_fun _ (fun (acc : Bool × Bool × List Pol.PErr) (x : Str) =>
        if acc.1 then acc else if (!(c.contains x)) then (true, false, (fun e => appendErr e (Pol.s "Host keys") c p.optionalHostKeys peer.key) acc.2.2) else (false, acc.2.1, acc.2.2))
        (by intro acc b; rfl)]
      rw [foldl_first_bad c peer.key st.1 st.2 (fun e => appendErr e (Pol.s "Host keys") c p.optionalHostKeys peer.key)]
      simp only [Pol.stepIf, Pol.listBad, Pol.failWith, appendErr, if_true]
      split <;> simp_all

end SshAudit.GenLogic
