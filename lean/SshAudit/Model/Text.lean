/-
  Python-style text primitives on `List Char`.  Import-free.
-/
import SshAudit.Model.Types
namespace SshAudit
namespace Text

/-- Python `s.split(c)` for a one-character separator: always at least one piece. -/
def splitOn (c : Char) : Str → List Str
  | [] => [[]]
  | x :: xs =>
    if x = c then [] :: splitOn c xs
    else match splitOn c xs with
      | [] => [[x]]            -- unreachable (splitOn never returns []), kept total
      | p :: ps => (x :: p) :: ps

/-- Python `sep.join(parts)`. -/
def join (sep : Str) : List Str → Str
  | [] => []
  | [p] => p
  | p :: ps => p ++ sep ++ join sep ps

/-- ASCII whitespace as recognised by `str.strip()` / `\s` on ASCII input. -/
def isSpace (c : Char) : Bool :=
  c = ' ' || c = '\t' || c = '\n' || c = '\r' || c = '\x0b' || c = '\x0c'

def lstrip (s : Str) : Str := s.dropWhile isSpace
def rstrip (s : Str) : Str := (s.reverse.dropWhile isSpace).reverse
/-- Python `s.strip()` (ASCII). -/
def strip (s : Str) : Str := rstrip (lstrip s)

/-- `str.isspace()` per character for arbitrary Unicode text: what `str.strip()` removes (ASCII white space, the separators
    U+001C–U+001F, NEL, NBSP and the Unicode space separators) -/
def isUSpace (c : Char) : Bool :=
  let n := c.toNat
  (0x09 ≤ n && n ≤ 0x0d) || (0x1c ≤ n && n ≤ 0x20) || n == 0x85 || n == 0xa0 || n == 0x1680
    || (0x2000 ≤ n && n ≤ 0x200a) || n == 0x2028 || n == 0x2029 || n == 0x202f || n == 0x205f || n == 0x3000
/-- Python `s.strip()` on arbitrary text. -/
def stripU (s : Str) : Str := ((s.dropWhile isUSpace).reverse.dropWhile isUSpace).reverse

/-- Python `sub in s`. -/
def hasSub (sub : Str) : Str → Bool
  | [] => sub.isEmpty
  | x :: xs => sub.isPrefixOf (x :: xs) || hasSub sub xs

/-- Python `s.startswith(p)` / `s.endswith(p)`. -/
def startsWith (s p : Str) : Bool := p.isPrefixOf s
def endsWith (s p : Str) : Bool := p.reverse.isPrefixOf s.reverse

/-- ASCII `str.lower()`. -/
def lowerChar (c : Char) : Char := if 'A' ≤ c ∧ c ≤ 'Z' then Char.ofNat (c.toNat + 32) else c
def lower (s : Str) : Str := s.map lowerChar

/-- Index of the last occurrence of `c` (Python `s.rindex(c)`), `none` if absent. -/
def rindex (c : Char) (s : Str) : Option Nat :=
  match (s.reverse.findIdx? (· = c)) with
  | none => none
  | some i => some (s.length - 1 - i)

def isDigit (c : Char) : Bool := '0' ≤ c && c ≤ '9'

/-- Decimal rendering (Python `str(n)` / `'%d' % n` for naturals). -/
def natToStr (n : Nat) : Str := (Nat.repr n).toList

/-- Python `int(s)` on a non-empty all-digit string (other shapes: `none`). -/
def parseNat? (s : Str) : Option Nat :=
  if s.isEmpty || !s.all isDigit then none
  else some (s.foldl (fun acc c => acc * 10 + (c.toNat - '0'.toNat)) 0)

/-- Lexicographic code-point order: Python `a < b` on `str`. -/
def ltStr : Str → Str → Bool
  | [], [] => false
  | [], _ :: _ => true
  | _ :: _, [] => false
  | a :: as, b :: bs => if a < b then true else if b < a then false else ltStr as bs

end Text
end SshAudit
