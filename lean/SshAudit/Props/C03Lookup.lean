/-
  C03 extension — the `--lookup` view (`algorithm_lookup`, and how `main()` reaches it).

  Every theorem is for every rating database, every requested argument / list of names, every output option set and every
  iteration order `o` of the Python sets (`o.ok`: a permutation) unless it says otherwise.

  (a) `sections_categories`, `section_content`, `printed_iff`, `in_every_category`, `printed_once`, `line_shape`
  (b) `notes_are_algTexts`, `notes_eq_audit`, `notes_eq_audit_unmeasured`, `notes_request_free`, `unknown_line_only_gss`, `known_in_audit`;
      and conversely (after the D38 repair, gss instances included): `audit_known_is_found`, `audit_known_iff_lookup_known`, `audit_known_iff_found`, `gss_instance_line`
  (c) `not_found_iff`, `not_found_list`, `unknown_never_printed`, `known_never_listed`, `requested_accounted`, `unknown_flagged_fail`
  (d) `similar_iff`, `similar_rule`, `similar_only_unknown`, `similar_text`, `similar_implies_not_found`
  (e) `status_values`, `status_is_fold`, `status_three_iff`, `status_two_iff`, `status_zero_iff`, `status_unknown`, `status_order_free`
  (f) `requested_join`, `requested_nonempty`, `empty_item_unknown`, `empty_item_suggests_all`, `case_variant_unknown_suggested`, `repeats_kept`,
      `found_depends_on_set`
  text and `main()`: `entries_eq_closed`, `run_ok_iff`, `json_flag_ignored`, `main_dispatch`, `main_stdout`, `main_ignores_batch_level`
  the regenerated SSH-2 database (kernel-evaluated): `gen_*`
-/
import SshAudit.Lemmas.Lookup
import SshAudit.Props.C03
import SshAudit.Gen.KexDB
namespace SshAudit.C03Lookup
open SshAudit.Report SshAudit.Lookup
open Output (Cfg Op Item Sec Meth Buf)

/-- the four categories `--lookup` prints, in its order -/
def fourCats : List Str := [kexC, keyC, macC, encC]

/-- the database knows the name: it is a key of one of its categories, or a `gss-<method>-<suffix>` name whose `gss-<method>-*` form is a key
    exchange key (`Lookup.covers`: the audit's own rule) -/
def known (db : DB) (n : Str) : Prop := ∃ c, covers db c n

/-- every note `--lookup` prints -/
def printedNotes (o : SetOrder) (db : DB) (names : List Str) : List Note :=
  (sections o db names).flatMap (fun sc => sc.lines.flatMap (·.notes))

/-! ### (a) sections: a name is printed under category c iff it is a requested key of c -/

/-- the sections are those of the four categories (in the order kex, key, mac, enc) whose set is not empty: none merged, dropped, invented or repeated -/
theorem sections_categories (o : SetOrder) (db : DB) (names : List Str) :
    (sections o db names).map (·.cat) = fourCats.filter (fun c => !(found db names c).isEmpty) := by
  unfold sections
  have h := filterMap_fst algTypes (fun c => !(found db names c).isEmpty)
    (fun ct => ({ cat := ct.1, title := s "# " ++ ct.2, lines := sectionLines o db names ct.1 } : Section)) (·.cat) (fun _ => rfl)
  have e : ∀ ct : Str × Str, (if (found db names ct.1).length > 0 then some ({ cat := ct.1, title := s "# " ++ ct.2, lines := sectionLines o db names ct.1 } : Section) else none)
      = (if (!(found db names ct.1).isEmpty) = true then some ({ cat := ct.1, title := s "# " ++ ct.2, lines := sectionLines o db names ct.1 } : Section) else none) := by
    intro ct
    cases found db names ct.1 <;> simp
  simp only [e]
  exact h

/-- a section carries its category's title and exactly the lines of that category's set -/
theorem section_content (o : SetOrder) (db : DB) (names : List Str) (sc : Section) (h : sc ∈ sections o db names) :
    ∃ t, (sc.cat, t) ∈ algTypes ∧ sc.title = s "# " ++ t ∧ sc.lines = sectionLines o db names sc.cat ∧ found db names sc.cat ≠ [] := by
  obtain ⟨t, h1, h2, h3, h4⟩ := (mem_sections o db names sc).mp h
  exact ⟨t, h1, h3, h4, h2⟩

/-- **a line for `n` is printed under category `c` iff `n` was requested (as an item, verbatim) and is a key of `c`** — for `kex` also a gss name
    covered by a wildcard key — (and not blank) -/
theorem printed_iff (o : SetOrder) (ho : o.ok) (db : DB) (names : List Str) (c n : Str) :
    (∃ l ∈ sectionLines o db names c, l.name = n) ↔ n ∈ names ∧ covers db c n ∧ printed c n = true := by
  constructor
  · rintro ⟨l, hl, rfl⟩
    obtain ⟨h1, h2, h3, _, _⟩ := (mem_sectionLines o ho db names c l).mp hl
    refine ⟨h1, h2, ?_⟩
    rw [← algTexts_isSome db c l.name, h3]; rfl
  · rintro ⟨h1, h2, h3⟩
    have hs : (algTexts db c n).isSome = true := by rw [algTexts_isSome]; exact h3
    obtain ⟨⟨ts, unk⟩, ht⟩ := Option.isSome_iff_exists.mp hs
    exact ⟨{ cat := c, name := n, shown := n, notes := ts, unknown := unk }, (mem_sectionLines o ho db names c _).mpr ⟨h1, h2, ht, rfl, rfl⟩, rfl⟩

/-- a requested name that is a key of one of the four categories has a line in *that* category's section — so a name that is a key
    of two categories (`none`, `aes128-gcm`, …) appears in both -/
theorem in_every_category (o : SetOrder) (ho : o.ok) (db : DB) (names : List Str) (c n : Str)
    (hc : c ∈ fourCats) (hn : n ∈ names) (hk : covers db c n) (hp : printed c n = true) :
    ∃ sc ∈ sections o db names, sc.cat = c ∧ ∃ l ∈ sc.lines, l.name = n ∧ l.cat = c := by
  have hf : found db names c ≠ [] := by
    intro h0
    have := (mem_found db names c n).mpr ⟨hn, hk⟩
    rw [h0] at this; cases this
  have ht : ∃ t, (c, t) ∈ algTypes := by
    simp only [fourCats, List.mem_cons, List.not_mem_nil, or_false] at hc
    rcases hc with rfl | rfl | rfl | rfl
    · exact ⟨_, List.mem_cons_self⟩
    · exact ⟨_, List.mem_cons_of_mem _ List.mem_cons_self⟩
    · exact ⟨_, List.mem_cons_of_mem _ (List.mem_cons_of_mem _ List.mem_cons_self)⟩
    · exact ⟨_, List.mem_cons_of_mem _ (List.mem_cons_of_mem _ (List.mem_cons_of_mem _ List.mem_cons_self))⟩
  obtain ⟨t, ht⟩ := ht
  obtain ⟨l, hl, hln⟩ := (printed_iff o ho db names c n).mpr ⟨hn, hk, hp⟩
  refine ⟨{ cat := c, title := s "# " ++ t, lines := sectionLines o db names c }, (mem_sections o db names _).mpr ⟨t, ht, hf, rfl, rfl⟩, rfl, l, hl, hln, ?_⟩
  exact ((mem_sectionLines o ho db names c l).mp hl).2.2.2.1

/-- however often a name is requested, it is printed once per category (the database keys being distinct, as in a Python dict) -/
theorem printed_once (o : SetOrder) (ho : o.ok) (db : DB) (names : List Str) (c : Str) (hd : (DBm.keys db c).Nodup) :
    ((sectionLines o db names c).map (·.name)).Nodup := by
  unfold sectionLines
  rw [algLines_names]
  apply List.Nodup.sublist List.filter_sublist
  rw [(ho c _).nodup_iff]
  unfold found
  rw [List.nodup_append]
  refine ⟨List.Nodup.sublist List.filter_sublist hd, ?_, ?_⟩
  · split
    · unfold gssExtra; exact nodup_dedup _
    · exact List.nodup_nil
  · intro a ha b hb
    split at hb
    · next hc =>
      subst hc
      rintro rfl
      exact ((mem_gssExtra db names a).mp hb).2.2 (List.mem_filter.mp ha).1
    · cases hb

/-- a lookup line carries its section's category and the bare name (no size suffix) -/
theorem line_shape (o : SetOrder) (db : DB) (names : List Str) (c : Str) (l : AlgLine) (h : l ∈ sectionLines o db names c) :
    l.cat = c ∧ l.shown = l.name := (sectionLines_line o db names c l h).2

/-! ### (b) the notes are the audit's notes -/

/-- the notes and the unknown flag of a lookup line are `algTexts db c name` — the function the audit report uses -/
theorem notes_are_algTexts (o : SetOrder) (db : DB) (names : List Str) (c : Str) (l : AlgLine) (h : l ∈ sectionLines o db names c) :
    algTexts db c l.name = some (l.notes, l.unknown) := (sectionLines_line o db names c l h).1

/-- **lookup = audit**: wherever the same name is advertised in an audit (any position, any neighbours, any measured sizes), the audit's line
    has the notes and levels of the lookup line; only the shown name may carry a size -/
theorem notes_eq_audit (o : SetOrder) (db : DB) (names : List Str) (c : Str) (l : AlgLine) (h : l ∈ sectionLines o db names c)
    (rf : List Str) (xs ys : List Str) (hk : List (Str × HostKeyInfo)) (dh : List (Str × Nat)) :
    algLines rf db c (xs ++ l.name :: ys) hk dh =
      algLines rf db c xs hk dh ++ [{ l with shown := shownName rf c l.name hk dh }] ++ algLines rf db c ys hk dh := by
  obtain ⟨ht, hc, _⟩ := sectionLines_line o db names c l h
  rw [algLines_append, algLines_cons, algLines_single, ht, List.append_assoc]
  cases l
  simp_all

/-- with no measured attributes the audit's line *is* the lookup line -/
theorem notes_eq_audit_unmeasured (o : SetOrder) (db : DB) (names : List Str) (c : Str) (l : AlgLine) (h : l ∈ sectionLines o db names c)
    (rf : List Str) (xs ys : List Str) :
    algLines rf db c (xs ++ l.name :: ys) [] [] = algLines rf db c xs [] [] ++ [l] ++ algLines rf db c ys [] [] := by
  rw [notes_eq_audit o db names c l h, shownName_unmeasured]
  have := (sectionLines_line o db names c l h).2.2
  cases l
  simp_all

/-- the line of a name does not depend on the request: not on its position, not on the other names, not on repeats, not on the set order -/
theorem notes_request_free (o₁ o₂ : SetOrder) (db : DB) (names₁ names₂ : List Str) (c : Str) (l₁ l₂ : AlgLine)
    (h₁ : l₁ ∈ sectionLines o₁ db names₁ c) (h₂ : l₂ ∈ sectionLines o₂ db names₂ c) (hn : l₁.name = l₂.name) : l₁ = l₂ := by
  obtain ⟨a1, a2, a3⟩ := sectionLines_line o₁ db names₁ c l₁ h₁
  obtain ⟨b1, b2, b3⟩ := sectionLines_line o₂ db names₂ c l₂ h₂
  rw [hn, b1] at a1
  cases l₁; cases l₂
  simp_all

/-- a lookup line says "unknown algorithm" only for a literal key that the kex gss rewriting maps away from the keys (a `gss-…` key not in wildcard form) -/
theorem unknown_line_only_gss (o : SetOrder) (ho : o.ok) (db : DB) (names : List Str) (c : Str) (l : AlgLine) (h : l ∈ sectionLines o db names c)
    (hu : l.unknown = true) : l.name ∈ DBm.keys db c ∧ gssNormalize c l.name ≠ l.name := by
  obtain ⟨_, hk, ht, _, _⟩ := (mem_sectionLines o ho db names c l).mp h
  have key : ¬ (gssNormalize c l.name = l.name ∨ l.name ∉ DBm.keys db c) := by
    intro hg
    obtain ⟨e, he⟩ := covers_lookup db c l.name hk hg
    unfold algTexts at ht
    simp only [he] at ht
    split at ht
    · cases ht
    · have h2 := congrArg Prod.snd (Option.some.inj ht)
      simp only at h2
      rw [← h2] at hu; cases hu
  constructor
  · apply Classical.byContradiction; intro hn; exact key (Or.inr hn)
  · intro hg; exact key (Or.inl hg)

/-- otherwise it shows the texts of the entry the audit rates the name from (the name's own entry, or the wildcard entry of a gss name) -/
theorem known_in_audit (o : SetOrder) (ho : o.ok) (db : DB) (names : List Str) (c : Str) (l : AlgLine) (h : l ∈ sectionLines o db names c)
    (hg : gssNormalize c l.name = l.name ∨ l.name ∉ DBm.keys db c) :
    l.unknown = false ∧ ∃ e, DBm.lookup db c (gssNormalize c l.name) = some e ∧ l.notes = entryTexts e := by
  obtain ⟨_, hk, ht, _, _⟩ := (mem_sectionLines o ho db names c l).mp h
  obtain ⟨e, he⟩ := covers_lookup db c l.name hk hg
  unfold algTexts at ht
  simp only [he] at ht
  split at ht
  · cases ht
  · have h1 := congrArg Prod.fst (Option.some.inj ht)
    have h2 := congrArg Prod.snd (Option.some.inj ht)
    simp only at h1 h2
    exact ⟨h2.symm, e, he, h1.symm⟩

/-- whatever name the audit rates from a database entry, `--lookup` finds -/
def AuditKnownIsFound (db : DB) : Prop := ∀ c n ts names, algTexts db c n = some (ts, false) → n ∉ notFound db names

def gssInstance : Str := s "gss-group14-sha256-toWM5Slw5Ew8Mqkay+al2g=="

/-- a name the audit rates from an entry of category `c` is covered by `c` in `--lookup` -/
theorem audit_known_covers (db : DB) (c n : Str) (ts : List Note) (h : algTexts db c n = some (ts, false)) : covers db c n ∧ printed c n = true := by
  have hp : printed c n = true := by rw [← algTexts_isSome db c n, h]; rfl
  refine ⟨?_, hp⟩
  unfold algTexts at h
  simp only at h
  split at h
  · cases h
  · cases hl : DBm.lookup db c (gssNormalize c n) with
    | none => rw [hl] at h; cases h
    | some e =>
      have hk := mem_keys_of_lookup db c _ e hl
      by_cases hg : gssNormalize c n = n
      · rw [hg] at hk; exact Or.inl hk
      · right
        unfold gssNormalize at hg hk
        split at hg
        · next hc =>
          obtain ⟨rfl, hs⟩ := hc
          refine ⟨rfl, ?_⟩
          unfold gssKnown gssNormalize
          simp only [hs, and_self, if_true, Bool.true_and, List.contains_iff_mem]
          simpa [hs] using hk
        · exact absurd rfl hg

/-- **for every database: a name the audit rates from a database entry — a `gss-<method>-<base64>` instance included — is never listed as not found** (D38, repaired) -/
theorem audit_known_is_found (db : DB) : AuditKnownIsFound db := by
  intro c n ts names h hnf
  obtain ⟨hc, _⟩ := audit_known_covers db c n ts h
  unfold notFound at hnf
  simp only [List.mem_filter, Bool.not_eq_true', contains_false_iff] at hnf
  apply hnf.2
  unfold flattened
  exact List.mem_flatMap.mpr ⟨c, covers_mem_cats db c n hc, (mem_found db names c n).mpr ⟨hnf.1, hc⟩⟩

/-- **known to the audit ⇔ known to `--lookup`, with the same notes**: for each of the four categories and every requested name, the audit model rates the
    name from a database entry with notes `ts` iff `--lookup` prints a (not "unknown") line for it in that category's section with exactly the notes `ts` -/
theorem audit_known_iff_lookup_known (o : SetOrder) (ho : o.ok) (db : DB) (names : List Str) (c n : Str) (ts : List Note) (hc : c ∈ fourCats) (hn : n ∈ names) :
    algTexts db c n = some (ts, false) ↔
      ∃ sc ∈ sections o db names, sc.cat = c ∧ ∃ l ∈ sc.lines, l.name = n ∧ l.notes = ts ∧ l.unknown = false := by
  constructor
  · intro h
    obtain ⟨hcov, hp⟩ := audit_known_covers db c n ts h
    obtain ⟨sc, hsc, hcat, l, hl, hln, _⟩ := in_every_category o ho db names c n hc hn hcov hp
    refine ⟨sc, hsc, hcat, l, hl, hln, ?_⟩
    obtain ⟨_, _, _, _, hlines⟩ := (mem_sections o db names sc).mp hsc
    rw [hlines, hcat] at hl
    have ht := notes_are_algTexts o db names c l hl
    rw [hln, h] at ht
    have h1 := congrArg Prod.fst (Option.some.inj ht)
    have h2 := congrArg Prod.snd (Option.some.inj ht)
    simp only at h1 h2
    exact ⟨h1.symm, h2.symm⟩
  · rintro ⟨sc, hsc, hcat, l, hl, hln, hnotes, hunk⟩
    obtain ⟨_, _, _, _, hlines⟩ := (mem_sections o db names sc).mp hsc
    rw [hlines, hcat] at hl
    have ht := notes_are_algTexts o db names c l hl
    rw [hln, hnotes, hunk] at ht
    exact ht

/-- for a database whose keys are their own normal form and not blank (the regenerated one: `gen_keys_normal`, `gen_no_blank_keys`) the not-found list
    is exactly the requested names the audit rates in no category -/
theorem audit_known_iff_found (db : DB) (hN : ∀ c k, k ∈ DBm.keys db c → gssNormalize c k = k) (hB : ∀ c k, k ∈ DBm.keys db c → printed c k = true)
    (names : List Str) (n : Str) (hn : n ∈ names) :
    n ∉ notFound db names ↔ ∃ c ts, algTexts db c n = some (ts, false) := by
  constructor
  · intro hnf
    have hfl : n ∈ flattened db names := by
      apply Classical.byContradiction
      intro h
      apply hnf
      unfold notFound
      simp only [List.mem_filter, Bool.not_eq_true', contains_false_iff]
      exact ⟨hn, h⟩
    unfold flattened at hfl
    obtain ⟨c, _, hf⟩ := List.mem_flatMap.mp hfl
    obtain ⟨_, hcov⟩ := (mem_found db names c n).mp hf
    rcases hcov with hk | ⟨rfl, hg⟩
    · obtain ⟨e, he⟩ := lookup_isSome_of_mem_keys db c n hk
      have hp := hB c n hk
      refine ⟨c, entryTexts e, ?_⟩
      unfold algTexts
      unfold printed at hp
      simp only [hN c n hk] at hp ⊢
      have : (Text.stripU n).isEmpty = false := by simpa using hp
      rw [this, he]; rfl
    · obtain ⟨_, e, he⟩ := gssKnown_lookup db n hg
      have hk := mem_keys_of_lookup db kexC _ e he
      have hp := hB kexC _ hk
      refine ⟨kexC, entryTexts e, ?_⟩
      unfold algTexts
      unfold printed at hp
      simp only [hN kexC _ hk] at hp
      simp only
      have : (Text.stripU (gssNormalize kexC n)).isEmpty = false := by simpa using hp
      rw [this, he]; rfl
  · rintro ⟨c, ts, h⟩
    exact audit_known_is_found db c n ts names h

/-- a gss instance is shown with the notes of its wildcard entry: for every method and every suffix without `-` (any length; `/`, `+`, `=` allowed),
    the line `--lookup` prints for `gss-<method>-<suffix>` carries `algTexts` of `gss-<method>-*` -/
theorem gss_instance_line (o : SetOrder) (db : DB) (names : List Str) (p sfx : Str) (hs : '-' ∉ sfx) (l : AlgLine)
    (h : l ∈ sectionLines o db names kexC) (hn : l.name = s "gss-" ++ p ++ '-' :: sfx) :
    algTexts db kexC (s "gss-" ++ p ++ s "-*") = some (l.notes, l.unknown) := by
  rw [← C03.gss_wildcard db p sfx hs, ← hn]
  exact notes_are_algTexts o db names kexC l h

/-! ### (c) unknown names -/

/-- **the names listed as not found are exactly the requested names the database does not know** -/
theorem not_found_iff (db : DB) (names : List Str) (n : Str) : n ∈ notFound db names ↔ n ∈ names ∧ ¬ known db n := by
  unfold notFound known flattened
  simp only [List.mem_filter, Bool.not_eq_true', contains_false_iff, List.mem_flatMap, mem_found]
  constructor
  · rintro ⟨h1, h2⟩
    exact ⟨h1, fun ⟨c, hk⟩ => h2 ⟨c, covers_mem_cats db c n hk, h1, hk⟩⟩
  · rintro ⟨h1, h2⟩
    exact ⟨h1, fun ⟨c, _, _, hk⟩ => h2 ⟨c, hk⟩⟩

/-- … in the order of the request, repeats included -/
theorem not_found_list (db : DB) (names : List Str) :
    notFound db names = names.filter (fun n => !((cats db).any (fun c => (DBm.keys db c).contains n) || gssKnown db n)) := by
  unfold notFound
  apply List.filter_congr
  intro n hn
  congr 1
  rw [Bool.eq_iff_iff]
  simp only [List.contains_iff_mem, flattened, List.mem_flatMap, mem_found, List.any_eq_true, Bool.or_eq_true]
  constructor
  · rintro ⟨c, hc, _, hk | ⟨_, hg⟩⟩
    · exact Or.inl ⟨c, hc, hk⟩
    · exact Or.inr hg
  · rintro (⟨c, hc, hk⟩ | hg)
    · exact ⟨c, hc, hn, Or.inl hk⟩
    · exact ⟨kexC, covers_mem_cats db kexC n (Or.inr ⟨rfl, hg⟩), hn, Or.inr ⟨rfl, hg⟩⟩

/-- a name the database does not know never gets an algorithm line, in any category -/
theorem unknown_never_printed (o : SetOrder) (ho : o.ok) (db : DB) (names : List Str) (n : Str) (hu : ¬ known db n)
    (c : Str) (l : AlgLine) (hl : l ∈ sectionLines o db names c) : l.name ≠ n := by
  rintro rfl
  obtain ⟨_, hk, _⟩ := (mem_sectionLines o ho db names c l).mp hl
  exact hu ⟨c, hk⟩

/-- a name the database knows is never listed as not found -/
theorem known_never_listed (db : DB) (names : List Str) (n : Str) (hk : known db n) : n ∉ notFound db names :=
  fun h => ((not_found_iff db names n).mp h).2 hk

/-- every requested name is accounted for: listed as not found, or (for a database with the four categories only, and a non-blank name) printed in a section -/
theorem requested_accounted (o : SetOrder) (ho : o.ok) (db : DB) (names : List Str) (n : Str) (hn : n ∈ names)
    (h4 : ∀ c ∈ cats db, c ∈ fourCats) (hb : ∀ c, printed c n = true) :
    n ∈ notFound db names ∨ ∃ sc ∈ sections o db names, ∃ l ∈ sc.lines, l.name = n := by
  by_cases hk : known db n
  · right
    obtain ⟨c, hkc⟩ := hk
    obtain ⟨sc, hsc, _, l, hl, hln, _⟩ := in_every_category o ho db names c n (h4 c (covers_mem_cats db c n hkc)) hn hkc (hb c)
    exact ⟨sc, hsc, l, hl, hln⟩
  · left; exact (not_found_iff db names n).mpr ⟨hn, hk⟩

/-! ### (d) suggestions -/

/-- **the suggestions are exactly the triples (unknown requested name, category, key of that category) related by the similarity rule** -/
theorem similar_iff (db : DB) (names : List Str) (g : Suggestion) :
    g ∈ similar db names ↔ g.unknown ∈ notFound db names ∧ g.cat ∈ cats db ∧ g.name ∈ DBm.keys db g.cat ∧ similarTo g.unknown g.name = true := by
  unfold similar
  simp only [List.mem_flatMap, List.mem_map, List.mem_filter]
  constructor
  · rintro ⟨u, hu, c, hc, k, ⟨hk, hs⟩, rfl⟩
    exact ⟨hu, hc, hk, hs⟩
  · rintro ⟨hu, hc, hk, hs⟩
    exact ⟨g.unknown, hu, g.cat, hc, g.name, ⟨hk, hs⟩, rfl⟩

/-- the rule: the unknown name, case-folded, occurs as a substring of the case-folded key -/
theorem similar_rule (u k : Str) : similarTo u k = true ↔ ∃ p q, Text.lower k = p ++ Text.lower u ++ q := by
  unfold similarTo casefold
  exact hasSub_iff _ _

/-- suggestions are made for unknown requested names only, and only database names are suggested -/
theorem similar_only_unknown (db : DB) (names : List Str) (g : Suggestion) (h : g ∈ similar db names) :
    g.unknown ∈ names ∧ ¬ known db g.unknown ∧ known db g.name := by
  obtain ⟨h1, h2, h3, _⟩ := (similar_iff db names g).mp h
  obtain ⟨a, b⟩ := (not_found_iff db names g.unknown).mp h1
  exact ⟨a, b, g.cat, Or.inl h3⟩

/-- each is printed with `out.warn` as `unknown --> (category) name` -/
theorem similar_text (cfg : Cfg) (o : SetOrder) (db : DB) (names : List Str) (g : Suggestion) (h : g ∈ similar db names) :
    Op.print .warn (g.unknown ++ s " --> (" ++ g.cat ++ s ") " ++ g.name) true false ∈ ops cfg o db names := by
  unfold ops
  have hne : (similar db names).length > 0 := List.length_pos_iff.mpr (List.ne_nil_of_mem h)
  simp only [hne, if_true]
  apply List.mem_append_right
  apply List.mem_cons_of_mem
  exact List.mem_map.mpr ⟨g, h, rfl⟩

theorem similar_implies_not_found (db : DB) (names : List Str) (h : similar db names ≠ []) : notFound db names ≠ [] := by
  intro h0
  apply h
  unfold similar
  rw [h0]; rfl

/-- every unknown name is printed with `out.fail`, and the return value is FAILURE: never presented as good -/
theorem unknown_flagged_fail (cfg : Cfg) (o : SetOrder) (db : DB) (names : List Str) (n : Str) (h : n ∈ notFound db names) :
    Op.print .fail n true false ∈ ops cfg o db names ∧ status o db names = 3 := by
  have hne : (notFound db names).length > 0 := List.length_pos_iff.mpr (List.ne_nil_of_mem h)
  constructor
  · unfold ops
    simp only [hne, if_true]
    apply List.mem_append_left
    apply List.mem_append_left
    apply List.mem_append_right
    apply List.mem_cons_of_mem
    exact List.mem_map.mpr ⟨n, h, rfl⟩
  · unfold status
    simp only [hne, if_true]
    split <;> rfl

/-! ### (e) the return value -/

theorem statusOfSections_eq (secs : List Section) (st : Nat) :
    secs.foldl (fun st sc => statusOfLines st sc.lines) st = foldStatus st (secs.flatMap (fun sc => sc.lines.flatMap (·.notes))) := by
  induction secs generalizing st with
  | nil => rfl
  | cons sc rest ih =>
    rw [List.foldl_cons, ih, List.flatMap_cons, C02.foldStatus_append, C02.statusOfLines_eq]

/-- the return value: FAILURE as soon as a name was not found, otherwise the audit's status fold over the printed notes -/
theorem status_is_fold (o : SetOrder) (db : DB) (names : List Str) :
    status o db names = if notFound db names ≠ [] then 3 else foldStatus 0 (printedNotes o db names) := by
  unfold status printedNotes statusOfSections
  rw [statusOfSections_eq]
  by_cases hn : notFound db names = []
  · have hs : similar db names = [] := by
      apply Classical.byContradiction
      intro h; exact similar_implies_not_found db names h hn
    simp [hn, hs]
  · have hl : (notFound db names).length > 0 := List.length_pos_iff.mpr hn
    simp only [hl, if_true, hn, ne_eq, not_false_eq_true]
    split <;> rfl

theorem status_values (o : SetOrder) (db : DB) (names : List Str) : status o db names = 0 ∨ status o db names = 2 ∨ status o db names = 3 := by
  rw [status_is_fold]
  split
  · right; right; rfl
  · exact C02.status_range _

theorem status_three_iff (o : SetOrder) (db : DB) (names : List Str) :
    status o db names = 3 ↔ notFound db names ≠ [] ∨ ∃ nt ∈ printedNotes o db names, nt.level = .fail := by
  rw [status_is_fold]
  split
  · next h => simp [h]
  · next h => rw [(C02.status_iff _).1]; simp [h]

theorem status_two_iff (o : SetOrder) (db : DB) (names : List Str) :
    status o db names = 2 ↔ notFound db names = [] ∧ (∀ nt ∈ printedNotes o db names, nt.level ≠ .fail) ∧ ∃ nt ∈ printedNotes o db names, nt.level = .warn := by
  rw [status_is_fold]
  split
  · next h => simp [h]
  · next h =>
    have h' : notFound db names = [] := by simpa using h
    rw [(C02.status_iff _).2.1]; simp [h']

theorem status_zero_iff (o : SetOrder) (db : DB) (names : List Str) :
    status o db names = 0 ↔ notFound db names = [] ∧ ∀ nt ∈ printedNotes o db names, nt.level = .info := by
  rw [status_is_fold]
  split
  · next h => simp [h]
  · next h =>
    have h' : notFound db names = [] := by simpa using h
    rw [(C02.status_iff _).2.2]; simp [h']

/-- one unknown name among the requested ones makes the whole lookup a FAILURE -/
theorem status_unknown (o : SetOrder) (db : DB) (names : List Str) (n : Str) (hn : n ∈ names) (hu : ¬ known db n) : status o db names = 3 :=
  (status_three_iff o db names).mpr (Or.inl (List.ne_nil_of_mem ((not_found_iff db names n).mpr ⟨hn, hu⟩)))

theorem mem_printedNotes (o : SetOrder) (ho : o.ok) (db : DB) (names : List Str) (nt : Note) :
    nt ∈ printedNotes o db names ↔ ∃ c t, (c, t) ∈ algTypes ∧ ∃ k ∈ found db names c, ∃ ts unk, algTexts db c k = some (ts, unk) ∧ nt ∈ ts := by
  unfold printedNotes
  simp only [List.mem_flatMap]
  constructor
  · rintro ⟨sc, hsc, l, hl, hnt⟩
    obtain ⟨t, h1, _, _, h4⟩ := (mem_sections o db names sc).mp hsc
    rw [h4] at hl
    obtain ⟨a, b, c', _, _⟩ := (mem_sectionLines o ho db names sc.cat l).mp hl
    exact ⟨sc.cat, t, h1, l.name, (mem_found db names sc.cat l.name).mpr ⟨a, b⟩, l.notes, l.unknown, c', hnt⟩
  · rintro ⟨c, t, hct, k, hk, ts, unk, ht, hnt⟩
    have hk' := (mem_found db names c k).mp hk
    refine ⟨{ cat := c, title := s "# " ++ t, lines := sectionLines o db names c }, (mem_sections o db names _).mpr ⟨t, hct, List.ne_nil_of_mem hk, rfl, rfl⟩,
      { cat := c, name := k, shown := k, notes := ts, unknown := unk }, (mem_sectionLines o ho db names c _).mpr ⟨hk'.1, hk'.2, ht, rfl, rfl⟩, hnt⟩

/-- the return value does not depend on the order in which the sets are iterated -/
theorem status_order_free (o₁ o₂ : SetOrder) (h₁ : o₁.ok) (h₂ : o₂.ok) (db : DB) (names : List Str) : status o₁ db names = status o₂ db names := by
  rw [status_is_fold, status_is_fold, C02.foldStatus_zero, C02.foldStatus_zero]
  have hm : ∀ nt, nt ∈ printedNotes o₁ db names ↔ nt ∈ printedNotes o₂ db names := by
    intro nt; rw [mem_printedNotes o₁ h₁, mem_printedNotes o₂ h₂]
  rw [any_congr_mem _ _ _ hm, any_congr_mem _ _ _ hm]

/-! ### (f) items are taken verbatim -/

/-- the request is split at commas and nothing else: no stripping, no case folding, empty items and repeats kept, order kept -/
theorem requested_join (names : List Str) (hne : names ≠ []) (hc : ∀ n ∈ names, ',' ∉ n) : requested (Text.join [','] names) = names := by
  unfold requested
  induction names with
  | nil => exact absurd rfl hne
  | cons n rest ih =>
    cases rest with
    | nil => simp only [Text.join]; exact splitOn_no_sep ',' n (hc n List.mem_cons_self)
    | cons m rest' =>
      have : Text.join [','] (n :: m :: rest') = n ++ ',' :: Text.join [','] (m :: rest') := by simp [Text.join]
      rw [this, splitOn_append_sep ',' _ n (hc n List.mem_cons_self), ih (by simp) (fun x hx => hc x (List.mem_cons_of_mem _ hx))]

theorem requested_nonempty (arg : Str) : requested arg ≠ [] := splitOn_ne_nil ',' arg

/-- an empty item (`a,,b`, a trailing comma, `--lookup ,`) is an unknown name … -/
theorem empty_item_unknown (o : SetOrder) (db : DB) (names : List Str) (h : [] ∈ names) (hk : ¬ known db []) :
    [] ∈ notFound db names ∧ status o db names = 3 :=
  ⟨(not_found_iff db names []).mpr ⟨h, hk⟩, status_unknown o db names [] h hk⟩

/-- … for which every name of the database is suggested -/
theorem empty_item_suggests_all (db : DB) (names : List Str) (h : [] ∈ notFound db names) (c k : Str) (hc : c ∈ cats db) (hk : k ∈ DBm.keys db c) :
    { unknown := [], cat := c, name := k } ∈ similar db names :=
  (similar_iff db names _).mpr ⟨h, hc, hk, by simp [similarTo, casefold, Text.lower, hasSub_nil]⟩

/-- matching is exact: a requested name that differs from a key only by case is unknown, and that key is suggested -/
theorem case_variant_unknown_suggested (db : DB) (names : List Str) (u c k : Str) (hu : u ∈ names) (hn : ¬ known db u)
    (hk : k ∈ DBm.keys db c) (hl : Text.lower u = Text.lower k) :
    u ∈ notFound db names ∧ { unknown := u, cat := c, name := k } ∈ similar db names := by
  have h1 := (not_found_iff db names u).mpr ⟨hu, hn⟩
  exact ⟨h1, (similar_iff db names _).mpr ⟨h1, mem_keys_mem_cats db c k hk, hk, by simp [similarTo, casefold, hl, hasSub_self]⟩⟩

/-- an unknown name requested k times is listed k times -/
theorem repeats_kept (db : DB) (names : List Str) (n : Str) (hu : ¬ known db n) : (notFound db names).count n = names.count n := by
  rw [not_found_list]
  apply List.count_filter
  have h1 : (cats db).any (fun c => (DBm.keys db c).contains n) = false := by
    rw [Bool.eq_false_iff]
    intro h
    obtain ⟨c, _, hk⟩ := List.any_eq_true.mp h
    exact hu ⟨c, Or.inl (List.contains_iff_mem.mp hk)⟩
  have h2 : gssKnown db n = false := by
    rw [Bool.eq_false_iff]
    intro h
    exact hu ⟨kexC, Or.inr ⟨rfl, h⟩⟩
  simp only [h1, h2, Bool.or_false, Bool.not_false]

/-- the sets depend on which names were requested, not on how often or in what order -/
theorem found_depends_on_set (db : DB) (names₁ names₂ : List Str) (h : ∀ n, n ∈ names₁ ↔ n ∈ names₂) (c k : Str) :
    k ∈ found db names₁ c ↔ k ∈ found db names₂ c := by
  rw [mem_found, mem_found, h k]

/-! ### the text, and `main()` -/

theorem secOf_ops_exec (cfg : Cfg) (pad : Nat) (secs : List Section) (buf : List Str) (w : List (List Str)) :
    Output.exec (textCfg cfg) (secs.flatMap (fun sc => (secOf cfg pad sc).ops)) ⟨buf, [], false, true, w, none⟩ =
      ⟨buf ++ secs.flatMap (fun sc => Output.renderSec (textCfg cfg) (secOf cfg pad sc)), [], false, true, w, none⟩ := by
  have h := Output.exec_secs (textCfg cfg) rfl (secs.map (secOf cfg pad)) buf w
  simp only [List.flatMap_map] at h
  exact h

theorem exec_ops (cfg : Cfg) (o : SetOrder) (db : DB) (names : List Str) (w : List (List Str)) :
    Output.exec (textCfg cfg) (ops cfg o db names) ⟨[], [], false, true, w, none⟩ = ⟨closed cfg o db names, [], false, true, w, none⟩ := by
  unfold ops closed
  rw [Output.exec_append, Output.exec_append, Output.exec_append, secOf_ops_exec, List.nil_append]
  have e1 : ∀ buf, Output.exec (textCfg cfg) (if (notFound db names).length > 0 then Op.head unknownTitle true :: (notFound db names).map (fun n => (failItem n).op) else [])
      ⟨buf, [], false, true, w, none⟩ =
      ⟨buf ++ (if (notFound db names).length > 0 then headLine cfg unknownTitle ++ Lookup.bodyOf cfg ((notFound db names).map failItem) else []), [], false, true, w, none⟩ := by
    intro buf
    split
    · have := exec_block (textCfg cfg) unknownTitle ((notFound db names).map failItem) buf w
      simp only [List.map_map] at this
      exact this
    · simp [Output.exec_nil]
  have e2 : ∀ buf, Output.exec (textCfg cfg) (if (similar db names).length > 0 then Op.head similarTitle true :: (similar db names).map (fun g => (warnItem g).op) else [])
      ⟨buf, [], false, true, w, none⟩ =
      ⟨buf ++ (if (similar db names).length > 0 then headLine cfg similarTitle ++ Lookup.bodyOf cfg ((similar db names).map warnItem) else []), [], false, true, w, none⟩ := by
    intro buf
    split
    · have := exec_block (textCfg cfg) similarTitle ((similar db names).map warnItem) buf w
      simp only [List.map_map] at this
      exact this
    · simp [Output.exec_nil]
  rw [e1, exec_sep, e2]
  rfl

/-- **the buffer `algorithm_lookup` leaves** (what `out.write()` prints): the sections, the unknown names, a separator, the suggestions -/
theorem entries_eq_closed (cfg : Cfg) (o : SetOrder) (db : DB) (arg : Str) (h : hasCats db = true) :
    run cfg o db arg = .ok { entries := closed cfg o db (requested arg), status := status o db (requested arg) } := by
  unfold run
  rw [if_pos h]
  have h0 : ({} : Buf) = ⟨[], [], false, true, [], none⟩ := rfl
  rw [h0, exec_ops]
  simp [Output.Buf.entries, Output.doFlush]

/-- the call ends with a KeyError exactly when the database lacks one of the four categories -/
theorem run_ok_iff (cfg : Cfg) (o : SetOrder) (db : DB) (arg : Str) :
    ((∃ r, run cfg o db arg = .ok r) ↔ hasCats db = true) ∧ (hasCats db = false → run cfg o db arg = .error .key) := by
  unfold run
  cases hasCats db <;> simp

/-- `-j` does not change what `--lookup` prints (`is_json_output=False` is passed literally) -/
theorem json_flag_ignored (cfg : Cfg) (o : SetOrder) (db : DB) (arg : Str) :
    run { cfg with json := true } o db arg = run { cfg with json := false } o db arg := rfl

/-- `main()`: `-m` first; `--lookup` with a non-empty value is the lookup mode; `--lookup ''` is not -/
theorem main_dispatch (a : MainArgs) (o : SetOrder) (db : DB) :
    (a.manual = true → main a o db = .manual) ∧
    (a.manual = false → (a.lookup = none ∨ a.lookup = some []) → main a o db = .other) ∧
    (a.manual = false → ∀ arg, a.lookup = some arg → arg ≠ [] → hasCats db = true →
      ∃ so, main a o db = .lookup so (status o db (requested arg))) := by
  refine ⟨fun h => by simp [main, h], fun h hl => ?_, fun h arg hl hne hc => ?_⟩
  · rcases hl with hl | hl <;> simp [main, h, hl]
  · simp only [main, h, hl, hne, hc, if_true, if_false, Bool.false_eq_true]
    exact ⟨_, rfl⟩

/-- in the lookup mode stdout is one `print` of the buffer `algorithm_lookup` filled, and the exit status is its return value -/
theorem main_stdout (a : MainArgs) (o : SetOrder) (db : DB) (arg : Str) (hm : a.manual = false) (hl : a.lookup = some arg) (hne : arg ≠ [])
    (hc : hasCats db = true) :
    main a o db = .lookup [closed (mainCfg a) o db (requested arg)] (status o db (requested arg)) ∧
    run (mainCfg a) o db arg = .ok { entries := closed (mainCfg a) o db (requested arg), status := status o db (requested arg) } := by
  refine ⟨?_, entries_eq_closed (mainCfg a) o db arg hc⟩
  simp only [main, hm, hl, hne, hc, if_true, if_false, Bool.false_eq_true]
  have h0 : ({} : Buf) = ⟨[], [], false, true, [], none⟩ := rfl
  have hj : textCfg (mainCfg a) = mainCfg a := rfl
  have h := exec_ops (mainCfg a) o db (requested arg) []
  rw [hj] at h
  rw [h0, Output.exec_append, h]
  simp [Output.exec_cons, Output.exec_nil, Output.stepG, Output.step, Output.doWrite, Output.doFlush]

/-- `-b` and `-l` never reach the lookup output -/
theorem main_ignores_batch_level (a : MainArgs) (b : Bool) (lv : Nat) (o : SetOrder) (db : DB) :
    main { a with batch := b, level := lv } o db = main a o db := rfl

/-! ### the regenerated SSH-2 database (kernel-evaluated) -/

theorem gen_has_cats : hasCats Gen.ssh2db = true ∧ cats Gen.ssh2db = [kexC, keyC, encC, macC] := by decide +kernel

def allKeys (db : DB) (p : Str → Str → Bool) : Bool := (cats db).all (fun c => (DBm.keys db c).all (fun k => p c k))

theorem allKeys_spec (db : DB) (p : Str → Str → Bool) (h : allKeys db p = true) (c k : Str) (hk : k ∈ DBm.keys db c) : p c k = true := by
  unfold allKeys at h
  simp only [List.all_eq_true] at h
  exact h c (mem_keys_mem_cats db c k hk) k hk

/-- no key of the database is blank: every requested key gets its line -/
theorem gen_no_blank_keys (c k : Str) (hk : k ∈ DBm.keys Gen.ssh2db c) : printed c k = true :=
  allKeys_spec Gen.ssh2db printed (by decide +kernel) c k hk

/-- the keys of each category are distinct -/
theorem gen_keys_nodup (c : Str) : (DBm.keys Gen.ssh2db c).Nodup := by
  by_cases hc : c ∈ cats Gen.ssh2db
  · rw [gen_has_cats.2] at hc
    simp only [List.mem_cons, List.not_mem_nil, or_false] at hc
    rcases hc with rfl | rfl | rfl | rfl <;> exact nodupB_spec _ (by decide +kernel)
  · have : DBm.keys Gen.ssh2db c = [] := by
      apply Classical.byContradiction
      intro h
      obtain ⟨k, hk⟩ := List.exists_mem_of_ne_nil _ h
      exact hc (mem_keys_mem_cats _ c k hk)
    rw [this]; exact List.nodup_nil

/-- every key is its own normal form (the gss keys are the wildcard forms) -/
theorem gen_keys_normal (c k : Str) (hk : k ∈ DBm.keys Gen.ssh2db c) : gssNormalize c k = k := by
  have := allKeys_spec Gen.ssh2db (fun c k => decide (gssNormalize c k = k)) (by decide +kernel) c k hk
  simpa using this

/-- so `--lookup` on this database never prints an "unknown algorithm" line: every printed line shows a database entry -/
theorem gen_never_unknown_line (o : SetOrder) (ho : o.ok) (names : List Str) (c : Str) (l : AlgLine) (h : l ∈ sectionLines o Gen.ssh2db names c) :
    l.unknown = false := by
  apply (known_in_audit o ho Gen.ssh2db names c l h ?_).1
  by_cases hk : l.name ∈ DBm.keys Gen.ssh2db c
  · exact Or.inl (gen_keys_normal c l.name hk)
  · exact Or.inr hk

/-- `none` is a key of `enc` and of `mac`: both sections are printed -/
theorem gen_multi_category :
    (sections dbOrder Gen.ssh2db (requested (s "none"))).map (fun sc => (sc.cat, sc.lines.map (·.name))) = [(macC, [s "none"]), (encC, [s "none"])] ∧
    notFound Gen.ssh2db (requested (s "none")) = [] := by decide +kernel

/-- on this database the names listed as not found are exactly the requested names the audit rates in no category -/
theorem gen_not_found_iff_audit_unknown (names : List Str) (n : Str) (hn : n ∈ names) :
    n ∈ notFound Gen.ssh2db names ↔ ∀ c ts, algTexts Gen.ssh2db c n ≠ some (ts, false) := by
  have h := audit_known_iff_found Gen.ssh2db gen_keys_normal gen_no_blank_keys names n hn
  constructor
  · intro hnf c ts ht
    exact (h.mpr ⟨c, ts, ht⟩) hnf
  · intro hall
    apply Classical.byContradiction
    intro hnf
    obtain ⟨c, ts, ht⟩ := h.mp hnf
    exact hall c ts ht

/-- the D38 witness after the repair: found, printed once in the `kex` section with the notes of `gss-group14-sha256-*` (two warnings: WARNING, not FAILURE),
    nothing listed as not found, nothing suggested — also when requested twice, and next to the wildcard key itself -/
theorem gen_gss_instance_known :
    notFound Gen.ssh2db (requested gssInstance) = [] ∧ similar Gen.ssh2db (requested gssInstance) = [] ∧
    status dbOrder Gen.ssh2db (requested gssInstance) = 2 ∧
    (sections dbOrder Gen.ssh2db (requested gssInstance)).map (fun sc => (sc.cat, sc.lines.map (fun l => (l.name, l.unknown)))) = [(kexC, [(gssInstance, false)])] ∧
    (sections dbOrder Gen.ssh2db (requested gssInstance)).flatMap (fun sc => sc.lines.map (fun l => some (l.notes, l.unknown))) =
      [algTexts Gen.ssh2db kexC (s "gss-group14-sha256-*")] ∧
    found Gen.ssh2db [gssInstance, s "gss-group14-sha256-*", gssInstance] kexC = [s "gss-group14-sha256-*", gssInstance] := by decide +kernel

/-! ### non-vacuity -/

example : dbOrder.ok := fun _ l => List.Perm.refl l
example : requested (s "a,,B, c,a,") = [s "a", [], s "B", s " c", s "a", []] := by decide
example : (sections dbOrder Gen.ssh2db (requested (s "ssh-rsa,nosuch"))).map (·.cat) = [keyC] := by decide +kernel
example : notFound Gen.ssh2db (requested (s "ssh-rsa,SSH-RSA, ssh-rsa,nosuch,nosuch")) = [s "SSH-RSA", s " ssh-rsa", s "nosuch", s "nosuch"] := by decide +kernel
example : (similar Gen.ssh2db (requested (s "SSH-RSA"))).map (·.text) =
    [s "SSH-RSA --> (key) ssh-rsa1", s "SSH-RSA --> (key) ssh-rsa", s "SSH-RSA --> (key) ssh-rsa-cert-v00@openssh.com", s "SSH-RSA --> (key) ssh-rsa-cert-v01@openssh.com",
     s "SSH-RSA --> (key) ssh-rsa-sha224@ssh.com", s "SSH-RSA --> (key) ssh-rsa-sha2-256", s "SSH-RSA --> (key) ssh-rsa-sha2-512", s "SSH-RSA --> (key) ssh-rsa-sha256@ssh.com",
     s "SSH-RSA --> (key) ssh-rsa-sha384@ssh.com", s "SSH-RSA --> (key) ssh-rsa-sha512@ssh.com", s "SSH-RSA --> (key) x509v3-ssh-rsa"] := by
  decide +kernel
example : status dbOrder Gen.ssh2db (requested (s "ssh-ed25519")) = 0 ∧ status dbOrder Gen.ssh2db (requested (s "ssh-rsa")) = 3 ∧
    status dbOrder Gen.ssh2db (requested (s "ssh-ed25519,x")) = 3 := by decide +kernel
example : hasCats [] = false := by decide
example : main { lookup := some (s "x"), manual := true } dbOrder Gen.ssh2db = .manual := by decide +kernel
example : main { lookup := some [] } dbOrder Gen.ssh2db = .other := by decide +kernel

end SshAudit.C03Lookup
