/-
  `gextest.py`: the group-exchange probe loop of `GEXTest.run` for one algorithm, and the
  rating edits it makes to the algorithm's database entry.  Import-free.

  The server is an arbitrary state machine `srv : σ → Probe → Resp × σ` (any peer: stateful,
  non-monotone, lying); a function server is the special case `σ = Unit`.
-/
import SshAudit.Model.Text
namespace SshAudit
namespace Gex

/-- (min, preferred, max) of one GEX request -/
abbrev Probe := Nat × Nat × Nat

/-- what `_send_init` returns: `some n` = modulus of `n` bits received (`n ≥ 1`);
    `none` = −1 (refused / closed / stalled / garbage → KexDHException); plus `reconnect_failed` -/
inductive Resp where
  | size (n : Nat)     -- a group was received; `get_dh_modulus_size()` = n
  | failed             -- −1: refused / closed / stalled / unexpected message (KexDHException)
  | noReconnect        -- −1 and `reconnect_failed = True`
deriving Repr, DecidableEq

def Resp.bits : Resp → Option Nat
  | .size n => some n
  | _ => none
def Resp.reconnectFailed : Resp → Bool
  | .noReconnect => true
  | _ => false

/-- the probe sizes tried one by one after the initial (512, 1024, 1536) request -/
def schedule : List Nat := [512, 768, 1024, 1536, 2048, 3072, 4096]

def firstProbe : Probe := (512, 1024, 1536)
def secondPassProbe : Probe := (2048, 3072, 4096)

structure LoopSt (σ : Type) where
  srvSt : σ
  smallest : Option Nat          -- `smallest_modulus` (none = −1)
  reconnectFailed : Bool
  trace : List (Probe × Resp)    -- every probe sent, with its answer, in order

/-- `for bits in [512, …]: if bits >= smallest_modulus > 0: break; smallest, rf = _send_init(bits, bits, bits)` -/
def loop {σ : Type} (srv : σ → Probe → Resp × σ) : List Nat → LoopSt σ → LoopSt σ
  | [], st => st
  | b :: bs, st =>
    match st.smallest with
    | some s => if b ≥ s ∧ s > 0 then st else
        let (r, s') := srv st.srvSt (b, b, b)
        loop srv bs { srvSt := s', smallest := r.bits, reconnectFailed := r.reconnectFailed, trace := st.trace ++ [((b, b, b), r)] }
    | none =>
        let (r, s') := srv st.srvSt (b, b, b)
        loop srv bs { srvSt := s', smallest := r.bits, reconnectFailed := r.reconnectFailed, trace := st.trace ++ [((b, b, b), r)] }

structure Result (σ : Type) where
  reported : Option Nat           -- value passed to `set_dh_modulus_size`, if any
  fallbackNote : Bool             -- `openssh_test_updated`
  trace : List (Probe × Resp)
  stop : Bool                     -- `break` out of the per-algorithm loop (reconnect failed)
  srvSt : σ

def positive (o : Option Nat) : Option Nat := o.filter (· > 0)

/-- the body of `GEXTest.run` for one offered group-exchange algorithm -/
def run {σ : Type} (srv : σ → Probe → Resp × σ) (s0 : σ) (isOpenSSH : Bool) : Result σ :=
  let (r0, s1) := srv s0 firstProbe
  if r0.reconnectFailed then
    { reported := none, fallbackNote := false, trace := [(firstProbe, r0)], stop := true, srvSt := s1 }
  else
    let st := loop srv schedule { srvSt := s1, smallest := r0.bits, reconnectFailed := false, trace := [(firstProbe, r0)] }
    if st.smallest = some 2048 ∧ isOpenSSH then
      let (r2, s2) := srv st.srvSt secondPassProbe
      let upd := match r2.bits with | some n => decide (n > 0 ∧ n ≠ 2048) | none => false
      { reported := positive r2.bits, fallbackNote := upd, trace := st.trace ++ [(secondPassProbe, r2)],
        stop := st.reconnectFailed, srvSt := s2 }
    else
      { reported := positive st.smallest, fallbackNote := false, trace := st.trace, stop := st.reconnectFailed, srvSt := st.srvSt }

/-! ### rating of the measured size (the edits to `db['kex'][gex_alg]`) -/

def s (x : String) : Str := x.toList

def smallText (n : Nat) : Str := s "using small " ++ Text.natToStr n ++ s "-bit modulus"
def warn2048 : Str := s "2048-bit modulus only provides 112-bits of symmetric strength"
def fallbackText (n : Nat) : Str :=
  s "OpenSSH's GEX fallback mechanism was triggered during testing. Very old SSH clients will still be able to create connections using a 2048-bit modulus, though modern clients will use "
  ++ Text.natToStr n ++ s ". This can only be disabled by recompiling the code (see https://github.com/openssh/openssh-portable/blob/V_9_4/dh.c#L477)."

/-- `if len(lst) == 1: lst.append([text]) else: del lst[1]; lst.insert(1, [text])` — the failure list is replaced -/
def replaceFails (t : Str) : List (List (Option Str)) → List (List (Option Str))
  | [] => []                                  -- unreachable: every entry has its versions list
  | [v] => [v, [some t]]
  | v :: _ :: rest => v :: [some t] :: rest

def addTo (t : Str) (l : List (Option Str)) : List (Option Str) := if l.contains (some t) then l else l ++ [some t]

/-- `while len(lst) < 3: lst.append([])` then `if text not in lst[2]: lst[2].append(text)` -/
def addWarn (t : Str) : List (List (Option Str)) → List (List (Option Str))
  | [] => [[], [], [some t]]
  | [v] => [v, [], [some t]]
  | [v, f] => [v, f, [some t]]
  | v :: f :: w :: rest => v :: f :: addTo t w :: rest

/-- `while len(lst) < 4: lst.append([])` then `if text not in lst[3]: lst[3].append(text)` -/
def addInfo (t : Str) : List (List (Option Str)) → List (List (Option Str))
  | [] => [[], [], [], [some t]]
  | [v] => [v, [], [], [some t]]
  | [v, f] => [v, f, [], [some t]]
  | [v, f, w] => [v, f, w, [some t]]
  | v :: f :: w :: i :: rest => v :: f :: w :: addTo t i :: rest

/-- the size-dependent edit of `GEXTest.run` -/
def rateSize (d : List (List (Option Str))) (size : Nat) : List (List (Option Str)) :=
  if size < 2048 then replaceFails (smallText size) d
  else if size < 3072 then addWarn warn2048 d
  else d

/-- all entry edits of `GEXTest.run` once a positive size was measured -/
def rate (d : List (List (Option Str))) (size : Nat) (fallbackNote : Bool) : List (List (Option Str)) :=
  if fallbackNote then addInfo (fallbackText size) (rateSize d size) else rateSize d size

/-- severity contributed by the size alone: 2 = failure, 1 = warning, 0 = none -/
def sizeSeverity (size : Nat) : Nat := if size < 2048 then 2 else if size < 3072 then 1 else 0

/-! ### the three server families of the property's quantifier (spec side) -/

def minOpt (l : List Nat) : Option Nat := l.foldl (fun acc x => match acc with | none => some x | some a => some (min a x)) none
def maxOpt (l : List Nat) : Option Nat := l.foldl (fun acc x => match acc with | none => some x | some a => some (max a x)) none

def ofOpt : Option Nat → Resp | some n => .size n | none => .failed

/-- OpenSSH `choose_dh` without fallback: smallest modulus ≥ preferred inside [min, max], else the largest inside -/
def strict (M : List Nat) : Unit → Probe → Resp × Unit := fun _ (mn, pf, mx) =>
  let c := M.filter (fun m => mn ≤ m ∧ m ≤ mx)
  (ofOpt (match minOpt (c.filter (· ≥ pf)) with | some m => some m | none => maxOpt c), ())

/-- RFC 4419 "round up" servers ignoring min/max -/
def roundUp (M : List Nat) : Unit → Probe → Resp × Unit := fun _ (_, pf, _) =>
  (ofOpt (match minOpt (M.filter (· ≥ pf)) with | some m => some m | none => maxOpt M), ())

/-- OpenSSH with `dh_new_group_fallback` and the 2048-bit floor -/
def opensshStyle (M : List Nat) : Unit → Probe → Resp × Unit := fun _ (mn, pf, mx) =>
  if mx < mn ∨ pf < mn ∨ mx < pf then (.failed, ()) else
  let mn2 := max 2048 mn; let mx2 := min 8192 mx; let pf2 := min 8192 (max 2048 pf)
  let c := M.filter (fun m => mn2 ≤ m ∧ m ≤ mx2)
  (.size (match minOpt (c.filter (· ≥ pf2)) with
      | some m => m
      | none => match maxOpt c with
        | some m => m
        | none => (if mx2 < 3072 then 2048 else if mx2 < 6144 then 4096 else 8192)), ())

def subsets : List Nat → List (List Nat)
  | [] => [[]]
  | x :: xs => let r := subsets xs; r ++ r.map (x :: ·)

def moduliUniverse : List Nat := [512, 768, 1024, 1536, 2048, 3072, 4096, 6144, 8192]

end Gex
end SshAudit
