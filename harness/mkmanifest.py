#!/venv/bin/python
"""Writes MANIFEST.json from the per-property registry below (kept valid at all times)."""
import json, os, sys
HERE = os.path.dirname(os.path.abspath(__file__))
sys.path.insert(0, HERE)
import importlib

PROPS = ['C%02d' % i for i in range(1, 20)]
PY = '/venv/bin/python'
BASELINE = "cd /repo && /venv/bin/python -m pytest -ra -q -p no:cacheprovider --timeout=900 --continue-on-collection-errors"

checks, na, all_modules = [], [], []
for p in PROPS:
    try:
        m = importlib.import_module('props.' + p)
    except ImportError:
        na.append({'property_id': p, 'reason': 'check not built yet in this round (planned in DESIGN.md section 6); not a claim that the technique cannot apply'})
        continue
    all_modules.append(m.MODULE)
    for e in getattr(m, 'EXTENSIONS', []):
        all_modules.append(importlib.import_module(e).MODULE)
    if getattr(m, 'GEN_LOGIC', None):     # regenerated logic: the theorem files of both units (the CRC table takes the kernel ~40 s once)
        all_modules += ['SshAudit.Props.GenLogic', 'SshAudit.Props.GenLogicCrc', 'SshAudit.Props.GenLogic2', 'SshAudit.Props.GenLogic3', 'SshAudit.Props.GenLogic4', 'SshAudit.Props.GenLogic5', 'SshAudit.Props.GenLogic6']
    checks.append({
        'property_id': p,
        'quick_cmd': '%s harness/check.py %s --tier quick' % (PY, p),
        'thorough_cmd': '%s harness/check.py %s --tier thorough' % (PY, p),
        'evidence_file': 'evidence/%s.json' % p,
        'replay_cmd_template': '%s harness/check.py %s --replay {path}' % (PY, p),
        'engine': 'lean4-proof+correspondence',
        'level_claimed': {'category': 'proof', 'text': m.LEVEL_TEXT, 'design_ref': 'DESIGN.md section 6, ' + p},
        'level_note': m.LEVEL_NOTE,
        'technique': m.TECHNIQUE,
    })
manifest = {
    'version': 1,
    # the generated Lean files are committed, but are regenerated first: a checkout whose generated files are stale must not fail the build
    'setup_cmd': '/venv/bin/python harness/translate.py > /dev/null && /venv/bin/python harness/translate_logic.py > /dev/null && cd lean && lake build SshAudit driver ' + ' '.join(sorted(set(all_modules))),
    'hooks': {'guard': 'JTESTA_SSH_AUDIT_VERIF', 'enable': 'no hooks are needed: the harness substitutes socket/select/getaddrinfo/OutputBuffer from outside (Python); the guard name is reserved',
              'baseline_off_cmd': BASELINE, 'source_commits': [], 'add_only': True},
    'engines': [{'name': 'lean4-proof+correspondence', 'path': 'harness/check.py',
                 'serves_properties': [c['property_id'] for c in checks],
                 'kind_free_text': 'Lean 4 theorems over an executable model (lean/SshAudit); tables regenerated from /repo by harness/translate.py on every run; hand-written logic tied to the code by a differential correspondence harness (compiled Lean driver vs. the real Python implementation in-process); failing-input search with per-property oracles on the real code'}],
    'checks': checks,
    'not_applicable': na,
    'notes': 'See DESIGN.md. known_findings.json is the ledger of recorded defects; evidence/ is rewritten by every run.',
}
json.dump(manifest, open(os.path.join(HERE, '..', 'MANIFEST.json'), 'w'), indent=1)
print('checks:', [c['property_id'] for c in checks], 'n/a:', len(na))
