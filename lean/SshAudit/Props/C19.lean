/-
  C19 — A standard audit's footprint on the target is small and bounded.

  Model: SshAudit.Model.Footprint (+ Gex.run for the group-exchange probe loop).  The server is an arbitrary state
  machine deciding how every probe connection goes; all bounds hold for every such server.
-/
import SshAudit.Model.Footprint
import SshAudit.Props.C12
import SshAudit.Gen.Tables
namespace SshAudit.C19
open SshAudit SshAudit.Footprint

variable {σ : Type}

/-! ### per-connection facts -/

/-- a key-exchange computation request is `KEXDH_INIT` (30) or `GEX_INIT` (32) -/
def isInit (m : Nat) : Bool := m = msgKexdhInit || m = msgGexInit

/-- **every probe connection carries at most one `*_INIT`** and is closed if it was established -/
theorem probeConn_facts (ph : Phase) (viaGex : Bool) (o : ProbeOutcome) :
    ((probeConn ph viaGex o).sent.filter isInit).length ≤ 1 ∧ ((probeConn ph viaGex o).connected = true → (probeConn ph viaGex o).closed = true) := by
  cases o <;> cases viaGex <;> simp [probeConn, probeSent, isInit, msgKexinit, msgKexdhInit, msgGexRequest, msgGexInit]

/-! ### host-key phase: at most one connection per advertised probe type -/

def HkInv (types0 : List Str) (keys : List Str) (st : HkSt σ) (done : List Str) : Prop :=
  st.conns.length ≤ (done.filter (fun t => keys.contains t)).length ∧
  (∀ c ∈ st.conns, c.phase = .hostKey ∧ (c.sent.filter isInit).length ≤ 1 ∧ (c.connected = true → c.closed = true))

theorem hkStep_inv (rsaFamily : List Str) (viaGex : Bool) (srv : σ → Str → ProbeOutcome × Bool × σ) (keys : List Str) (st : HkSt σ) (t : Str) :
    (hkStep rsaFamily viaGex srv keys st t).conns.length ≤ st.conns.length + (if keys.contains t then 1 else 0) ∧
    (∀ c ∈ (hkStep rsaFamily viaGex srv keys st t).conns, c ∈ st.conns ∨ ∃ o, c = probeConn .hostKey viaGex o) := by
  unfold hkStep
  split
  · exact ⟨by split <;> omega, fun c hc => Or.inl hc⟩
  · split
    · exact ⟨by split <;> omega, fun c hc => Or.inl hc⟩
    · split
      · next hk => exact ⟨by split <;> omega, fun c hc => Or.inl hc⟩
      · next hk =>
        have hkc : keys.contains t = true := by simpa using hk
        simp only [hkc, if_true]
        split <;> (try split) <;>
          exact ⟨by simp, fun c hc => by
            simp only [List.mem_append, List.mem_singleton] at hc
            rcases hc with hc | hc
            · exact Or.inl hc
            · exact Or.inr ⟨_, hc⟩⟩

theorem hk_fold (rsaFamily : List Str) (viaGex : Bool) (srv : σ → Str → ProbeOutcome × Bool × σ) (keys : List Str) (types : List Str) (st : HkSt σ) :
    (types.foldl (hkStep rsaFamily viaGex srv keys) st).conns.length ≤ st.conns.length + (types.filter (fun t => keys.contains t)).length ∧
    (∀ c ∈ (types.foldl (hkStep rsaFamily viaGex srv keys) st).conns, c ∈ st.conns ∨ ∃ o, c = probeConn .hostKey viaGex o) := by
  induction types generalizing st with
  | nil => exact ⟨by simp, fun c hc => Or.inl hc⟩
  | cons t ts ih =>
    simp only [List.foldl_cons]
    obtain ⟨h1, h2⟩ := hkStep_inv rsaFamily viaGex srv keys st t
    obtain ⟨i1, i2⟩ := ih (hkStep rsaFamily viaGex srv keys st t)
    constructor
    · by_cases hk : keys.contains t = true
      · rw [if_pos hk] at h1
        simp only [List.filter_cons, hk, if_true, List.length_cons]; omega
      · rw [if_neg hk] at h1
        simp only [List.filter_cons, hk]; simp only [Bool.false_eq_true, if_false]; omega
    · intro c hc
      rcases i2 c hc with h | h
      · exact h2 c h
      · exact Or.inr h

/-- **Host-key phase: at most one connection per advertised probe type (hence ≤ the 17 table entries), each with at most
    one `KEXDH_INIT`/`GEX_INIT`, each closed** — for every server and every key list. -/
theorem hostkey_connections_bounded (types rsaFamily startable gexNames : List Str) (srv : σ → Str → ProbeOutcome × Bool × σ) (s0 : σ) (kex keys : List Str) :
    let st := hostKeyPhase types rsaFamily startable gexNames srv s0 kex keys
    st.conns.length ≤ (types.filter (fun t => keys.contains t)).length ∧ st.conns.length ≤ types.length ∧
    ∀ c ∈ st.conns, c.phase = .hostKey ∧ (c.sent.filter isInit).length ≤ 1 ∧ (c.connected = true → c.closed = true) := by
  unfold hostKeyPhase
  split
  · simp
  · next k hk =>
    obtain ⟨h1, h2⟩ := hk_fold rsaFamily (gexNames.contains k) srv keys types { srv := s0, parsed := [], conns := [], halted := false }
    simp only [List.length_nil, Nat.zero_add] at h1
    refine ⟨h1, Nat.le_trans h1 (List.length_filter_le _ _), ?_⟩
    intro c hc
    rcases h2 c hc with h | ⟨o, rfl⟩
    · cases h
    · exact ⟨rfl, (probeConn_facts .hostKey _ o).1, (probeConn_facts .hostKey _ o).2⟩

/-- the probe table has 17 entries (regenerated from the source): at most 17 host-key connections -/
theorem hostkey_table_size : Gen.hostKeyTypes.length = 17 := by decide

/-- client audits and peers without a startable key exchange make no host-key connection at all -/
theorem no_startable_kex_no_probe (types rsaFamily startable gexNames : List Str) (srv : σ → Str → ProbeOutcome × Bool × σ) (s0 : σ) (kex keys : List Str)
    (h : ∀ k ∈ kex, startable.contains k = false) : (hostKeyPhase types rsaFamily startable gexNames srv s0 kex keys).conns = [] := by
  unfold hostKeyPhase
  have : kex.find? (fun k => startable.contains k) = none := by
    apply List.find?_eq_none.mpr
    intro k hk; have := h k hk; simp only [this]; simp
  rw [this]

/-! ### group-exchange phase: one connection per probe of `Gex.run`, at most 9 per algorithm -/

/-- the wrapped server appends exactly one connection per probe, so after any `Gex.loop` the recorded connections are the
    initial ones plus one per new trace element -/
theorem loop_conns (fsrv : σ → Gex.Probe → (ProbeOutcome × Option Nat) × σ) (bs : List Nat) (st : Gex.LoopSt (σ × List Conn)) (n : Nat)
    (h : st.srvSt.2.length = n + st.trace.length) :
    (Gex.loop (gexServer fsrv) bs st).srvSt.2.length = n + (Gex.loop (gexServer fsrv) bs st).trace.length ∧
    (∀ c ∈ (Gex.loop (gexServer fsrv) bs st).srvSt.2, c ∈ st.srvSt.2 ∨ ∃ o, c = probeConn .gex true o) := by
  induction bs generalizing st with
  | nil => exact ⟨h, fun c hc => Or.inl hc⟩
  | cons b bs ih =>
    have step : ∀ st' : Gex.LoopSt (σ × List Conn),
        st' = { srvSt := (gexServer fsrv st.srvSt (b, b, b)).2, smallest := (gexServer fsrv st.srvSt (b, b, b)).1.bits,
                reconnectFailed := (gexServer fsrv st.srvSt (b, b, b)).1.reconnectFailed, trace := st.trace ++ [((b, b, b), (gexServer fsrv st.srvSt (b, b, b)).1)] } →
        (Gex.loop (gexServer fsrv) bs st').srvSt.2.length = n + (Gex.loop (gexServer fsrv) bs st').trace.length ∧
        (∀ c ∈ (Gex.loop (gexServer fsrv) bs st').srvSt.2, c ∈ st.srvSt.2 ∨ ∃ o, c = probeConn .gex true o) := by
      intro st' hst'
      have hlen : st'.srvSt.2.length = n + st'.trace.length := by
        rw [hst']; simp [gexServer, h]; omega
      obtain ⟨i1, i2⟩ := ih st' hlen
      refine ⟨i1, fun c hc => ?_⟩
      rcases i2 c hc with hc' | hc'
      · rw [hst'] at hc'
        simp only [gexServer, List.mem_append, List.mem_singleton] at hc'
        rcases hc' with hc' | hc'
        · exact Or.inl hc'
        · exact Or.inr ⟨_, hc'⟩
      · exact Or.inr hc'
    unfold Gex.loop
    split
    · split
      · exact ⟨h, fun c hc => Or.inl hc⟩
      · exact step _ rfl
    · exact step _ rfl

/-- **Group-exchange phase, per offered algorithm: exactly one connection per probe, at most 9, each with at most one
    `GEX_INIT`, each closed.** -/
theorem gex_connections_bounded (fsrv : σ → Gex.Probe → (ProbeOutcome × Option Nat) × σ) (s0 : σ) (b : Bool) :
    let r := gexPhase fsrv s0 b
    r.srvSt.2.length = r.trace.length ∧ r.srvSt.2.length ≤ 9 ∧
    ∀ c ∈ r.srvSt.2, c.phase = .gex ∧ (c.sent.filter isInit).length ≤ 1 ∧ (c.connected = true → c.closed = true) := by
  have hb := C12.gex_probe_bound (gexServer fsrv) (s0, []) b
  unfold gexPhase
  have key : (Gex.run (gexServer fsrv) (s0, []) b).srvSt.2.length = (Gex.run (gexServer fsrv) (s0, []) b).trace.length ∧
      ∀ c ∈ (Gex.run (gexServer fsrv) (s0, []) b).srvSt.2, ∃ o, c = probeConn .gex true o := by
    unfold Gex.run
    simp only
    split
    · exact ⟨by simp [gexServer], fun c hc => by simp [gexServer] at hc; exact ⟨_, hc⟩⟩
    · have hl := loop_conns fsrv Gex.schedule
        { srvSt := (gexServer fsrv (s0, []) Gex.firstProbe).2, smallest := (gexServer fsrv (s0, []) Gex.firstProbe).1.bits, reconnectFailed := false,
          trace := [(Gex.firstProbe, (gexServer fsrv (s0, []) Gex.firstProbe).1)] } 0 (by simp [gexServer])
      obtain ⟨l1, l2⟩ := hl
      have l2' : ∀ c ∈ (Gex.loop (gexServer fsrv) Gex.schedule
          { srvSt := (gexServer fsrv (s0, []) Gex.firstProbe).2, smallest := (gexServer fsrv (s0, []) Gex.firstProbe).1.bits, reconnectFailed := false,
            trace := [(Gex.firstProbe, (gexServer fsrv (s0, []) Gex.firstProbe).1)] }).srvSt.2, ∃ o, c = probeConn .gex true o := by
        intro c hc
        rcases l2 c hc with h | h
        · simp [gexServer] at h; exact ⟨_, h⟩
        · exact h
      split
      · constructor
        · simp only [gexServer, List.length_append, List.length_singleton, List.length_cons, List.length_nil] at l1 ⊢
          omega
        · intro c hc
          simp only [gexServer, List.mem_append, List.mem_singleton] at hc
          rcases hc with hc | hc
          · exact l2' c hc
          · exact ⟨_, hc⟩
      · exact ⟨by simpa using l1, l2'⟩
  refine ⟨key.1, by rw [key.1]; exact hb, ?_⟩
  intro c hc
  obtain ⟨o, rfl⟩ := key.2 c hc
  exact ⟨rfl, (probeConn_facts .gex true o).1, (probeConn_facts .gex true o).2⟩

/-- two group-exchange algorithms are known to the probe (regenerated from the source): at most 18 connections -/
theorem gex_algs_size : Gen.gexAlgs.length = 2 := by decide


/-! ### the whole probe footprint of a standard audit -/

/-- the only message sequences a connection of the audit ever carries -/
def shapes : List (List Nat) := [[], [20], [20, 30], [20, 34], [20, 34, 32]]

/-- what every connection satisfies: one of the five shapes (so: no NEWKEYS, no service or authentication request), at most
    one key-exchange computation request, closed if it was established -/
def WF (c : Conn) : Prop := c.sent ∈ shapes ∧ (c.sent.filter isInit).length ≤ 1 ∧ (c.connected = true → c.closed = true)

theorem probeConn_wf (ph : Phase) (viaGex : Bool) (o : ProbeOutcome) : WF (probeConn ph viaGex o) := by
  refine ⟨?_, (probeConn_facts ph viaGex o).1, (probeConn_facts ph viaGex o).2⟩
  cases o <;> cases viaGex <;> simp [probeConn, probeSent, shapes, msgKexinit, msgKexdhInit, msgGexRequest, msgGexInit]

theorem hostkey_conns_wf (types rsaFamily startable gexNames : List Str) (srv : σ → Str → ProbeOutcome × Bool × σ) (s0 : σ) (kex keys : List Str) :
    ∀ c ∈ (hostKeyPhase types rsaFamily startable gexNames srv s0 kex keys).conns, WF c := by
  unfold hostKeyPhase
  split
  · simp
  · next k hk =>
    obtain ⟨_, h2⟩ := hk_fold rsaFamily (gexNames.contains k) srv keys types { srv := s0, parsed := [], conns := [], halted := false }
    intro c hc
    rcases h2 c hc with h | ⟨o, rfl⟩
    · cases h
    · exact probeConn_wf _ _ o

theorem gex_conns_wf (fsrv : σ → Gex.Probe → (ProbeOutcome × Option Nat) × σ) (s0 : σ) (b : Bool) :
    ∀ c ∈ (gexPhase fsrv s0 b).srvSt.2, WF c := by
  intro c hc
  have hb := (gex_connections_bounded fsrv s0 b)
  -- every recorded connection is a probe connection (re-derived from the loop lemma)
  have key : ∀ c ∈ (Gex.run (gexServer fsrv) (s0, []) b).srvSt.2, ∃ o, c = probeConn .gex true o := by
    unfold Gex.run
    simp only
    split
    · exact fun c hc => by simp [gexServer] at hc; exact ⟨_, hc⟩
    · have hl := loop_conns fsrv Gex.schedule
        { srvSt := (gexServer fsrv (s0, []) Gex.firstProbe).2, smallest := (gexServer fsrv (s0, []) Gex.firstProbe).1.bits, reconnectFailed := false,
          trace := [(Gex.firstProbe, (gexServer fsrv (s0, []) Gex.firstProbe).1)] } 0 (by simp [gexServer])
      obtain ⟨_, l2⟩ := hl
      have l2' : ∀ c ∈ (Gex.loop (gexServer fsrv) Gex.schedule
          { srvSt := (gexServer fsrv (s0, []) Gex.firstProbe).2, smallest := (gexServer fsrv (s0, []) Gex.firstProbe).1.bits, reconnectFailed := false,
            trace := [(Gex.firstProbe, (gexServer fsrv (s0, []) Gex.firstProbe).1)] }).srvSt.2, ∃ o, c = probeConn .gex true o := by
        intro c hc
        rcases l2 c hc with h | h
        · simp [gexServer] at h; exact ⟨_, h⟩
        · exact h
      split
      · intro c hc
        simp only [gexServer, List.mem_append, List.mem_singleton] at hc
        rcases hc with hc | hc
        · exact l2' c hc
        · exact ⟨_, hc⟩
      · exact l2'
  obtain ⟨o, rfl⟩ := key c (by simpa [gexPhase] using hc)
  exact probeConn_wf _ _ o

/-- the group-exchange phase over all offered algorithms: at most 9 connections per offered algorithm, all well-formed -/
theorem gexAll_bounded (gexAlgs kex : List Str) (o : Bool) (l : List Str) (e : Env) (acc : List Conn) :
    (gexAll gexAlgs kex o l e acc).1.length ≤ acc.length + 9 * (l.filter (fun a => kex.contains a)).length ∧
    ∀ c ∈ (gexAll gexAlgs kex o l e acc).1, c ∈ acc ∨ WF c := by
  induction l generalizing e acc with
  | nil => exact ⟨by simp [gexAll], fun c hc => Or.inl (by simpa [gexAll] using hc)⟩
  | cons a rest ih =>
    unfold gexAll
    by_cases hk : kex.contains a = true
    · rw [if_pos hk]
      have hb := gex_connections_bounded gexFServer e o
      have hw := gex_conns_wf gexFServer e o
      simp only at hb
      by_cases hs : (gexPhase gexFServer e o).stop = true
      · simp only [hs, if_true]
        constructor
        · simp only [List.length_append, List.filter_cons, hk, if_true, List.length_cons]; omega
        · intro c hc
          simp only [List.mem_append] at hc
          rcases hc with hc | hc
          · exact Or.inl hc
          · exact Or.inr (hw c hc)
      · simp only [hs]
        simp only [Bool.false_eq_true, if_false]
        obtain ⟨i1, i2⟩ := ih (gexPhase gexFServer e o).srvSt.1 (acc ++ (gexPhase gexFServer e o).srvSt.2)
        constructor
        · simp only [List.length_append, List.filter_cons, hk, if_true, List.length_cons] at i1 ⊢; omega
        · intro c hc
          rcases i2 c hc with h | h
          · simp only [List.mem_append] at h
            rcases h with h | h
            · exact Or.inl h
            · exact Or.inr (hw c h)
          · exact Or.inr h
    · rw [if_neg hk]
      obtain ⟨i1, i2⟩ := ih e acc
      refine ⟨?_, i2⟩
      simp only [List.filter_cons, hk]; simp only [Bool.false_eq_true, if_false]; exact i1

/-- **The probe footprint of a whole standard audit, for every target behaviour**: at most
    1 + (advertised probe types) + 9·(offered group-exchange algorithms) connections; the first carries only KEXINIT; every
    connection has one of the five message shapes, at most one key-exchange computation request, and is closed. -/
theorem audit_footprint_bounded (types rsaFamily startable gexAlgs kex keys : List Str) (o : Bool) (e : Env) :
    let cs := auditFootprint types rsaFamily startable gexAlgs kex keys o e
    cs.length ≤ 1 + (types.filter (fun t => keys.contains t)).length + 9 * (gexAlgs.filter (fun a => kex.contains a)).length ∧
    cs.length ≤ 1 + types.length + 9 * gexAlgs.length ∧
    cs.head? = some { phase := .handshake, connected := true, sent := [msgKexinit], closed := true } ∧
    ∀ c ∈ cs, WF c := by
  have h1 := hostkey_connections_bounded types rsaFamily startable gexAlgs
    (hkServer (viaGexOf startable gexAlgs kex)) e kex keys
  have h1w := hostkey_conns_wf types rsaFamily startable gexAlgs
    (hkServer (viaGexOf startable gexAlgs kex)) e kex keys
  have h2 := gexAll_bounded gexAlgs kex o gexAlgs (hostKeyPhase types rsaFamily startable gexAlgs
    (hkServer (viaGexOf startable gexAlgs kex)) e kex keys).srv []
  simp only at h1
  simp only [List.length_nil, Nat.zero_add] at h2
  have f1 := List.length_filter_le (fun t => keys.contains t) types
  have f2 := List.length_filter_le (fun a => kex.contains a) gexAlgs
  unfold auditFootprint
  simp only [List.length_cons, List.length_append, List.head?_cons]
  refine ⟨by omega, by omega, rfl, ?_⟩
  intro c hc
  simp only [List.mem_cons, List.mem_append] at hc
  rcases hc with (rfl | hc) | hc
  · exact ⟨by simp [shapes, msgKexinit], by simp [isInit, msgKexinit, msgKexdhInit, msgGexInit], fun _ => rfl⟩
  · exact h1w c hc
  · rcases h2.2 c hc with h | h
    · cases h
    · exact h

/-- with the tables regenerated from the source: at most 1 + 17 + 18 = 36 probe connections, whatever the target does -/
theorem audit_footprint_36 (kex keys : List Str) (o : Bool) (e : Env) :
    (auditFootprint (Gen.hostKeyTypes.map (·.name)) Gen.rsaFamily Gen.kexToDhgroupKeys Gen.gexAlgs kex keys o e).length ≤ 36 := by
  have := (audit_footprint_bounded (Gen.hostKeyTypes.map (·.name)) Gen.rsaFamily Gen.kexToDhgroupKeys Gen.gexAlgs kex keys o e).2.1
  have h17 : (Gen.hostKeyTypes.map (·.name)).length = 17 := by rw [List.length_map]; exact hostkey_table_size
  rw [h17, gex_algs_size] at this
  exact this

/-- **… including the initial handshake's one retry as SSH-1**: whatever the first connection brings, the connections are
    bounded and each is well-formed; the retry happens at most once and is followed by no probe. -/
theorem audit_footprintH_bounded (h : HsOutcome) (types rsaFamily startable gexAlgs kex keys : List Str) (o : Bool) (e : Env) :
    (auditFootprintH h types rsaFamily startable gexAlgs kex keys o e).length ≤ max 2 (1 + types.length + 9 * gexAlgs.length) ∧
    (h ≠ .proceeds → (auditFootprintH h types rsaFamily startable gexAlgs kex keys o e).length ≤ 2) ∧
    ∀ c ∈ auditFootprintH h types rsaFamily startable gexAlgs kex keys o e, WF c := by
  have hwf : WF hsConn := ⟨by simp [hsConn, shapes, msgKexinit], by simp [hsConn, isInit, msgKexinit, msgKexdhInit, msgGexInit], fun _ => rfl⟩
  have hb := audit_footprint_bounded types rsaFamily startable gexAlgs kex keys o e
  simp only at hb
  cases h with
  | proceeds =>
    simp only [auditFootprintH]
    exact ⟨by omega, fun h => absurd rfl h, hb.2.2.2⟩
  | versionsDiffer b rb =>
    cases b
    · simp only [auditFootprintH]
      refine ⟨by simp only [List.length_cons, List.length_nil]; omega, fun _ => by simp, ?_⟩
      intro c hc; simp only [List.mem_singleton] at hc; subst hc; exact hwf
    · simp only [auditFootprintH]
      refine ⟨by simp only [List.length_cons, List.length_nil]; omega, fun _ => by simp, ?_⟩
      intro c hc
      simp only [List.mem_cons, List.mem_nil_iff, or_false] at hc
      rcases hc with hc | hc
      · subst hc; exact hwf
      · subst hc
        cases rb
        · exact ⟨by simp [hsConn, shapes], by simp [hsConn, isInit], fun _ => rfl⟩
        · exact ⟨by simp [hsConn, shapes, msgKexinit], by simp [hsConn, isInit, msgKexinit, msgKexdhInit, msgGexInit], fun _ => rfl⟩
  | ends =>
    simp only [auditFootprintH]
    refine ⟨by simp only [List.length_cons, List.length_nil]; omega, fun _ => by simp, ?_⟩
    intro c hc; simp only [List.mem_singleton] at hc; subst hc; exact hwf

/-- with the regenerated tables: at most 36 connections before the rate check, whatever the target does -/
theorem audit_footprint_total (h : HsOutcome) (kex keys : List Str) (o : Bool) (e : Env) :
    (auditFootprintH h (Gen.hostKeyTypes.map (·.name)) Gen.rsaFamily Gen.kexToDhgroupKeys Gen.gexAlgs kex keys o e).length ≤ 36 := by
  have := (audit_footprintH_bounded h (Gen.hostKeyTypes.map (·.name)) Gen.rsaFamily Gen.kexToDhgroupKeys Gen.gexAlgs kex keys o e).1
  have h17 : (Gen.hostKeyTypes.map (·.name)).length = 17 := by rw [List.length_map]; exact hostkey_table_size
  rw [h17, gex_algs_size] at this
  omega

-- non-vacuity: a full plan exercising every outcome
example : (auditFootprint ["ssh-rsa".toList, "ssh-ed25519".toList] ["ssh-rsa".toList] ["curve25519-sha256".toList] ["gex".toList] ["curve25519-sha256".toList, "gex".toList]
    ["ssh-ed25519".toList, "ssh-rsa".toList] false { plan := [(.exchanged, true), (.exchanged, false), (.groupFail, false), (.kexFail, false)], sizeOf := fun _ => some 2048 }).length = 8 := by decide +kernel

/-! ### the connection-rate check -/

structure RateInv (maxConn conc : Nat) (st : RateSt) : Prop where
  attempted_le : st.attempted ≤ maxConn
  conc_le : st.openSocks ≤ conc
  maxc_le : st.maxConcurrent ≤ conc
  balance : st.openSocks + st.closedSocks ≤ st.attempted

theorem rateOpen_inv (maxConn conc : Nat) (fuel : Nat) (oks : List Bool) (st : RateSt) (h : RateInv maxConn conc st) :
    RateInv maxConn conc (rateOpen maxConn conc fuel oks st) ∧ (rateOpen maxConn conc fuel oks st).opened = st.opened
      ∧ (rateOpen maxConn conc fuel oks st).closedSocks = st.closedSocks := by
  induction fuel generalizing oks st with
  | zero => exact ⟨h, rfl, rfl⟩
  | succ fuel ih =>
    unfold rateOpen
    split
    · next hc =>
      obtain ⟨h1, h2, h3⟩ := hc
      have hinv : RateInv maxConn conc
          { attempted := st.attempted + 1, opened := st.opened, openSocks := if oks.headD true = true then st.openSocks + 1 else st.openSocks,
            maxConcurrent := max st.maxConcurrent (if oks.headD true = true then st.openSocks + 1 else st.openSocks), closedSocks := st.closedSocks } := by
        have := h.attempted_le; have := h.conc_le; have := h.maxc_le; have := h.balance
        constructor <;> simp only <;> first | omega | (split <;> omega)
      have := ih oks.tail _ hinv
      simpa using this
    · exact ⟨h, rfl, rfl⟩

/-- **Rate check: at most `maxConn` (= 38) connection attempts in total, at most `conc` (= 3) open at any time, and every
    socket it opened is closed when it returns** — for every server behaviour and every clock. (Holds of the code after the
    D21 repair; before it, attempts were unbounded.) -/
theorem rate_bounded (maxConn conc : Nat) (iters : List RateIter) (st : RateSt) (h : RateInv maxConn conc st) :
    let r := rateLoop maxConn conc iters st
    r.attempted ≤ maxConn ∧ r.maxConcurrent ≤ conc ∧ r.openSocks = 0 ∧ r.closedSocks ≤ r.attempted := by
  induction iters generalizing st with
  | nil =>
    unfold rateLoop
    have := h.attempted_le; have := h.maxc_le; have := h.balance
    exact ⟨by simpa, by simpa, rfl, by simp; omega⟩
  | cons it rest ih =>
    unfold rateLoop
    split
    · have := h.attempted_le; have := h.maxc_le; have := h.balance
      exact ⟨by simpa, by simpa, rfl, by simp; omega⟩
    · obtain ⟨hi, ho, hcl⟩ := rateOpen_inv maxConn conc (maxConn + 1) it.connectOk st h
      apply ih
      have := hi.attempted_le; have := hi.conc_le; have := hi.maxc_le; have := hi.balance
      constructor <;> simp only <;> omega

theorem rate_from_start (maxConn conc : Nat) (iters : List RateIter) :
    (rateLoop maxConn conc iters rateInit).attempted ≤ maxConn ∧ (rateLoop maxConn conc iters rateInit).maxConcurrent ≤ conc
      ∧ (rateLoop maxConn conc iters rateInit).openSocks = 0 :=
  let r := rate_bounded maxConn conc iters rateInit ⟨by simp [rateInit], by simp [rateInit], by simp [rateInit], by simp [rateInit]⟩
  ⟨r.1, r.2.1, r.2.2.1⟩

/-- none when the check is skipped, for client audits, or when no Diffie-Hellman key exchange is offered -/
theorem rate_not_run (skip client : Bool) (kex dh : List Str) (h : skip = true ∨ client = true ∨ ∀ k ∈ kex, dh.contains k = false) :
    rateRuns skip client kex dh = false := by
  unfold rateRuns
  rcases h with h | h | h
  · simp [h]
  · simp [h]
  · have : kex.any (fun k => dh.contains k) = false := by
      rw [List.any_eq_false]; intro k hk; have := h k hk; simp only [this]; simp
    rw [this]; simp

/-! ### intrusive features only on request -/

/-- **The denial-of-service attack and the interactive rate flood are entered only when explicitly requested** -/
theorem dos_only_on_request (r : Requested) :
    (afterKex r = .dheatAttack ↔ r.dheat = true) ∧ (afterKex r = .interactiveRateTest → r.connRateTest = true) ∧
    (r.dheat = false ∧ r.connRateTest = false → afterKex r = .standardProbes) := by
  unfold afterKex
  cases r.dheat <;> cases r.connRateTest <;> simp

-- non-vacuity
example : (rateLoop 38 3 (List.replicate 100 { timeUp := false, connectOk := [], readable := [(0, false), (1, false), (2, false)], exceptional := [] }) rateInit).attempted = 38 := by decide +kernel
example : (rateLoop 38 3 [{ timeUp := false, connectOk := [], readable := [(0, true)], exceptional := [1] }, { timeUp := true, connectOk := [], readable := [], exceptional := [] }] rateInit).closedSocks = 3 := by decide +kernel

end SshAudit.C19
